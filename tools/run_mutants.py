#!/venv/bin/python
"""Detection demonstration: apply each /verif/mutants/<PID>_<name>.patch to a scratch copy of
/repo (outside /repo and /verif), run the property's check against it, expect exit 1.

usage: run_mutants.py [--tier quick] [--baseline] [PID|patch ...]
  --baseline  also run the repository's pinned test suite against the mutant (it must still pass
              for the mutant to count as 'realistic'); slow (~2 min each).
Results are appended to mutants/RESULTS.md by hand from the printed table.
"""
import glob
import os
import shutil
import subprocess
import sys
import tempfile

V = os.path.dirname(os.path.dirname(os.path.abspath(__file__)))
args = sys.argv[1:]
tier = 'quick'
baseline = False
as_pid = None
sel = []
while args:
    a = args.pop(0)
    if a == '--tier':
        tier = args.pop(0)
    elif a == '--baseline':
        baseline = True
    elif a == '--as':
        as_pid = args.pop(0)  # judge the selected patches with another property's check
    else:
        sel.append(a)
patches = sorted(glob.glob(os.path.join(V, 'mutants', '*.patch'))) + sorted(glob.glob(os.path.join(V, 'seeded', '*', 'patch.diff')))


def name_of(p):
    return os.path.basename(p)[:-6] if p.endswith('.patch') else 'seeded:' + os.path.basename(os.path.dirname(p))


if sel:
    patches = [p for p in patches if any(name_of(p).startswith(s) or name_of(p).startswith('seeded:' + s) or p == s for s in sel)]
rows = []
_base = {}


def groups_of(stdout):
    out = set()
    for ln in stdout.splitlines():
        if ln.startswith('  site='):
            parts = ln.split()
            out.add((parts[0], parts[1]))
    return out


def base_groups(pid):
    if pid not in _base:
        d0 = tempfile.mkdtemp(prefix='verif-mut-base-')
        env0 = dict(os.environ, VERIF_EVIDENCE_DIR=os.path.join(d0, 'evidence'), VERIF_REPLAY_DIR=os.path.join(d0, 'replays'), VERIF_NO_CONFIRM='1')
        c0 = subprocess.run([os.path.join(V, 'check'), pid, '--tier', tier], cwd=V, env=env0, capture_output=True, text=True)
        _base[pid] = groups_of(c0.stdout) if c0.returncode == 1 else set()
        shutil.rmtree(d0, ignore_errors=True)
    return _base[pid]


for p in patches:
    name = name_of(p)
    pid = as_pid or name.replace('seeded:', '').replace('-', '_').split('_')[0]
    d = tempfile.mkdtemp(prefix='verif-mut-' + name.replace(':', '-') + '-')
    try:
        shutil.copytree('/repo/src', os.path.join(d, 'src'))
        if baseline:
            shutil.copytree('/repo/tests', os.path.join(d, 'tests'))
            for f in ('pyproject.toml', 'tox.ini'):
                shutil.copy(os.path.join('/repo', f), d)
        r = subprocess.run(['patch', '-p1', '-s', '-d', d, '-i', p], capture_output=True, text=True)
        if r.returncode != 0:
            rows.append((name, 'PATCH-FAILED', r.stdout[-200:]))
            continue
        env = dict(os.environ, VERIF_REPO=d, VERIF_EVIDENCE_DIR=os.path.join(d, 'evidence'), VERIF_REPLAY_DIR=os.path.join(d, 'replays'))
        c = subprocess.run([os.path.join(V, 'check'), pid, '--tier', tier], cwd=V, env=env, capture_output=True, text=True)
        viol = [ln for ln in c.stdout.splitlines() if ln.startswith('VIOLATION')]
        detail = [ln for ln in c.stdout.splitlines() if ln.startswith('  site=')]
        new = groups_of(c.stdout) - base_groups(pid)
        status = 'CAUGHT' if c.returncode == 1 and viol and new else f'MISSED(exit {c.returncode})'
        detail = [ln for ln in detail if tuple(ln.split()[:2]) in new] or detail
        extra = (f'[{len(new)} new group(s)] ' + detail[0][:150]) if detail else c.stdout[-200:].replace('\n', ' | ')
        if baseline:
            b = subprocess.run([os.path.join(V, 'tools', 'baseline.py'), d], capture_output=True, text=True)
            extra = ('suite:' + b.stdout.splitlines()[0] if b.stdout else 'suite:?') + ' ;; ' + extra
        rows.append((name, status, extra))
    finally:
        shutil.rmtree(d, ignore_errors=True)
    print(f'{rows[-1][0]:45s} {rows[-1][1]:16s} {rows[-1][2]}', flush=True)
missed = [r for r in rows if not r[1].startswith('CAUGHT')]
print(f'\n{len(rows) - len(missed)}/{len(rows)} mutants caught')
sys.exit(1 if missed else 0)
