chk('C12',
    'Exhaustive enumeration of all 326 ordered builder-call programs x byte order x sink x chunk and the full (pixel count, chunk) grid; every produced file is decoded byte-exactly by an independent strict decoder (header, BAT, tiling to EOF, typed blocks) and compared across call orders. Bounded: pixel counts / chunk sizes / string lengths from the stated alphabets.',
    'Trusted: ref/sqwdec.py (format as documented in the repository; no genuine Horace file offline); ASCII titles; frozen clock.',
    'explicit enumeration of all builder-call programs and configuration grid on the real code; independent decoder as reference model',
    'DESIGN.md section 6 C12')
chk('C13',
    'Exhaustive grid (pixel count x chunk x byte order x sink x input-unit set), experiment grid (runs x mode x efix/en shapes x angle/energy units x strings) and histogram-metadata grid; every file decoded by the independent decoder and compared field by field with the supplied values (pixels bitwise as float32), then read back with the package reader and compared incl. the physical dimension of every unit.',
    'Trusted: ref/sqwdec.py; float32 rounding = numpy astype of the scipp-converted float64; (1,)-shaped efix/en whose shape the format cannot represent are not judged.',
    'explicit enumeration of configuration grids on the real writer and reader; independent decoder as reference model',
    'DESIGN.md section 6 C13')
chk('C02',
    'Exhaustive enumeration of all 2^11 subsets of the geometry/energy coordinates x 4 origins x all targets x scatter (thorough: x container, extra hkl/time targets, origin-absent bit; 651k configurations): outcome class (value vs RuntimeError) and value along the documented precedence must equal an independent least-fixpoint derivability model with fingerprint coordinate values; the reported graph must have the documented structure and reproduce convert() bitwise.',
    'Trusted: rule table transcribed from the docs in ref/derive.py; numpy formulas at 1e-9; reading: scatter=False always uses the tof kinematic graph.',
    'explicit enumeration of all coordinate subsets on the real convert(); independent derivability/formula model; differential against transform_coords with the reported graph',
    'DESIGN.md section 6 C02')
chk('C01',
    'Full Cartesian grids (magnitudes 1e-9..1e9 x units x precision mode x operand layout) for the 9 elastic kernels, every route pair and round trip, and every origin x node of the conversion graphs; each result compared with a 50-digit evaluation of the definitions (1e-11 double / 1e-5 single), graph wiring compared bitwise with the kernels.',
    'Trusted: ref/hp.py + ref/kin.py (mpmath, scipp constants); finite grid built from decision points - says nothing about reals outside it; calls containing any float32 operand judged at 1e-5.',
    'explicit enumeration of configuration grids on the real kernels and graphs; 50-digit reference model',
    'DESIGN.md section 6 C01')
chk('C07',
    'Full unit grid per kernel x dtype grid per argument ({f64,f32,i64}^n, int32 per argument; thorough 4^n) for 23 kernels (TOF, geometry, gravity on both paths, chopper-cascade): physical result vs 50-digit reference after exact unit conversion, documented output unit, pinned dtype contract.',
    'Trusted: ref/hp.py + ref/kin.py; dtype contract demanded only where the existing tests pin it; single-precision domain predicate excludes inputs whose needed powers leave 1e-30..1e30.',
    'explicit enumeration of the unit x dtype grid on the real kernels; 50-digit reference model',
    'DESIGN.md section 6 C07')
