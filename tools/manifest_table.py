chk('C12',
    'Exhaustive enumeration of all 326 ordered builder-call programs x byte order x sink x chunk and the full (pixel count, chunk) grid; every produced file is decoded byte-exactly by an independent strict decoder (header, BAT, tiling to EOF, typed blocks) and compared across call orders. Bounded: pixel counts / chunk sizes / string lengths from the stated alphabets.',
    'Trusted: ref/sqwdec.py (format as documented in the repository; no genuine Horace file offline); ASCII titles; frozen clock.',
    'explicit enumeration of all builder-call programs and configuration grid on the real code; independent decoder as reference model',
    'DESIGN.md section 6 C12')
