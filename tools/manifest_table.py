chk('C12',
    'Exhaustive enumeration of all 326 ordered builder-call programs x byte order x sink x chunk and the full (pixel count, chunk) grid; every produced file is decoded byte-exactly by an independent strict decoder (header, BAT, tiling to EOF, typed blocks) and compared across call orders. Bounded: pixel counts / chunk sizes / string lengths from the stated alphabets.',
    'Trusted: ref/sqwdec.py (format as documented in the repository; no genuine Horace file offline); frozen clock.',
    'explicit enumeration of all builder-call programs and configuration grid on the real code; independent decoder as reference model',
    'DESIGN.md section 6 C12')
chk('C13',
    'Exhaustive grid (pixel count x chunk x byte order x sink x input-unit set), experiment grid (runs x mode x efix/en shapes x angle/energy units x strings) and histogram-metadata grid; every file decoded by the independent decoder and compared field by field with the supplied values (pixels bitwise as float32), then read back with the package reader and compared incl. the physical dimension of every unit.',
    'Trusted: ref/sqwdec.py; float32 rounding = numpy astype of the scipp-converted float64; (1,)-shaped efix/en whose shape the format cannot represent are not judged.',
    'explicit enumeration of configuration grids on the real writer and reader; independent decoder as reference model',
    'DESIGN.md section 6 C13')
chk('C02',
    'Exhaustive enumeration of all 2^11 subsets of the geometry/energy coordinates x 4 origins x all targets x scatter (thorough: x container, extra hkl/time targets, origin-absent bit; 651k configurations): outcome class (value vs RuntimeError) and value along the documented precedence must equal an independent least-fixpoint derivability model with fingerprint coordinate values; the reported graph must have the documented structure and reproduce convert() bitwise.',
    'Trusted: rule table transcribed from the docs in ref/derive.py; numpy formulas at 1e-9; reading: scatter=False always uses the tof kinematic graph.',
    'explicit enumeration of all coordinate subsets on the real convert(); independent derivability/formula model; differential against transform_coords with the reported graph',
    'DESIGN.md section 6 C02')
chk('C01',
    'Full Cartesian grids (magnitudes 1e-9..1e9 x units x precision mode x operand layout) for the 9 elastic kernels, every route pair and round trip, and every origin x node of the conversion graphs; each result compared with a 50-digit evaluation of the definitions (1e-11 double / 1e-5 single), graph wiring compared bitwise with the kernels.',
    'Trusted: ref/hp.py + ref/kin.py (mpmath, scipp constants); finite grid built from decision points - says nothing about reals outside it; calls containing any float32 operand judged at 1e-5.',
    'explicit enumeration of configuration grids on the real kernels and graphs; 50-digit reference model',
    'DESIGN.md section 6 C01')
chk('C07',
    'Full unit grid per kernel x dtype grid per argument ({f64,f32,i64}^n, int32 per argument; thorough 4^n) for 23 kernels (TOF, geometry, gravity on both paths, chopper-cascade): physical result vs 50-digit reference after exact unit conversion, documented output unit, pinned dtype contract.',
    'Trusted: ref/hp.py + ref/kin.py; dtype contract demanded only where the existing tests pin it; single-precision domain predicate excludes inputs whose needed powers leave 1e-30..1e30.',
    'explicit enumeration of the unit x dtype grid on the real kernels; 50-digit reference model',
    'DESIGN.md section 6 C07')
chk('C03',
    'Full product of beam directions x norms (1e-6..1e6) x base angles {0, pi/2, pi} with offsets down to 1e-12 x length units, scalar and per-pixel, under the 24 exact cube rotations, generic rotations, exact/inexact translations and power-of-two rescaling; beams, L1, L2, Ltotal and 2theta compared with 50-digit Euclidean definitions (2theta to 5e-15 rad), symmetry and invariances checked bitwise where exact.',
    'Trusted: ref/geom.py on ref/hp.py; finite grid; float32 vectors do not exist in scipp.',
    'explicit enumeration of geometry grid on the real kernels, accessors and graphs; 50-digit reference model',
    'DESIGN.md section 6 C03')
chk('C04',
    'Full product of incident tilt (0, both sides of the 1e-10 dispatch threshold in every unit, up to 1 rad, both signs) x gravity magnitudes/directions/frames x 14 detector directions x L2 x wavelengths 0..100 A in dense/2-d/binned layouts and both dtypes; 2theta and phi compared with the documented construction at 50 digits on both code paths, plus continuity in the tilt, the lambda->0 / g->0 limits, the sign for detectors above a horizontal beam, and the reflectometry variant incl. its refusals.',
    'Trusted: ref/gravity.py on ref/hp.py; tolerance 1e-12 rad (f64) / 2e-6 (f32) plus the documented O(tilt) equivalence below the dispatch threshold.',
    'explicit enumeration of configuration grid on the real kernels (both code paths); 50-digit reference model',
    'DESIGN.md section 6 C04')
chk('C08',
    'Full product of beam directions x lengths x wavelengths x rotations R,U (24 cube + generic) x B matrices up to condition 1e6, scalar and array operands: Q_vec vs (2pi/lambda)(e_i-e_f) at 50 digits, |Q_vec| vs scalar Q, beam-length independence, covariance under rotations, residual of 2pi R UB hkl = Q scaled by the condition number, UB = U*B, split/reassemble bitwise, and the coordinate-graph route.',
    'Trusted: ref/qvec.py on ref/hp.py; hkl tolerance 64 eps cond(R UB).',
    'explicit enumeration of configuration grid on the real kernels; 50-digit reference model',
    'DESIGN.md section 6 C08')
chk('C14',
    'Exhaustive enumeration of documents: every string of a 45-value alphabet (all CIF lexical hazards) alone and in all ordered pairs, all small loops, numeric loops 1..50 x 1..6 with/without variances, blocks of chunks/loops with comments, multi-block files, and every builder call sequence up to depth 3 (authors/roles, beamline, reducers, data, calibration, copy, save twice); each text parsed by an independent CIF 1.1 parser and compared with what was supplied (tags, values, shapes, order, su = sqrt(variance), ids, ASCII).',
    'Trusted: ref/cifparse.py (CIF 1.1 grammar from the IUCr spec, self-tested on hand-written documents); strings <= 300 chars; refusal accepted for values CIF 1.1 cannot represent.',
    'explicit enumeration of documents and builder-call programs on the real writer; independent CIF 1.1 parser as reference model',
    'DESIGN.md section 6 C14')
chk('C16',
    'Full product of amplitude x location x scale (1e-6..1e6) x fraction for the three peak shapes, polynomial degree 1..6 x coefficient sets, prefixes, units and composites: integral (tan-substitution quadrature, 4096 nodes), symmetry at exact dyadic offsets, half maximum at the reported FWHM, polynomial vs 50-digit power sum, composite = sum of parts bitwise, prefix independence, result units, refusals.',
    'Trusted: ref/peakshape.py; tolerance 1e-12 + conditioning of x - mu.',
    'explicit enumeration of parameter grid on the real models; analytic/50-digit reference model',
    'DESIGN.md section 6 C16')
chk('C17',
    'Exhaustive scenario enumeration (1..3 peaks, thorough 6; shapes x widths x backgrounds; estimates exact/shifted/at edges/outside; scalar window widths from 0 to full range and explicit windows incl. empty; all model spec forms) on deterministic spectra: one result per estimate without raising, too-narrow windows classified, statistics recomputed independently, requirement table for successes, automatic window rules, independence of other peaks (bitwise), removal = input minus fitted peak only inside successful windows.',
    'Trusted: ref/peakfit.py (closed forms, fixed Weyl-sequence noise); scipy chi2; AIC convention of the code; uniform and mildly non-uniform grids only.',
    'explicit enumeration of fitting scenarios on the real fit_peaks/remove_peaks; independent recomputation as reference model',
    'DESIGN.md section 6 C17')
chk('C09',
    'Part A: full product, for ~60 registered public entry points (all conversion/geometry/gravity kernels, convert, accessors, DiskChopper, filtering, chopper-cascade frames, diagram, peak models/fit/remove, absorption, io), of the per-argument aliasing alphabet (unit x dtype x shape incl. the exact unit/dtype each function converts to): deep bitwise fingerprint of every argument before == after. Part B: breadth-first enumeration of all event sequences (factory/lookup call or mutation of an earlier result through its public surface) up to depth 3 within each sharing group (graph factories, bundled-table lookups, model combinators, CIF combinators) and depth 2 across groups, replayed from a reset state; after every prefix the fresh-observation fingerprint equals the initial one and unmutated earlier results equal their hand-out fingerprint.',
    'Trusted: mc/snapshot.py fingerprint; whether an output may alias an input is not judged; mutations only through public attributes; caches cleared / graph modules reloaded between histories.',
    'explicit-state breadth-first search over call/mutation histories on the real objects + exhaustive aliasing grid; bitwise snapshot oracle',
    'DESIGN.md section 6 C09')
chk('C15',
    'Full product of value alphabet (subnormal..1.8e308, signed zero) x variance alphabet x row counts 1..1000 (thorough 1e4) x header menu (newlines, #, CR, numeric-looking) x coordinate layouts x 4 targets, plus every one- and two-defect refusal combination: coordinate and values bitwise, variances within 4 ulp (bit-pattern distance), shape (n,), refusal writes nothing, every header line commented.',
    'Trusted: numpy float parsing; ulp distance on bit patterns.',
    'explicit enumeration of inputs on the real save_xye/load_xye round trip; bitwise/ulp oracle',
    'DESIGN.md section 6 C15')
chk('C19',
    'All series of length 2..5 (thorough 6) over a six-step slope alphabet placed on, just beside and far from the tolerance, with coordinate-step variants, min_n_points 1..n and three coordinate dtypes, plus planted long series: bins compared with an exact list-based plateau model (Fractions); collapse mean/interval; in-phase filter vs exact rational predicate over ratio and deviation alphabets.',
    'Trusted: ref/series.py; calls that raise from the total-drift guard are counted not judged (property constrains returning calls); uuid label replaced by a fixed label during the short-series enumeration (scipp label table limit).',
    'explicit enumeration of all short series on the real find_plateaus/collapse/filter; exact rational reference model',
    'DESIGN.md section 6 C19')
chk('C20',
    'Every row of the three bundled tables (371 + 118 + 3557) for both lookups, cold and warm cache, plus a near-miss menu (~60 name edits) on every small-table name and every 10th mass row (thorough: all), and the attenuation law over materials x wavelength/density units: values, variances, units, None for blanks, z, mass/weight presence, rejection of any name without an exactly matching row.',
    'Trusted: csv module reading of the bundled files (ref/tables.py); variance tolerance 2 ulp of std**2.',
    'complete enumeration of table rows and near-miss names on the real lookups; csv reference model',
    'DESIGN.md section 6 C20')
chk('C05',
    'Full grid Ei x Ef x L1 x L2 with per-argument unit choices x tof unit x dtypes; arrival times constructed at 50 digits; a boundary family around t0 incl. the exact float where NaN turns finite (located by bisection on the real kernel, neighbours scanned); direct and indirect kernels must return Ei-Ef within a conditioning-derived tolerance, NaN exactly below t0, never inf; convert() bitwise equal to the kernel.',
    'Trusted: ref/inelastic.py on ref/hp.py; tolerance includes the measured error of scipp\'s own unit-conversion factor propagated through the conditioning of t - t0.',
    'explicit enumeration of configuration grid and NaN boundary on the real kernels; 50-digit flight-time model',
    'DESIGN.md section 6 C05')
chk('C06',
    'All binned layouts up to 4 bins with 0/1/3 events (incl. all-empty, gappy buffers), 1-d and 2-d bin grids, event coordinate dtypes f64/f32/int64, all elastic and inelastic targets, per-pixel geometry, with/without bin-edge coord, masks, unrelated coords, weights with variances, DataArray and Dataset: every event compared bitwise with the dense kernel on a replica; edges converted by the same function; data, order, membership, masks, coords preserved; input unchanged.',
    'Trusted: dense kernels (judged by C01/C05); scipp compacts result buffers, so membership is compared as per-bin event lists.',
    'explicit enumeration of binned layouts on the real convert(); differential against the dense kernel (bitwise)',
    'DESIGN.md section 6 C06')
chk('C11',
    'Every program over {chop(list of choppers in any listed order), propagate_to, [distance]} up to 5 choppers / depth 4 on pulse rectangles incl. the 1.8 A band, with window menus built relative to the propagated frame (missing, containing, cutting slanted / constant-lambda edges, exactly touching, shared endpoints, unsorted): reported polygons vs exact-rational clipping in emission space (area per window combination, pointwise transmission on an interior lattice, vertices inside the source band), order independence, two-step = one-step, indexing, every subframe regular with bounds available.',
    'Trusted: ref/clip.py (Fractions; cross-checked by brute-force vertex enumeration); 1e-9 don\'t-care band at edges; closed-window reading for exact ties.',
    'explicit enumeration of chop/propagate programs on the real Frame/FrameSequence; exact-rational clipping model',
    'DESIGN.md section 6 C11')
chk('C18',
    'Full product of axis directions over the sphere (incl. negative z, +-z, in-plane) x bases x radius/height 1e-3..1e3 x units for quadrature (membership, positive weights, volume, first/second moments, all three deterministic kinds) and for rays (inside/on axis/on wall/outside x parallel/radial/tangent/oblique, incl. directions 1 ulp off the axis) vs an independent 50-digit cylinder model; transmission in (0,1], =1 at mu=0, decreasing in mu, invariant under 24 cube rotations + generic rotations + translations and the other-end description.',
    'Trusted: ref/cyl.py; weight sum / moments to the 8 digits of the tabulated disk rules; rays lying in a surface are don\'t-care; Monte-Carlo kind never used.',
    'explicit enumeration of geometry grid on the real Cylinder / compute_transmission_map; 50-digit reference model',
    'DESIGN.md section 6 C18')
chk('C10',
    'Full product of frequency ratios {1/4..8} x both senses x slit-set menu on a 1/360-turn lattice (1..6 slits, TDC-spanning, negative begin, narrow, wide) x beam positions x phases (incl. multiple turns) x angle/frequency units x npulses 1..4, plus acceptance/rejection families for frequency ratios and overlapping slit sets: every reported (open, close) pair compared with an exact-rational simulation of the rotating disk (open < close, open throughout, closed just outside, duration, no duplicates, nothing missing in the covered span), directly and via Chopper.from_disk_chopper.',
    'Trusted: ref/disk.py (Fractions, NXdisk_chopper definitions); touching slits are don\'t-care; the uuid scratch dimension label of DiskChopper is pinned from outside during enumeration (scipp label-table limit) after a differential check that results are identical.',
    'explicit enumeration of chopper configurations on the real DiskChopper/Chopper; exact-rational rotating-disk model',
    'DESIGN.md section 6 C10')
