#!/venv/bin/python
"""Regenerate MANIFEST.json from the table below (kept in one place so it stays valid)."""
import json
import os

V = os.path.dirname(os.path.dirname(os.path.abspath(__file__)))
CHECKS = {}
NA = {}


def chk(pid, text, note, technique, ref):
    CHECKS[pid] = dict(text=text, note=note, technique=technique, ref=ref)


exec(open(os.path.join(V, 'tools', 'manifest_table.py')).read())

# families added after the independent seeding rounds (DESIGN.md 13.4); appended to the claim text of each check
ADDED = {
    'C01': 'every combination of operand layouts (0-d / 1-d / 2-d / transposed) = element-wise 0-d calls, repeat and reuse after in-place update, long arrays vs their slices, near-equal elements; integer operand modes (int64/int32, whole numbers up to 1e15); call-history cases in the other precision first',
    'C02': 'the same coordinates flagged unaligned; axis-aligned geometries; precision/call-history family; customised reported graphs',
    'C03': 'layout exploration incl. long vector arrays per operand; BFS over accessor / in-place-update / replace / copy histories on one data array (depth 3, thorough 4) judged against the geometry of the current coordinates',
    'C04': 'layout exploration; mixed tilts inside one per-pixel incident-beam array incl. the refusal of the reflectometry variant; binned wavelength as fresh / transposed / permuted / sliced view; exact half turns of the lab frame (beam along -z, gravity along +y)',
    'C05': 'layout exploration incl. long arrays; history family; arrival times presented as kernel call, graph, dense point / bin-edge coordinate, event coordinate, outer bin edges of event data, and inside a Dataset (all must equal the kernel call, never infinite)',
    'C06': 'integer ns event stamps vs the same numbers as float64; permuted event buffers; early events between per-pixel t0s; int32 events; module state reset before every conversion and reference',
    'C07': 'layout exploration incl. gravity kernels; arrivals within a microsecond of t0 in every time unit; binned operand in every position x dtype; int32 operands must be accepted',
    'C08': 'layout exploration; wavelength dtype alphabet (float64/float32/int64/int32, dense/binned/graph); every pairing of length units for Q and UB with the split/reassemble unit check; a customised fetched graph may not change the next one',
    'C09': 'second call with freshly built equal arguments; silent replay of histories; refusable inputs (arguments unchanged also when the call raises); border windows for fit_peaks; all graph factory starts; model calls with a 0-d and a length-1 abscissa',
    'C10': 'mixed dtype x unit frequency ratios (integer set points next to floats, per-minute next to Hz/kHz); twin disk from the same Variables after use; replaced frequency; integer angles',
    'C11': 'byte snapshots of every Frame / FrameSequence / Chopper re-verified after every operation; BFS over chop / propagate / inspect histories from a shared base (depth 3, thorough 4); 16 unit / dtype representations of each cascade against its all-metres version',
    'C12': 'pixel counts and chunks around 2^16; pre-existing longer file; histogram shapes with singleton axes; non-ASCII strings; masked pixel data',
    'C13': 'sizes around 1 MiB per write; value x index dtype grid of the nine rows; values beyond float32; experiment objects reused after a first file; masked pixel data; run records in real files; non-ASCII strings; nearly constant next to exactly constant pixel rows',
    'C14': 'modify-after-write histories of every CIF object; intensity units and every text slot incl. non-ASCII; 14 representations of pairs / columns / containers (mappings, sequences, one-shot iterables)',
    'C15': 'tables up to 65 536 rows; history after another coordinate dtype; coordinate sets x alignment flags for the refusal rule; target representations (str / Path / handle / StringIO x suffixes incl. compressed) with directory and byte checks; headers whose first line is already commented and whose later lines are not',
    'C16': 'every ordering class of the abscissa (value at a point independent of the other points); integer abscissae; BFS over use / rename / copy histories of a model (11^3, thorough 11^4 sequences) against a reference ModelState and a fresh model',
    'C17': 'half-open window membership on grid points; intensity scale and model-list families; input representations (masks, extra / unaligned coordinates, slices and strided views, float32) for fit_peaks and remove_peaks; neighbour separation factors on both sides of 1/2',
    'C18': 'non-mutation guard on every Variable handed in; histories on two cylinders built from the same Variables; detector banks crossing the 2e7 broadcast limit through the public API (value independent of bank size); a translation by 7e4 sample sizes among the rigid motions',
    'C19': 'integer offsets up to 1.7e18 (shift invariance, exact rational reference); ordered pairs / triples of unit configurations in one process vs a fresh module state; shared tolerance Variable',
    'C20': 'same number in another unit on one Material; integer / float32 wavelengths; first-order uncertainty of the attenuation law',
}
for _pid, _txt in ADDED.items():
    CHECKS[_pid]['text'] = CHECKS[_pid]['text'].rstrip() + ' Added after the seeding rounds: ' + _txt + '.'

props = [json.loads(l)['id'] for l in open(os.path.join(V, 'properties.jsonl'))]
man = {
    'version': 1,
    'setup_cmd': 'cd /verif && /venv/bin/python -m mc.setup',
    'hooks': {
        'guard': 'SCIPPNEUTRON_VERIF',
        'enable': 'no source hooks are needed: checks run /repo/src (working tree) directly with /venv/bin/python; clock, temp dirs and caches are owned from outside the package',
        'baseline_off_cmd': 'cd /repo && /venv/bin/python -m pytest -ra -q -p no:cacheprovider --timeout=900 --continue-on-collection-errors',
        'source_commits': [],
        'add_only': True,
    },
    'engines': [
        {
            'name': 'mc',
            'path': '/verif/mc',
            'serves_properties': sorted(CHECKS),
            'kind_free_text': 'hand-written bounded exhaustive explorer (grids, tables, all programs/permutations, BFS over histories) running the real code of /repo/src against independent reference models in /verif/ref',
        }
    ],
    'checks': [],
    'not_applicable': [],
    'notes': 'Known findings: /verif/known_findings.json. Replay: ./check <ID> --replay <file>.',
}
for pid in props:
    if pid in CHECKS:
        c = CHECKS[pid]
        man['checks'].append({
            'property_id': pid,
            'quick_cmd': f'./check {pid} --tier quick',
            'thorough_cmd': f'./check {pid} --tier thorough',
            'evidence_file': f'/verif/evidence/{pid}.json',
            'replay_cmd_template': f'./check {pid} --replay {{path}}',
            'engine': 'mc',
            'level_claimed': {'category': 'model_checking', 'text': c['text'], 'design_ref': c['ref']},
            'level_note': c['note'],
            'technique': c['technique'],
        })
    else:
        man['not_applicable'].append({'property_id': pid, 'reason': NA.get(pid, 'check not built yet (work in progress); see DESIGN.md section 6')})
json.dump(man, open(os.path.join(V, 'MANIFEST.json'), 'w'), indent=1)
print('checks:', sorted(CHECKS), 'not claimed:', [p for p in props if p not in CHECKS])
