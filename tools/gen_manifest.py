#!/venv/bin/python
"""Regenerate MANIFEST.json from the table below (kept in one place so it stays valid)."""
import json
import os

V = os.path.dirname(os.path.dirname(os.path.abspath(__file__)))
CHECKS = {}
NA = {}


def chk(pid, text, note, technique, ref):
    CHECKS[pid] = dict(text=text, note=note, technique=technique, ref=ref)


exec(open(os.path.join(V, 'tools', 'manifest_table.py')).read())

props = [json.loads(l)['id'] for l in open(os.path.join(V, 'properties.jsonl'))]
man = {
    'version': 1,
    'setup_cmd': 'cd /verif && /venv/bin/python -m mc.setup',
    'hooks': {
        'guard': 'SCIPPNEUTRON_VERIF',
        'enable': 'no source hooks are needed: checks run /repo/src (working tree) directly with /venv/bin/python; clock, temp dirs and caches are owned from outside the package',
        'baseline_off_cmd': 'cd /repo && /venv/bin/python -m pytest -ra -q -p no:cacheprovider --timeout=900 --continue-on-collection-errors',
        'source_commits': [],
        'add_only': True,
    },
    'engines': [
        {
            'name': 'mc',
            'path': '/verif/mc',
            'serves_properties': sorted(CHECKS),
            'kind_free_text': 'hand-written bounded exhaustive explorer (grids, tables, all programs/permutations, BFS over histories) running the real code of /repo/src against independent reference models in /verif/ref',
        }
    ],
    'checks': [],
    'not_applicable': [],
    'notes': 'Known findings: /verif/known_findings.json. Replay: ./check <ID> --replay <file>.',
}
for pid in props:
    if pid in CHECKS:
        c = CHECKS[pid]
        man['checks'].append({
            'property_id': pid,
            'quick_cmd': f'./check {pid} --tier quick',
            'thorough_cmd': f'./check {pid} --tier thorough',
            'evidence_file': f'/verif/evidence/{pid}.json',
            'replay_cmd_template': f'./check {pid} --replay {{path}}',
            'engine': 'mc',
            'level_claimed': {'category': 'model_checking', 'text': c['text'], 'design_ref': c['ref']},
            'level_note': c['note'],
            'technique': c['technique'],
        })
    else:
        man['not_applicable'].append({'property_id': pid, 'reason': NA.get(pid, 'check not built yet (work in progress); see DESIGN.md section 6')})
json.dump(man, open(os.path.join(V, 'MANIFEST.json'), 'w'), indent=1)
print('checks:', sorted(CHECKS), 'not claimed:', [p for p in props if p not in CHECKS])
