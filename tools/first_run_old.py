#!/venv/bin/python
"""first_run_old.py <verif-commit> <seed-name>...
Honest 'first run' record for seeds that were imported only after their check had been strengthened: run the quick check
*as it was at <verif-commit>* (a scratch worktree of /verif outside /repo and /verif) against a scratch copy of /repo with the
seed applied, and store the outcome as verified.first_run in seeded/<name>/meta.json."""
import json
import os
import shutil
import subprocess
import sys
import tempfile

V = os.path.dirname(os.path.dirname(os.path.abspath(__file__)))
commit, names = sys.argv[1], sys.argv[2:]
old = tempfile.mkdtemp(prefix='verif-old-')
subprocess.run(['git', '-C', V, 'worktree', 'add', '--detach', '-f', old, commit], check=True, capture_output=True)
try:
    for name in names:
        pid = name.split('-')[0]
        d = tempfile.mkdtemp(prefix=f'verif-first-{name}-')
        try:
            shutil.copytree('/repo/src', os.path.join(d, 'src'))
            subprocess.run(['patch', '-p1', '-s', '-d', d, '-i', os.path.join(V, 'seeded', name, 'patch.diff')], check=True)
            env = dict(os.environ, VERIF_REPO=d, VERIF_EVIDENCE_DIR=os.path.join(d, 'ev'), VERIF_REPLAY_DIR=os.path.join(d, 'rp'), VERIF_NO_CONFIRM='1')
            e0 = dict(env, VERIF_REPO='/repo', VERIF_EVIDENCE_DIR=os.path.join(d, 'ev0'), VERIF_REPLAY_DIR=os.path.join(d, 'rp0'))
            groups = lambda out: {tuple(l.split()[:2]) for l in out.splitlines() if l.startswith('  site=')}
            try:
                b = subprocess.run([os.path.join(old, 'check'), pid, '--tier', 'quick'], cwd=old, env=e0, capture_output=True, text=True, timeout=1500)
                bg = groups(b.stdout) if b.returncode == 1 else set()
                c = subprocess.run([os.path.join(old, 'check'), pid, '--tier', 'quick'], cwd=old, env=env, capture_output=True, text=True, timeout=1500)
                new = groups(c.stdout) - bg
                rec = {'check_quick': {'exit': c.returncode, 'caught': c.returncode == 1 and bool(new), 'new_groups': sorted(' '.join(g) for g in new)[:6]}, 'check_thorough': None, 'checks_at': commit, 'note': f'quick check as it was at /verif commit {commit}'}
            except subprocess.TimeoutExpired:
                rec = {'check_quick': {'exit': None, 'caught': False, 'new_groups': []}, 'check_thorough': None, 'checks_at': commit, 'note': 'the check did not finish within 25 min (no verdict)'}
                subprocess.run("pkill -f 'verif-ol[d]' ; pkill -f 'verif-firs[t]'", shell=True)
            mp = os.path.join(V, 'seeded', name, 'meta.json')
            m = json.load(open(mp))
            m.setdefault('verified', {})['first_run'] = rec
            json.dump(m, open(mp, 'w'), indent=1)
            print(name, rec, flush=True)
        finally:
            shutil.rmtree(d, ignore_errors=True)
finally:
    subprocess.run(['git', '-C', V, 'worktree', 'remove', '--force', old], capture_output=True)
    shutil.rmtree(old, ignore_errors=True)
