#!/venv/bin/python
"""Markdown table of the independently seeded changes (from seeded/*/meta.json)."""
import collections
import glob
import json
import os
import sys

V = os.path.dirname(os.path.dirname(os.path.abspath(__file__)))
print('| seed | change (as described by its author) | needs to manifest | first run of our checks | now | caught by |')
print('|---|---|---|---|---|---|')
tally = collections.defaultdict(collections.Counter)
for d in sorted(glob.glob(os.path.join(V, 'seeded', '*'))):
    m = json.load(open(os.path.join(d, 'meta.json')))
    v = m.get('verified', {})
    q, t = v.get('check_quick', {}), v.get('check_thorough', {})
    fr = v.get('first_run') or {'check_quick': q, 'check_thorough': t}
    fq, ft = fr.get('check_quick') or {}, fr.get('check_thorough') or {}
    hist = v.get('history', '')
    if hist.startswith('MISSED by quick and thorough'):
        first = 'missed'
    elif hist.startswith('MISSED by quick, CAUGHT by thorough'):
        first = 'missed by quick, caught by thorough'
    elif fq.get('caught'):
        first = 'caught by quick'
    elif ft.get('caught'):
        first = 'missed by quick, caught by thorough'
    elif fq.get('exit') is None and 'did not finish' in (fr.get('note') or ''):
        first = 'no verdict (the check did not finish)'
    elif 'rebased' in v:
        first = 'not determined (patch had to be rebased)'
    else:
        first = 'missed'
    now = 'caught by quick' if q.get('caught') else 'caught by thorough' if t.get('caught') else ('caught by ' + v['caught_by_other_property_check']['property'] + "'s quick check") if v.get('caught_by_other_property_check') else 'MISSED'
    by = (q.get('new_groups') or t.get('new_groups') or [''])[0].replace('site=', '').replace(' kind=', ' / ')
    def short(x, n):
        x = ' '.join(str(x or '').split()).replace('|', '/')
        return (x[: n - 1] + '…') if len(x) > n else x
    print(f"| {os.path.basename(d)} | {short(m.get('summary'), 170)} | {short(m.get('needs_to_manifest'), 130)} | {first} | {now} | {short(by, 90)} |")
    name = os.path.basename(d)
    rnd = 'round ' + (name.split('-')[1][1] if name.split('-')[1].startswith('r') else '1')
    tally[rnd]['seeds'] += 1
    tally[rnd]['first: ' + first] += 1
    tally[rnd]['now: ' + now] += 1
for rnd in sorted(tally):
    print(rnd, dict(tally[rnd]), file=sys.stderr)
