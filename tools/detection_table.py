#!/venv/bin/python
"""Markdown table of the independently seeded changes (from seeded/*/meta.json)."""
import glob
import json
import os

V = os.path.dirname(os.path.dirname(os.path.abspath(__file__)))
print('| seed | change (as described by its author) | needs to manifest | first run of our checks | now | caught by |')
print('|---|---|---|---|---|---|')
for d in sorted(glob.glob(os.path.join(V, 'seeded', '*'))):
    m = json.load(open(os.path.join(d, 'meta.json')))
    v = m.get('verified', {})
    q, t = v.get('check_quick', {}), v.get('check_thorough', {})
    hist = v.get('history', '')
    if hist.startswith('MISSED by quick and thorough'):
        first = 'missed (quick + thorough)'
    elif hist.startswith('MISSED by quick, CAUGHT by thorough'):
        first = 'missed by quick, caught by thorough'
    else:
        first = 'caught by quick' if q.get('caught') else 'caught by thorough' if t.get('caught') else 'missed'
    now = 'caught by quick' if q.get('caught') else 'caught by thorough' if t.get('caught') else 'MISSED'
    by = (q.get('new_groups') or t.get('new_groups') or [''])[0].replace('site=', '').replace(' kind=', ' / ')
    def short(x, n):
        x = ' '.join(str(x or '').split()).replace('|', '/')
        return (x[: n - 1] + '…') if len(x) > n else x
    print(f"| {os.path.basename(d)} | {short(m.get('summary'), 170)} | {short(m.get('needs_to_manifest'), 130)} | {first} | {now} | {short(by, 90)} |")
