#!/venv/bin/python
"""import_seed.py <worktree> <PID> [--no-suite]
For each <worktree>/SEED/<k>: confirm independently in a scratch copy of /repo (outside /repo and /verif) that
 (a) demo.py exits 0 without the change, (b) the patch applies, (c) demo.py exits non-zero with it,
 (d) the repository's pinned suite still passes with it, then (e) run our quick check (and thorough if quick misses).
Stores /verif/seeded/<PID>-<k>/{patch.diff,demo.py,meta.json} with a 'verified' record."""
import json
import os
import shutil
import subprocess
import sys
import tempfile

V = os.path.dirname(os.path.dirname(os.path.abspath(__file__)))
wt, pid = sys.argv[1], sys.argv[2]
suite = '--no-suite' not in sys.argv
tag = sys.argv[sys.argv.index('--tag') + 1] if '--tag' in sys.argv else ''


def run(cmd, **kw):
    return subprocess.run(cmd, capture_output=True, text=True, **kw)


def groups_of(out):
    return {tuple(l.split()[:2]) for l in out.splitlines() if l.startswith('  site=')}


for k in sorted(os.listdir(os.path.join(wt, 'SEED'))):
    sd = os.path.join(wt, 'SEED', k)
    if not os.path.exists(os.path.join(sd, 'patch.diff')):
        continue
    name = f'{pid}-{tag}{k}'
    d = tempfile.mkdtemp(prefix=f'verif-seed-{name}-')
    rec = {}
    try:
        for sub in ('src', 'tests'):
            shutil.copytree(os.path.join('/repo', sub), os.path.join(d, sub))
        for f in ('pyproject.toml', 'tox.ini'):
            shutil.copy(os.path.join('/repo', f), d)
        env = dict(os.environ, PYTHONPATH=os.path.join(d, 'src'), PYTHONHASHSEED='0')
        r0 = run(['/venv/bin/python', os.path.join(sd, 'demo.py')], env=env, cwd=d)
        rec['demo_without'] = r0.returncode
        pa = run(['patch', '-p1', '-s', '-d', d, '-i', os.path.join(sd, 'patch.diff')])
        rec['patch_applies'] = pa.returncode == 0
        r1 = run(['/venv/bin/python', os.path.join(sd, 'demo.py')], env=env, cwd=d)
        rec['demo_with'] = r1.returncode
        rec['demo_with_tail'] = (r1.stdout + r1.stderr)[-300:]
        if suite:
            b = run([os.path.join(V, 'tools', 'baseline.py'), d])
            rec['suite'] = b.stdout.splitlines()[0] if b.stdout else b.stderr[-200:]
        e0 = dict(os.environ, VERIF_EVIDENCE_DIR=os.path.join(d, 'ev0'), VERIF_REPLAY_DIR=os.path.join(d, 'rp0'), VERIF_NO_CONFIRM='1')
        base = run([os.path.join(V, 'check'), pid, '--tier', 'quick'], cwd=V, env=e0)
        bg = groups_of(base.stdout) if base.returncode == 1 else set()
        for tier in (('quick', 'thorough') if '--thorough' in sys.argv else ('quick',)):
            e1 = dict(os.environ, VERIF_REPO=d, VERIF_EVIDENCE_DIR=os.path.join(d, 'ev'), VERIF_REPLAY_DIR=os.path.join(d, 'rp'))
            c = run([os.path.join(V, 'check'), pid, '--tier', tier], cwd=V, env=e1)
            new = groups_of(c.stdout) - bg
            caught = c.returncode == 1 and bool(new)
            rec[f'check_{tier}'] = {'exit': c.returncode, 'caught': caught, 'new_groups': sorted(' '.join(g) for g in new)[:6],
                                    'detail': [l.strip()[:260] for l in c.stdout.splitlines() if l.startswith('  site=') and tuple(l.split()[:2]) in new][:3]}
            if caught:
                break
    finally:
        shutil.rmtree(d, ignore_errors=True)
    dst = os.path.join(V, 'seeded', name)
    os.makedirs(dst, exist_ok=True)
    for f in ('patch.diff', 'demo.py'):
        shutil.copy(os.path.join(sd, f), dst)
    meta = {}
    try:
        meta = json.load(open(os.path.join(sd, 'meta.json')))
    except Exception as e:  # noqa: BLE001
        meta = {'meta_error': str(e)}
    meta['property'] = pid
    meta['verified'] = rec
    meta['ran'] = 'tools/import_seed.py: demo without/with patch in a scratch copy of /repo, tools/baseline.py (pinned suite), ./check quick (thorough if missed) with VERIF_REPO pointing at the patched copy'
    json.dump(meta, open(os.path.join(dst, 'meta.json'), 'w'), indent=1)
    ok = rec.get('demo_without') == 0 and rec.get('patch_applies') and rec.get('demo_with') not in (0, None) and (not suite or ' 0 missing' in rec.get('suite', ''))
    cq = rec.get('check_quick', {}).get('caught')
    ct = rec.get('check_thorough', {}).get('caught')
    print(f"{name}: valid_seed={ok} suite={rec.get('suite')} caught_quick={cq} caught_thorough={ct} :: {(rec.get('check_quick', {}).get('detail') or rec.get('check_thorough', {}).get('detail') or [''])[0][:200]}", flush=True)
