#!/venv/bin/python
"""Run the repository's pinned test command against a tree and compare with the
stable-pass list of /root/.vp/BASELINE.json.  Usage: baseline.py [repo_dir]
Exit 0 iff every stable-pass test passes."""
import json
import os
import subprocess
import sys
import tempfile
import xml.etree.ElementTree as ET

repo = sys.argv[1] if len(sys.argv) > 1 else '/repo'
base = json.load(open('/root/.vp/BASELINE.json'))
stable = set(base['stable_pass'])
with tempfile.TemporaryDirectory(prefix='verif-baseline-') as d:
    xml = os.path.join(d, 'r.xml')
    env = dict(os.environ)
    env.pop('SCIPPNEUTRON_VERIF', None)
    env['PYTHONPATH'] = os.path.join(repo, 'src')
    p = subprocess.run(
        ['/venv/bin/python', '-m', 'pytest', '-q', '-p', 'no:cacheprovider', '--timeout=900',
         '--continue-on-collection-errors', '-n', '8' if os.environ.get('BASELINE_XDIST') else '0', f'--junitxml={xml}']
        if os.environ.get('BASELINE_XDIST') else
        ['/venv/bin/python', '-m', 'pytest', '-q', '-p', 'no:cacheprovider', '--timeout=900',
         '--continue-on-collection-errors', f'--junitxml={xml}'],
        cwd=repo, env=env, capture_output=True, text=True)
    passed = set()
    for tc in ET.parse(xml).getroot().iter('testcase'):
        if not any(ch.tag in ('failure', 'error', 'skipped') for ch in tc):
            passed.add(f"{tc.get('classname')}::{tc.get('name')}")
missing = sorted(stable - passed)
print(f'baseline: {len(stable & passed)}/{len(stable)} stable tests pass; {len(missing)} missing')
for m in missing[:20]:
    print('  MISSING', m)
sys.exit(1 if missing else 0)
