#!/venv/bin/python
"""Markdown rows for DESIGN.md 13.2 from two evidence directories: bounds_table.py <quick-evidence-dir> <thorough-evidence-dir>."""
import json
import os
import sys

q, t = sys.argv[1], sys.argv[2]


def cell(d, pid):
    f = os.path.join(d, pid + '.json')
    if not os.path.exists(f):
        return 'n/a'
    e = json.load(open(f))
    c = e['coverage']
    fmt = lambda n: f'{n:,}'.replace(',', ' ')  # noqa: E731
    return f"{fmt(c['cases_completed'])} / {fmt(c['states'])} / {fmt(c['transitions'])} / {fmt(c['traces_validated_against_impl'])} / {c['distinct_outcome_classes']} / {e['wall_s']:.0f} s"


print('| id | quick: cases / configurations(states) / impl. operations / model comparisons / outcome classes / wall | thorough: same |')
print('|---|---|---|')
for i in range(1, 21):
    pid = f'C{i:02d}'
    print(f'| {pid} | {cell(q, pid)} | {cell(t, pid)} |')
