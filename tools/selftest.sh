#!/bin/bash
# Run every claimed quick check for VERIF_SEED in {0,1,7} from fresh processes; require exit 0 and no VIOLATION line.
cd "$(dirname "$0")/.." || exit 2
ids=$(/venv/bin/python -c "import json;print(' '.join(c['property_id'] for c in json.load(open('MANIFEST.json'))['checks']))")
[ -n "$1" ] && ids="$*"
fail=0
for seed in ${SEEDS:-0 1 7}; do
  for id in $ids; do
    out=$(VERIF_SEED=$seed ./check "$id" --tier "${TIER:-quick}" 2>&1); rc=$?
    last=$(echo "$out" | tail -1)
    if [ $rc -ne 0 ] || echo "$out" | grep -q '^VIOLATION\|^BROKEN'; then fail=1; echo "FAIL seed=$seed $id rc=$rc :: $last"; echo "$out" | grep '^VIOLATION\|^BROKEN\|  site=' | head -5
    else echo "ok   seed=$seed $last"; fi
  done
done
exit $fail
