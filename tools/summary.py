#!/venv/bin/python
"""Markdown table of what the evidence files currently say (run after the checks)."""
import glob
import json
import os

V = os.path.dirname(os.path.dirname(os.path.abspath(__file__)))
print('| id | tier | cases | states | transitions | validated vs model | outcome classes | known-finding hits | new | wall s |')
print('|---|---|---|---|---|---|---|---|---|---|')
for f in sorted(glob.glob(os.path.join(os.environ.get('EVDIR', os.path.join(V, 'evidence')), 'C*.json'))):
    e = json.load(open(f))
    c = e['coverage']
    print(f"| {e['property_id']} | {e['tier']} | {c['cases_completed']}/{c['cases_enumerated']} | {c['states']} | {c['transitions']} | {c['traces_validated_against_impl']} | {c['distinct_outcome_classes']} | {sum(c['known_finding_occurrences'].values())} | {len(c['new_violation_groups'])} | {e['wall_s']} |")
