#!/venv/bin/python
"""Re-run our quick check (thorough if quick misses) against every stored seed and refresh meta.json:
verified.check_quick / check_thorough (current state) while keeping the first outcome in verified.first_run.
usage: recheck_seeds.py [--baseline-invalid] [name-prefix ...]   (4 seeds in parallel, 4 workers each)"""
import concurrent.futures as cf
import glob
import json
import os
import shutil
import subprocess
import sys
import tempfile

V = os.path.dirname(os.path.dirname(os.path.abspath(__file__)))
args = [a for a in sys.argv[1:] if not a.startswith('--')]
redo_suite = '--baseline-invalid' in sys.argv


def groups_of(out):
    return {tuple(l.split()[:2]) for l in out.splitlines() if l.startswith('  site=')}


_base = {}


def base_groups(pid):
    if pid not in _base:
        d0 = tempfile.mkdtemp(prefix='verif-recheck-base-')
        e0 = dict(os.environ, VERIF_EVIDENCE_DIR=d0 + '/ev', VERIF_REPLAY_DIR=d0 + '/rp', VERIF_NO_CONFIRM='1', VERIF_WORKERS='8')
        c0 = subprocess.run([V + '/check', pid, '--tier', 'quick'], cwd=V, env=e0, capture_output=True, text=True)
        _base[pid] = groups_of(c0.stdout) if c0.returncode == 1 else set()
        shutil.rmtree(d0, ignore_errors=True)
    return _base[pid]


def one(d):
    name = os.path.basename(d)
    pid = name.split('-')[0]
    meta = json.load(open(d + '/meta.json'))
    v = meta.setdefault('verified', {})
    if 'first_run' not in v:
        v['first_run'] = {'check_quick': v.get('check_quick'), 'check_thorough': v.get('check_thorough')}
    t = tempfile.mkdtemp(prefix=f'verif-recheck-{name}-')
    try:
        shutil.copytree('/repo/src', t + '/src')
        if redo_suite and ' 0 missing' not in v.get('suite', ''):
            shutil.copytree('/repo/tests', t + '/tests')
            for f in ('pyproject.toml', 'tox.ini'):
                shutil.copy('/repo/' + f, t)
        pa = subprocess.run(['patch', '-p1', '-s', '-d', t, '-i', d + '/patch.diff'], capture_output=True, text=True)
        if pa.returncode != 0:
            return name, 'PATCH-FAILED', ''
        if redo_suite and ' 0 missing' not in v.get('suite', ''):
            b = subprocess.run([V + '/tools/baseline.py', t], capture_output=True, text=True)
            v['suite'] = b.stdout.splitlines()[0] if b.stdout else '?'
            v['suite_note'] = 're-run on a quiet machine (first run under heavy load showed unrelated missing tests)'
        res = {}
        for tier in ('quick', 'thorough'):
            e = dict(os.environ, VERIF_REPO=t, VERIF_EVIDENCE_DIR=t + '/ev', VERIF_REPLAY_DIR=t + '/rp', VERIF_WORKERS='4')
            c = subprocess.run([V + '/check', pid, '--tier', tier], cwd=V, env=e, capture_output=True, text=True)
            new = groups_of(c.stdout) - base_groups(pid)
            caught = c.returncode == 1 and bool(new)
            res[tier] = {'exit': c.returncode, 'caught': caught, 'new_groups': sorted(' '.join(g) for g in new)[:6],
                         'detail': [l.strip()[:260] for l in c.stdout.splitlines() if l.startswith('  site=') and tuple(l.split()[:2]) in new][:2]}
            if caught:
                break
        v['check_quick'] = res['quick']
        if 'thorough' in res:
            v['check_thorough'] = res['thorough']
        fr = v['first_run']
        first_q = (fr.get('check_quick') or {}).get('caught')
        first_t = (fr.get('check_thorough') or {}).get('caught')
        if not first_q and res['quick']['caught'] and 'history' not in v:
            v['history'] = ('MISSED by quick, CAUGHT by thorough' if first_t else 'MISSED by quick and thorough') + ' as first built; the check was strengthened afterwards (DESIGN.md 13.4) and now CATCHES it in the quick tier.'
        json.dump(meta, open(d + '/meta.json', 'w'), indent=1)
        return name, 'quick' if res['quick']['caught'] else 'thorough' if res.get('thorough', {}).get('caught') else 'MISSED', v.get('suite', '')
    finally:
        shutil.rmtree(t, ignore_errors=True)


dirs = sorted(glob.glob(V + '/seeded/*'))
if args:
    dirs = [d for d in dirs if any(os.path.basename(d).startswith(a) for a in args)]
for pid in sorted({os.path.basename(d).split('-')[0] for d in dirs}):
    base_groups(pid)
with cf.ThreadPoolExecutor(4) as ex:
    for name, how, suite in ex.map(one, dirs):
        print(f'{name:12s} {how:8s} {suite}', flush=True)
