#!/venv/bin/python
"""mkmut.py NAME relpath OLD NEW [relpath OLD NEW ...] -> mutants/NAME.patch (unified diff vs /repo).
OLD must occur exactly once in the file."""
import difflib
import os
import sys

V = os.path.dirname(os.path.dirname(os.path.abspath(__file__)))
name, rest = sys.argv[1], sys.argv[2:]
out = []
edits = {}
while rest:
    rel, old, new = rest[:3]
    rest = rest[3:]
    src = edits.get(rel) or open(os.path.join('/repo', rel)).read()
    old = old.encode().decode('unicode_escape') if '\\n' in old else old
    new = new.encode().decode('unicode_escape') if '\\n' in new else new
    if src.count(old) != 1:
        sys.exit(f'{rel}: OLD occurs {src.count(old)} times')
    edits[rel] = src.replace(old, new)
for rel, new in edits.items():
    a = open(os.path.join('/repo', rel)).read().splitlines(keepends=True)
    b = new.splitlines(keepends=True)
    out += difflib.unified_diff(a, b, 'a/' + rel, 'b/' + rel)
open(os.path.join(V, 'mutants', name + '.patch'), 'w').write(''.join(out))
print('wrote', name, sum(1 for l in out if l.startswith(('+', '-')) and not l.startswith(('+++', '---'))), 'changed lines')
