"""C17 - peak fitting returns one coherent result per peak; removal touches only windows.

Shape P: scenarios = spectrum x estimates x window specification x model specification x
fit parameters/requirements; every scenario is executed through the public fit_peaks /
remove_peaks.  Oracle (ref/peakfit.py, ref/peakshape.py): one result per estimate and no
exception, too few points => window_too_narrow, statistics recomputed from popt and the
data in the window, requirement table for successes, rules for automatic windows,
bitwise independence of a peak's result from the other peaks, documented model-selection
order, removal = input outside successful windows and input - fitted peak inside.

Deterministic: spectra are closed forms plus the fixed noise table of ref/peakfit.py.
"""
from __future__ import annotations

import itertools
import math
import struct
import warnings

import numpy as np
import scipp as sc

from ref import peakfit as pf
from ref import peakshape as ps
from scippneutron.peaks import FitAssessment, FitParameters, FitRequirements, FitResult, fit_peaks, remove_peaks
from scippneutron.peaks import model as M

ID = 'C17'
LEVEL = 'model_checking'
RULE = (
    'scenario kinds: single (1 peak: shape x width x background x grid x estimate shift x guess fraction, all window '
    'widths inside the case), edges (peak and estimates at / beyond the data edges), modelspec (every name / instance / '
    'list specification, list result compared with the single-combination runs), multi_auto (2..6 peaks, scalar window, '
    'extra estimates outside the data, separation factors 0.1 .. 0.9 on both sides of 1/2), multi_explicit (every assignment of a window menu '
    '{good, narrow, empty, outside, overlapping} to the peaks; full run vs every singleton and leave-one-out run), '
    'requirements (grid of FitRequirements), remove (real fits and hand-built results of every assessment, each at intensity scales 1e-12 .. 1e6; the fits '
    'at different scales are compared with each other), multi_explicit also with model lists on spectra whose peaks prefer different models, '
    'representation (the same spectrum as plain array / with 1-2 masks in a successful, failed, no or every window / with extra aligned and unaligned '
    'coords / as slice of a 2-d array, transposed 2-d slice, every-second view / float32 data or coordinate: fit and removal).  '
    'A scenario is non-trivial when fit_peaks/remove_peaks returned and at least one result was judged against the '
    'reference; distinct = distinct canonical scenario dictionaries'
)
ASSUMPTIONS = [
    'statistics as DESIGN C17: red_chisq = chi2/(n-k), p = P(X >= chi2) for X ~ chi2(n-k), AIC = n ln(chi2/n) + 2k; '
    'model values recomputed with the closed forms of ref/peakshape.py from the returned popt (rel 1e-9)',
    'too few points = fewer points in [lo, hi) than parameters of every candidate model combination; the converse is not demanded',
    'requirements, weakest reading: window width = hi - lo of the reported window; coordinate spacing = smaller spacing adjacent to the point nearest peak_loc',
    'automatic windows, weakest reading: per-side distance factor*gap from each neighbouring estimate, demanded of non-empty windows only',
    'data carry variances (Poisson-like), coordinates are sorted points; inverted explicit windows and unsorted estimates are not admissible and not tried',
    'scipy.optimize.curve_fit is trusted as the optimiser; nothing is demanded of where it converges',
    'masked data: whether masked points take part in the fit is read off the implementation (replace the values under the mask by garbage: optimum unchanged '
    '=> they are ignored); the statistics must then be those of the points the fit used; remove_peaks subtracts at every point of a successful window, masked or not, '
    'and hands masks and coords back unchanged (behaviour of the unchanged tree, and the literal statement)',
    'window membership for removal is the half-open label slice [lo, hi) of the sorted coordinate that fit_peaks itself uses; the reference mask is cross-checked against plain scipp slicing in every case',
]
BOUND = {
    'quick': '2 grids (101 uniform, 200 mildly non-uniform); 1..3 peaks {gaussian, lorentzian} x width {0.5, 2, 6 steps} x {linear, quadratic}; '
    '12 scalar window widths 0..3x range; window menus 7^2 and 4^3; 8 background x 8 peak specifications; 27 requirement sets',
    'thorough': 'same plus pseudo-Voigt data, 2 noise offsets, 4 and 6 peaks, window menu 7^3, guess fractions {0.1, 0.25, 0.5, 0.9}',
}
REQUIRED_CLASSES = [
    'assessment_success', 'assessment_window_too_narrow', 'assessment_background_is_better', 'assessment_p_too_small',
    'assessment_peak_near_edge', 'assessment_peak_too_wide', 'assessment_peak_too_narrow',
    'stats_recomputed', 'requirements_checked', 'auto_windows_ok', 'auto_window_clipped', 'auto_window_separated',
    'independent_of_other_peaks', 'list_first_success', 'list_none_successful', 'spec_instance', 'spec_list',
    'removal_checked', 'removal_with_overlap', 'removal_upper_bound_on_point', 'removal_lower_bound_on_point', 'removal_window_ends_at_last_point',
    'removal_adjacent_windows_share_point', 'removal_of_peak_with_tiny_amplitude', 'rescaling_equivariant', 'independence_with_model_lists',
    'list_order_carry_over_would_show', 'removal_variances_refused', 'removal_ignores_failures',
    'estimate_outside_data', 'window_with_fewer_points_than_parameters', 'input_window_empty', 'input_window_too_few_points',
    'input_window_enough_points',
]
CHUNK = 8

SITE_FIT = 'peaks.fit_peaks'
SITE_REMOVE = 'peaks.remove_peaks'
XUNIT = 'angstrom'
YUNIT = 'counts'
SHAPE_OF = {'GaussianModel': 'gaussian', 'LorentzianModel': 'lorentzian', 'PseudoVoigtModel': 'pseudo_voigt'}

# ---------------------------------------------------------------------------------------
# alphabet: spectra


def grid(name):
    if name == 'u101':
        return np.linspace(0.0, 10.0, 101)
    if name == 'n200':
        i = np.arange(200, dtype=float)
        return 0.05 * i * (1.0 + 0.2 * i / 199.0) + 1.0
    raise ValueError(name)


def local_step(x, idx):
    idx = min(max(idx, 0), len(x) - 2)
    return float(x[idx + 1] - x[idx])


def build_spectrum(spec):
    """-> x, y, var, [true peak dicts].  Closed forms + fixed noise table; Poisson-like variances."""
    x = grid(spec['grid'])
    n = len(x)
    t = (x - x[0]) / (x[-1] - x[0])
    if spec['bg'] == 'linear':
        y = 100.0 + 40.0 * t
    elif spec['bg'] == 'quadratic':
        y = 100.0 + 40.0 * t - 60.0 * t * t
    elif spec['bg'] == 'curved_left':  # strongly curved below t = 0.45, straight above: peaks prefer different backgrounds
        y = 100.0 + 40.0 * t + 12000.0 * np.clip(0.45 - t, 0.0, None) ** 2
    elif spec['bg'] == 'curved_right':
        y = 100.0 + 40.0 * t + 12000.0 * np.clip(t - 0.55, 0.0, None) ** 2
    else:
        raise ValueError(spec['bg'])
    truth = []
    for pk in spec['peaks']:
        idx = int(round(pk['pos'] * (n - 1)))
        step = local_step(x, idx)
        loc = float(x[idx] + 0.3 * step)
        scale = pk['width'] * step
        height = pk.get('height', 300.0)
        shape = pk['shape']
        if shape == 'gaussian':
            amp = height * scale * math.sqrt(2 * math.pi)
            y = y + ps.gaussian(x, amp, loc, scale)
        elif shape == 'lorentzian':
            amp = height * scale * math.pi
            y = y + ps.lorentzian(x, amp, loc, scale)
        else:
            amp = height * scale * math.pi
            y = y + ps.pseudo_voigt(x, amp, loc, scale, 0.5)
        truth.append({'shape': shape, 'loc': loc, 'scale': scale, 'amplitude': amp, 'idx': idx, 'step': step})
    var = y.copy()
    y = y + np.sqrt(var) * pf.noise(n, spec.get('noise', 0))
    ys = spec.get('yscale', 1.0)  # intensity scale of the data (normalised patterns): same relative errors
    if ys != 1.0:
        y, var = y * ys, var * ys * ys
        for tr in truth:
            tr['amplitude'] *= ys
    return x, y, var, truth


def data_array(x, y, var):
    return sc.DataArray(
        sc.array(dims=['d'], values=y, variances=var, unit=YUNIT),
        coords={'d': sc.array(dims=['d'], values=x, unit=XUNIT)},
    )


# ---------------------------------------------------------------------------------------
# alphabet: model specifications (JSON-able tokens -> objects)


def _one_model(tok):
    if tok.startswith('inst:'):
        name = tok[5:]
        if name.startswith('poly'):
            return M.PolynomialModel(degree=int(name[4:]), prefix='pre_')
        return {'gaussian': M.GaussianModel, 'lorentzian': M.LorentzianModel, 'pseudo_voigt': M.PseudoVoigtModel}[name](prefix='gauss')
    return tok


def make_spec(spec):
    if isinstance(spec, list):
        return [_one_model(t) for t in spec]
    return _one_model(spec)


def _tok_shape(tok):
    name = tok[5:] if tok.startswith('inst:') else tok
    return name


def _tok_degree(tok):
    name = tok[5:] if tok.startswith('inst:') else tok
    return {'linear': 1, 'quadratic': 2}.get(name) or int(name[4:])


def combos(bg_spec, pk_spec):
    """Documented trial order: peaks outer, backgrounds inner."""
    bgs = bg_spec if isinstance(bg_spec, list) else [bg_spec]
    pks = pk_spec if isinstance(pk_spec, list) else [pk_spec]
    return [(b, p) for p in pks for b in bgs]


def k_min(bg_spec, pk_spec):
    return min(pf.n_params(_tok_shape(p), _tok_degree(b)) for b, p in combos(bg_spec, pk_spec))


# ---------------------------------------------------------------------------------------
# enumeration

WIDTHS_STEPS = (0.0, 0.5, 1.0, 3.0, 5.0, 6.0, 8.0, 12.0, 20.0, 40.0, 'full', '3full')
WINDOW_MENU = ('good', 'narrow', 'empty', 'outside', 'overlap', 'wide', 'offcentre')


def cases(tier):
    th = tier == 'thorough'
    out = []
    shapes = ('gaussian', 'lorentzian') + (('pseudo_voigt',) if th else ())
    fracs = (0.1, 0.25, 0.5, 0.9) if th else (0.1, 0.5)
    noises = (0, 977) if th else (0,)
    # single ----------------------------------------------------------------------------
    for g, shape, width, bg, nz in itertools.product(('u101', 'n200'), shapes, (0.5, 2.0, 6.0), ('linear', 'quadratic'), noises):
        spec = {'grid': g, 'bg': bg, 'noise': nz, 'peaks': [{'shape': shape, 'width': width, 'pos': 0.5}]}
        for shift, frac in itertools.product((0.0, 1.7), fracs):
            # quick tier: the guess fraction decides something only while the window is narrow (tails of 0..2 points);
            # for windows >= 40 steps it merely moves the starting point of the optimiser, so 0.1 is run up to 20 steps
            widths = [w for w in WIDTHS_STEPS if th or frac == 0.5 or (not isinstance(w, str) and w <= 20.0)]
            out.append({'kind': 'single', 'spectrum': spec, 'shift': shift, 'frac': frac, 'background': bg, 'peak': shape, 'widths': widths})
    # edges -----------------------------------------------------------------------------
    for g, shape, pos, frac in itertools.product(('u101', 'n200'), ('gaussian', 'lorentzian'), (0.0, 0.04, 0.96, 1.0), (0.1, 0.5)):
        if not th and ((g == 'n200' and frac == 0.1) or (shape == 'lorentzian' and pos in (0.0, 1.0))):
            continue
        spec = {'grid': g, 'bg': 'linear', 'noise': 0, 'peaks': [{'shape': shape, 'width': 2.0, 'pos': pos}]}
        out.append({'kind': 'edges', 'spectrum': spec, 'frac': frac, 'background': 'linear', 'peak': shape, 'widths': [0.0, 3.0, 12.0, 40.0, 'full'] if th else [0.0, 3.0, 12.0, 'full']})
    # modelspec -------------------------------------------------------------------------
    bg_specs = ['linear', 'quadratic', 'inst:poly1', 'inst:poly2', ['linear'], ['linear', 'quadratic'], ['inst:poly1', 'quadratic'], ['quadratic', 'linear']]
    pk_specs = ['gaussian', 'lorentzian', 'pseudo_voigt', 'inst:gaussian', 'inst:pseudo_voigt', ['gaussian', 'lorentzian'], ['lorentzian', 'inst:gaussian'], ['pseudo_voigt', 'gaussian', 'lorentzian']]
    for shape, bg in itertools.product(shapes, ('linear', 'quadratic')):
        if not th and (shape, bg) not in (('gaussian', 'linear'), ('lorentzian', 'quadratic')):
            continue
        spec = {'grid': 'u101', 'bg': bg, 'noise': 0, 'peaks': [{'shape': shape, 'width': 2.0, 'pos': 0.5}]}
        for bs, pk in itertools.product(bg_specs, pk_specs):
            if not th and not (isinstance(bs, list) or isinstance(pk, list) or bs.startswith('inst') or pk.startswith('inst')) and (bs, pk) != ('linear', 'pseudo_voigt'):
                continue  # plain name x name is what 'single' already runs
            out.append({'kind': 'modelspec', 'spectrum': spec, 'background': bs, 'peak': pk, 'widths': [6.0, 20.0, 40.0] if th else [6.0, 12.0, 30.0]})
    # multi_auto ------------------------------------------------------------------------
    layouts = [(0.3, 0.7), (0.45, 0.55), (0.2, 0.5, 0.6), (0.3, 0.38, 0.8)]
    if th:
        layouts += [(0.15, 0.3, 0.6, 0.85), (0.1, 0.22, 0.4, 0.55, 0.75, 0.9)]
    extras = ('none', 'left1', 'right1', 'right2', 'left2', 'both')
    # separation factors above 1/2 (round 6): the two windows between neighbouring estimates then have to stay apart
    # even when neither reaches the midpoint
    for g, lay, extra, sep in itertools.product(('u101', 'n200'), layouts, extras, (1 / 3, 0.1, 0.45, 0.6, 0.9)):
        if not th and g == 'n200' and (extra not in ('none', 'right2') or sep != 1 / 3):
            continue
        if not th and sep > 0.5 and extra not in ('none', 'both'):
            continue
        pk = [{'shape': ('gaussian', 'lorentzian')[i % 2], 'width': 2.0, 'pos': p} for i, p in enumerate(lay)]
        spec = {'grid': g, 'bg': 'linear', 'noise': 0, 'peaks': pk}
        out.append({'kind': 'multi_auto', 'spectrum': spec, 'extra': extra, 'separation': sep, 'background': 'linear', 'peak': ['gaussian', 'lorentzian']})
    # multi_explicit --------------------------------------------------------------------
    for lay, menu in (((0.3, 0.7), WINDOW_MENU), ((0.2, 0.5, 0.8), WINDOW_MENU if th else ('good', 'narrow', 'empty', 'offcentre'))):
        for assign in itertools.product(menu, repeat=len(lay)):
            for frac in (0.5,) + ((0.1,) if th or len(lay) == 2 else ()):
                pk = [{'shape': 'gaussian', 'width': 2.0, 'pos': p} for p in lay]
                spec = {'grid': 'u101', 'bg': 'linear', 'noise': 0, 'peaks': pk}
                out.append({'kind': 'multi_explicit', 'spectrum': spec, 'windows': list(assign), 'frac': frac, 'background': 'linear', 'peak': 'gaussian'})
    # multi_explicit with model lists on spectra whose peaks prefer different models ---------------------
    list_specs = [(['linear', 'quadratic'], 'gaussian'), (['linear', 'quadratic'], ['gaussian', 'lorentzian']), (['quadratic', 'linear'], ['gaussian', 'lorentzian']),
                  (['linear', 'quadratic'], ['lorentzian', 'gaussian']), ('linear', ['lorentzian', 'gaussian']), (['inst:poly1', 'quadratic'], ['lorentzian', 'inst:gaussian'])]
    for bgname, lay_shapes in itertools.product(('curved_left', 'curved_right'), ((('gaussian', 0.22, 300.0), ('gaussian', 0.72, 300.0)), (('lorentzian', 0.22, 300.0), ('gaussian', 0.72, 60.0)), (('gaussian', 0.2, 300.0), ('lorentzian', 0.5, 300.0), ('gaussian', 0.8, 300.0)))):
        if not th and bgname == 'curved_right' and len(lay_shapes) == 3:
            continue
        pk = [{'shape': sh, 'width': 2.0, 'pos': pos, 'height': h} for sh, pos, h in lay_shapes]
        spec = {'grid': 'u101', 'bg': bgname, 'noise': 0, 'peaks': pk}
        for bs, ps_ in list_specs:
            out.append({'kind': 'multi_explicit', 'spectrum': spec, 'windows': ['good'] * len(pk), 'frac': 0.5, 'background': bs, 'peak': ps_})
    # requirements ----------------------------------------------------------------------
    for shape, width in itertools.product(('gaussian', 'lorentzian'), (0.5, 2.0, 6.0)):
        spec = {'grid': 'u101', 'bg': 'linear', 'noise': 0, 'peaks': [{'shape': shape, 'width': width, 'pos': 0.5}]}
        for minp, maxw, minw in itertools.product((0.01, 0.6, 0.999), (1.0, 0.2, 0.05), (1.0, 4.0, 30.0)):
            out.append({'kind': 'requirements', 'spectrum': spec, 'min_p': minp, 'max_w': maxw, 'min_w': minw, 'background': 'linear', 'peak': shape})
    # remove ----------------------------------------------------------------------------
    for lay in ((0.5,), (0.3, 0.7), (0.2, 0.5, 0.6)):
        pk = [{'shape': ('gaussian', 'lorentzian')[i % 2], 'width': 2.0, 'pos': p} for i, p in enumerate(lay)]
        for g in ('u101', 'n200'):
            spec = {'grid': g, 'bg': 'linear', 'noise': 0, 'peaks': pk}
            for w in (12.0, 40.0, 'full'):
                out.append({'kind': 'remove_fitted', 'spectrum': spec, 'width': w, 'background': 'linear', 'peak': ['gaussian', 'lorentzian'], 'yscales': [1.0, 1e-12, 2.0**-40, 1e6]})
    # representation --------------------------------------------------------------------
    for g, name in itertools.product(('u101', 'n200'), REPRESENTATIONS):
        pk = [{'shape': 'gaussian', 'width': 2.0, 'pos': 0.3}, {'shape': 'gaussian', 'width': 2.5, 'pos': 0.7}]
        spec = {'grid': g, 'bg': 'linear', 'noise': 0, 'peaks': pk}
        # one model combination only: whether masked points take part in the fit is read off the optimum, not off the model choice
        out.append({'kind': 'representation', 'spectrum': spec, 'representation': name, 'background': 'linear', 'peak': 'gaussian'})
    assessments = [a.name for a in FitAssessment]
    for shape in ('gaussian', 'lorentzian', 'pseudo_voigt'):
        for layout, g in itertools.product(('disjoint', 'overlap', 'nested', 'empty', 'outside', 'on_points', 'upper_on_point', 'lower_on_point', 'to_data_ends', 'whole_range'), ('u101', 'n200')):
            for ys in (1.0, 1e-12, 1e6):
                out.append({'kind': 'remove_synthetic', 'shape': shape, 'layout': layout, 'grid': g, 'yscale': ys, 'assessments': assessments})
    return out


# ---------------------------------------------------------------------------------------
# judging one result


def _bits(v):
    return struct.pack('<d', float(v)).hex()


def fingerprint(res):
    popt = tuple(sorted((k, _bits(v.value), _bits(v.variance) if v.variance is not None else None, str(v.unit)) for k, v in res.popt.items()))
    return (
        res.assessment.name, type(res.peak).__name__, res.peak.prefix, type(res.background).__name__, res.background.prefix,
        getattr(res.background, 'degree', None), popt, _bits(res.red_chisq.value), _bits(res.p_value.value), _bits(res.aic.value),
        tuple(_bits(w) for w in res.window.values), str(res.window.unit), res.message,
    )


def judge_result(rec, res, x, y, var, *, kmin, reqs, sub, usable=None, stat_rel=1e-9, stat_kind='statistic_'):
    """All per-result checks.  Returns the window (lo, hi) or None.

    usable: boolean array over x - the points that took part in the fit (masked data); the statistics are recomputed from those."""
    rec.evals += 1
    if not isinstance(res, FitResult) or not isinstance(res.assessment, FitAssessment):
        rec.viol(SITE_FIT, 'not_a_result', f'element is {type(res).__name__}', **sub)
        return None
    rec.cls('assessment_' + res.assessment.name)
    rec.observe(res.assessment.name, sorted((k, float(v.value)) for k, v in res.popt.items()))
    shape = SHAPE_OF.get(type(res.peak).__name__)
    degree = getattr(res.background, 'degree', None)
    if shape is None or degree is None or res.peak.prefix != 'peak_' or res.background.prefix != 'bkg_':
        rec.viol(SITE_FIT, 'incoherent_models', f'peak {type(res.peak).__name__}({res.peak.prefix!r}), background {type(res.background).__name__}({res.background.prefix!r})', **sub)
        return None
    names = pf.expected_param_names(shape, degree)
    if set(res.popt) != names or set(res.popt) != res.peak.param_names | res.background.param_names:
        rec.viol(SITE_FIT, 'incoherent_parameters', f'popt has {sorted(res.popt)}, models have {sorted(names)}', **sub)
        return None
    w = res.window
    if w.dims != ('range',) or w.shape != (2,) or w.unit != sc.Unit(XUNIT):
        rec.viol(SITE_FIT, 'incoherent_window', f'window {w}', **sub)
        return None
    lo, hi = (float(v) for v in w.values)
    mask = pf.in_window(x, lo, hi)
    n = int(mask.sum())
    k = len(names)
    if n == 0:
        rec.cls('result_for_empty_window')
    if n < kmin:
        rec.cls('window_with_fewer_points_than_parameters')
        rec.validated += 1
        if res.assessment != FitAssessment.window_too_narrow:
            rec.viol(SITE_FIT, 'too_few_points_not_reported', f'window [{lo!r}, {hi!r}) holds {n} points for {k} parameters but the result is {res.assessment.name}', n_points=n, **sub)
        return lo, hi
    if res.assessment in (FitAssessment.window_too_narrow, FitAssessment.failed):
        if res.success:
            rec.viol(SITE_FIT, 'incoherent_success', 'failure marked successful', **sub)
        return lo, hi
    popt = {name: float(v.value) for name, v in res.popt.items()}
    if not all(math.isfinite(v) for v in popt.values()):
        rec.viol(SITE_FIT, 'non_finite_parameters', f'{res.assessment.name} with popt {popt}', **sub)
        return lo, hi
    if usable is not None:
        mask = mask & usable
        n = int(mask.sum())
    xw, yw, vw = x[mask], y[mask], var[mask]
    ref = pf.statistics(yw, vw, pf.model_values(shape, degree, popt, xw), k)
    reported = {'red_chisq': float(res.red_chisq.value), 'p_value': float(res.p_value.value), 'aic': float(res.aic.value)}
    if 'red_chisq' in ref:
        rec.validated += 3
        rec.cls('stats_recomputed')
        for name, text in pf.statistics_faults(reported, ref, rel=stat_rel):
            rec.viol(SITE_FIT, stat_kind + name if stat_kind.endswith('_') else stat_kind, f'{text}; window [{lo!r}, {hi!r}) n={n} k={k} {shape}+poly{degree}', statistic=name, **sub)
    else:
        rec.cls('zero_degrees_of_freedom')
    if res.success != (res.assessment == FitAssessment.success):
        rec.viol(SITE_FIT, 'incoherent_success', f'success={res.success} with assessment {res.assessment.name}', **sub)
    if res.assessment == FitAssessment.success:
        rec.validated += 1
        rec.cls('requirements_checked')
        for name, text in pf.requirement_faults(shape, popt, reported['p_value'], xw, lo, hi, min_p_value=reqs.min_p_value, max_peak_width_factor=reqs.max_peak_width_factor, min_peak_width_factor=reqs.min_peak_width_factor):
            rec.viol(SITE_FIT, 'success_' + name, f'{text}; window [{lo!r}, {hi!r})', requirement=name, **sub)
    return lo, hi


def points_in(x, windows):
    return [int(pf.in_window(x, lo, hi).sum()) for lo, hi in windows]


def run_fit(rec, data, x, estimates, windows, bg_spec, pk_spec, fp, fr, *, sub, explicit=None, usable=None):
    """Call fit_peaks; classify an exception.  -> list of results or None."""
    est = sc.array(dims=['d'], values=np.asarray(estimates, dtype=float), unit=XUNIT)
    rec.transitions += 1
    rec.states += 1
    try:
        with warnings.catch_warnings():
            warnings.simplefilter('ignore')
            res = fit_peaks(data, peak_estimates=est, windows=windows, background=make_spec(bg_spec), peak=make_spec(pk_spec), fit_parameters=fp, fit_requirements=fr)
    except Exception as e:  # noqa: BLE001 - the property admits no exception for admissible input
        wins = explicit
        if wins is None:
            wins = observe_auto_windows(data, est, windows, fp)
        kmin = k_min(bg_spec, pk_spec)
        npts = points_in(x, wins) if wins is not None else None
        frac = (fp or FitParameters()).guess_background_fraction
        info = {'exception': type(e).__name__, 'message': str(e)[:120], 'n_points': npts, 'k_min': kmin, 'guess_fraction': frac, 'n_estimates': len(estimates)}
        if npts is not None:
            info['min_guess_tail'] = min(int(n * frac / 2) for n in npts)
            _count_inputs(rec, x, wins, kmin)
        if usable is not None and wins is not None:
            info['n_unmasked'] = [int((pf.in_window(x, lo, hi) & usable).sum()) for lo, hi in wins]
        if npts is not None and any(n >= kmin > u for n, u in zip(npts, info.get('n_unmasked', []), strict=False)):
            rec.viol(SITE_FIT, 'raises_for_too_few_unmasked_points', f'{type(e).__name__}: {e} (windows hold {npts} points of which {info["n_unmasked"]} are not masked, {kmin} parameters): expected a result per estimate, not an exception', **info, **sub)
        elif npts is not None and any(n < kmin for n in npts):
            rec.viol(SITE_FIT, 'raises_for_too_few_points', f'{type(e).__name__}: {e} (windows hold {npts} points, {kmin} parameters): expected a window_too_narrow result', **info, **sub)
        else:
            rec.viol(SITE_FIT, 'raises', f'{type(e).__name__}: {e} (windows hold {npts} points, {kmin} parameters, guess fraction {frac})', **info, **sub)
        return None
    if not isinstance(res, list) or len(res) != len(estimates):
        rec.viol(SITE_FIT, 'result_count', f'{len(res) if isinstance(res, list) else type(res).__name__} results for {len(estimates)} estimates', **sub)
        return None
    _count_inputs(rec, x, explicit if explicit is not None else [tuple(float(v) for v in r.window.values) for r in res if isinstance(r, FitResult)], k_min(bg_spec, pk_spec))
    return res


def _count_inputs(rec, x, wins, kmin):
    """Outcome-independent bookkeeping of what kind of windows the scenario contained."""
    for n in points_in(x, wins):
        rec.cls('input_window_empty' if n == 0 else 'input_window_too_few_points' if n < kmin else 'input_window_enough_points')


def observe_auto_windows(data, est, width, fp):
    """Windows of a scalar-width call that raised: the builder itself (private, anchored in the property)."""
    from scippneutron.peaks import _fit_peaks as impl

    try:
        w = impl._fit_windows(data, est, width, fp or FitParameters())
        return [(float(a), float(b)) for a, b in w.values]
    except Exception:  # noqa: BLE001
        return None


def scalar_width(x, steps, ref_step):
    if steps == 'full':
        return float(x[-1] - x[0])
    if steps == '3full':
        return 3.0 * float(x[-1] - x[0])
    return float(steps) * ref_step


def explicit_windows(wins):
    return sc.array(dims=['d', 'range'], values=np.asarray(wins, dtype=float).reshape(len(wins), 2), unit=XUNIT)


# ---------------------------------------------------------------------------------------
# scenario kinds


def run_single(case, rec):
    x, y, var, truth = build_spectrum(case['spectrum'])
    data = data_array(x, y, var)
    t = truth[0]
    est = [t['loc'] + case['shift'] * t['step']]
    fp = FitParameters(guess_background_fraction=case['frac'])
    fr = FitRequirements()
    km = k_min(case['background'], case['peak'])
    judged = 0
    for steps in case.get('widths', WIDTHS_STEPS):
        wv = scalar_width(x, steps, t['step'])
        sub = {'width_steps': steps, 'width': wv}
        res = run_fit(rec, data, x, est, sc.scalar(wv, unit=XUNIT), case['background'], case['peak'], fp, fr, sub=sub)
        if res is None:
            continue
        win = judge_result(rec, res[0], x, y, var, kmin=km, reqs=fr, sub=sub)
        if win is not None:
            judged += 1
            check_auto_windows(rec, x, est, [win], fp.neighbor_separation_factor, wv, sub)
    if judged:
        rec.nontrivial += 1


def check_auto_windows(rec, x, est, wins, factor, width, sub):
    faults = pf.auto_window_faults(float(x[0]), float(x[-1]), list(est), wins, factor)
    rec.validated += len(wins)
    for rule, i, text in faults:
        rec.viol(SITE_FIT, 'auto_window_' + rule, text, index=i, estimates=list(est), **sub)
    if not faults:
        rec.cls('auto_windows_ok')
    xmin, xmax = float(x[0]), float(x[-1])
    tiny = 1e-9 * (xmax - xmin)
    for i, ((lo, hi), c) in enumerate(zip(wins, est, strict=True)):
        if (c - width / 2 < xmin and lo == xmin) or (c + width / 2 > xmax and hi == xmax):
            rec.cls('auto_window_clipped')
        if (i > 0 and lo > max(c - width / 2, xmin) + tiny) or (i < len(wins) - 1 and hi < min(c + width / 2, xmax) - tiny):
            rec.cls('auto_window_separated')
        if not (xmin <= c <= xmax):
            rec.cls('estimate_outside_data')


def run_edges(case, rec):
    x, y, var, truth = build_spectrum(case['spectrum'])
    data = data_array(x, y, var)
    t = truth[0]
    span = float(x[-1] - x[0])
    fp = FitParameters(guess_background_fraction=case['frac'])
    fr = FitRequirements()
    km = k_min(case['background'], case['peak'])
    judged = 0
    ests = {'on_peak': t['loc'], 'at_min': float(x[0]), 'at_max': float(x[-1]), 'below': float(x[0]) - 0.1 * span, 'above': float(x[-1]) + 0.5 * span, 'just_above': float(np.nextafter(x[-1], np.inf))}
    for (ename, e), steps in itertools.product(ests.items(), case['widths']):
        wv = scalar_width(x, steps, t['step'])
        sub = {'estimate': ename, 'width_steps': steps}
        res = run_fit(rec, data, x, [e], sc.scalar(wv, unit=XUNIT), case['background'], case['peak'], fp, fr, sub=sub)
        if res is None:
            wins = observe_auto_windows(data, sc.array(dims=['d'], values=[e], unit=XUNIT), sc.scalar(wv, unit=XUNIT), fp)
            if wins is not None:
                check_auto_windows(rec, x, [e], wins, fp.neighbor_separation_factor, wv, sub)
            continue
        win = judge_result(rec, res[0], x, y, var, kmin=km, reqs=fr, sub=sub)
        if win is not None:
            judged += 1
            check_auto_windows(rec, x, [e], [win], fp.neighbor_separation_factor, wv, sub)
    if judged:
        rec.nontrivial += 1


def run_modelspec(case, rec):
    x, y, var, truth = build_spectrum(case['spectrum'])
    data = data_array(x, y, var)
    t = truth[0]
    fr = FitRequirements()
    bs, pk = case['background'], case['peak']
    if isinstance(bs, list) or isinstance(pk, list):
        rec.cls('spec_list')
    if any(tok.startswith('inst:') for tok in (bs if isinstance(bs, list) else [bs]) + (pk if isinstance(pk, list) else [pk])):
        rec.cls('spec_instance')
    km = k_min(bs, pk)
    judged = 0
    for steps in case['widths']:
        wv = scalar_width(x, steps, t['step'])
        sub = {'width_steps': steps}
        w = sc.scalar(wv, unit=XUNIT)
        res = run_fit(rec, data, x, [t['loc']], w, bs, pk, None, None, sub=sub)
        if res is None:
            continue
        win = judge_result(rec, res[0], x, y, var, kmin=km, reqs=fr, sub=sub)
        if win is None:
            continue
        judged += 1
        cs = combos(bs, pk)
        # the result must be the one the documented trial order selects among the single-combination runs
        singles = []
        for b, p in cs:
            r1 = run_fit(rec, data, x, [t['loc']], w, b, p, None, None, sub={**sub, 'combo': [b, p]})
            singles.append(None if r1 is None else r1[0])
        if any(s is None for s in singles):
            continue
        rec.validated += 1
        first = next((s for s in singles if s.assessment == FitAssessment.success), None)
        if len(cs) > 1:
            rec.cls('list_first_success' if first is not None else 'list_none_successful')
        got = (type(res[0].peak).__name__, getattr(res[0].background, 'degree', None), res[0].assessment.name)
        if first is not None:
            if fingerprint(res[0]) != fingerprint(first):
                exp = (type(first.peak).__name__, first.background.degree, first.assessment.name)
                rec.viol(SITE_FIT, 'model_selection', f'specification {bs} x {pk}: returned {got}, the documented order (peaks outer, backgrounds inner, first success) selects {exp}', **sub)
        elif fingerprint(res[0]) not in {fingerprint(s) for s in singles}:
            # which of the failed attempts is handed back is not documented: any of them is accepted
            rec.viol(SITE_FIT, 'model_selection', f'specification {bs} x {pk}: returned {got}, which is the result of none of the single-combination runs', **sub)
    if judged:
        rec.nontrivial += 1


def _extras(extra, x):
    span = float(x[-1] - x[0])
    lo, hi = float(x[0]), float(x[-1])
    left = {'left1': [lo - 0.2 * span], 'left2': [lo - 0.5 * span, lo - 0.3 * span], 'both': [lo - 0.2 * span]}.get(extra, [])
    right = {'right1': [hi + 0.2 * span], 'right2': [hi + 0.2 * span, hi + 0.5 * span], 'both': [hi + 0.2 * span]}.get(extra, [])
    return left, right


def run_multi_auto(case, rec):
    x, y, var, truth = build_spectrum(case['spectrum'])
    data = data_array(x, y, var)
    left, right = _extras(case['extra'], x)
    est = left + [t['loc'] for t in truth] + right
    fp = FitParameters(neighbor_separation_factor=case['separation'])
    fr = FitRequirements()
    km = k_min(case['background'], case['peak'])
    step = truth[0]['step']
    judged = 0
    for steps in (3.0, 8.0, 20.0, 60.0, 'full'):
        wv = scalar_width(x, steps, step)
        sub = {'width_steps': steps, 'width': wv}
        res = run_fit(rec, data, x, est, sc.scalar(wv, unit=XUNIT), case['background'], case['peak'], fp, fr, sub=sub)
        if res is None:
            wins = observe_auto_windows(data, sc.array(dims=['d'], values=est, unit=XUNIT), sc.scalar(wv, unit=XUNIT), fp)
            if wins is not None:
                check_auto_windows(rec, x, est, wins, case['separation'], wv, sub)
            continue
        wins = [judge_result(rec, r, x, y, var, kmin=km, reqs=fr, sub={**sub, 'index': i}) for i, r in enumerate(res)]
        if all(w is not None for w in wins):
            judged += 1
            check_auto_windows(rec, x, est, wins, case['separation'], wv, sub)
    if judged:
        rec.nontrivial += 1


def _menu_window(kind, t, x, neighbour_loc):
    step = t['step']
    if kind == 'good':
        return [t['loc'] - 10 * step, t['loc'] + 10 * step]
    if kind == 'narrow':
        return [t['loc'] - 1.2 * step, t['loc'] + 1.2 * step]
    if kind == 'empty':
        return [t['loc'], t['loc']]
    if kind == 'outside':
        return [float(x[-1]) + 1.0, float(x[-1]) + 2.0]
    if kind == 'wide':
        return [t['loc'] - 20 * step, t['loc'] + 20 * step]
    if kind == 'offcentre':
        return [t['loc'] - 5 * step, t['loc'] + 14 * step]
    if kind == 'overlap':  # reaches over the neighbouring peak
        a, b = sorted((t['loc'] - 12 * step, neighbour_loc + 6 * step)) if neighbour_loc > t['loc'] else sorted((neighbour_loc - 6 * step, t['loc'] + 12 * step))
        return [a, b]
    raise ValueError(kind)


def run_multi_explicit(case, rec):
    x, y, var, truth = build_spectrum(case['spectrum'])
    data = data_array(x, y, var)
    n = len(truth)
    est = [t['loc'] for t in truth]
    wins = [_menu_window(kind, t, x, truth[i + 1]['loc'] if i + 1 < n else truth[i - 1]['loc']) for i, (kind, t) in enumerate(zip(case['windows'], truth, strict=True))]
    fp = FitParameters(guess_background_fraction=case['frac'])
    fr = FitRequirements()
    km = k_min(case['background'], case['peak'])
    sub = {'windows': wins}

    def fit(idx):
        w = [wins[i] for i in idx]
        return run_fit(rec, data, x, [est[i] for i in idx], explicit_windows(w), case['background'], case['peak'], fp, fr, sub={**sub, 'subset': list(idx)}, explicit=[tuple(v) for v in w])

    full = fit(range(n))
    if full is not None:
        for i, r in enumerate(full):
            win = judge_result(rec, r, x, y, var, kmin=km, reqs=fr, sub={**sub, 'index': i})
            if win is not None and (win[0] != wins[i][0] or win[1] != wins[i][1]):
                rec.viol(SITE_FIT, 'explicit_window_changed', f'window {i} given as {wins[i]} reported as {win}', **sub)
        rec.nontrivial += 1
    subsets = [(i,) for i in range(n)] + ([tuple(j for j in range(n) if j != i) for i in range(n)] if n > 2 else [])
    same = True
    compared = 0
    for idx in subsets:
        part = fit(idx)
        if part is None:
            continue
        if full is None:
            # the full run raised; a peak's own result must still exist: judge it here
            for j, r in zip(idx, part, strict=True):
                judge_result(rec, r, x, y, var, kmin=km, reqs=fr, sub={**sub, 'index': j, 'subset': list(idx)})
            continue
        for j, r in zip(idx, part, strict=True):
            rec.validated += 1
            compared += 1
            if fingerprint(r) != fingerprint(full[j]):
                same = False
                rec.viol(SITE_FIT, 'depends_on_other_peaks', f'result of peak {j} differs between the full run and the run with estimates {list(idx)}: {full[j].assessment.name} vs {r.assessment.name}', index=j, subset=list(idx), **sub)
    if compared and same:
        rec.cls('independent_of_other_peaks')
    cs = combos(case['background'], case['peak'])
    if len(cs) > 1 and full is not None:
        rec.cls('independence_with_model_lists')
        # non-vacuity: is this a scenario in which a try order carried over from an earlier peak would show?
        # (an earlier peak fails with the first combination and succeeds with a later one which a later peak
        # also succeeds with, while the later peak alone succeeds with an earlier combination)
        table = []
        for i in range(n):
            row = []
            for b, p in cs:
                r1 = run_fit(rec, data, x, [est[i]], explicit_windows([wins[i]]), b, p, fp, fr, sub={**sub, 'subset': [i], 'combo': [b, p]}, explicit=[tuple(wins[i])])
                row.append(r1 is not None and r1[0].assessment == FitAssessment.success)
            table.append(row)
        for i in range(n - 1):
            first_i = next((k for k, ok in enumerate(table[i]) if ok), None)
            if first_i in (None, 0):
                continue
            for j in range(i + 1, n):
                first_j = next((k for k, ok in enumerate(table[j]) if ok), None)
                if first_j is not None and first_j < first_i and table[j][first_i]:
                    rec.cls('list_order_carry_over_would_show')


def run_requirements(case, rec):
    x, y, var, truth = build_spectrum(case['spectrum'])
    data = data_array(x, y, var)
    t = truth[0]
    fr = FitRequirements(min_p_value=case['min_p'], max_peak_width_factor=case['max_w'], min_peak_width_factor=case['min_w'])
    km = k_min(case['background'], case['peak'])
    judged = 0
    for steps in (12.0, 40.0):
        wv = scalar_width(x, steps, t['step'])
        sub = {'width_steps': steps}
        res = run_fit(rec, data, x, [t['loc']], sc.scalar(wv, unit=XUNIT), case['background'], case['peak'], None, fr, sub=sub)
        if res is None:
            continue
        if judge_result(rec, res[0], x, y, var, kmin=km, reqs=fr, sub=sub) is not None:
            judged += 1
    if judged:
        rec.nontrivial += 1


# ---------------------------------------------------------------------------------------
# removal


def judge_removal(rec, x, y, results, sub, as_iterator=False, data=None, peak_tol=1e-12):
    """Run remove_peaks on variance-free data and compare with the reference.

    data: a prepared variance-free DataArray (masks, extra coords, views, float32 ...) whose dimension-coordinate and
    values are x and y; default: the plain float64 array built from x and y."""
    plain = data if data is not None else sc.DataArray(sc.array(dims=['d'], values=y, unit=YUNIT), coords={'d': sc.array(dims=['d'], values=x, unit=XUNIT)})
    before = plain.copy()
    rec.transitions += 1
    rec.states += 1
    try:
        with warnings.catch_warnings():
            warnings.simplefilter('ignore')
            out = remove_peaks(plain, iter(results) if as_iterator else results)
    except Exception as e:  # noqa: BLE001
        rec.viol(SITE_REMOVE, 'raises', f'{type(e).__name__}: {e}', **sub)
        return
    rec.evals += 1
    if not sc.identical(plain, before, equal_nan=True):
        rec.viol(SITE_REMOVE, 'input_modified', 'remove_peaks changed its input', **sub)
    if out.dims != plain.dims or out.shape != plain.shape or out.unit != plain.unit or out.dtype != plain.dtype or not sc.identical(out.coords['d'], plain.coords['d']):
        rec.viol(SITE_REMOVE, 'wrong_shape', f'output {out.dims} {out.shape} {out.unit} {out.dtype}', **sub)
        return
    if set(out.coords) != set(before.coords) or any(not sc.identical(out.coords[k], before.coords[k], equal_nan=True) or out.coords[k].aligned != before.coords[k].aligned for k in before.coords):
        rec.viol(SITE_REMOVE, 'coords_changed', f'coords {sorted(out.coords)} of the output differ from the input coords {sorted(before.coords)}', **sub)
    if set(out.masks) != set(before.masks) or any(not sc.identical(out.masks[k], before.masks[k]) for k in before.masks):
        rec.viol(SITE_REMOVE, 'masks_changed', f'masks {sorted(out.masks)} of the output differ from the input masks {sorted(before.masks)}', **sub)
    if before.masks:
        rec.cls('removal_with_masks')
    succ = []
    for r in results:
        if r.assessment == FitAssessment.success:
            shape = SHAPE_OF[type(r.peak).__name__]
            succ.append((shape, {k: float(v.value) for k, v in r.popt.items()}, float(r.window.values[0]), float(r.window.values[1])))
        else:
            rec.cls('removal_ignores_failures')
    masks = [pf.in_window(x, lo, hi) for _, _, lo, hi in succ]
    if any(np.any(a & b) for a, b in itertools.combinations(masks, 2)):
        rec.cls('removal_with_overlap')
    # the reference's membership rule [lo, hi) is the one the fit used: scipp's own label-based slice of the
    # sorted coordinate (plain scipp, independent of remove_peaks) must select the same points
    for (_, _, lo, hi), m in zip(succ, masks, strict=True):
        sl = plain['d', sc.scalar(lo, unit=XUNIT) : sc.scalar(hi, unit=XUNIT)]
        if not np.array_equal(sl.coords['d'].values, x[m]):
            raise RuntimeError(f'broken harness: reference window [{lo!r}, {hi!r}) holds {x[m].tolist()}, the label slice holds {sl.coords["d"].values.tolist()}')
        if np.any(x == hi):
            rec.cls('removal_upper_bound_on_point')
            if x[-1] == hi:
                rec.cls('removal_window_ends_at_last_point')
        if np.any(x == lo):
            rec.cls('removal_lower_bound_on_point')
    if any(a[3] == b[2] and np.any(x == a[3]) for a, b in itertools.permutations(succ, 2)):
        rec.cls('removal_adjacent_windows_share_point')
    rec.observe(out.values.tobytes())
    rec.validated += 1
    rec.cls('removal_checked')
    for kind, text in pf.removal_faults(x, y, out.values, succ, peak_tol=peak_tol):
        rec.viol(SITE_REMOVE, kind, text, n_success=len(succ), **sub)
    # data with variances must be refused
    withvar = plain.copy()
    withvar.variances = (np.abs(y) + 1.0).astype(plain.values.dtype)
    try:
        remove_peaks(withvar, results)
    except Exception:  # noqa: BLE001 - any refusal
        rec.cls('removal_variances_refused')
    else:
        rec.viol(SITE_REMOVE, 'variances_accepted', 'data with variances were accepted', **sub)


def run_remove_fitted(case, rec):
    km = k_min(case['background'], case['peak'])
    reference = None
    for ys in case.get('yscales', [1.0]):
        x, y, var, truth = build_spectrum({**case['spectrum'], 'yscale': ys})
        data = data_array(x, y, var)
        est = [t['loc'] for t in truth]
        wv = scalar_width(x, case['width'], truth[0]['step'])
        sub = {'width': wv, 'yscale': ys}
        res = run_fit(rec, data, x, est, sc.scalar(wv, unit=XUNIT), case['background'], case['peak'], None, None, sub=sub)
        if res is None:
            continue
        for i, r in enumerate(res):
            judge_result(rec, r, x, y, var, kmin=km, reqs=FitRequirements(), sub={**sub, 'index': i})
        judge_removal(rec, x, y, res, sub)
        judge_removal(rec, x, y, list(reversed(res)), {**sub, 'order': 'reversed'})
        judge_removal(rec, x, y, res, {**sub, 'order': 'iterator'}, as_iterator=True)
        if any(r.success and abs(float(r.popt['peak_amplitude'].value)) < 1e-8 for r in res):
            rec.cls('removal_of_peak_with_tiny_amplitude')
        if ys == 1.0:
            reference = res
        elif reference is not None:
            judge_rescaling(rec, reference, res, ys, sub)
        rec.nontrivial += 1


def judge_rescaling(rec, ref_results, results, ys, sub):
    """Data and standard deviations multiplied by ys: the same fit problem in another unit of intensity.
    Demanded only to the optimiser's own tolerance and only of fits successful at both scales."""
    ok = True
    for i, (a, b) in enumerate(zip(ref_results, results, strict=True)):
        rec.validated += 1
        # Where the optimiser ends on a poorly described window depends on the scaling of the parameters (scipy's trust
        # region is not scale invariant), so only fits that found an acceptable description at both scales are compared.
        if not (a.success and b.success and type(a.peak) is type(b.peak) and a.background.degree == b.background.degree):
            rec.cls('rescaling_not_judged')
            continue
        pa, pb = float(a.p_value.value), float(b.p_value.value)
        # parameters: the optimiser stops at a relative cost change of 1e-8, i.e. anywhere within a small fraction of
        # the parameter's own standard error of the minimum; that is all that can be demanded
        for name in a.popt:
            va, vb = float(a.popt[name].value), float(b.popt[name].value)
            factor = ys if name == 'peak_amplitude' or name.startswith('bkg_') else 1.0
            var_a = a.popt[name].variance
            if var_a is None or not math.isfinite(float(var_a)):
                continue
            want = va * factor
            if not abs(vb - want) <= 0.05 * math.sqrt(float(var_a)) * factor + 1e-6 * abs(want):
                ok = False
                rec.viol(SITE_FIT, 'depends_on_intensity_scale', f'peak {i}: {name} = {va!r} +- {math.sqrt(float(var_a))!r} at scale 1 but {vb!r} at scale {ys!r} (expected {want!r})', index=i, parameter=name, **sub)
        ra, rb = float(a.red_chisq.value), float(b.red_chisq.value)
        if math.isfinite(ra) and not abs(rb - ra) <= 1e-5 * abs(ra):
            ok = False
            rec.viol(SITE_FIT, 'depends_on_intensity_scale', f'peak {i}: red_chisq = {ra!r} at scale 1 but {rb!r} at scale {ys!r}', index=i, parameter='red_chisq', **sub)
        if math.isfinite(pa) and not abs(pb - pa) <= 1e-4:
            ok = False
            rec.viol(SITE_FIT, 'depends_on_intensity_scale', f'peak {i}: p_value = {pa!r} at scale 1 but {pb!r} at scale {ys!r}', index=i, parameter='p_value', **sub)
    if ok:
        rec.cls('rescaling_equivariant')


def _synthetic_result(shape, assessment, loc, scale, lo, hi, ys=1.0):
    cls = {'gaussian': M.GaussianModel, 'lorentzian': M.LorentzianModel, 'pseudo_voigt': M.PseudoVoigtModel}[shape]
    popt = {
        'bkg_a0': sc.scalar(100.0 * ys, unit=YUNIT),
        'bkg_a1': sc.scalar(-2.0 * ys, unit=sc.Unit(YUNIT) / sc.Unit(XUNIT)),
        'peak_amplitude': sc.scalar(50.0 * ys, unit=sc.Unit(YUNIT) * sc.Unit(XUNIT)),
        'peak_loc': sc.scalar(loc, unit=XUNIT),
        'peak_scale': sc.scalar(scale, unit=XUNIT),
    }
    if shape == 'pseudo_voigt':
        popt['peak_fraction'] = sc.scalar(0.25)
    return FitResult(
        aic=sc.scalar(1.0), assessment=FitAssessment[assessment], background=M.PolynomialModel(degree=1, prefix='bkg_'), message='',
        p_value=sc.scalar(0.5), peak=cls(prefix='peak_'), popt=popt, red_chisq=sc.scalar(1.0),
        window=sc.array(dims=['range'], values=[lo, hi], unit=XUNIT),
    )


def run_remove_synthetic(case, rec):
    x = grid(case.get('grid', 'u101'))
    ys = case.get('yscale', 1.0)
    y = (100.0 - 2.0 * x + 3.0 * pf.noise(len(x), 11)) * ys
    layout = case['layout']
    n = len(x)

    def at(frac):
        return float(x[int(round(frac * (n - 1)))])

    def mid(f0, f1):
        return 0.5 * (at(f0) + at(f1))

    span = float(x[-1] - x[0])
    wins = {
        'disjoint': [(at(0.1) + 0.001, at(0.3) + 0.001, mid(0.1, 0.3)), (at(0.6) + 0.003, at(0.8) + 0.003, mid(0.6, 0.8))],
        'overlap': [(at(0.2) - 0.001, at(0.55) + 0.001, mid(0.2, 0.55)), (at(0.45) - 0.001, at(0.8) + 0.001, mid(0.45, 0.8))],
        'nested': [(at(0.1) - 0.001, at(0.9) + 0.001, at(0.5)), (at(0.4) - 0.001, at(0.6) + 0.001, at(0.52))],
        'empty': [(at(0.5), at(0.5), at(0.5)), (at(0.7) + 0.001, at(0.7) + 0.002, at(0.7))],
        'outside': [(float(x[0]) - 0.5 * span, float(x[0]) - 0.1 * span, float(x[0]) - 0.3 * span), (float(x[-1]) + 0.1 * span, float(x[-1]) + 0.2 * span, float(x[-1]) + 0.15 * span)],
        # bounds that are coordinate values bit for bit
        'on_points': [(at(0.2), at(0.4), mid(0.2, 0.4)), (at(0.4), at(0.6), mid(0.4, 0.6))],  # adjacent, shared edge on a point
        'upper_on_point': [(at(0.2) - 0.001, at(0.4), mid(0.2, 0.4)), (at(0.6) + 0.001, at(0.8), mid(0.6, 0.8))],
        'lower_on_point': [(at(0.2), at(0.4) + 0.001, mid(0.2, 0.4)), (at(0.6), at(0.8) - 0.001, mid(0.6, 0.8))],
        'to_data_ends': [(float(x[0]), at(0.3), at(0.12)), (at(0.7), float(x[-1]), at(0.9))],  # first window starts at the first, second ends at the last point
        'whole_range': [(float(x[0]), float(x[-1]), at(0.5)), (at(0.5), float(x[-1]), at(0.8))],
    }[layout]
    shape = case['shape']
    sub = {'layout': layout, 'grid': case.get('grid', 'u101'), 'yscale': ys}
    if abs(50.0 * ys) < 1e-8:
        rec.cls('removal_of_peak_with_tiny_amplitude')
    # every pair of assessments on the two windows
    names = case['assessments']
    for a0, a1 in itertools.product(names, repeat=2):
        if a0 != 'success' and a1 != 'success' and (a0, a1) != (names[1], names[2]):
            continue  # one representative without any success
        res = [_synthetic_result(shape, a, loc, 0.03 * span, lo, hi, ys) for a, (lo, hi, loc) in zip((a0, a1), wins, strict=True)]
        judge_removal(rec, x, y, res, {**sub, 'assessments': [a0, a1]})
    judge_removal(rec, x, y, [], {**sub, 'assessments': []})
    rec.nontrivial += 1


# ---------------------------------------------------------------------------------------
# input representations: the same spectrum handed over as different scipp objects

REPRESENTATIONS = (
    'plain', 'mask_in_success', 'mask_in_failed', 'mask_outside', 'mask_everywhere', 'mask_whole_window', 'two_masks', 'mask_all_false',
    'extra_coords', 'slice_of_2d', 'transposed_2d_slice', 'every_second', 'float32_data', 'float32_coord',
)


def _repr_windows(x, truth):
    """Three explicit windows: around peak 0 (fits), 3 points between the peaks (too narrow), around peak 1 (fits)."""
    mid = len(x) // 2
    est = [truth[0]['loc'], float(x[mid]) + 0.3 * local_step(x, mid), truth[1]['loc']]
    wins = [
        [truth[0]['loc'] - 10 * truth[0]['step'], truth[0]['loc'] + 10 * truth[0]['step']],
        [float(x[mid - 1]) - 0.01 * local_step(x, mid), float(x[mid + 1]) + 0.01 * local_step(x, mid)],
        [truth[1]['loc'] - 10 * truth[1]['step'], truth[1]['loc'] + 10 * truth[1]['step']],
    ]
    return est, wins


def make_representation(name, x, y, var, wins, garbage=False):
    """-> (data array with variances, info).  info: 'masked' boolean array (union of all masks) or None,
    'preserving' (same float64 numbers as the plain array -> results must be bit-identical), x/y/var as the array holds them."""
    n = len(x)
    base = data_array(x, y, var)
    info = {'masked': None, 'preserving': True, 'x': x, 'y': y, 'var': var, 'stat_rel': 1e-9, 'peak_tol': 1e-12}
    in0 = np.flatnonzero(pf.in_window(x, *wins[0]))
    in1 = np.flatnonzero(pf.in_window(x, *wins[1]))
    in2 = np.flatnonzero(pf.in_window(x, *wins[2]))
    outside = np.flatnonzero(~(pf.in_window(x, *wins[0]) | pf.in_window(x, *wins[1]) | pf.in_window(x, *wins[2])))

    def with_masks(masks):
        da = base.copy()
        union = np.zeros(n, dtype=bool)
        yy = y.copy()
        for mname, idx in masks.items():
            m = np.zeros(n, dtype=bool)
            m[idx] = True
            union |= m
            da.masks[mname] = sc.array(dims=['d'], values=m)
        if garbage and union.any():  # what lies under a mask is nobody's business
            yy[union] = 1e5 * np.max(np.abs(y))
            da.values = yy
        info.update(masked=union, y=yy, preserving=not union.any())
        return da

    if name == 'plain':
        return base, info
    if name == 'mask_in_success':
        return with_masks({'bad': [in0[3], in0[len(in0) // 2 + 2], in2[-4]]}), info
    if name == 'mask_in_failed':
        return with_masks({'bad': [in1[1]]}), info
    if name == 'mask_outside':
        return with_masks({'bad': [outside[0], outside[len(outside) // 2], outside[-1]]}), info
    if name == 'mask_everywhere':
        return with_masks({'bad': np.arange(n)}), info
    if name == 'mask_whole_window':
        return with_masks({'bad': in0}), info
    if name == 'two_masks':
        return with_masks({'dead': [in0[2], in2[5]], 'noisy': [in0[2], in0[-3], outside[1]]}), info
    if name == 'mask_all_false':
        return with_masks({'bad': [], 'other': []}), info
    if name == 'extra_coords':
        da = base.copy()
        da.coords['tof'] = 2.0 * da.coords['d']  # second aligned, bin-edge-free coord along the dimension
        da.coords['temperature'] = sc.scalar(3.0, unit='K')
        da.coords['label'] = sc.arange('d', n, unit=None)
        da.coords.set_aligned('label', False)
        da.coords['run'] = sc.scalar(17)
        da.coords.set_aligned('run', False)
        return da, info
    if name == 'slice_of_2d':
        big = sc.DataArray(
            sc.array(dims=['spectrum', 'd'], values=np.stack([0 * y + 1, y, 2 * y]), variances=np.stack([var, var, 4 * var]), unit=YUNIT),
            coords={'d': base.coords['d'], 'spectrum': sc.arange('spectrum', 3)},
        )
        return big['spectrum', 1], info
    if name == 'transposed_2d_slice':
        big = sc.DataArray(
            sc.array(dims=['d', 'spectrum'], values=np.stack([0 * y + 1, y, 2 * y]).T.copy(), variances=np.stack([var, var, 4 * var]).T.copy(), unit=YUNIT),
            coords={'d': base.coords['d'], 'spectrum': sc.arange('spectrum', 3)},
        )
        return big['spectrum', 1], info
    if name == 'every_second':
        x2 = np.repeat(x, 2)
        x2[1::2] += 0.3 * np.diff(np.append(x, 2 * x[-1] - x[-2]))
        y2 = np.repeat(y, 2)
        y2[1::2] = 7.0
        long = sc.DataArray(sc.array(dims=['d'], values=y2, variances=np.repeat(var, 2), unit=YUNIT), coords={'d': sc.array(dims=['d'], values=x2, unit=XUNIT)})
        return long['d', ::2], info
    if name == 'float32_data':
        da = base.copy()
        da.data = da.data.astype('float32')
        info.update(preserving=False, y=da.values.astype(float), var=da.variances.astype(float), stat_rel=1e-4, peak_tol=1e-6)
        return da, info
    if name == 'float32_coord':
        da = base.copy()
        da.coords['d'] = da.coords['d'].astype('float32')
        info.update(preserving=False, x=da.coords['d'].values.astype(float), stat_rel=1e-4, peak_tol=1e-6)
        return da, info
    raise ValueError(name)


def _close_popt(a, b):
    """Same minimum to the optimiser's tolerance (see judge_rescaling)."""
    if a.assessment in (FitAssessment.window_too_narrow, FitAssessment.failed) or b.assessment in (FitAssessment.window_too_narrow, FitAssessment.failed):
        return None
    if type(a.peak) is not type(b.peak) or a.background.degree != b.background.degree:
        return False
    for name in a.popt:
        va, vb, var_a = float(a.popt[name].value), float(b.popt[name].value), a.popt[name].variance
        if var_a is None or not math.isfinite(float(var_a)):
            continue
        if not abs(vb - va) <= 0.05 * math.sqrt(float(var_a)) + 1e-6 * abs(va):
            return False
    return True


def run_representation(case, rec):
    x, y, var, truth = build_spectrum(case['spectrum'])
    est, wins = _repr_windows(x, truth)
    bs, pk = case['background'], case['peak']
    km = k_min(bs, pk)
    fr = FitRequirements()
    name = case['representation']
    rec.cls('representation_' + name)
    tw = [tuple(w) for w in wins]

    def fit(da, info, tag):
        usable = None if info['masked'] is None else ~info['masked']
        return run_fit(rec, da, info['x'], est, explicit_windows(wins), bs, pk, None, fr, sub={'representation': name, 'variant': tag}, explicit=tw, usable=usable)

    base, binfo = make_representation('plain', x, y, var, wins)
    ref_res = fit(base, binfo, 'plain')
    if ref_res is None:
        return
    for i, r in enumerate(ref_res):
        judge_result(rec, r, x, y, var, kmin=km, reqs=fr, sub={'representation': 'plain', 'index': i})
    if not (ref_res[0].success and ref_res[2].success and not ref_res[1].success):
        raise RuntimeError('alphabet error: the plain spectrum must give success / failure / success')
    da, info = make_representation(name, x, y, var, wins)
    # ---- fit_peaks ---------------------------------------------------------------------------------------
    res = fit(da, info, 'as_is')
    masked = info['masked']
    twin = None
    if masked is not None and masked.any():
        da_g, info_g = make_representation(name, x, y, var, wins, garbage=True)
        twin = (fit(da_g, info_g, 'garbage_under_mask'), info_g)
    if res is not None:
        rec.nontrivial += 1
        for i, r in enumerate(res):
            sub = {'representation': name, 'index': i}
            touched = masked is not None and bool((pf.in_window(info['x'], *tw[i]) & masked).any())
            if not touched:
                # nothing about this window differs from the plain array
                judge_result(rec, r, info['x'], info['y'], info['var'], kmin=km, reqs=fr, sub=sub, stat_rel=info['stat_rel'])
                rec.validated += 1
                if name != 'float32_data' and name != 'float32_coord':
                    if fingerprint(r) != fingerprint(ref_res[i]):
                        rec.viol(SITE_FIT, 'depends_on_representation', f'peak {i}: result for the data given as {name} differs from the result for the plain array ({r.assessment.name} vs {ref_res[i].assessment.name})', **sub)
                    else:
                        rec.cls('representation_independent')
                elif r.assessment != ref_res[i].assessment and FitAssessment.failed not in (r.assessment, ref_res[i].assessment):
                    rec.viol(SITE_FIT, 'depends_on_representation', f'peak {i}: {r.assessment.name} in single precision, {ref_res[i].assessment.name} in double precision', **sub)
                continue
            # masked points inside this window: which points did the fit use?  If what lies under the mask does not move the
            # optimum, the fit ignored the masked points, and the statistics must be those of the points it used.
            rec.cls('window_with_masked_points')
            n_unmasked = int((pf.in_window(info['x'], *tw[i]) & ~masked).sum())
            if n_unmasked < km:
                rec.validated += 1
                if r.success:
                    rec.viol(SITE_FIT, 'success_without_unmasked_points', f'peak {i}: {n_unmasked} unmasked points for {km} parameters but the result is marked successful', **sub)
                continue
            ignored = None
            if twin is not None and twin[0] is not None:
                ignored = _close_popt(r, twin[0][i])
            if ignored is None:
                rec.cls('mask_semantics_undetermined')
                continue
            rec.cls('fit_ignores_masked_points' if ignored else 'fit_uses_masked_points')
            for rr, inf, tag in ((r, info, 'as_is'), (twin[0][i], twin[1], 'garbage_under_mask')):
                judge_result(
                    rec, rr, inf['x'], inf['y'], inf['var'], kmin=km, reqs=fr, sub={**sub, 'variant': tag, 'fit_ignores_masked_points': ignored},
                    usable=~masked if ignored else None, stat_kind='statistics_include_points_the_fit_ignored' if ignored else 'statistic_',
                )
    # ---- remove_peaks: the plain fit's results applied to this representation of the same data --------------
    plain_data = sc.values(da)
    judge_removal(rec, info['x'], info['y'], ref_res, {'representation': name}, data=plain_data, peak_tol=info['peak_tol'])
    if twin is not None:
        judge_removal(rec, twin[1]['x'], twin[1]['y'], ref_res, {'representation': name, 'variant': 'garbage_under_mask'}, data=sc.values(make_representation(name, x, y, var, wins, garbage=True)[0]), peak_tol=info['peak_tol'])
    if name not in ('float32_data', 'float32_coord'):  # same float64 numbers as the plain array (masks do not change what is subtracted)
        with warnings.catch_warnings():
            warnings.simplefilter('ignore')
            try:
                out = remove_peaks(sc.values(da), ref_res)
                ref_out = remove_peaks(sc.values(base), ref_res)
            except Exception:  # noqa: BLE001 - reported by judge_removal above
                return
        rec.validated += 1
        if not np.array_equal(out.values, ref_out.values):
            i = int(np.flatnonzero(out.values != ref_out.values)[0])
            rec.viol(SITE_REMOVE, 'depends_on_representation', f'data given as {name}: output differs from the output for the plain array at x={info["x"][i]!r} ({out.values[i]!r} vs {ref_out.values[i]!r})', representation=name)
        else:
            rec.cls('removal_representation_independent')


RUNNERS = {
    'single': run_single, 'edges': run_edges, 'modelspec': run_modelspec, 'multi_auto': run_multi_auto,
    'multi_explicit': run_multi_explicit, 'requirements': run_requirements, 'remove_fitted': run_remove_fitted,
    'remove_synthetic': run_remove_synthetic,
    'representation': run_representation,
}


def run_case(case, rec):
    RUNNERS[case['kind']](case, rec)
