"""C16 - peak and background models satisfy their analytic definitions.

Shape G: full grid amplitude x loc x scale x fraction x units, every prefix inside a case.
Oracle (ref/peakshape.py): quadrature over the real line, exact symmetric abscissae,
half maximum at loc +/- FWHM/2 with the FWHM the model reports, 50-digit power sum,
sum of separately evaluated parts, unit algebra, refusal table.
"""
from __future__ import annotations

import itertools
import math

import numpy as np
import scipp as sc

from ref import peakshape as ps
from scippneutron.peaks import model as M

ID = 'C16'
LEVEL = 'model_checking'
RULE = (
    'full Cartesian grid of (shape, amplitude, loc, scale, fraction, x unit, y unit); inside a peak case every '
    'prefix is evaluated on the same 4096 quadrature nodes + 16 symmetric abscissae + 3 half-maximum abscissae; '
    'polynomial cases = degree x coefficient family x unit pair, each on 12 abscissae; composite cases = every '
    'ordered pair and selected (thorough: all) triples of parts x nesting x outer prefix x which part is un-prefixed, every one renamed with with_prefix to '
    'every prefix and compared with the directly constructed composite; fwhm() additionally called with dicts that hold other models parameters; refusal cases = model x prefix x every '
    'single-name / single-unit corruption; every peak / polynomial / composite case re-evaluates its points in every ordering class and shape of x '
    '(descending, both ends low, both ends high, rotated, centre-out, ends-in, interleaved, duplicated, all equal, 2-d both ways, 0-d, length 1, empty) '
    'and compares point by point with the ascending evaluation; history cases = model x initial prefix x first operation, all operation sequences of '
    'depth 3 (thorough 4) over {call, param_names, +, guess, fwhm, param_bounds, copy, deepcopy, with_prefix x 3}, state compared after every step with '
    'ref ModelState and a freshly constructed model of the same prefix.  A case is non-trivial when the implementation returned at least one '
    'finite non-zero value that was compared with the reference (refusal cases: at least one corruption tried); '
    'distinct = distinct canonical case dictionaries'
)
ASSUMPTIONS = [
    'models are evaluated through the public Model.__call__/fwhm/guess/param_bounds/with_prefix only',
    'integral over the real line judged by a 4096-node midpoint rule after x = loc + (FWHM/2) tan u; its own error '
    '(<= 1e-15, tests/peakshape_test.py) and the rounding of the nodes to the float grid around loc are in the tolerance',
    'scipp arithmetic (exp, reciprocal, unit algebra) is trusted',
    'refusal = any exception (DESIGN 3.3); the class raised is recorded as an outcome class',
]
BOUND = {
    'quick': '3 amplitudes x 3 locs x 4 scales (1e-6..1e6) x (G, L, PV x 4 fractions) x 3 x-units x 2 y-units x 5 prefixes; '
    'polynomial degree 1..6 x 6 coefficient families; 25 pairs + 3 triples of parts x nesting x outer prefix x 3 part-prefix schemes, each renamed to every prefix; '
    'fwhm() with foreign parameters in the dict for every prefix; refusal table; 20+ x layouts per case; 5 models x 2 prefixes x 11^3 histories',
    'thorough': '6 amplitudes x 10 locs x 25 scales (every half decade 1e-6..1e6) x (G, L, PV x 9 fractions) x 4 x-units x 3 y-units x 12 prefixes; '
    'polynomials additionally on 40 abscissae; all 25 pairs and all 125 triples of parts x nesting x outer prefix x 3 part-prefix schemes, renamed to 12 prefixes; 5 models x 2 prefixes x 11^4 histories',
}
REQUIRED_CLASSES = [
    'poly_integer_x_ok',
    'integral_ok', 'symmetric_ok', 'half_max_ok', 'prefix_identical', 'unit_ok', 'poly_ok', 'poly_cancelling',
    'composite2_ok', 'composite3_ok', 'refused_names', 'refused_units', 'guess_prefix_ok', 'bounds_prefix_ok',
    'shape_gaussian', 'shape_lorentzian', 'shape_pseudo_voigt', 'fraction_0', 'fraction_1', 'negative_amplitude',
    'node_rounding_limited', 'fwhm_ignores_foreign_parameters', 'composite_renamed_ok', 'mixture_ok', 'x_layout_independent', 'history_state_ok', 'history_use_then_rename',
]

PREFIXES = ('', 'p_', 'peak_', 'a', 'ü ', 'pk(1)+[0].*|?\\^$_')  # the last one: every character that means something to a pattern language
EXTRA_PREFIXES = ('bkg_', 'scale', 'loc_', 'amplitude', ' ', '1', 'a long prefix with spaces ')  # thorough tier only
XUNITS = ('angstrom', 'us', 'one')
YUNITS = ('counts', 'one')
EPS = ps.EPS

PEAK_CLASSES = {'gaussian': M.GaussianModel, 'lorentzian': M.LorentzianModel, 'pseudo_voigt': M.PseudoVoigtModel}
SYM_MULTIPLES = (1e-3, 0.1, 0.5, 1.0, 1.1774100225154747, 2.0, 5.0, 30.0)


def _grid(tier):
    if tier == 'quick':
        return (-3.0, 0.5, 1e6), (-1e3, 0.0, 2.5), (1e-6, 1e-3, 1.0, 1e6), (0.0, 0.25, 0.5, 1.0)
    return (
        (-1e6, -3.0, -1e-6, 0.5, 1.0, 1e6),
        (-1e6, -1e3, -1.0, -(2.0**-10), 0.0, 2.0**-10, 0.5, 2.5, 1e3, 1e6),
        tuple(10.0 ** (k / 2) for k in range(-12, 13)),
        (0.0, 0.01, 0.1, 0.25, 0.5, 0.75, 0.9, 0.99, 1.0),
    )


def _coef_family(name, degree):
    n = degree + 1
    if name == 'alternating':
        return [(-1.0) ** i * (i + 1.0) for i in range(n)]
    if name == 'fractions':
        return [(-1.0) ** (i // 2) * 0.5 ** (i + 1) * 3.0 for i in range(n)]
    if name == 'dynamic':
        return [(-1.0) ** (i + 1) * 10.0 ** (6 - 3 * i) for i in range(n)]
    if name == 'binomial':  # (x - 1)^degree: cancels completely at x = 1
        return [(-1.0) ** (degree - i) * math.comb(degree, i) for i in range(n)]
    if name == 'leading_only':
        return [0.0] * degree + [-2.5]
    if name == 'constant_only':
        return [7.0] + [0.0] * degree
    raise ValueError(name)


COEF_FAMILIES = ('alternating', 'fractions', 'dynamic', 'binomial', 'leading_only', 'constant_only')
POLY_X = (-1e3, -2.5, -1.0, -(2.0**-10), 0.0, 1e-3, 0.5, 1.0, 1.0 + 2.0**-20, 1.5, 3.0, 1e3)


def cases(tier):
    amps, locs, scales, fracs = _grid(tier)
    out = []
    for xu, yu in itertools.product(XUNITS + (('meV',) if tier == 'thorough' else ()), YUNITS + (('K/s',) if tier == 'thorough' else ())):
        for shape in ps.SHAPES:
            for a, mu, s in itertools.product(amps, locs, scales):
                for fr in fracs if shape == 'pseudo_voigt' else (None,):
                    out.append({'kind': 'peak', 'shape': shape, 'amplitude': a, 'loc': mu, 'scale': s, 'fraction': fr, 'xunit': xu, 'yunit': yu, 'deep': tier == 'thorough'})
    for degree in range(1, 7):
        for fam in COEF_FAMILIES:
            for xu, yu in itertools.product(XUNITS, YUNITS):
                out.append({'kind': 'poly', 'degree': degree, 'family': fam, 'xunit': xu, 'yunit': yu, 'dense': tier == 'thorough'})
    parts = ('poly1', 'poly3', 'gaussian', 'lorentzian', 'pseudo_voigt')
    schemes = ('all', 'first_bare', 'last_bare')
    deep = tier == 'thorough'
    for left, right in itertools.product(parts, repeat=2):
        for outer, scheme in itertools.product(('', 'c_'), schemes):
            out.append({'kind': 'composite', 'parts': [left, right], 'nest': 'flat', 'outer': outer, 'part_prefixes': scheme, 'deep': deep})
    trios = [('poly1', 'gaussian', 'lorentzian'), ('poly3', 'pseudo_voigt', 'gaussian'), ('gaussian', 'gaussian', 'gaussian')]
    if deep:
        trios = list(itertools.product(parts, repeat=3))
    for trio in trios:
        for nest, outer, scheme in itertools.product(('left', 'right'), ('', 'c_'), schemes):
            out.append({'kind': 'composite', 'parts': list(trio), 'nest': nest, 'outer': outer, 'part_prefixes': scheme, 'deep': deep})
    for name in ('gaussian', 'lorentzian', 'pseudo_voigt', 'poly2', 'composite'):
        for prefix in PREFIXES:
            out.append({'kind': 'refuse', 'model': name, 'prefix': prefix})
    for name in ('gaussian', 'lorentzian', 'pseudo_voigt', 'poly1', 'poly2', 'composite'):
        out.append({'kind': 'guess', 'model': name})
    for name, prefix0, first in itertools.product(('gaussian', 'lorentzian', 'pseudo_voigt', 'poly2', 'composite'), ('', 'q_'), HIST_OPS):
        out.append({'kind': 'history', 'model': name, 'prefix0': prefix0, 'first': first, 'depth': 4 if tier == 'thorough' else 3})
    return out


# ---------------------------------------------------------------------------------------


def _unit(u):
    return sc.Unit(u)


def _peak_params(case, prefix=''):
    xu, yu = _unit(case['xunit']), _unit(case['yunit'])
    p = {
        prefix + 'amplitude': sc.scalar(case['amplitude'], unit=yu * xu),
        prefix + 'loc': sc.scalar(case['loc'], unit=xu),
        prefix + 'scale': sc.scalar(case['scale'], unit=xu),
    }
    if case['shape'] == 'pseudo_voigt':
        p[prefix + 'fraction'] = sc.scalar(case['fraction'])
    return p


def _prefixes(case):
    return PREFIXES + (EXTRA_PREFIXES if case.get('deep') else ())


def _plain(case):
    d = {'amplitude': case['amplitude'], 'loc': case['loc'], 'scale': case['scale']}
    if case['shape'] == 'pseudo_voigt':
        d['fraction'] = case['fraction']
    return d


def _foreign_params(case, prefix):
    """Parameters of *other* models that may share a dict with a model of the given prefix: peak models
    under every other prefix of the alphabet (the empty one included -> bare 'scale', 'loc', ...) with
    different values, and a polynomial background."""
    xu, yu = _unit(case['xunit']), _unit(case['yunit'])
    out = {}
    for i, q in enumerate(PREFIXES + ('bkg_',)):
        if q == prefix:
            continue
        out[q + 'amplitude'] = sc.scalar(-(i + 2.0) * case['amplitude'], unit=yu * xu)
        out[q + 'loc'] = sc.scalar(case['loc'] + (i + 1.0) * case['scale'], unit=xu)
        out[q + 'scale'] = sc.scalar((i + 3.5) * case['scale'], unit=xu)
        out[q + 'fraction'] = sc.scalar(0.125 * (i + 1))
    out['bkg_a0'] = sc.scalar(3.0, unit=yu)
    out['bkg_a1'] = sc.scalar(-1.0, unit=yu / xu)
    return out


def _snapshot(x, params):
    return x.copy(), {k: v.copy() for k, v in params.items()}


def _untouched(rec, site, x, params, snap, **sub):
    x0, p0 = snap
    if not sc.identical(x, x0) or params.keys() != p0.keys() or any(not sc.identical(params[k], p0[k]) for k in p0):
        rec.viol(site, 'argument_modified', 'the call changed its x or parameter arguments', **sub)


def check_orderings(rec, site, model, params, pts, vals, xu, **sub):
    """The value of a model at a point must not depend on the other points handed in with it, on the order
    of x, or on the shape of x.  ``vals`` are the values already judged against the reference at ``pts``;
    every ordering class / shape of the same points must reproduce them point by point."""
    pts = np.asarray(pts, dtype=float)
    vals = np.asarray(vals, dtype=float)
    order = np.argsort(pts, kind='stable')
    asc, vasc = pts[order], vals[order]
    n = len(asc)
    variants = []
    for name, idx in ps.ordering_classes(n).items():
        variants.append((name, sc.array(dims=['x'], values=asc[idx], unit=xu), vasc[idx]))
    low = ps.ordering_classes(n)['low_ends']
    m2 = (n // 2) * 2
    variants.append(('two_dimensional', sc.array(dims=['row', 'x'], values=asc[low][:m2].reshape(2, m2 // 2), unit=xu), vasc[low][:m2].reshape(2, m2 // 2)))
    variants.append(('two_dimensional_transposed', sc.array(dims=['x', 'col'], values=asc[low][:m2].reshape(m2 // 2, 2), unit=xu), vasc[low][:m2].reshape(m2 // 2, 2)))
    for j in sorted({0, n // 2, n - 1, int(np.argmax(np.abs(vasc)))}):
        variants.append((f'scalar_{j}', sc.scalar(float(asc[j]), unit=xu), vasc[j]))
        variants.append((f'length_one_{j}', sc.array(dims=['x'], values=asc[j : j + 1], unit=xu), vasc[j : j + 1]))
    variants.append(('empty', sc.array(dims=['x'], values=np.zeros(0), unit=xu), np.zeros(0)))
    ok = True
    for name, xv, want in variants:
        rec.transitions += 1
        rec.states += 1
        rec.evals += 1
        rec.validated += 1
        try:
            got = model(xv, **params)
        except Exception as e:  # noqa: BLE001
            ok = False
            rec.viol(site, 'raises_for_x_layout', f'x as {name} ({xv.dims}, {xv.shape}): {type(e).__name__}: {e}', layout=name, **sub)
            continue
        if got.dims != xv.dims or got.shape != xv.shape:
            ok = False
            rec.viol(site, 'wrong_shape', f'x as {name} {xv.dims}{xv.shape}: result {got.dims}{got.shape}', layout=name, **sub)
            continue
        g = np.asarray(got.values, dtype=float)
        w = np.asarray(want, dtype=float)
        bad = ~((np.abs(g - w) <= 4 * EPS * np.abs(w)) | (np.isnan(g) & np.isnan(w)))
        if np.any(bad):
            ok = False
            i = np.unravel_index(int(np.argmax(bad)), bad.shape) if bad.ndim else ()
            rec.viol(
                site, 'depends_on_other_points',
                f'x as {name} ({len(np.ravel(g))} points, first {np.ravel(xv.values)[0]!r}, last {np.ravel(xv.values)[-1]!r}): value at x={np.asarray(xv.values)[i]!r} is {g[i]!r}, '
                f'but {w[i]!r} when the same point is evaluated within the ascending grid', layout=name, **sub,
            )
    if ok:
        rec.cls('x_layout_independent')


def run_peak(case, rec):
    shape = case['shape']
    site = f'peaks.model.{PEAK_CLASSES[shape].__name__}'
    A, mu, s = case['amplitude'], case['loc'], case['scale']
    xu, yu = _unit(case['xunit']), _unit(case['yunit'])
    rec.cls('shape_' + shape)
    if case['fraction'] == 0.0:
        rec.cls('fraction_0')
    if case['fraction'] == 1.0:
        rec.cls('fraction_1')
    if A < 0:
        rec.cls('negative_amplitude')

    m0 = PEAK_CLASSES[shape]()
    p0 = _peak_params(case)
    # FWHM the model reports ------------------------------------------------------------
    F = m0.fwhm(p0)
    rec.transitions += 1
    if F.unit != xu:
        rec.viol(site + '.fwhm', 'wrong_unit', f'fwhm unit {F.unit}, expected {xu}')
        return
    h = float(F.value) / 2.0
    if not (math.isfinite(h) and h > 0):
        rec.viol(site + '.fwhm', 'not_positive', f'fwhm {F.value}')
        return
    # abscissae -------------------------------------------------------------------------
    nodes, weights = ps.tan_rule(mu, h)
    ds = []
    for c in SYM_MULTIPLES:
        try:
            ds.append(ps.symmetric_offset(mu, c * s))
        except ValueError:  # offset below the float grid around loc: no exact pair exists, don't care
            rec.cls('sym_offset_below_float_grid')
    if not ds:
        raise RuntimeError('alphabet error: no representable symmetric offset')
    sym = [mu - d for d in ds] + [mu + d for d in ds]
    half = [mu, mu - h, mu + h]
    xs = np.concatenate([nodes, np.array(sym), np.array(half)])
    x = sc.array(dims=['x'], values=xs, unit=xu)
    snap = _snapshot(x, p0)
    y = m0(x, **p0)
    rec.transitions += 1
    _untouched(rec, site, x, p0, snap)
    # unit ------------------------------------------------------------------------------
    want_unit = p0['amplitude'].unit / p0['scale'].unit
    if y.unit != want_unit or y.unit != yu:
        rec.viol(site, 'wrong_unit', f'result unit {y.unit}, expected {want_unit}')
    else:
        rec.cls('unit_ok')
    if y.dims != x.dims or y.shape != x.shape or y.dtype != sc.DType.float64:
        rec.viol(site, 'wrong_shape', f'result dims {y.dims} shape {y.shape} dtype {y.dtype}')
        return
    v = y.values
    rec.observe(v.tobytes())
    n = len(nodes)
    # 1. integral -----------------------------------------------------------------------
    integral = ps.integrate(v[:n], weights)
    tol = ps.integral_tolerance(mu, h)
    err = abs(integral - A) / abs(A)
    rec.evals += 1
    rec.validated += 1
    if not err <= tol:
        rec.viol(site, 'integral', f'integral over the real line {integral!r}, amplitude {A!r}: rel. error {err:.3e} > {tol:.3e}', err=err, tol=tol)
    else:
        rec.cls('integral_ok')
        if tol > 1e-11:
            rec.cls('node_rounding_limited')
    # 2. symmetry -----------------------------------------------------------------------
    k = len(ds)
    lo, hi = v[n : n + k], v[n + k : n + 2 * k]
    bad = [i for i in range(k) if not abs(lo[i] - hi[i]) <= 4 * EPS * max(abs(lo[i]), abs(hi[i]))]
    rec.evals += k
    rec.validated += k
    if bad:
        i = bad[0]
        rec.viol(site, 'asymmetric', f'f(loc-d)={lo[i]!r} f(loc+d)={hi[i]!r} for d={ds[i]!r}', d=ds[i])
    else:
        rec.cls('symmetric_ok')
    if np.any(lo != 0.0):
        rec.nontrivial += 1
    # 3. half maximum -------------------------------------------------------------------
    f_mu, f_m, f_p = v[n + 2 * k :]
    ok = True
    for xh, fh in ((half[1], f_m), (half[2], f_p)):
        tol_h = ps.half_max_tolerance(mu, xh, h)
        errh = abs(fh / f_mu - 0.5) / 0.5 if f_mu != 0 else math.inf
        rec.evals += 1
        rec.validated += 1
        if not errh <= tol_h:
            ok = False
            rec.viol(site, 'half_maximum', f'f(loc)={f_mu!r}, f({xh!r})={fh!r}: ratio {fh / f_mu if f_mu else math.nan!r} is not 1/2 within {tol_h:.3e} (FWHM reported {2 * h!r})', err=errh, tol=tol_h)
    if ok:
        rec.cls('half_max_ok')
    # peak value carries the sign of the amplitude and is the extremum of the sampled values
    if not (f_mu * A > 0 and abs(f_mu) >= np.max(np.abs(v)) * (1 - 4 * EPS)):
        rec.viol(site, 'peak_not_at_loc', f'f(loc)={f_mu!r} is not the extremum (max |f| sampled {np.max(np.abs(v))!r})')
    # 3a. the same points in every ordering class / shape of x (a thinned grid: every 64th node keeps the far tails on
    #     both sides, plus all symmetric and half-maximum abscissae next to loc) ------------------------------------
    pick = np.unique(np.concatenate([[0, 1, 2, n - 3, n - 2, n - 1], np.arange(0, n, 64), np.arange(n, len(xs))]))  # the 3 outermost nodes per side are > 300 half widths out
    if not case.get('deep') or case['yunit'] == 'counts':  # thorough: the unit of y cannot interact with the layout of x; run it for one y unit
        check_orderings(rec, site, m0, p0, xs[pick], v[pick], xu)
    # 3b. the pseudo-Voigt is the documented mixture of the package's own (separately judged) Lorentzian and
    #     Gaussian of equal FWHM: fraction * L + (1 - fraction) * G ----------------------------------------
    if shape == 'pseudo_voigt':
        fr = case['fraction']
        base = {k: val for k, val in p0.items() if k != 'fraction'}
        yl = M.LorentzianModel()(x, **base).values
        yg = M.GaussianModel()(x, **{**base, 'scale': base['scale'] / ps.SQRT_2LN2}).values
        rec.transitions += 2
        mix = fr * yl + (1.0 - fr) * yg
        tolm = 16 * EPS * (abs(fr) * np.abs(yl) + abs(1.0 - fr) * np.abs(yg)) + 1e-300
        rec.evals += 1
        rec.validated += 1
        if np.any(~(np.abs(v - mix) <= tolm)):
            i = int(np.argmax(np.abs(v - mix) - tolm))
            rec.viol(site, 'not_the_documented_mixture', f'at x={xs[i]!r}: pseudo-Voigt {v[i]!r}, fraction*Lorentzian + (1-fraction)*Gaussian(same FWHM) = {mix[i]!r} (fraction {fr!r})', x=float(xs[i]))
        else:
            rec.cls('mixture_ok')
    identical = True
    for prefix in _prefixes(case)[1:]:
        for how in ('ctor', 'with_prefix'):
            mp_ = PEAK_CLASSES[shape](prefix=prefix) if how == 'ctor' else m0.with_prefix(prefix)
            pp = _peak_params(case, prefix)
            snap = _snapshot(x, pp)
            yp = mp_(x, **pp)
            Fp = mp_.fwhm(pp)
            rec.transitions += 2
            rec.states += 1
            _untouched(rec, site, x, pp, snap, prefix=prefix)
            if not sc.identical(yp, y, equal_nan=True):
                identical = False
                rec.viol(site, 'prefix_dependence', f'result with prefix {prefix!r} ({how}) differs from the result without prefix', prefix=prefix, how=how)
            if not sc.identical(Fp, F):
                identical = False
                rec.viol(site + '.fwhm', 'prefix_dependence', f'fwhm with prefix {prefix!r} ({how}) {Fp.value!r} != {F.value!r}', prefix=prefix, how=how)
            rec.evals += 2
    if identical:
        rec.cls('prefix_identical')
    if m0.param_names != set(p0):
        rec.viol(site, 'prefix_dependence', 'with_prefix changed the model it was called on')
    # 5. fwhm() given a dict that also holds other models' parameters (as fit_peaks does with popt, and as
    #    the parameter dict of any composite is): the width reported must be this model's own --------------
    clean = True
    for prefix in _prefixes(case):
        mp_ = PEAK_CLASSES[shape](prefix=prefix)
        own = _peak_params(case, prefix)
        sup = _foreign_params(case, prefix)
        if set(sup) & set(own):
            raise RuntimeError(f'alphabet error: foreign names {set(sup) & set(own)} clash with prefix {prefix!r}')
        sup.update(own)
        snap_p = {k: v.copy() for k, v in sup.items()}
        rec.transitions += 1
        rec.evals += 1
        rec.validated += 1
        try:
            Fs = mp_.fwhm(sup)
        except Exception as e:  # noqa: BLE001
            clean = False
            rec.viol(site + '.fwhm', 'raises_with_other_models_parameters', f'prefix {prefix!r}: {type(e).__name__}: {e}', prefix=prefix)
            continue
        if any(not sc.identical(sup[k], snap_p[k]) for k in snap_p) or sup.keys() != snap_p.keys():
            rec.viol(site + '.fwhm', 'argument_modified', 'fwhm changed its parameter dict', prefix=prefix)
        if not sc.identical(Fs, F):
            clean = False
            hs = float(Fs.value) / 2.0 if Fs.unit == xu else math.nan
            ratio = float(ps.peak(shape, mu + hs, _plain(case)) / ps.peak(shape, mu, _plain(case))) if math.isfinite(hs) else math.nan
            rec.viol(
                site + '.fwhm', 'foreign_parameters_used',
                f'prefix {prefix!r}: fwhm(own parameters + parameters of other models) = {Fs.value!r} {Fs.unit}, fwhm(own parameters) = {F.value!r} {F.unit}; '
                f'f(loc + fwhm/2)/f(loc) = {ratio:.6g}, expected 0.5', prefix=prefix, foreign=sorted(set(sup) - set(own)),
            )
    if clean:
        rec.cls('fwhm_ignores_foreign_parameters')


# ---------------------------------------------------------------------------------------


def _poly_params(coefs, xu, yu, prefix=''):
    return {f'{prefix}a{i}': sc.scalar(float(a), unit=yu / xu**i) for i, a in enumerate(coefs)}


def run_poly(case, rec):
    site = 'peaks.model.PolynomialModel'
    degree = case['degree']
    coefs = _coef_family(case['family'], degree)
    xu, yu = _unit(case['xunit']), _unit(case['yunit'])
    xs = list(POLY_X)
    if case['dense']:
        xs += [(-1.0) ** j * 1.3 ** (j - 14) for j in range(28)]
    x = sc.array(dims=['x'], values=xs, unit=xu)
    m0 = M.PolynomialModel(degree=degree)
    p0 = _poly_params(coefs, xu, yu)
    snap = _snapshot(x, p0)
    y = m0(x, **p0)
    rec.transitions += 1
    _untouched(rec, site, x, p0, snap)
    if m0.degree != degree:
        rec.viol(site, 'degree', f'degree reported {m0.degree}, constructed with {degree}')
    if y.unit != p0['a0'].unit:
        rec.viol(site, 'wrong_unit', f'result unit {y.unit}, expected unit of a0 = {p0["a0"].unit}')
    else:
        rec.cls('unit_ok')
    if y.dims != x.dims or y.shape != x.shape:
        rec.viol(site, 'wrong_shape', f'result dims {y.dims} shape {y.shape}')
        return
    v = y.values
    rec.observe(v.tobytes())
    ok = True
    for xi, got in zip(xs, v, strict=True):
        want, cond = ps.poly_hp(coefs, xi)
        tol = (2 * degree + 2) * EPS * float(cond)
        err = abs(ps.mpf(float(got)) - want)
        rec.evals += 1
        rec.validated += 1
        if not err <= tol:
            ok = False
            rec.viol(site, 'power_sum', f'degree {degree} coefficients {coefs} at x={xi!r}: got {got!r}, sum a_i x^i = {float(want)!r} (error {float(err):.3e} > {tol:.3e})', x=xi)
        if cond > 0 and abs(want) < 1e-3 * cond:
            rec.cls('poly_cancelling')
    if ok:
        rec.cls('poly_ok')
    if np.any(v != 0):
        rec.nontrivial += 1
    # the abscissa as whole numbers in an integer variable (channel numbers, whole microseconds): same x, same sum
    for idt in ('int64', 'int32'):
        xi_all = [-3, -1, 0, 1, 2, 7, 1000, 56250, 2_100_000, 10_000_000]
        xint = sc.array(dims=['x'], values=np.array(xi_all, dtype=idt), unit=xu, dtype=idt)
        snap_i = _snapshot(xint, p0)
        try:
            yi = m0(xint, **p0)
        except Exception as e:  # noqa: BLE001
            rec.viol(site, 'raises_for_integer_x', f'degree {degree}, x dtype {idt}: {type(e).__name__}: {str(e)[:120]}', dtype=idt)
            continue
        rec.transitions += 1
        _untouched(rec, site, xint, p0, snap_i)
        good = yi.unit == p0['a0'].unit and yi.shape == xint.shape
        for xi, got in zip(xi_all, yi.values if good else [], strict=False):
            want, cond = ps.poly_hp(coefs, float(xi))
            tol = (2 * degree + 2) * EPS * float(cond)
            rec.evals += 1
            rec.validated += 1
            if not abs(ps.mpf(float(got)) - want) <= tol:
                good = False
                rec.viol(site, 'power_sum_integer_x', f'degree {degree} coefficients {coefs} at x={xi} ({idt}): got {got!r}, sum a_i x^i = {float(want)!r}', x=xi, dtype=idt)
                break
        if good:
            rec.cls('poly_integer_x_ok')
    check_orderings(rec, site, m0, p0, xs, v, xu)
    identical = True
    for prefix in PREFIXES[1:]:
        for how in ('ctor', 'with_prefix'):
            mp_ = M.PolynomialModel(degree=degree, prefix=prefix) if how == 'ctor' else m0.with_prefix(prefix)
            pp = _poly_params(coefs, xu, yu, prefix)
            yp = mp_(x, **pp)
            rec.transitions += 1
            rec.states += 1
            rec.evals += 1
            if not sc.identical(yp, y, equal_nan=True):
                identical = False
                rec.viol(site, 'prefix_dependence', f'result with prefix {prefix!r} ({how}) differs', prefix=prefix, how=how)
    if identical:
        rec.cls('prefix_identical')


# ---------------------------------------------------------------------------------------

_PART_VALUES = {
    'poly1': [1.5, -0.25],
    'poly2': [0.75, -1.25, 0.375],
    'poly3': [-2.0, 0.5, 0.125, -0.03125],
    'gaussian': {'amplitude': 4.0, 'loc': 0.75, 'scale': 0.5},
    'lorentzian': {'amplitude': -1.5, 'loc': -0.5, 'scale': 0.25},
    'pseudo_voigt': {'amplitude': 2.5, 'loc': 1.25, 'scale': 0.75, 'fraction': 0.25},
}


def _make_part(name, prefix, xu, yu, tweak=0.0):
    """(model, params with the part's own prefix)."""
    if name.startswith('poly'):
        coefs = [c + tweak for c in _PART_VALUES[name]]
        return M.PolynomialModel(degree=len(coefs) - 1, prefix=prefix), _poly_params(coefs, xu, yu, prefix)
    vals = dict(_PART_VALUES[name])
    vals['loc'] += tweak
    case = {'shape': name, 'xunit': str(xu), 'yunit': str(yu), 'fraction': vals.get('fraction'), **{k: vals[k] for k in ('amplitude', 'loc', 'scale')}}
    return PEAK_CLASSES[name](prefix=prefix), _peak_params(case, prefix)


def _compose(models, nest, prefix):
    if len(models) == 2:
        return M.CompositeModel(models[0], models[1], prefix=prefix)
    if nest == 'left':
        return M.CompositeModel(M.CompositeModel(models[0], models[1]), models[2], prefix=prefix)
    return M.CompositeModel(models[0], M.CompositeModel(models[1], models[2]), prefix=prefix)


def run_composite(case, rec):
    site = 'peaks.model.CompositeModel'
    xu, yu = _unit('angstrom'), _unit('counts')
    # the far points put every peak part more than 100 widths outside on either side
    x = sc.array(dims=['x'], values=np.concatenate([[-200.0, -100.0], np.linspace(-3.0, 4.0, 57), [100.0, 200.0]]), unit=xu)
    names = case['parts']
    scheme = case.get('part_prefixes', 'all')
    part_prefix = [('' if (scheme == 'first_bare' and i == 0) or (scheme == 'last_bare' and i == len(names) - 1) else f'm{i}_') for i in range(len(names))]
    built = [_make_part(nm, part_prefix[i], xu, yu, tweak=0.125 * i) for i, nm in enumerate(names)]
    models = [b[0] for b in built]
    separately = [m(x, **p) for m, p in built]
    rec.transitions += len(built)
    outer = case['outer']
    comp = _compose(models, case['nest'], outer)
    if len(models) == 2:
        via_add = models[0] + models[1]
    elif case['nest'] == 'left':
        via_add = (models[0] + models[1]) + models[2]
    else:
        via_add = models[0] + (models[1] + models[2])
    allp = {}
    for _, p in built:
        allp.update(p)
    params = {outer + k: v for k, v in allp.items()}
    if comp.param_names != set(params):
        rec.viol(site, 'param_names', f'composite parameter names {sorted(comp.param_names)}, expected {sorted(params)}')
        return
    snap = _snapshot(x, params)
    y = comp(x, **params)
    rec.transitions += 1
    _untouched(rec, site, x, params, snap)
    if y.unit != yu:
        rec.viol(site, 'wrong_unit', f'result unit {y.unit}, expected {yu}')
    else:
        rec.cls('unit_ok')
    v = y.values
    rec.observe(v.tobytes())
    pv = np.array([s.values for s in separately])
    want = np.array([math.fsum(col) for col in pv.T])
    scale = np.abs(pv).sum(axis=0)
    err = np.abs(v - want)
    tol = (len(built) + 1) * EPS * scale
    rec.evals += len(v)
    rec.validated += len(v)
    if np.any(~(err <= tol)):
        i = int(np.argmax(err - tol))
        rec.viol(site, 'not_sum_of_parts', f'parts {names} ({case["nest"]}) at x={x.values[i]!r}: composite {v[i]!r}, sum of parts {want[i]!r}', x=float(x.values[i]))
    else:
        rec.cls(f'composite{len(built)}_ok')
    if np.any(v != 0):
        rec.nontrivial += 1
    check_orderings(rec, site, comp, params, x.values, v, xu)
    y2 = via_add(x, **allp)
    rec.transitions += 1
    rec.evals += 1
    if not np.all(np.abs(y2.values - want) <= tol) or y2.unit != yu:
        rec.viol('peaks.model.Model.__add__', 'not_sum_of_parts', f'parts {names} combined with + do not give the sum of the parts')
    # every peak part reports its own width when handed the parameter dict of the whole composite -------
    for (m, p), nm in zip(built, names, strict=True):
        if nm.startswith('poly'):
            continue
        psite = f'peaks.model.{type(m).__name__}.fwhm'
        rec.transitions += 2
        rec.evals += 1
        rec.validated += 1
        try:
            f_own, f_all = m.fwhm(p), m.fwhm(allp)
        except Exception as e:  # noqa: BLE001
            rec.viol(psite, 'raises_with_other_models_parameters', f'part {nm} (prefix {m.prefix!r}) of {names}: {type(e).__name__}: {e}', prefix=m.prefix)
            continue
        if not sc.identical(f_own, f_all):
            rec.viol(psite, 'foreign_parameters_used', f'part {nm} (prefix {m.prefix!r}) of {names}: fwhm(all parameters of the composite) = {f_all.value!r}, fwhm(own parameters) = {f_own.value!r}', prefix=m.prefix)
        else:
            rec.cls('fwhm_ignores_foreign_parameters')
    # renaming: with_prefix(p) must behave exactly like the composite constructed with prefix p ----------
    renamed_ok = True
    data = _guess_data()
    bounds0 = comp.param_bounds
    try:
        guess0 = comp.guess(data)
    except Exception:  # noqa: BLE001 - guessing is judged in the guess cases; here only names are compared
        guess0 = None
    for prefix in _prefixes(case):
        for src_name, src in (('constructed', comp), ('via_add', via_add)):
            if src_name == 'via_add' and outer == '':
                continue  # same object kind as comp
            rn = src.with_prefix(prefix)
            want_names = {prefix + k for k in allp}
            rec.transitions += 2
            rec.states += 1
            rec.evals += 1
            rec.validated += 1
            sub = {'prefix': prefix, 'renamed_from': src.prefix, 'source': src_name}
            if rn.param_names != want_names or rn.prefix != prefix:
                renamed_ok = False
                rec.viol(site + '.with_prefix', 'param_names', f'with_prefix({prefix!r}) of a composite with prefix {src.prefix!r}: names {sorted(rn.param_names)}, expected {sorted(want_names)}', **sub)
                continue
            pp = {prefix + k: v for k, v in allp.items()}
            try:
                yr = rn(x, **pp)
            except Exception as e:  # noqa: BLE001
                renamed_ok = False
                rec.viol(site + '.with_prefix', 'renamed_refuses_own_parameters', f'with_prefix({prefix!r}) of a composite with prefix {src.prefix!r} reports names {sorted(rn.param_names)} but called with exactly those: {type(e).__name__}: {e}', **sub)
                continue
            if not sc.identical(yr, y, equal_nan=True):
                renamed_ok = False
                rec.viol(site + '.with_prefix', 'prefix_dependence', f'with_prefix({prefix!r}) of a composite with prefix {src.prefix!r}: values differ from the composite before renaming', **sub)
            if set(rn.param_bounds) != {prefix + k[len(outer):] for k in bounds0} or any(rn.param_bounds[prefix + k[len(outer):]] != b for k, b in bounds0.items() if prefix + k[len(outer):] in rn.param_bounds):
                renamed_ok = False
                rec.viol(site + '.with_prefix', 'param_bounds', f'with_prefix({prefix!r}): bounds {rn.param_bounds}, before renaming {bounds0}', **sub)
            if guess0 is not None and src_name == 'constructed':
                try:
                    gr = rn.guess(data)
                except Exception as e:  # noqa: BLE001
                    renamed_ok = False
                    rec.viol(site + '.with_prefix', 'guess_raises', f'with_prefix({prefix!r}): guess: {type(e).__name__}: {e}', **sub)
                else:
                    if set(gr) != want_names or any(not sc.identical(gr[prefix + k[len(outer):]], g) for k, g in guess0.items() if prefix + k[len(outer):] in gr):
                        renamed_ok = False
                        rec.viol(site + '.with_prefix', 'guess', f'with_prefix({prefix!r}): guess keys/values differ from the guess before renaming: {sorted(gr)}', **sub)
        # the composite built directly with this prefix
        direct = _compose(models, case['nest'], prefix)
        yd = direct(x, **{prefix + k: v for k, v in allp.items()})
        rec.transitions += 1
        if not sc.identical(yd, y, equal_nan=True):
            renamed_ok = False
            rec.viol(site, 'prefix_dependence', f'composite constructed with prefix {prefix!r}: values differ from the one constructed with {outer!r}', prefix=prefix)
    # renaming must not have touched the original
    if comp.param_names != set(params) or not sc.identical(comp(x, **params), y, equal_nan=True):
        renamed_ok = False
        rec.viol(site + '.with_prefix', 'original_changed', 'with_prefix changed the composite it was called on')
    # a renamed composite used as a part (nested) and renamed leaf parts
    if len(models) == 3:
        inner = (models[0] + models[1]).with_prefix('i_')
        nested = M.CompositeModel(inner, models[2].with_prefix('z_'), prefix=outer)
        np_ = {outer + 'i_' + k: v for k, v in {**built[0][1], **built[1][1]}.items()}
        np_.update({outer + 'z_' + k[len(part_prefix[2]):]: v for k, v in built[2][1].items()})
        rec.transitions += 1
        rec.evals += 1
        try:
            yn = nested(x, **np_)
        except Exception as e:  # noqa: BLE001
            renamed_ok = False
            rec.viol(site + '.with_prefix', 'renamed_refuses_own_parameters', f'composite of a renamed composite and a renamed leaf, names {sorted(nested.param_names)}: {type(e).__name__}: {e}', source='nested')
        else:
            if not np.all(np.abs(yn.values - want) <= tol):
                renamed_ok = False
                rec.viol(site + '.with_prefix', 'not_sum_of_parts', 'composite of a renamed composite and a renamed leaf is not the sum of the parts', source='nested')
    if renamed_ok:
        rec.cls('composite_renamed_ok')
    # same names on both sides must be refused at construction
    try:
        M.CompositeModel(models[0], models[0].with_prefix(part_prefix[0]))
    except ValueError:
        rec.cls('clash_refused')
    else:
        rec.viol(site, 'clash_accepted', 'two parts with identical parameter names were combined without complaint')


# ---------------------------------------------------------------------------------------


def _build_named(name, prefix):
    xu, yu = _unit('angstrom'), _unit('counts')
    if name == 'composite':
        (ml, pl), (mr, pr) = _make_part('poly1', 'b_', xu, yu), _make_part('gaussian', 'g_', xu, yu)
        m = M.CompositeModel(ml, mr, prefix=prefix)
        return m, {prefix + k: v for k, v in {**pl, **pr}.items()}
    return _make_part(name, prefix, xu, yu)


def _expect_refusal(rec, site, what, fn, label, **sub):
    rec.transitions += 1
    rec.evals += 1
    try:
        r = fn()
    except Exception as e:  # noqa: BLE001 - any exception is a refusal (DESIGN 3.3)
        rec.cls(label)
        rec.cls('refused_with_' + type(e).__name__)
        return
    rec.viol(site, 'accepted_' + label.removeprefix('refused_'), f'{what}: accepted, returned unit {getattr(r, "unit", None)}', what=what, **sub)


def run_refuse(case, rec):
    name, prefix = case['model'], case['prefix']
    m, params = _build_named(name, prefix)
    site = f'peaks.model.{type(m).__name__}'
    x = sc.array(dims=['x'], values=np.linspace(-3.0, 4.0, 9), unit='angstrom')
    y = m(x, **params)  # the uncorrupted call must work
    rec.transitions += 1
    if not np.all(np.isfinite(y.values)):
        rec.viol(site, 'not_finite', 'uncorrupted call gave non-finite values')
    rec.observe(y.values.tobytes())
    names = sorted(params)
    tried = 0
    for k in names:
        rest = {q: v for q, v in params.items() if q != k}
        _expect_refusal(rec, site, f'missing {k!r}', lambda rest=rest: m(x, **rest), 'refused_names', prefix=prefix)
        renamed = {**rest, k + 'x': params[k]}
        _expect_refusal(rec, site, f'{k!r} misspelt', lambda renamed=renamed: m(x, **renamed), 'refused_names', prefix=prefix)
        tried += 2
    for extra in ('bogus', prefix + 'bogus', prefix + 'a9', prefix):
        if extra in params or not extra:
            continue
        more = {**params, extra: sc.scalar(1.0)}
        _expect_refusal(rec, site, f'extra {extra!r}', lambda more=more: m(x, **more), 'refused_names', prefix=prefix)
        tried += 1
    _expect_refusal(rec, site, 'no parameters', lambda: m(x), 'refused_names', prefix=prefix)
    if prefix:
        bare = {k[len(prefix) :]: v for k, v in params.items()}
        _expect_refusal(rec, site, 'unprefixed names', lambda: m(x, **bare), 'refused_names', prefix=prefix)
        other = {'q_' + k[len(prefix) :]: v for k, v in params.items()}
        _expect_refusal(rec, site, 'foreign prefix', lambda: m(x, **other), 'refused_names', prefix=prefix)
        doubled = {prefix + k: v for k, v in params.items()}
        _expect_refusal(rec, site, 'prefix applied twice', lambda: m(x, **doubled), 'refused_names', prefix=prefix)
        tried += 3
    # inconsistent units: one parameter at a time in a unit of another dimension
    for k in names:
        v = params[k]
        if k.endswith('fraction'):
            wrong = [sc.scalar(v.value, unit='angstrom')]
        elif k.endswith('amplitude'):
            continue  # any amplitude unit is consistent: it defines the unit of the result
        elif k.endswith(('loc', 'scale')):
            wrong = [sc.scalar(v.value, unit='us'), sc.scalar(v.value, unit='one')]
        elif k.endswith('a0') and name.startswith('poly'):
            wrong = [sc.scalar(v.value, unit='K')]
        elif k.endswith('a0'):
            wrong = [sc.scalar(v.value, unit='K')]  # composite: background in K, peak in counts
        else:  # a1, a2, ...: unit of a0 per power of x
            wrong = [sc.scalar(v.value, unit=params[[q for q in names if q.endswith('a0')][0]].unit)]
        for w in wrong:
            bad = {**params, k: w}
            _expect_refusal(rec, site, f'{k!r} in unit {w.unit}', lambda bad=bad: m(x, **bad), 'refused_units', prefix=prefix)
            tried += 1
    xt = sc.array(dims=['x'], values=x.values, unit='us')
    _expect_refusal(rec, site, 'x in a unit of another dimension', lambda: m(xt, **params), 'refused_units', prefix=prefix)
    rec.states += tried
    rec.nontrivial += 1
    if name == 'poly2':
        for deg in (0, -1):
            _expect_refusal(rec, site, f'degree {deg}', lambda deg=deg: M.PolynomialModel(degree=deg), 'refused_degree')


# ---------------------------------------------------------------------------------------


def _guess_data():
    xs = np.linspace(0.0, 8.0, 81)
    ys = 1.0 + 0.25 * xs + ps.gaussian(xs, 3.0, 4.25, 0.5) + 0.01 * np.cos(7.0 * xs)
    return sc.DataArray(sc.array(dims=['d'], values=ys, unit='counts'), coords={'d': sc.array(dims=['d'], values=xs, unit='angstrom')})


def run_guess(case, rec):
    name = case['model']
    data = _guess_data()
    m0, _ = _build_named(name, '')
    site = f'peaks.model.{type(m0).__name__}'
    g0 = m0.guess(data)
    b0 = m0.param_bounds
    rec.transitions += 2
    if set(g0) != m0.param_names:
        rec.viol(site + '.guess', 'param_names', f'guess returned {sorted(g0)}, model has {sorted(m0.param_names)}')
    for k, v in g0.items():
        rec.observe(k, float(v.value), str(v.unit))
    # the guessed parameters must be usable: the model evaluates with them, in the unit of the data
    y = m0(data.coords['d'], **g0)
    if y.unit != data.unit:
        rec.viol(site + '.guess', 'wrong_unit', f'model evaluated at its own guess has unit {y.unit}, data has {data.unit}')
    else:
        rec.cls('unit_ok')
    if not set(b0) <= m0.param_names:
        rec.viol(site + '.param_bounds', 'param_names', f'bounds for unknown parameters {sorted(set(b0) - m0.param_names)}')
    ok_g = ok_b = True
    for prefix in PREFIXES[1:]:
        for how in ('ctor', 'with_prefix'):
            mp_ = _build_named(name, prefix)[0] if how == 'ctor' else m0.with_prefix(prefix)
            gp = mp_.guess(data)
            bp = mp_.param_bounds
            rec.transitions += 2
            rec.states += 1
            rec.evals += 2
            rec.validated += 2
            if set(gp) != {prefix + k for k in g0} or any(not sc.identical(gp[prefix + k], g0[k]) for k in g0 if prefix + k in gp):
                ok_g = False
                rec.viol(site + '.guess', 'prefix_dependence', f'guess with prefix {prefix!r} ({how}) is not the unprefixed guess under prefixed names: {sorted(gp)}', prefix=prefix, how=how)
            if bp != {prefix + k: v for k, v in b0.items()}:
                ok_b = False
                rec.viol(site + '.param_bounds', 'prefix_dependence', f'bounds with prefix {prefix!r} ({how}): {bp}, unprefixed {b0}', prefix=prefix, how=how)
    if ok_g:
        rec.cls('guess_prefix_ok')
    if ok_b:
        rec.cls('bounds_prefix_ok')
    rec.nontrivial += 1


# ---------------------------------------------------------------------------------------
# histories: whatever has been done with a model object, it is what a freshly constructed model with its
# current prefix is (ref/peakshape.ModelState: names = prefix + base names; only with_prefix changes the prefix)

HIST_PREFIXES = ('', 'q_', 'peak_')
HIST_OPS = ('call', 'names', 'add', 'guess', 'fwhm', 'bounds', 'copy', 'deepcopy') + tuple('with_prefix:' + q for q in HIST_PREFIXES)
_HIST_X = None


def _hist_x():
    global _HIST_X
    if _HIST_X is None:
        _HIST_X = sc.array(dims=['x'], values=[-2.0, 0.5, 0.75, 1.0, 3.5], unit='angstrom')
    return _HIST_X


class _Fresh:
    """Observations of freshly constructed models, one per prefix (the differential side of the oracle)."""

    def __init__(self, name):
        self.name = name
        self.cache = {}

    def get(self, prefix):
        if prefix not in self.cache:
            m, params = _build_named(self.name, prefix)
            base = {k[len(prefix) :]: v for k, v in params.items()}
            self.cache[prefix] = {'model': m, 'base': base, 'values': m(_hist_x(), **params), 'bounds': m.param_bounds, 'guess': m.guess(_guess_data()), 'names': m.param_names}
        return self.cache[prefix]


def _observe_state(rec, site, m, st, fresh, hist, *, with_guess=False, role='current'):
    """Compare the observable state of ``m`` with the reference state ``st`` and with a fresh model of that prefix."""
    sub = {'history': list(hist), 'object': role}
    ok = True
    rec.evals += 1
    rec.validated += 1

    def fail(kind, text):
        nonlocal ok
        ok = False
        rec.viol(site, kind, f'after {" -> ".join(hist) or "construction"} ({role} object, prefix should be {st.prefix!r}): {text}', **sub)

    fr = fresh.get(st.prefix)
    if m.prefix != st.prefix:
        fail('history_prefix', f'prefix is {m.prefix!r}')
    names = m.param_names
    if names != st.param_names or names != fr['names']:
        fail('history_param_names', f'param_names {sorted(names)}, expected {sorted(st.param_names)}')
    own = st.rename(fr['base'])
    try:
        y = m(_hist_x(), **own)
    except Exception as e:  # noqa: BLE001
        fail('history_refuses_own_parameters', f'called with {sorted(own)}: {type(e).__name__}: {e}')
    else:
        if not sc.identical(y, fr['values'], equal_nan=True):
            fail('history_value_differs', 'values differ from those of a freshly constructed model with this prefix')
    for alt in HIST_PREFIXES + ('zz_',):
        if alt == st.prefix:
            continue
        other = {alt + b: v for b, v in fr['base'].items()}
        try:
            m(_hist_x(), **other)
        except Exception:  # noqa: BLE001 - refusal
            pass
        else:
            fail('history_accepts_foreign_names', f'accepted parameters named with prefix {alt!r}: {sorted(other)}')
    if m.param_bounds != fr['bounds']:
        fail('history_bounds', f'param_bounds {m.param_bounds}, fresh model {fr["bounds"]}')
    if with_guess:
        g = m.guess(_guess_data())
        if set(g) != st.param_names or any(not sc.identical(g[k], fr['guess'][k]) for k in g if k in fr['guess']):
            fail('history_guess', f'guess {sorted(g)} differs from the guess of a fresh model')
    return ok


def _run_history(rec, name, prefix0, ops, fresh):
    import copy

    m, _ = _build_named(name, prefix0)
    site = f'peaks.model.{type(m).__name__}'
    st = ps.ModelState(fresh.get('')['base'].keys(), prefix0)
    hist = []
    ok = _observe_state(rec, site, m, st, fresh, hist) if not ops else True
    for op in ops:
        hist.append(op)
        rec.transitions += 1
        fr = fresh.get(st.prefix)
        own = st.rename(fr['base'])
        try:
            if op == 'call':
                m(_hist_x(), **own)
            elif op == 'names':
                m.param_names.add('scribble')  # the returned set is the caller's
            elif op == 'add':
                other = M.PolynomialModel(degree=1, prefix='zz_')
                comp = m + other
                want = st.param_names | other.param_names
                if comp.param_names != want:
                    ok = False
                    rec.viol(site, 'history_param_names', f'after {" -> ".join(hist)}: m + other has names {sorted(comp.param_names)}, expected {sorted(want)}', history=list(hist), object='sum')
            elif op == 'guess':
                m.guess(_guess_data())
            elif op == 'fwhm':
                try:
                    m.fwhm(own)
                except NotImplementedError:
                    if name in PEAK_CLASSES:
                        raise
            elif op == 'bounds':
                m.param_bounds['scribble'] = (0.0, 1.0)
            elif op == 'copy':
                m = copy.copy(m)
            elif op == 'deepcopy':
                m = copy.deepcopy(m)
            elif op.startswith('with_prefix:'):
                new = op.split(':', 1)[1]
                old_m, old_st = m, st
                m = m.with_prefix(new)
                ok &= _observe_state(rec, site, old_m, old_st, fresh, hist, role='renamed-from')
            else:
                raise ValueError(op)
        except Exception as e:  # noqa: BLE001
            ok = False
            rec.viol(site, 'history_operation_raises', f'after {" -> ".join(hist[:-1]) or "construction"}: {op} raised {type(e).__name__}: {e}', history=list(hist))
            return False
        st = st.after(*op.split(':', 1)) if op.startswith('with_prefix:') else st.after(op)
        ok &= _observe_state(rec, site, m, st, fresh, hist, with_guess=(op == 'guess' or len(hist) == len(ops)))
        rec.states += 1
    return ok


def run_history(case, rec):
    name, prefix0, depth = case['model'], case['prefix0'], case['depth']
    fresh = _Fresh(name)
    all_ok = True
    count = 0
    for rest in itertools.product(HIST_OPS, repeat=depth - 1):
        ops = (case['first'], *rest)
        all_ok &= _run_history(rec, name, prefix0, ops, fresh)
        count += 1
        if any(o.startswith('with_prefix:') and o.split(':', 1)[1] != prefix0 for o in ops[1:]) and ops[0] in ('call', 'names', 'add', 'guess', 'bounds', 'fwhm'):
            rec.cls('history_use_then_rename')
    rec.observe(count)
    rec.nontrivial += 1
    if all_ok:
        rec.cls('history_state_ok')


def run_case(case, rec):
    kind = case['kind']
    if kind == 'peak':
        run_peak(case, rec)
    elif kind == 'poly':
        run_poly(case, rec)
    elif kind == 'composite':
        run_composite(case, rec)
    elif kind == 'refuse':
        run_refuse(case, rec)
    elif kind == 'guess':
        run_guess(case, rec)
    elif kind == 'history':
        run_history(case, rec)
    else:
        raise ValueError(kind)
