"""C15 - XYE files round-trip coordinate and values bit-for-bit, variances to a few ulp;
header text never interferes with the table; unrepresentable data is refused.

Shape G (values x variances x coordinate values x rows x target) + P (headers: every
ASCII character in three templates; coordinate sets; refusal family: every combination
of one or two defects).  Oracle: bit patterns of the loaded arrays, the text of the
file as a line-oriented reader sees it, a refusal table, path vs file-object text.
"""
from __future__ import annotations

import itertools
import os
import shutil
import struct
import tempfile
from io import StringIO
from pathlib import Path

import numpy as np
import scipp as sc
from scippneutron.io.xye import load_xye, save_xye

ID = 'C15'
LEVEL = 'model_checking'
RULE = (
    'grid: every (coordinate value, data value, variance) triple of the alphabets as a one-row file and in every row '
    'position of 2- and 3-row files, long files cycling through all triples, x 4 targets (StringIO, str path, Path, open '
    'file handle); headers: default header x units x coordinate names, the fixed header list, and every ASCII character '
    '0..127 in the templates "a<c>b", "<c>", "a<c>1 2 3"; coordinate sets: 1..5 coords x dimension-coordinate present or '
    'not x explicit coord=each name or deduced x memory layout; refusal family: every compatible combination of one or '
    'two of 7 defects x explicit/deduced coord x rows 1/3 x target; alignment: every subset of {dimension-coordinate, 1-d '
    'coord a, 1-d coord b, scalar coord} x every aligned/unaligned assignment x coord=None / each name x rows 1/3, data '
    'built directly and as a row sliced out of 2-d data (unaligned scalar left behind), judged by the docstring rule '
    '(ambiguity counted over all coordinates, alignment irrelevant, a 0-d coordinate cannot be X); target representation: '
    'str / Path x suffix {.xye, .dat, none, .gz, .bz2, .xz, .GZ, .xye.gz} x {no file, longer valid file, garbage} before '
    'the save, open handle x 3 suffixes, StringIO, rows 1/3/40: round trip, directory holds only the target, bytes on disk '
    '(after gzip/bz2/lzma for the suffixes numpy honours) equal the text written to a StringIO.  Thorough tier in addition: (1) the full product of a '
    '119-value x 83-variance alphabet (signed zeros, subnormal/normal boundary, extremes, 1 +- ulp, decimal classics, powers of '
    'ten; exact and inexact square roots) at every row position of 1..4-row tables x 12 targets; (2) bit-pattern families: '
    'every power of two 2^-1074..2^1023 with both neighbours and both signs, 120 000 numbers each with 15 / 16 / 17 significant '
    'decimal digits and with a 17-digit shortest repr, 7 000 exact and 8 436 inexact square roots, a mantissa walk over '
    'every 4th exponent; (3) all-distinct tables of 1e4 and 1e5 rows (4 bit-mixing sequences) x 12 targets; (4) headers: every '
    'string of length 0..5 over {#, space, LF, CR, 1, a} for all targets, 0..6 for six targets, 0..7 for a str path; every '
    'control character 0x01..0x1f, 0x7f alone and in ordered pairs in 5 templates (and in the coordinate name of the default '
    'header); headers up to 1e6 characters / 20 000 lines, leading/trailing newlines, CR / CRLF / mixed breaks, # at every '
    'position, numeric-looking lines with 1..5 columns after every break character; (5) coordinate sets with 1/2/4 rows on '
    'all 12 targets and float32 / int64 / int32 coordinates; (6) histories on one target: 2 or 12 overwrites with other data '
    'of identical byte size, natural / identical / older mtime, each state loaded twice with the first result scribbled '
    'over, and a longer file replaced by a shorter one; (7) the refusal family on all 12 targets.  Targets: StringIO, str '
    'path, Path, handles opened w / a / x / w+ (w+ read back through the same handle), paths ending .gz .bz2 .xz, without '
    'suffix, with several dots.  A case is non-trivial when a file is written and loaded back or a refusal is demanded; '
    'distinct = distinct configuration hashes'
)
ASSUMPTIONS = [
    'numpy text formatting/parsing (np.savetxt / np.loadtxt) and scipp are the trusted base',
    'finite float64 values, variances >= 0',
    'files are read back the way load_xye reads them (text mode, universal newlines for paths and plain open(); StringIO without translation)',
    '"a few units in the last place" = 4 ulp measured on the bit pattern',
    'refused = any exception and nothing written to the target',
    'which coordinate is written when coord is omitted follows the save_xye docstring (the only coordinate; else the one named like the '
    'dimension; else refuse) irrespective of alignment flags; a 0-d coordinate named explicitly or as only coordinate is refused (as the code does)',
    'numpy decides compression from the case-sensitive suffix .gz/.bz2/.xz of a path it opens itself; handles and other suffixes hold plain text',
    'thorough: paths ending .gz/.bz2/.xz are compressed by numpy on both sides (text checks skipped there); file handles '
    'only in modes that start from an empty file (w, a on a new file, x, w+); float32/int coordinates must come back as '
    'exactly the number they hold; time stamps of the file are set with os.utime in the overwrite histories (content, not '
    'mtime, decides what a load returns)',
]
BOUND = {
    'quick': 'all 11x11x10 one-row triples; 2/3-row windows; 1000/1024/2048 rows; 53 fixed (incl. 40 already-commented first lines followed by uncommented ones) + 384 ASCII-template headers; 1..5 coords; all 1- and 2-defect refusals; '
             'all 16 coordinate subsets x 81 alignment assignments x coord choices x 2 productions (2 376 calls per target); 58 target representation x suffix x pre-existing-file cases',
    'thorough': 'quick bound plus: 119x83 value/variance product at every position of 1..4 rows x 12 targets (1.19e6 round trips); '
                '6 294 powers of two +- 1 ulp, 4 x 120 000 decimal-digit numbers, 15 436 square-root cases, 18 432 mantissa patterns; '
                '1e4- and 1e5-row all-distinct tables; all header strings up to length 5/6/7 over a 6-letter alphabet, 32 control '
                'characters singly and in all 1 024 ordered pairs x 5 templates, headers up to 1e6 characters; 1..5 coords x rows 1/2/4 x '
                '12 targets x 3 extra coordinate dtypes; overwrite / reload histories up to 12 rounds; refusals on 12 targets',
}
_REQUIRED_QUICK = [
    'history_after_other_coord_dtype_ok', 'roundtrip_ok', 'rows_1', 'rows_2_3', 'rows_long', 'target_sio', 'target_path_str', 'target_path_obj', 'target_fh',
    'var_exact', 'var_off_by_ulps', 'value_subnormal', 'value_negzero', 'value_extreme',
    'header_default', 'header_empty', 'header_multiline', 'header_hash', 'header_numeric_looking',
    'coord_deduced_single', 'coord_deduced_dimcoord', 'coord_explicit', 'refused_ambiguous',
    'refused_novar', 'refused_edges', 'refused_mask', 'refused_ndim0', 'refused_ndim2', 'refused_nocoord',
    'layout_strided', 'layout_slice',
    'refused_scalar_coord', 'ambiguous_with_exactly_one_aligned', 'ambiguous_all_unaligned', 'alignment_written_explicit',
    'alignment_written_deduced', 'alignment_unaligned_coord_written', 'alignment_scalar_realigned', 'production_direct', 'production_slice_of_2d',
    'suffix_.xye', 'suffix_.dat', 'suffix_none', 'suffix_.gz', 'suffix_.bz2', 'suffix_.xz', 'suffix_.GZ', 'suffix_.xye.gz',
    'preexisting_none', 'preexisting_longer_valid', 'preexisting_garbage', 'disk_compressed_readable', 'target_rep_ok',
]
REQUIRED_CLASSES = {
    'quick': _REQUIRED_QUICK,
    'thorough': [
        *_REQUIRED_QUICK, 'rows_4', 'position_first', 'position_middle', 'position_last', 'rows_10000', 'rows_100000',
        'bits_pow2', 'bits_dec15', 'bits_dec16', 'bits_dec17', 'bits_repr17', 'bits_sqrt_exact', 'bits_sqrt_inexact', 'bits_mantissa_walk',
        'header_control_char', 'header_cr', 'header_very_long', 'ctrl_pair_via_header', 'ctrl_pair_via_coord_name',
        'header_numeric_columns_1', 'header_numeric_columns_5', 'target_fh_a', 'target_fh_x', 'target_fh_wplus', 'target_path_gz',
        'target_path_bz2', 'target_path_xz', 'target_path_nosuffix', 'coord_dtype_float32', 'coord_dtype_int64', 'coord_dtype_int32',
        'overwrite_natural', 'overwrite_same_mtime', 'overwrite_older_mtime', 'overwrite_longer_file', 'loaded_twice',
    ],
}

F64_MAX = 1.7976931348623157e308
VALUES = [0.1, -0.1, 1 / 3, 5e-324, 2.2e-308, 1.797e308, 1e-5, -1.5, 0.0, -0.0, -F64_MAX]  # 11
COORDS = [0.0, 1.0, -2.5, 1 / 3, 1e-5, 5e-324, -2.2e-308, 1.797e308, 123456.789, -0.1, 6.02214076e23]  # 11
VARS = [5e-324, 1e-310, 1e-20, 0.3, 2.0, 1e300, 0.0, F64_MAX, 1.0, 2.5e-323]  # 10
# for the cyclic long files the three cycle lengths must be pairwise coprime
CYC_V, CYC_C, CYC_E = VALUES, COORDS[:9], VARS  # 11, 9, 10 -> period 990
TARGETS = ('sio', 'path_str', 'path_obj', 'fh')
FIXED_HEADERS = ['', 'x', 'a\nb', '# x', 'a\n\nb', '1 2 3', 'a\rb', '#' * 80, 'a\r\nb', '\n', '1 2 3\n4 5 6', 'x\n', 'a\r1 2 3']
# round 6: headers that already look commented out (copied from an existing file, or in another format's comment style)
# followed by further lines that are not - every line of the header must still end up behind the comment marker
FIXED_HEADERS += [pre + tail for pre in ('# ', '#', '## ', ' # ', '% ', '; ', '// ', '#\t') for tail in ('a\nb', 'a\n1 2 3', '1 2 3\n4 5 6', 'a\r7 8 9', '\n1 2 3')]
TEMPLATES = ('a{c}b', '{c}', 'a{c}1 2 3')
DEFECTS = ('novar', 'edges', 'mask', 'ndim0', 'ndim2', 'nocoord', 'ambiguous')
INCOMPATIBLE = {
    frozenset(p)
    for p in [('ndim0', 'ndim2'), ('ndim0', 'edges'), ('nocoord', 'edges'), ('nocoord', 'ambiguous')]
}
ULP_TOL = 4
CHUNK = 6  # cases per work item: thorough cases are coarse (hundreds of round trips each)


def cases(tier):
    out = []
    for tgt in TARGETS:
        for ci in range(len(COORDS)):
            out.append({'kind': 'one_row', 'target': tgt, 'coord_index': ci})
    for tgt in TARGETS:
        for n in (2, 3):
            out.append({'kind': 'windows', 'target': tgt, 'rows': n})
    # row counts around sizes at which a block-wise formatter would switch (multiples of 1024) besides the round numbers
    longs = [1000, 1024, 2048] + ([4096, 8192, 10000, 65536] if tier == 'thorough' else [])
    for tgt in TARGETS:
        for n in longs:
            out.append({'kind': 'long', 'target': tgt, 'rows': n})
    # call history: a table with an integer-typed (then a float32) coordinate is saved first, then ordinary float64 data
    for tgt in TARGETS:
        for first in ('int64', 'int32', 'float32'):
            out.append({'kind': 'history', 'target': tgt, 'first_coord_dtype': first})
    # default header: units x coordinate names
    for cname in ('x', 'two words', 'a\nb', '#', '1 2 3', 'a\r7 8 9'):
        for cu in (None, 'one', 'angstrom', 'us'):
            for du in (None, 'counts', 'one'):
                for tgt in ('sio', 'path_str', 'fh'):
                    out.append({'kind': 'header', 'header': None, 'coord_name': cname, 'coord_unit': cu, 'unit': du, 'target': tgt, 'rows': 2})
    hdrs = list(FIXED_HEADERS)
    for c in range(128):
        for t in TEMPLATES:
            h = t.format(c=chr(c))
            if h not in hdrs:
                hdrs.append(h)
    for h in hdrs:
        for tgt in TARGETS:
            for n in (1, 3):
                if tier == 'quick' and n == 3 and tgt in ('path_obj',) and h not in FIXED_HEADERS:
                    continue
                out.append({'kind': 'header', 'header': h, 'coord_name': 'x', 'coord_unit': 'one', 'unit': 'one', 'target': tgt, 'rows': n})
    # coordinate sets
    for k in range(1, 6):
        for dimcoord in (False, True):
            names = _coord_names(k, dimcoord)
            for explicit in [None, *names]:
                for layout in ('own', 'slice', 'strided'):
                    for tgt in ('sio', 'path_str'):
                        out.append({'kind': 'coords', 'n_coords': k, 'dimcoord': dimcoord, 'explicit': explicit, 'layout': layout, 'target': tgt, 'rows': 3})
    # refusal family
    combos = [(d,) for d in DEFECTS] + [p for p in itertools.combinations(DEFECTS, 2) if frozenset(p) not in INCOMPATIBLE]
    for combo in combos:
        for explicit in (False, True):
            if explicit and ('ambiguous' in combo or 'nocoord' in combo):
                continue  # with coord= given the deduction is not exercised / there is nothing to name
            for n in (1, 3):
                for tgt in ('sio', 'path_str', 'fh'):
                    out.append({'kind': 'refusal', 'defects': list(combo), 'explicit': explicit, 'rows': n, 'target': tgt})
    # coordinate sets x alignment flags: every subset of {dimension-coordinate, 1-d coord a, 1-d coord b, scalar coord}
    for k in range(5):
        for subset in itertools.combinations(COORD_KINDS, k):
            for production in ('direct', 'slice_of_2d'):
                for tgt in ('sio', 'path_str'):
                    out.append({'kind': 'alignment', 'subset': list(subset), 'production': production, 'target': tgt})
    # target representation x file-name suffix x pre-existing file
    for rep in ('path_str', 'path_obj'):
        for suffix in SUFFIXES:
            for pre in PREEXISTING:
                out.append({'kind': 'target_rep', 'target': rep, 'suffix': suffix, 'preexisting': pre})
    for suffix in ('.xye', '.gz', ''):
        for pre in PREEXISTING:
            out.append({'kind': 'target_rep', 'target': 'fh', 'suffix': suffix, 'preexisting': pre})
    out.append({'kind': 'target_rep', 'target': 'sio', 'suffix': '', 'preexisting': 'none'})
    if tier == 'thorough':
        out.extend(_thorough_cases())
    return out


def _coord_names(k, dimcoord):
    names = ['c%d' % i for i in range(k)]
    if dimcoord:
        names[k // 2] = 'x'  # the dimension-coordinate is neither first nor last where possible
    return names


# ---------------------------------------------------------------------------------------


def bits(x: float) -> int:
    return struct.unpack('<q', struct.pack('<d', float(x)))[0]


def ulp_distance(a: float, b: float) -> int:
    """Distance on the bit pattern (both non-negative finite doubles)."""
    return abs(bits(a) - bits(b))


class Target:
    """One way of handing a destination to save_xye / a source to load_xye."""

    SUFFIX = {'path_gz': '.gz', 'path_bz2': '.bz2', 'path_xz': '.xz', 'path_nosuffix': '', 'path_dots': '.v1.2.dat'}

    def __init__(self, kind, tmpdir):
        self.kind = kind
        self.path = os.path.join(tmpdir, 'f' + self.SUFFIX.get(kind, '.xye'))
        self.sio = None
        self.handle = None
        self.compressed = kind in ('path_gz', 'path_bz2', 'path_xz')

    def save(self, da, **kw):
        if self.kind == 'sio':
            self.sio = StringIO()
            save_xye(self.sio, da, **kw)
        elif self.kind == 'path_obj':
            save_xye(Path(self.path), da, **kw)
        elif self.kind.startswith('path_'):
            save_xye(self.path, da, **kw)
        elif self.kind == 'fh_wplus':
            self._close()
            self.handle = open(self.path, 'w+')  # noqa: SIM115 - kept open: loaded back through the same handle
            save_xye(self.handle, da, **kw)
        else:
            with open(self.path, {'fh': 'w', 'fh_a': 'a', 'fh_x': 'x'}[self.kind]) as f:
                save_xye(f, da, **kw)

    def load(self, **kw):
        if self.kind == 'sio':
            self.sio.seek(0)
            return load_xye(self.sio, **kw)
        if self.kind == 'path_obj':
            return load_xye(Path(self.path), **kw)
        if self.kind.startswith('path_'):
            return load_xye(self.path, **kw)
        if self.kind == 'fh_wplus':
            self.handle.seek(0)
            return load_xye(self.handle, **kw)
        with open(self.path) as f:
            return load_xye(f, **kw)

    def _close(self):
        if self.handle is not None:
            self.handle.close()
            self.handle = None

    def raw_text(self):
        """Characters written, without newline translation."""
        if self.kind == 'sio':
            return self.sio.getvalue() if self.sio is not None else ''
        if not os.path.exists(self.path):
            return None
        if self.handle is not None:
            self.handle.flush()
        with open(self.path, newline='', encoding='utf-8') as f:
            return f.read()

    def lines(self):
        """Lines as a line-oriented text reader of this kind of source sees them."""
        if self.kind == 'sio':
            text = self.sio.getvalue()
        else:
            if self.handle is not None:
                self.handle.flush()
            with open(self.path, encoding='utf-8') as f:  # universal newlines, like np.loadtxt on a path
                text = f.read()
        ls = text.split('\n')
        if ls and ls[-1] == '':
            ls.pop()
        return ls

    def nothing_written(self):
        if self.kind == 'sio':
            return self.sio is None or self.sio.getvalue() == ''
        if self.kind.startswith('fh'):
            if self.handle is not None:
                self.handle.flush()
            return (not os.path.exists(self.path)) or os.path.getsize(self.path) == 0
        return not os.path.exists(self.path)

    def reset(self):
        self.sio = None
        self._close()
        if os.path.exists(self.path):
            os.remove(self.path)


def make_da(xs, ys, es, *, dim='x', coord_name='x', unit='one', coord_unit='one'):
    return sc.DataArray(
        sc.array(dims=[dim], values=np.asarray(ys, dtype='float64'), variances=np.asarray(es, dtype='float64'), unit=unit),
        coords={coord_name: sc.array(dims=[dim], values=np.asarray(xs, dtype='float64'), unit=coord_unit)},
    )


def judge_roundtrip(rec, case, tgt, da, xs, ys, es, *, header_kw, coord_kw=None, load_coord=None, coord_name='x',
                    dim='x', unit='one', coord_unit='one', sub=None, check_text=True, keep_existing=False):
    """save -> (text checks) -> load -> bitwise / ulp comparison.  Returns True if all fine.

    ``keep_existing``: do not clear the target first (it holds an older file that the save must replace).
    """
    sub = dict(sub or {})
    n = len(xs)
    kw = dict(header_kw)
    if coord_kw is not None:
        kw['coord'] = coord_kw
    rec.transitions += 1
    if not keep_existing:
        tgt.reset()
    try:
        tgt.save(da, **kw)
    except Exception as e:  # noqa: BLE001 - saving representable data must work
        rec.viol('save_xye', 'raises_on_representable', f'{type(e).__name__}: {e}', **sub)
        rec.evals += 1
        return False
    ok = True
    if check_text and not tgt.compressed:
        lines = tgt.lines()
        data_idx = [i for i, ln in enumerate(lines) if not ln.startswith('#')]
        if data_idx != list(range(len(lines) - n, len(lines))):
            bad = [lines[i] for i in data_idx if i < len(lines) - n][:2]
            rec.viol('save_xye', 'header_line_not_commented',
                     f'{len(data_idx)} lines without leading "#" for {n} rows; stray: {bad!r}', **sub)
            ok = False
        else:
            for i in data_idx:
                toks = lines[i].split(' ')
                try:
                    good = len(toks) == 3 and all(np.isfinite(float(t)) for t in toks)
                except ValueError:
                    good = False
                if not good:
                    rec.viol('save_xye', 'table_row_malformed', f'row {lines[i]!r}', **sub)
                    ok = False
                    break
        if tgt.kind != 'sio':
            ref = StringIO()
            save_xye(ref, da, **kw)
            rec.transitions += 1
            if ref.getvalue() != tgt.raw_text():
                rec.viol('save_xye', 'path_vs_fileobject_text', 'text written to the path differs from text written to StringIO', **sub)
                ok = False
        rec.validated += 1
    rec.transitions += 1
    try:
        out = tgt.load(dim=dim, unit=unit, coord_unit=coord_unit, **({'coord': load_coord} if load_coord is not None else {}))
    except Exception as e:  # noqa: BLE001 - a file the package wrote itself must load
        rec.viol('save_xye+load_xye', 'load_raises', f'{type(e).__name__}: {e}', **sub)
        rec.evals += 1
        return False
    rec.evals += 1
    name = load_coord if load_coord is not None else dim
    if out.dims != (dim,) or out.shape != (n,):
        rec.viol('save_xye+load_xye', 'row_count', f'loaded dims {out.dims} shape {out.shape}, saved {n} rows', **sub)
        return False
    if list(out.coords.keys()) != [name] or out.coords[name].dims != (dim,):
        rec.viol('save_xye+load_xye', 'coord_name', f'loaded coords {list(out.coords.keys())}, expected [{name!r}]', **sub)
        return False
    want_unit = None if unit is None else sc.Unit(unit)
    want_cunit = None if coord_unit is None else sc.Unit(coord_unit)
    if out.unit != want_unit or out.coords[name].unit != want_cunit:
        rec.viol('save_xye+load_xye', 'unit', f'units {out.unit}/{out.coords[name].unit}', **sub)
        ok = False
    gx, gy, ge = out.coords[name].values, out.values, out.variances
    rec.observe(gx.tobytes(), gy.tobytes(), ge.tobytes())
    if out.dtype != sc.DType.float64 or out.coords[name].dtype != sc.DType.float64 or ge is None:
        rec.viol('save_xye+load_xye', 'dtype', f'{out.dtype}, variances {ge is not None}', **sub)
        return False
    ax, ay, ae = (np.asarray(a, dtype='float64') for a in (xs, ys, es))
    if gx.tobytes() != ax.tobytes():
        i = next(i for i in range(n) if bits(gx[i]) != bits(ax[i]))
        rec.viol('save_xye+load_xye', 'coord_not_bitwise', f'row {i}: saved {float(ax[i]).hex()} loaded {float(gx[i]).hex()}', row=i, **sub)
        ok = False
    if gy.tobytes() != ay.tobytes():
        i = next(i for i in range(n) if bits(gy[i]) != bits(ay[i]))
        rec.viol('save_xye+load_xye', 'value_not_bitwise', f'row {i}: saved {float(ay[i]).hex()} loaded {float(gy[i]).hex()}', row=i, **sub)
        ok = False
    be = ge.view('int64') - ae.view('int64')
    worst = int(np.abs(be).max()) if n else 0
    if not np.all(np.isfinite(ge)) or np.any(ge < 0) or worst > ULP_TOL:
        i = int(np.argmax(np.abs(be)))
        rec.viol('save_xye+load_xye', 'variance_ulp', f'row {i}: variance {float(ae[i])!r} loaded {float(ge[i])!r} ({int(be[i])} ulp)', row=i, **sub)
        ok = False
    rec.cls('var_exact', int(np.count_nonzero(be == 0)))
    rec.cls('var_off_by_ulps', int(np.count_nonzero(be != 0)))
    rec.validated += 1
    if ok:
        rec.cls('roundtrip_ok')
    return ok


def _value_classes(rec, ys):
    for y in ys:
        if y != 0 and abs(y) < 2.2250738585072014e-308:
            rec.cls('value_subnormal')
        if y == 0 and bits(y) != 0:
            rec.cls('value_negzero')
        if abs(y) > 1e308:
            rec.cls('value_extreme')


def run_case(case, rec):
    tmp = tempfile.mkdtemp(prefix='verif-c15-')
    tgt = Target(case['target'], tmp)
    try:
        _run(case, rec, tgt)
    finally:
        tgt._close()
        shutil.rmtree(tmp, ignore_errors=True)


def _run(case, rec, tgt):
    kind = case['kind']
    rec.cls('target_' + case['target'])
    if kind == 'one_row':
        x = COORDS[case['coord_index']]
        for y in VALUES:
            for e in VARS:
                da = make_da([x], [y], [e])
                judge_roundtrip(rec, case, tgt, da, [x], [y], [e], header_kw={}, sub={'x': x, 'y': y, 'variance': e})
                rec.states += 1
                rec.nontrivial += 1
                rec.cls('rows_1')
            _value_classes(rec, [y])
    elif kind == 'history':
        first = make_da([1.0, 2.0, 3.0], [0.5, 1.5, 2.5], [0.1, 0.2, 0.3])
        first.coords['x'] = sc.array(dims=['x'], values=[1, 2, 3], unit='one', dtype=case['first_coord_dtype'])
        rec.transitions += 1
        try:
            tgt.save(first)
        except Exception:  # noqa: BLE001 - whether such a coordinate is accepted is not the point here
            rec.cls('history_first_save_refused')
        xs, ys, es = [2.047, 3.180125, 6.0923], [0.1, 1 / 3, -1.5], [0.3, 2.0, 1e-20]
        da = make_da(xs, ys, es)
        if judge_roundtrip(rec, case, tgt, da, xs, ys, es, header_kw={}, sub={'first_coord_dtype': case['first_coord_dtype']}):
            rec.cls('history_after_other_coord_dtype_ok')
        rec.states += 1
        rec.nontrivial += 1
    elif kind in ('windows', 'long'):
        n = case['rows']
        period = len(CYC_V) * len(CYC_C) * len(CYC_E)
        offsets = range(period) if kind == 'windows' else (0, 7)
        for off in offsets:
            idx = [off + i for i in range(n)]
            xs = [CYC_C[i % len(CYC_C)] for i in idx]
            ys = [CYC_V[i % len(CYC_V)] for i in idx]
            es = [CYC_E[i % len(CYC_E)] for i in idx]
            da = make_da(xs, ys, es)
            judge_roundtrip(rec, case, tgt, da, xs, ys, es, header_kw={}, sub={'offset': off}, check_text=(off % 30 == 0))
            rec.states += 1
            rec.nontrivial += 1
            rec.cls('rows_2_3' if kind == 'windows' else 'rows_long')
        _value_classes(rec, CYC_V)
    elif kind == 'header':
        n = case['rows']
        xs, ys, es = COORDS[1 : 1 + n], VALUES[:n], VARS[3 : 3 + n]
        cname = case['coord_name']
        da = make_da(xs, ys, es, coord_name=cname, unit=case['unit'], coord_unit=case['coord_unit'])
        h = case['header']
        judge_roundtrip(rec, case, tgt, da, xs, ys, es, header_kw={} if h is None else {'header': h}, coord_name=cname,
                        load_coord=cname, unit=case['unit'], coord_unit=case['coord_unit'])
        rec.nontrivial += 1
        rec.cls('rows_1' if n == 1 else 'rows_2_3')
        if h is None:
            rec.cls('header_default')
        else:
            if h == '':
                rec.cls('header_empty')
            if '\n' in h:
                rec.cls('header_multiline')
            if '#' in h:
                rec.cls('header_hash')
            if '1 2 3' in h:
                rec.cls('header_numeric_looking')
    elif kind == 'coords':
        _run_coords(case, rec, tgt)
    elif kind == 'refusal':
        _run_refusal(case, rec, tgt)
    elif kind == 'alignment':
        _run_alignment(case, rec, tgt)
    elif kind == 'target_rep':
        _run_target_rep(case, rec, tgt)
    elif kind in THOROUGH_RUNNERS:
        THOROUGH_RUNNERS[kind](case, rec, tgt)
    else:
        raise ValueError(kind)


def _layout(da, layout):
    """Same content, different memory layout."""
    if layout == 'own':
        return da
    n = da.sizes['x']
    if layout == 'slice':
        pad = sc.concat([da['x', :1], da, da['x', -1:]], 'x')
        out = pad['x', 1 : n + 1]
        return out
    # strided: column 1 of a 2-d array with 'x' as the outer dimension
    wide = sc.concat([da * 0.0 + 7.0, da, da * 0.0 - 7.0], 'y').transpose(['x', 'y']).copy()
    out = wide['y', 1]
    for name in list(out.coords):
        if out.coords[name].dims != ('x',):
            del out.coords[name]
    return out


def _run_coords(case, rec, tgt):
    n = case['rows']
    k, dimcoord, explicit = case['n_coords'], case['dimcoord'], case['explicit']
    names = _coord_names(k, dimcoord)
    ys, es = VALUES[:n], VARS[3 : 3 + n]
    cdtype = case.get('coord_dtype', 'float64')
    if cdtype == 'float64':
        table = {name: [COORDS[(3 * j + i) % len(COORDS)] + j for i in range(n)] for j, name in enumerate(names)}
    else:
        # other coordinate dtypes: the file must hold exactly the number the coordinate holds (as float64)
        src = INT_COORDS if cdtype.startswith('int') else F32_COORDS
        table = {name: [float(np.dtype(cdtype).type(src[(3 * j + i) % len(src)])) for i in range(n)] for j, name in enumerate(names)}
        rec.cls('coord_dtype_' + cdtype)
    da = make_da(table[names[0]], ys, es, coord_name=names[0])
    for name in names[1:]:
        da.coords[name] = sc.array(dims=['x'], values=np.asarray(table[name]), unit='one')
    if cdtype != 'float64':
        for name in names:
            da.coords[name] = da.coords[name].to(dtype=cdtype, copy=True)
            if [float(v) for v in da.coords[name].values] != table[name]:
                raise RuntimeError('harness: coordinate values not representable in ' + cdtype)
    da = _layout(da, case['layout'])
    if set(da.coords.keys()) != set(names):
        raise RuntimeError('harness: layout changed the coordinate set')
    rec.cls('layout_' + case['layout'])
    if explicit is not None:
        chosen, cls = explicit, 'coord_explicit'
    elif k == 1:
        chosen, cls = names[0], 'coord_deduced_single'
    elif dimcoord:
        chosen, cls = 'x', 'coord_deduced_dimcoord'
    else:
        chosen, cls = None, 'refused_ambiguous'
    rec.nontrivial += 1
    if chosen is None:
        _expect_refusal(rec, tgt, da, {}, ['ambiguous'])
        return
    rec.cls(cls)
    # load under the default name (dim) when the dimension-coordinate was written, else under the chosen name
    load_coord = None if chosen == 'x' else chosen
    judge_roundtrip(rec, case, tgt, da, table[chosen], ys, es, header_kw={}, coord_kw=explicit, load_coord=load_coord)


def _expect_refusal(rec, tgt, da, kw, defects, **sub):
    rec.transitions += 1
    tgt.reset()
    try:
        tgt.save(da, **kw)
    except Exception as e:  # noqa: BLE001 - "refused" accepts any exception (DESIGN 3.3)
        rec.observe(type(e).__name__)
        if not tgt.nothing_written():
            rec.viol('save_xye', 'refused_but_wrote', f'raised {type(e).__name__} but left {tgt.raw_text()[:80]!r} in the target', defects=defects, **sub)
        else:
            rec.cls('refused')
            for d in defects:
                rec.cls('refused_' + d)
    else:
        rec.viol('save_xye', 'not_refused', f'data with defects {defects} was written: {(tgt.raw_text() or "")[:120]!r}', defects=defects, **sub)
    rec.evals += 1
    rec.validated += 1


def _run_refusal(case, rec, tgt):
    n = case['rows']
    defects = case['defects']
    xs, ys, es = COORDS[1 : 1 + n], VALUES[:n], VARS[3 : 3 + n]
    da = make_da(xs, ys, es)
    chosen = 'x'
    if 'ambiguous' in defects:
        da.coords['a'] = da.coords.pop('x')
        da.coords['b'] = da.coords['a'] + 1.0
        chosen = 'a'
    if 'edges' in defects:
        da.coords[chosen] = sc.array(dims=['x'], values=np.asarray([*xs, xs[-1] + 1.0]), unit='one')
    if 'ndim2' in defects:
        da = sc.concat([da, da], 'y').copy()  # dims (y, x); the coordinate(s) stay 1-d along x
    if 'ndim0' in defects:
        da = da['x', 0].copy()
    if 'mask' in defects:
        da.masks['m'] = sc.zeros(sizes=da.sizes, dtype=bool)
    if 'novar' in defects:
        da = sc.values(da)
    if 'nocoord' in defects:
        for name in list(da.coords):
            del da.coords[name]
    kw = {'coord': chosen} if case['explicit'] else {}
    # sanity of the harness: the object really carries the defects
    assert ('novar' in defects) == (da.variances is None)  # noqa: S101
    assert ('mask' in defects) == bool(da.masks)  # noqa: S101
    assert ('nocoord' in defects) == (len(da.coords) == 0)  # noqa: S101
    assert da.ndim == (0 if 'ndim0' in defects else 2 if 'ndim2' in defects else 1)  # noqa: S101
    rec.nontrivial += 1
    _expect_refusal(rec, tgt, da, kw, defects)


# ---------------------------------------------------------------------------------------
# coordinate sets x alignment flags (which coordinate is deduced; ambiguity is counted over ALL coordinates)

COORD_KINDS = ('dimcoord', 'a', 'b', 'scalar')
COORD_NAME = {'dimcoord': 'x', 'a': 'a', 'b': 'b', 'scalar': 'spectrum'}


def expected_choice(subset, explicit):
    """Reference rule of the docstring: the name that must be written, or None when the call must be refused.

    coord given -> that coordinate; omitted and exactly one coordinate -> that one; omitted and several -> the one named
    like the dimension, else refuse.  Alignment flags play no role.  A 0-d coordinate cannot be the X column -> refuse.
    """
    if explicit is not None:
        chosen = explicit
    elif len(subset) == 0:
        return None
    elif len(subset) == 1:
        chosen = subset[0]
    elif 'dimcoord' in subset:
        chosen = 'dimcoord'
    else:
        return None
    return None if chosen == 'scalar' else chosen


def build_aligned_da(n, subset, flags, production):
    """(da, table): 1-d data with the requested coordinates; table maps coordinate kind -> values written if chosen."""
    ys, es = VALUES[:n], VARS[3 : 3 + n]
    table = {kind: [COORDS[(3 * j + i + 1) % len(COORDS)] + j for i in range(n)] for j, kind in enumerate(COORD_KINDS)}
    if production == 'direct':
        da = sc.DataArray(sc.array(dims=['x'], values=np.asarray(ys), variances=np.asarray(es), unit='one'))
        for kind in subset:
            if kind == 'scalar':
                da.coords['spectrum'] = sc.scalar(8.0, unit='one')
            else:
                da.coords[COORD_NAME[kind]] = sc.array(dims=['x'], values=np.asarray(table[kind]), unit='one')
    else:
        # one row of 2-d data: the coordinate of the sliced dimension stays behind as an unaligned scalar
        d2 = sc.DataArray(sc.array(dims=['spectrum', 'x'], values=np.asarray([[9.0] * n, ys]), variances=np.asarray([[1.0] * n, es]), unit='one'))
        for kind in subset:
            if kind == 'scalar':
                d2.coords['spectrum'] = sc.array(dims=['spectrum'], values=[7.0, 8.0], unit='one')
            else:
                d2.coords[COORD_NAME[kind]] = sc.array(dims=['x'], values=np.asarray(table[kind]), unit='one')
        da = d2['spectrum', 1].copy()
        if 'scalar' in subset and da.coords['spectrum'].aligned:
            raise RuntimeError('harness: slicing was expected to leave an unaligned scalar coordinate')
    for kind, flag in zip(subset, flags, strict=True):
        da.coords.set_aligned(COORD_NAME[kind], flag)
    if sorted(da.coords.keys()) != sorted(COORD_NAME[k] for k in subset) or da.dims != ('x',):
        raise RuntimeError('harness: coordinate set not as requested')
    return da, ys, es, table


def _run_alignment(case, rec, tgt):
    subset, production = case['subset'], case['production']
    for n in (1, 3):
        for flags in itertools.product((True, False), repeat=len(subset)):
            if production == 'slice_of_2d' and 'scalar' in subset and flags[subset.index('scalar')]:
                rec.cls('alignment_scalar_realigned')
            for explicit in [None, *subset]:
                da, ys, es, table = build_aligned_da(n, subset, flags, production)
                chosen = expected_choice(subset, explicit)
                kw = {} if explicit is None else {'coord': COORD_NAME[explicit]}
                sub = {'rows': n, 'aligned': dict(zip(subset, flags, strict=True)), 'explicit': explicit}
                rec.states += 1
                rec.nontrivial += 1
                n_unaligned = sum(1 for f in flags if not f)
                if chosen is None:
                    why = 'nocoord' if not subset else 'scalar_coord' if (explicit == 'scalar' or subset == ['scalar']) else 'ambiguous'
                    _expect_refusal(rec, tgt, da, kw, [why], **sub)
                    if why == 'ambiguous' and len(subset) - n_unaligned == 1:
                        rec.cls('ambiguous_with_exactly_one_aligned')
                    if why == 'ambiguous' and n_unaligned == len(subset):
                        rec.cls('ambiguous_all_unaligned')
                    continue
                name = COORD_NAME[chosen]
                if judge_roundtrip(rec, case, tgt, da, table[chosen], ys, es, header_kw={}, coord_kw=kw.get('coord'),
                                   load_coord=None if name == 'x' else name, sub=sub, check_text=False):
                    rec.cls('alignment_written_' + ('explicit' if explicit else 'deduced'))
                    if not flags[subset.index(chosen)]:
                        rec.cls('alignment_unaligned_coord_written')
    rec.cls('production_' + production)


# ---------------------------------------------------------------------------------------
# target representation x suffix x pre-existing file

SUFFIXES = ('.xye', '.dat', '', '.gz', '.bz2', '.xz', '.GZ', '.xye.gz')
PREEXISTING = ('none', 'longer_valid', 'garbage')
_OPENERS = {'.gz': 'gzip', '.bz2': 'bz2', '.xz': 'lzma'}


def _run_target_rep(case, rec, tgt):
    import importlib

    suffix, pre = case['suffix'], case['preexisting']
    directory = os.path.dirname(tgt.path)
    tgt.path = os.path.join(directory, 'spectrum' + suffix)
    ext = os.path.splitext(tgt.path)[1]
    by_path = tgt.kind in ('path_str', 'path_obj')
    tgt.compressed = by_path and ext in _OPENERS  # numpy compresses by (case-sensitive) suffix, only when it opens the file itself
    rec.cls('suffix_' + (suffix or 'none'))
    rec.cls('preexisting_' + pre)
    for k, n in enumerate((1, 3, 40)):
        xs, ys, es = _small_rep_table(n, k)
        da = make_da(xs, ys, es)
        sub = {'rows': n}
        if tgt.kind != 'sio':
            tgt.reset()
            if pre == 'longer_valid':
                old = make_da(*_small_rep_table(n + 7, k + 5))
                tgt.save(old, header='old file\n1 2 3')
            elif pre == 'garbage':
                with open(tgt.path, 'wb') as f:
                    f.write(b'\x00\xffnot a table\n1 2\n' * 50)
        ok = judge_roundtrip(rec, case, tgt, da, xs, ys, es, header_kw={}, sub=sub, keep_existing=True)
        rec.states += 1
        rec.nontrivial += 1
        if tgt.kind == 'sio':
            continue
        # what is on disk: exactly the target, nothing next to it
        left = sorted(os.listdir(directory))
        if left != [os.path.basename(tgt.path)]:
            rec.viol('save_xye', 'stray_files', f'directory holds {left} after saving to {os.path.basename(tgt.path)!r}', **sub)
            ok = False
        # ... and it holds the text that the same call writes to a StringIO (compressed by the suffix numpy honours)
        ref = StringIO()
        save_xye(ref, da)
        rec.transitions += 1
        with open(tgt.path, 'rb') as f:
            raw = f.read()
        if tgt.compressed:
            try:
                raw = importlib.import_module(_OPENERS[ext]).decompress(raw)
                rec.cls('disk_compressed_readable')
            except Exception as e:  # noqa: BLE001 - any failure to decompress is the finding
                rec.viol('save_xye', 'compressed_suffix_not_compressed', f'{os.path.basename(tgt.path)!r} cannot be read with {_OPENERS[ext]}: {type(e).__name__}: {e}; starts with {raw[:20]!r}', **sub)
                continue
        if raw.decode('utf-8') != ref.getvalue():
            rec.viol('save_xye', 'path_vs_fileobject_text', f'content of {os.path.basename(tgt.path)!r} differs from the text written to a StringIO', **sub)
            ok = False
        rec.validated += 1
        if ok:
            rec.cls('target_rep_ok')


def _small_rep_table(n, k):
    xs = [COORDS[(1 + i + k) % len(COORDS)] + i for i in range(n)]
    ys = [VALUES[(i + 2 * k) % len(VALUES)] for i in range(n)]
    es = [VARS[(3 + i + k) % len(VARS)] for i in range(n)]
    return xs, ys, es


# =========================================================================================
# thorough tier only: deeper alphabets (the quick tier above is unchanged)

F64_MIN_NORMAL = 2.2250738585072014e-308
EPS = 2.0**-52
ALL_TARGETS = ('sio', 'path_str', 'path_obj', 'fh', 'fh_a', 'fh_x', 'fh_wplus', 'path_gz', 'path_bz2', 'path_xz', 'path_nosuffix', 'path_dots')
INT_COORDS = [0, 1, -1, 7, -12345, 2**31 - 1, -(2**31), 1000000, 255, -256, 65536]
F32_COORDS = [0.0, 1.0, -2.5, 0.1, 1 / 3, 1e-5, 3.4028234663852886e38, 1.401298464324817e-45, -0.0, 16777216.0, 1e10]

# values: signed zeros, subnormal / normal boundaries, extremes, 1 +- ulp, decimal classics that need 17 digits or are hard
# to parse, integers around 2^53
VALUES_X = [
    0.0, -0.0, 5e-324, -5e-324, 1e-323, 2.225073858507201e-308, F64_MIN_NORMAL, -F64_MIN_NORMAL, 2.2250738585072011e-308,
    F64_MAX, -F64_MAX, 1.7976931348623155e308, 1e308, 1.0, -1.0, 1.0 + EPS, 1.0 - EPS / 2, 2.0, 0.5, 0.1, 0.2, 0.3,
    0.30000000000000004, 1 / 3, 2 / 3, -1 / 3, 3.141592653589793, 2.718281828459045, 1e-5, 1e5, 123456.789, 1e15, 1e16, 1e17,
    9007199254740992.0, 9007199254740994.0, 9007199254740991.0, 4.35, 2.675, 1.005, 5e-310, 1e-320, 9.999999999999999e22,
    1e23, 8.41e21, 8.5e-318, 1e-300, 1e300, 1.7e-162, 1.3407807929942596e154, 4.450147717014403e-308, 6.02214076e23,
    1.602176634e-19, -1.5, 1e22, 1e21, 123456789012345678.0, 0.001, 100.0, 7.0, -7.000000000000001, 1.1, 5e-5,
]
# variances: perfect squares (root exact), non-squares, subnormal, boundaries, extremes
VARS_X = [
    0.0, 5e-324, 1e-323, 2.5e-323, 1e-310, 2.225073858507201e-308, F64_MIN_NORMAL, 4.450147717014403e-308, 1e-300, 1e-200, 1e-20,
    1e-5, 0.1, 0.25, 0.3, 1.0 - EPS / 2, 1.0, 1.0 + EPS, 2.0, 2.25, 3.0, 4.0, 5.0, 9.0, 12345.0, 1e10, 15241578750190521.0,
    1e200, 1e300, 2.25e300, 1e308, 1.7976931348623155e308, F64_MAX, 2.0**-1022, 2.0**-1021, 2.0**1023, 2.0**1022, 6.25e-2,
    7.0, 1e-323 * 3,
]
# programmatic additions: powers of ten over the whole range, 1 + 2^-j, tenths, small primes and half-integer squares
VALUES_X += [float('1e%d' % k) * sgn for k, sgn in zip(range(-320, 309, 17), itertools.cycle((1, -1)))]
VALUES_X += [1.0 + 2.0**-j for j in range(1, 53, 6)] + [k / 10 for k in range(4, 10)] + [-(2.0**k) * (1 - EPS) for k in (-1074 + 53, -1022, -1, 0, 1, 52, 53, 1023)]
VARS_X += [float(k) for k in (6, 8, 10, 11, 13, 16, 17, 19, 25, 100, 1000)] + [float('1e%d' % k) for k in range(-320, 301, 31)]
VARS_X += [(k + 0.5) ** 2 for k in range(0, 12)] + [1.0 - 2.0**-j for j in (2, 10, 30, 52)]
VALUES_X = list({bits(v): v for v in VALUES_X}.values())  # distinct bit patterns, first occurrence order
VARS_X = list({bits(v): v for v in VARS_X}.values())
H6 = ('#', ' ', '\n', '\r', '1', 'a')
CTRL = [chr(c) for c in range(1, 32)] + ['\x7f']
NUMERIC_LINES = ['1', '1 2', '1 2 3', '1 2 3 4', '1 2 3 4 5', '1e5 -2.5 .5', '1,2,3', ' 1 2 3', '1 2 3 ', 'nan nan nan', 'inf 1 1', '0x10 1 1']


def _thorough_cases():
    out = []
    # (1) full value x variance product at every row position of 1..4-row tables
    for tgt in ALL_TARGETS:
        for n in (1, 2, 3, 4):
            for pos in range(n):
                for vi in range(0, len(VALUES_X), 8):
                    out.append({'kind': 'product', 'target': tgt, 'rows': n, 'pos': pos, 'v0': vi, 'v1': min(vi + 8, len(VALUES_X))})
    # (2) bit-pattern families
    for fam, nchunks in (('pow2', 16), ('dec15', 48), ('dec16', 48), ('dec17', 48), ('repr17', 48), ('sqrt_exact', 6), ('sqrt_inexact', 6), ('mantissa_walk', 8)):
        for ch in range(nchunks):
            for tgt in ('sio', 'path_str', 'path_obj', 'fh', 'fh_wplus', 'path_gz'):
                out.append({'kind': 'bits', 'target': tgt, 'family': fam, 'chunk': ch, 'nchunks': nchunks})
    # (3) long tables, all values distinct
    for n in (10000, 100000):
        for variant in range(4):
            for tgt in ALL_TARGETS:
                out.append({'kind': 'long_distinct', 'target': tgt, 'rows': n, 'variant': variant})
    # (4) headers
    for tgt in ALL_TARGETS:
        # every string of length 0..L over a 6-letter alphabet, grouped by the first two letters; L = 7 for a str path,
        # 6 for the other main targets, 5 otherwise ('<break>1 1 1' needs 6 letters)
        maxlen = 7 if tgt == 'path_str' else 6 if tgt in ('sio', 'path_obj', 'fh', 'fh_wplus', 'path_gz') else 5
        for a in H6:
            for b in H6:
                if maxlen < 7:
                    out.append({'kind': 'strings5', 'target': tgt, 'prefix': a + b, 'maxlen': maxlen})
                else:
                    for c in H6:
                        out.append({'kind': 'strings5', 'target': tgt, 'prefix': a + b + c, 'maxlen': maxlen, 'exact_prefix_too': c == H6[0]})
        out.append({'kind': 'strings5', 'target': tgt, 'prefix': '', 'maxlen': maxlen})
    for tgt in ALL_TARGETS:
        for c1 in CTRL:
            for tmpl in ('a{p}1 2 3', 'a{p}b', '{p}7 8 9\nz', '1 2 3{p}4 5 6', '#{p}#1 2 3'):
                out.append({'kind': 'ctrl_pairs', 'target': tgt, 'c1': c1, 'template': tmpl, 'via': 'header'})
    for tgt in ('sio', 'path_str', 'fh'):
        for c1 in CTRL:
            out.append({'kind': 'ctrl_pairs', 'target': tgt, 'c1': c1, 'template': 'a{p}7 8 9', 'via': 'coord_name'})
    for tgt in ALL_TARGETS:
        for spec in HEADER_SPECS:
            for n in (1, 3):
                out.append({'kind': 'header_spec', 'target': tgt, 'spec': spec, 'rows': n})
    for tgt in ('sio', 'path_str', 'fh'):
        for line in NUMERIC_LINES:
            out.append({'kind': 'numeric_lines', 'target': tgt, 'line': line})
    # (5) coordinate sets: rows 1/2/4, every target, other coordinate dtypes
    for k in range(1, 6):
        for dimcoord in (False, True):
            names = _coord_names(k, dimcoord)
            for explicit in [None, *names]:
                for n in (1, 2, 4):
                    for tgt in ALL_TARGETS:
                        for layout in ('own', 'strided'):
                            out.append({'kind': 'coords', 'n_coords': k, 'dimcoord': dimcoord, 'explicit': explicit, 'layout': layout, 'target': tgt, 'rows': n})
                    for cdtype in ('float32', 'int64', 'int32'):
                        for tgt in ('sio', 'path_str'):
                            out.append({'kind': 'coords', 'n_coords': k, 'dimcoord': dimcoord, 'explicit': explicit, 'layout': 'own', 'target': tgt, 'rows': n, 'coord_dtype': cdtype})
    # (6) histories on one path: overwrite, load twice, same size, same time stamp
    for tgt in ('path_str', 'path_obj', 'fh', 'fh_wplus', 'path_gz', 'sio'):
        for n in (1, 2, 3, 50):
            for stamp in ('natural', 'same_mtime', 'older_mtime'):
                for rounds in (2, 12):
                    out.append({'kind': 'overwrite', 'target': tgt, 'rows': n, 'stamp': stamp, 'rounds': rounds})
        for n_long, n_short in ((1000, 1), (3, 2), (50, 49), (2, 1)):
            out.append({'kind': 'shrink', 'target': tgt, 'rows_long': n_long, 'rows_short': n_short})
    # (7) refusal family on every target kind (quick: 3 targets)
    combos = [(d,) for d in DEFECTS] + [p for p in itertools.combinations(DEFECTS, 2) if frozenset(p) not in INCOMPATIBLE]
    for combo in combos:
        for explicit in (False, True):
            if explicit and ('ambiguous' in combo or 'nocoord' in combo):
                continue
            for n in (1, 2, 4):
                for tgt in ALL_TARGETS:
                    if tgt in ('sio', 'path_str', 'fh') and n == 1:
                        continue  # already in the quick part
                    out.append({'kind': 'refusal', 'defects': list(combo), 'explicit': explicit, 'rows': n, 'target': tgt})
    return out


# header specifications that would be too long to store in a case --------------------------
HEADER_SPECS = [
    ['long', 10000, 0], ['long', 100000, 0], ['long', 1000000, 0], ['long', 100000, 997], ['long_hash', 100000, 0],
    ['lead_nl', 1], ['lead_nl', 2], ['lead_nl', 3], ['trail_nl', 1], ['trail_nl', 2], ['trail_nl', 3], ['both_nl', 2],
    ['only_nl', 1], ['only_nl', 5], ['many_lines', 1000], ['many_lines', 20000], ['crlf_lines', 50], ['cr_lines', 50],
    ['mixed_breaks', 40], ['blank_lines_numeric', 5], ['hash_every_pos', 12], ['table_lookalike', 3],
]


def header_from_spec(spec):
    kind = spec[0]
    if kind == 'long':
        n, every = spec[1], spec[2]
        body = ('abcdefghij 1 2 3 ' * (n // 17 + 1))[:n]
        if every:
            body = '\n'.join(body[i : i + every] for i in range(0, n, every))
        return body
    if kind == 'long_hash':
        return '#' * spec[1]
    if kind == 'lead_nl':
        return '\n' * spec[1] + '1 2 3'
    if kind == 'trail_nl':
        return '1 2 3' + '\n' * spec[1]
    if kind == 'both_nl':
        return '\n' * spec[1] + '4 5 6' + '\n' * spec[1]
    if kind == 'only_nl':
        return '\n' * spec[1]
    if kind == 'many_lines':
        return '\n'.join('%d %d %d' % (i, i + 1, i + 2) for i in range(spec[1]))
    if kind == 'crlf_lines':
        return '\r\n'.join('%d 2 3' % i for i in range(spec[1]))
    if kind == 'cr_lines':
        return '\r'.join('%d 2 3' % i for i in range(spec[1]))
    if kind == 'mixed_breaks':
        seps = ['\n', '\r', '\r\n', '\n\r', '\n\n', '\r\r']
        return ''.join('%d 2 3' % i + seps[i % len(seps)] for i in range(spec[1]))
    if kind == 'blank_lines_numeric':
        return '\n\n'.join(['1 2 3'] * spec[1])
    if kind == 'hash_every_pos':
        n = spec[1]
        return '\n'.join('1 2 3'[:i] + '#' + '1 2 3'[i:] for i in range(6)) + '\n' + '\n'.join('x' * i + '#' + 'y' * (n - i) for i in range(n + 1))
    if kind == 'table_lookalike':
        return '\n'.join('%.18e %.18e %.18e' % (i + 0.5, -i, i * 2.0) for i in range(spec[1]))
    raise ValueError(spec)


def _header_classes(rec, h):
    if h == '':
        rec.cls('header_empty')
    if '\n' in h:
        rec.cls('header_multiline')
    if '#' in h:
        rec.cls('header_hash')
    if any(ch in h for ch in CTRL if ch not in '\n\r\t'):
        rec.cls('header_control_char')
    if '\r' in h:
        rec.cls('header_cr')
    if len(h) >= 10000:
        rec.cls('header_very_long')


def _small_table(n, salt=0):
    xs = [COORDS[(1 + i + salt) % len(COORDS)] for i in range(n)]
    ys = [VALUES[(i + 2 * salt) % len(VALUES)] for i in range(n)]
    es = [VARS[(3 + i + salt) % len(VARS)] for i in range(n)]
    return xs, ys, es


def _rt_header(rec, case, tgt, h, n, sub, *, via='header', check_text=True):
    xs, ys, es = _small_table(n)
    if via == 'header':
        da = make_da(xs, ys, es)
        ok = judge_roundtrip(rec, case, tgt, da, xs, ys, es, header_kw={'header': h}, sub=sub, check_text=check_text)
    else:
        da = make_da(xs, ys, es, coord_name=h)
        ok = judge_roundtrip(rec, case, tgt, da, xs, ys, es, header_kw={}, coord_name=h, load_coord=h, sub=sub, check_text=check_text)
    rec.states += 1
    rec.nontrivial += 1
    return ok


def _run_product(case, rec, tgt):
    n, pos = case['rows'], case['pos']
    fx, fy, fe = _small_table(n, salt=pos)
    for v in VALUES_X[case['v0'] : case['v1']]:
        for e in VARS_X:
            xs, ys, es = list(fx), list(fy), list(fe)
            xs[pos], ys[pos], es[pos] = v, v, e  # the coordinate takes the value alphabet too
            da = make_da(xs, ys, es)
            judge_roundtrip(rec, case, tgt, da, xs, ys, es, header_kw={}, sub={'value': v, 'variance': e}, check_text=False)
            rec.states += 1
            rec.nontrivial += 1
        _value_classes(rec, [v])
    rec.cls('rows_1' if n == 1 else 'rows_2_3' if n < 4 else 'rows_4')
    rec.cls('position_first' if pos == 0 else 'position_last' if pos == n - 1 else 'position_middle')


def _decimal_family(digits, count, want_repr17=False):
    """Deterministic numbers with exactly ``digits`` significant decimal digits, exponents sweeping the double range."""
    out = []
    i = 0
    lo = 10 ** (digits - 1)
    while len(out) < count:
        i += 1
        mant = lo + (i * 7919 * 10 ** (digits - 5) + i * i * 104729 + i * 999983) % (9 * lo)
        if mant % 10 == 0:
            mant += 1 + i % 9
        exp = -307 + (i * 37) % 614
        x = float('%de%d' % (mant, exp - digits + 1))
        if x == 0.0 or x in (float('inf'),):
            continue
        if want_repr17 and len(repr(x).split('e')[0].replace('.', '').replace('-', '').lstrip('0')) < 17:
            continue
        out.append(x if i % 2 else -x)
    return out


def bit_family(family):
    """(values, variances) - all finite; variances >= 0."""
    if family == 'pow2':
        vals = []
        for k in range(-1074, 1024):
            p = 2.0**k
            vals += [p, float(np.nextafter(p, np.inf)), float(np.nextafter(p, 0.0))]
        vals = [v for v in vals if np.isfinite(v)]
        return [*vals, *[-v for v in vals]], [*vals, *vals]
    if family in ('dec15', 'dec16', 'dec17'):
        vals = _decimal_family(int(family[3:]), 120000)
        return vals, [abs(v) for v in vals]
    if family == 'repr17':
        vals = _decimal_family(17, 120000, want_repr17=True)
        return vals, [abs(v) for v in vals]
    if family == 'sqrt_exact':
        roots = [float(k) for k in range(1, 2001)] + [k / 1024.0 for k in range(1, 2001)] + [k * 2.0**-500 for k in range(1, 1001)] + [k * 2.0**500 for k in range(1, 1001)]
        roots += [float(2**26 + k) for k in range(1, 1001)]  # squares need 53+ bits only if root > 2^26.5; these are still exact
        var = [r * r for r in roots]
        for r, v in zip(roots, var, strict=True):
            if np.sqrt(v) != r:
                raise RuntimeError('harness: root not exact')
        return [(-1) ** i * r for i, r in enumerate(roots)], var
    if family == 'sqrt_inexact':
        base = [float(k) for k in range(2, 4000) if int(k**0.5) ** 2 != k]
        var = base + [b * 1e-7 for b in base[:1500]] + [b * 1e250 for b in base[:1500]] + [b * 1e-300 for b in base[:1500]]
        return [(-1) ** i * v / 3.0 for i, v in enumerate(var)], var
    if family == 'mantissa_walk':
        # one number per (exponent step of 16, mantissa pattern): alternating bits, single bits, all ones
        pats = [0, 1, 2**51, 2**52 - 1, 0x5555555555555, 0xAAAAAAAAAAAAA, 0x0F0F0F0F0F0F0, 0x8000000000001] + [2**j for j in range(2, 51, 3)] + [2**52 - 1 - 2**j for j in range(0, 52, 5)]
        vals = []
        for ex in range(0, 2047, 4):
            for m in pats:
                vals.append(struct.unpack('<d', struct.pack('<Q', (ex << 52) | m))[0])
        return [(-1) ** i * v for i, v in enumerate(vals)], vals
    raise ValueError(family)


_FAMILY_CACHE = {}


def _run_bits(case, rec, tgt):
    fam = case['family']
    if fam not in _FAMILY_CACHE:
        _FAMILY_CACHE.clear()
        _FAMILY_CACHE[fam] = bit_family(fam)
    vals, var = _FAMILY_CACHE[fam]
    m = len(vals)
    lo, hi = m * case['chunk'] // case['nchunks'], m * (case['chunk'] + 1) // case['nchunks']
    vals, var = vals[lo:hi], var[lo:hi]
    rows = 97  # table size; the last table is shorter
    for k, start in enumerate(range(0, len(vals), rows)):
        ys = vals[start : start + rows]
        es = var[start : start + rows]
        xs = list(reversed(ys))
        da = make_da(xs, ys, es)
        judge_roundtrip(rec, case, tgt, da, xs, ys, es, header_kw={}, sub={'family': fam, 'start': lo + start}, check_text=(k == 0))
        rec.states += len(ys)
        rec.nontrivial += 1
    rec.cls('bits_' + fam)
    _value_classes(rec, vals[:: max(1, len(vals) // 50)])


def _run_long_distinct(case, rec, tgt):
    n, variant = case['rows'], case['variant']
    i = np.arange(1, n + 1, dtype=np.uint64)
    mult = np.uint64([0x9E3779B97F4A7C15, 0xC2B2AE3D27D4EB4F, 0x165667B19E3779F9, 0xD6E8FEB86659FD93][variant])
    with np.errstate(over='ignore'):
        pat = i * mult
    finite = np.uint64(0x7FF0000000000000)
    mag = pat % finite  # finite, non-negative
    ys = (mag | (pat & np.uint64(1 << 63))).view('float64')
    es = ((pat >> np.uint64(3)) % finite).view('float64')
    xs = np.sort((((pat >> np.uint64(7)) % finite) | ((pat << np.uint64(40)) & np.uint64(1 << 63))).view('float64'))
    for a in (xs, ys, es):
        if len(np.unique(a)) != n or not np.all(np.isfinite(a)):
            raise RuntimeError('harness: long table not all-distinct / finite')
    da = make_da(xs, ys, es)
    judge_roundtrip(rec, case, tgt, da, xs, ys, es, header_kw={}, sub={})
    rec.states += n
    rec.nontrivial += 1
    rec.cls('rows_long')
    rec.cls('rows_%d' % n)


def _run_strings5(case, rec, tgt):
    pre = case['prefix']
    if pre == '':
        hs = ['', *H6]
    else:
        hs = [pre + ''.join(t) for k in range(0, case['maxlen'] - len(pre) + 1) for t in itertools.product(H6, repeat=k)]
        if len(pre) == 3 and case.get('exact_prefix_too'):
            hs.append(pre[:2])  # the two-letter strings, once
    for h in hs:
        _rt_header(rec, case, tgt, h, 2, {'header': h})
        _header_classes(rec, h)


def _run_ctrl_pairs(case, rec, tgt):
    c1, tmpl, via = case['c1'], case['template'], case['via']
    for c2 in ['', *CTRL]:
        h = tmpl.format(p=c1 + c2)
        _rt_header(rec, case, tgt, h, 1 if c2 < '\x10' else 3, {'header': h}, via=via)
        _header_classes(rec, h)
    rec.cls('ctrl_pair_via_' + via)


def _run_header_spec(case, rec, tgt):
    h = header_from_spec(case['spec'])
    _rt_header(rec, case, tgt, h, case['rows'], {})
    _header_classes(rec, h)
    rec.cls('header_spec_' + case['spec'][0])


def _run_numeric_lines(case, rec, tgt):
    line = case['line']
    for sep in ['\n', '\r', '\r\n', *[c for c in CTRL if c not in '\n\r']]:
        for h in (line + sep + line, 'a' + sep + line, line + sep, sep + line, line):
            _rt_header(rec, case, tgt, h, 2, {'header': h})
    rec.cls('header_numeric_columns_%d' % len(line.split()))


def _same_width_tables(n, k):
    """Table number k of a family whose files all have the same byte size (same signs, 2-digit exponents)."""
    xs = [1.0 + 0.125 * i + 0.001953125 * k for i in range(n)]
    ys = [10.0 + i + 0.0625 * ((k * 7 + i) % 13) for i in range(n)]
    es = [(2.0 + ((i + 3 * k) % 11)) ** 2 for i in range(n)]
    return xs, ys, es


def _run_overwrite(case, rec, tgt):
    n, stamp, rounds = case['rows'], case['stamp'], case['rounds']
    sizes = set()
    t0 = None
    for k in range(rounds):
        xs, ys, es = _same_width_tables(n, k)
        da = make_da(xs, ys, es)
        sub = {'round': k}
        rec.transitions += 1
        try:
            if tgt.kind == 'sio' or k == 0:
                tgt.reset()
            tgt.save(da)  # later rounds overwrite the existing file
        except Exception as e:  # noqa: BLE001
            rec.viol('save_xye', 'raises_on_representable', f'overwrite round {k}: {type(e).__name__}: {e}', **sub)
            return
        if tgt.kind != 'sio':
            if tgt.handle is not None:
                tgt.handle.flush()
            sizes.add(os.path.getsize(tgt.path))
            st = os.stat(tgt.path)
            if t0 is None:
                t0 = st.st_mtime_ns
            if stamp == 'same_mtime':
                os.utime(tgt.path, ns=(t0, t0))
            elif stamp == 'older_mtime':
                os.utime(tgt.path, ns=(t0 - (k + 1) * 10**9, t0 - (k + 1) * 10**9))
        for rep in range(2):  # load twice; the first result is scribbled over in between
            try:
                out = tgt.load(dim='x', unit='one', coord_unit='one')
            except Exception as e:  # noqa: BLE001
                rec.viol('save_xye+load_xye', 'load_raises', f'round {k} load {rep}: {type(e).__name__}: {e}', **sub)
                return
            rec.transitions += 1
            rec.evals += 1
            got = (out.coords['x'].values.tobytes(), out.values.tobytes())
            rec.observe(got)
            want = (np.asarray(xs).tobytes(), np.asarray(ys).tobytes())
            dv = np.abs(out.variances.view('int64') - np.asarray(es).view('int64')).max() if out.shape == (n,) else None
            if out.shape != (n,) or got != want or dv > ULP_TOL:
                rec.viol('save_xye+load_xye', 'stale_or_wrong_after_overwrite',
                         f'round {k}, load {rep}: loaded {out.values[:3]} ..., file holds {ys[:3]} ...', load=rep, **sub)
                return
            rec.validated += 1
            out.values[...] = -1.0
            out.variances[...] = 5.0
            out.coords['x'].values[...] = -2.0
        rec.states += 1
    if tgt.kind != 'sio' and not tgt.compressed and len(sizes) != 1:
        raise RuntimeError(f'harness: overwrite family is not constant-size: {sizes}')
    rec.nontrivial += 1
    rec.cls('overwrite_' + stamp)
    rec.cls('loaded_twice')
    rec.cls('roundtrip_ok')


def _run_shrink(case, rec, tgt):
    """A long file replaced by a shorter one: nothing of the old content may survive."""
    for k, n in enumerate((case['rows_long'], case['rows_short'])):
        xs, ys, es = _same_width_tables(n, k)
        da = make_da(xs, ys, es)
        if k == 0:
            tgt.reset()
            tgt.save(da, header='old header\n9 9 9')
            continue
        if tgt.kind == 'sio':
            tgt.sio.seek(0)
            tgt.sio.truncate()
            save_xye(tgt.sio, da)
        else:
            tgt.save(da)
        rec.transitions += 2
        try:
            out = tgt.load(dim='x', unit='one', coord_unit='one')
        except Exception as e:  # noqa: BLE001
            rec.viol('save_xye+load_xye', 'load_raises', f'after overwriting a longer file: {type(e).__name__}: {e}')
            return
        rec.evals += 1
        rec.observe(out.values.tobytes())
        if out.shape != (n,) or out.values.tobytes() != np.asarray(ys).tobytes() or out.coords['x'].values.tobytes() != np.asarray(xs).tobytes():
            rec.viol('save_xye+load_xye', 'stale_or_wrong_after_overwrite', f'{case["rows_long"]} rows overwritten by {n}: loaded shape {out.shape}, values {out.values[:3]}')
            return
        rec.validated += 1
    rec.nontrivial += 1
    rec.cls('overwrite_longer_file')
    rec.cls('roundtrip_ok')


THOROUGH_RUNNERS = {
    'product': _run_product,
    'bits': _run_bits,
    'long_distinct': _run_long_distinct,
    'strings5': _run_strings5,
    'ctrl_pairs': _run_ctrl_pairs,
    'header_spec': _run_header_spec,
    'numeric_lines': _run_numeric_lines,
    'overwrite': _run_overwrite,
    'shrink': _run_shrink,
}
