"""C15 - XYE files round-trip coordinate and values bit-for-bit, variances to a few ulp;
header text never interferes with the table; unrepresentable data is refused.

Shape G (values x variances x coordinate values x rows x target) + P (headers: every
ASCII character in three templates; coordinate sets; refusal family: every combination
of one or two defects).  Oracle: bit patterns of the loaded arrays, the text of the
file as a line-oriented reader sees it, a refusal table, path vs file-object text.
"""
from __future__ import annotations

import itertools
import os
import shutil
import struct
import tempfile
from io import StringIO
from pathlib import Path

import numpy as np
import scipp as sc
from scippneutron.io.xye import load_xye, save_xye

ID = 'C15'
LEVEL = 'model_checking'
RULE = (
    'grid: every (coordinate value, data value, variance) triple of the alphabets as a one-row file and in every row '
    'position of 2- and 3-row files, long files cycling through all triples, x 4 targets (StringIO, str path, Path, open '
    'file handle); headers: default header x units x coordinate names, the fixed header list, and every ASCII character '
    '0..127 in the templates "a<c>b", "<c>", "a<c>1 2 3"; coordinate sets: 1..5 coords x dimension-coordinate present or '
    'not x explicit coord=each name or deduced x memory layout; refusal family: every compatible combination of one or '
    'two of 7 defects x explicit/deduced coord x rows 1/3 x target.  A case is non-trivial when a file is written and '
    'loaded back or a refusal is demanded; distinct = distinct configuration hashes'
)
ASSUMPTIONS = [
    'numpy text formatting/parsing (np.savetxt / np.loadtxt) and scipp are the trusted base',
    'finite float64 values, variances >= 0',
    'files are read back the way load_xye reads them (text mode, universal newlines for paths and plain open(); StringIO without translation)',
    '"a few units in the last place" = 4 ulp measured on the bit pattern',
    'refused = any exception and nothing written to the target',
]
BOUND = {
    'quick': 'all 11x11x10 one-row triples; 2/3-row windows; 1000 rows; 9 fixed + 384 ASCII-template headers; 1..5 coords; all 1- and 2-defect refusals',
    'thorough': 'same plus 10000 rows and ASCII templates at 3 rows for every target',
}
REQUIRED_CLASSES = [
    'roundtrip_ok', 'rows_1', 'rows_2_3', 'rows_long', 'target_sio', 'target_path_str', 'target_path_obj', 'target_fh',
    'var_exact', 'var_off_by_ulps', 'value_subnormal', 'value_negzero', 'value_extreme',
    'header_default', 'header_empty', 'header_multiline', 'header_hash', 'header_numeric_looking',
    'coord_deduced_single', 'coord_deduced_dimcoord', 'coord_explicit', 'refused_ambiguous',
    'refused_novar', 'refused_edges', 'refused_mask', 'refused_ndim0', 'refused_ndim2', 'refused_nocoord',
    'layout_strided', 'layout_slice',
]

F64_MAX = 1.7976931348623157e308
VALUES = [0.1, -0.1, 1 / 3, 5e-324, 2.2e-308, 1.797e308, 1e-5, -1.5, 0.0, -0.0, -F64_MAX]  # 11
COORDS = [0.0, 1.0, -2.5, 1 / 3, 1e-5, 5e-324, -2.2e-308, 1.797e308, 123456.789, -0.1, 6.02214076e23]  # 11
VARS = [5e-324, 1e-310, 1e-20, 0.3, 2.0, 1e300, 0.0, F64_MAX, 1.0, 2.5e-323]  # 10
# for the cyclic long files the three cycle lengths must be pairwise coprime
CYC_V, CYC_C, CYC_E = VALUES, COORDS[:9], VARS  # 11, 9, 10 -> period 990
TARGETS = ('sio', 'path_str', 'path_obj', 'fh')
FIXED_HEADERS = ['', 'x', 'a\nb', '# x', 'a\n\nb', '1 2 3', 'a\rb', '#' * 80, 'a\r\nb', '\n', '1 2 3\n4 5 6', 'x\n', 'a\r1 2 3']
TEMPLATES = ('a{c}b', '{c}', 'a{c}1 2 3')
DEFECTS = ('novar', 'edges', 'mask', 'ndim0', 'ndim2', 'nocoord', 'ambiguous')
INCOMPATIBLE = {
    frozenset(p)
    for p in [('ndim0', 'ndim2'), ('ndim0', 'edges'), ('nocoord', 'edges'), ('nocoord', 'ambiguous')]
}
ULP_TOL = 4


def cases(tier):
    out = []
    for tgt in TARGETS:
        for ci in range(len(COORDS)):
            out.append({'kind': 'one_row', 'target': tgt, 'coord_index': ci})
    for tgt in TARGETS:
        for n in (2, 3):
            out.append({'kind': 'windows', 'target': tgt, 'rows': n})
    longs = [1000] + ([10000] if tier == 'thorough' else [])
    for tgt in TARGETS:
        for n in longs:
            out.append({'kind': 'long', 'target': tgt, 'rows': n})
    # default header: units x coordinate names
    for cname in ('x', 'two words', 'a\nb', '#', '1 2 3', 'a\r7 8 9'):
        for cu in (None, 'one', 'angstrom', 'us'):
            for du in (None, 'counts', 'one'):
                for tgt in ('sio', 'path_str', 'fh'):
                    out.append({'kind': 'header', 'header': None, 'coord_name': cname, 'coord_unit': cu, 'unit': du, 'target': tgt, 'rows': 2})
    hdrs = list(FIXED_HEADERS)
    for c in range(128):
        for t in TEMPLATES:
            h = t.format(c=chr(c))
            if h not in hdrs:
                hdrs.append(h)
    for h in hdrs:
        for tgt in TARGETS:
            for n in (1, 3):
                if tier == 'quick' and n == 3 and tgt in ('path_obj',) and h not in FIXED_HEADERS:
                    continue
                out.append({'kind': 'header', 'header': h, 'coord_name': 'x', 'coord_unit': 'one', 'unit': 'one', 'target': tgt, 'rows': n})
    # coordinate sets
    for k in range(1, 6):
        for dimcoord in (False, True):
            names = _coord_names(k, dimcoord)
            for explicit in [None, *names]:
                for layout in ('own', 'slice', 'strided'):
                    for tgt in ('sio', 'path_str'):
                        out.append({'kind': 'coords', 'n_coords': k, 'dimcoord': dimcoord, 'explicit': explicit, 'layout': layout, 'target': tgt, 'rows': 3})
    # refusal family
    combos = [(d,) for d in DEFECTS] + [p for p in itertools.combinations(DEFECTS, 2) if frozenset(p) not in INCOMPATIBLE]
    for combo in combos:
        for explicit in (False, True):
            if explicit and ('ambiguous' in combo or 'nocoord' in combo):
                continue  # with coord= given the deduction is not exercised / there is nothing to name
            for n in (1, 3):
                for tgt in ('sio', 'path_str', 'fh'):
                    out.append({'kind': 'refusal', 'defects': list(combo), 'explicit': explicit, 'rows': n, 'target': tgt})
    return out


def _coord_names(k, dimcoord):
    names = ['c%d' % i for i in range(k)]
    if dimcoord:
        names[k // 2] = 'x'  # the dimension-coordinate is neither first nor last where possible
    return names


# ---------------------------------------------------------------------------------------


def bits(x: float) -> int:
    return struct.unpack('<q', struct.pack('<d', float(x)))[0]


def ulp_distance(a: float, b: float) -> int:
    """Distance on the bit pattern (both non-negative finite doubles)."""
    return abs(bits(a) - bits(b))


class Target:
    """One way of handing a destination to save_xye / a source to load_xye."""

    def __init__(self, kind, tmpdir):
        self.kind = kind
        self.path = os.path.join(tmpdir, 'f.xye')
        self.sio = None

    def save(self, da, **kw):
        if self.kind == 'sio':
            self.sio = StringIO()
            save_xye(self.sio, da, **kw)
        elif self.kind == 'path_str':
            save_xye(self.path, da, **kw)
        elif self.kind == 'path_obj':
            save_xye(Path(self.path), da, **kw)
        else:
            with open(self.path, 'w') as f:
                save_xye(f, da, **kw)

    def load(self, **kw):
        if self.kind == 'sio':
            self.sio.seek(0)
            return load_xye(self.sio, **kw)
        if self.kind == 'path_str':
            return load_xye(self.path, **kw)
        if self.kind == 'path_obj':
            return load_xye(Path(self.path), **kw)
        with open(self.path) as f:
            return load_xye(f, **kw)

    def raw_text(self):
        """Characters written, without newline translation."""
        if self.kind == 'sio':
            return self.sio.getvalue() if self.sio is not None else ''
        if not os.path.exists(self.path):
            return None
        with open(self.path, newline='', encoding='utf-8') as f:
            return f.read()

    def lines(self):
        """Lines as a line-oriented text reader of this kind of source sees them."""
        if self.kind == 'sio':
            text = self.sio.getvalue()
        else:
            with open(self.path, encoding='utf-8') as f:  # universal newlines, like np.loadtxt on a path
                text = f.read()
        ls = text.split('\n')
        if ls and ls[-1] == '':
            ls.pop()
        return ls

    def nothing_written(self):
        if self.kind == 'sio':
            return self.sio is None or self.sio.getvalue() == ''
        if self.kind == 'fh':
            return (not os.path.exists(self.path)) or os.path.getsize(self.path) == 0
        return not os.path.exists(self.path)

    def reset(self):
        self.sio = None
        if os.path.exists(self.path):
            os.remove(self.path)


def make_da(xs, ys, es, *, dim='x', coord_name='x', unit='one', coord_unit='one'):
    return sc.DataArray(
        sc.array(dims=[dim], values=np.asarray(ys, dtype='float64'), variances=np.asarray(es, dtype='float64'), unit=unit),
        coords={coord_name: sc.array(dims=[dim], values=np.asarray(xs, dtype='float64'), unit=coord_unit)},
    )


def judge_roundtrip(rec, case, tgt, da, xs, ys, es, *, header_kw, coord_kw=None, load_coord=None, coord_name='x',
                    dim='x', unit='one', coord_unit='one', sub=None, check_text=True):
    """save -> (text checks) -> load -> bitwise / ulp comparison.  Returns True if all fine."""
    sub = dict(sub or {})
    n = len(xs)
    kw = dict(header_kw)
    if coord_kw is not None:
        kw['coord'] = coord_kw
    rec.transitions += 1
    tgt.reset()
    try:
        tgt.save(da, **kw)
    except Exception as e:  # noqa: BLE001 - saving representable data must work
        rec.viol('save_xye', 'raises_on_representable', f'{type(e).__name__}: {e}', **sub)
        rec.evals += 1
        return False
    ok = True
    if check_text:
        lines = tgt.lines()
        data_idx = [i for i, ln in enumerate(lines) if not ln.startswith('#')]
        if data_idx != list(range(len(lines) - n, len(lines))):
            bad = [lines[i] for i in data_idx if i < len(lines) - n][:2]
            rec.viol('save_xye', 'header_line_not_commented',
                     f'{len(data_idx)} lines without leading "#" for {n} rows; stray: {bad!r}', **sub)
            ok = False
        else:
            for i in data_idx:
                toks = lines[i].split(' ')
                try:
                    good = len(toks) == 3 and all(np.isfinite(float(t)) for t in toks)
                except ValueError:
                    good = False
                if not good:
                    rec.viol('save_xye', 'table_row_malformed', f'row {lines[i]!r}', **sub)
                    ok = False
                    break
        if tgt.kind != 'sio':
            ref = StringIO()
            save_xye(ref, da, **kw)
            rec.transitions += 1
            if ref.getvalue() != tgt.raw_text():
                rec.viol('save_xye', 'path_vs_fileobject_text', 'text written to the path differs from text written to StringIO', **sub)
                ok = False
        rec.validated += 1
    rec.transitions += 1
    try:
        out = tgt.load(dim=dim, unit=unit, coord_unit=coord_unit, **({'coord': load_coord} if load_coord is not None else {}))
    except Exception as e:  # noqa: BLE001 - a file the package wrote itself must load
        rec.viol('save_xye+load_xye', 'load_raises', f'{type(e).__name__}: {e}', **sub)
        rec.evals += 1
        return False
    rec.evals += 1
    name = load_coord if load_coord is not None else dim
    if out.dims != (dim,) or out.shape != (n,):
        rec.viol('save_xye+load_xye', 'row_count', f'loaded dims {out.dims} shape {out.shape}, saved {n} rows', **sub)
        return False
    if list(out.coords.keys()) != [name] or out.coords[name].dims != (dim,):
        rec.viol('save_xye+load_xye', 'coord_name', f'loaded coords {list(out.coords.keys())}, expected [{name!r}]', **sub)
        return False
    want_unit = None if unit is None else sc.Unit(unit)
    want_cunit = None if coord_unit is None else sc.Unit(coord_unit)
    if out.unit != want_unit or out.coords[name].unit != want_cunit:
        rec.viol('save_xye+load_xye', 'unit', f'units {out.unit}/{out.coords[name].unit}', **sub)
        ok = False
    gx, gy, ge = out.coords[name].values, out.values, out.variances
    rec.observe(gx.tobytes(), gy.tobytes(), ge.tobytes())
    if out.dtype != sc.DType.float64 or out.coords[name].dtype != sc.DType.float64 or ge is None:
        rec.viol('save_xye+load_xye', 'dtype', f'{out.dtype}, variances {ge is not None}', **sub)
        return False
    ax, ay, ae = (np.asarray(a, dtype='float64') for a in (xs, ys, es))
    if gx.tobytes() != ax.tobytes():
        i = next(i for i in range(n) if bits(gx[i]) != bits(ax[i]))
        rec.viol('save_xye+load_xye', 'coord_not_bitwise', f'row {i}: saved {float(ax[i]).hex()} loaded {float(gx[i]).hex()}', row=i, **sub)
        ok = False
    if gy.tobytes() != ay.tobytes():
        i = next(i for i in range(n) if bits(gy[i]) != bits(ay[i]))
        rec.viol('save_xye+load_xye', 'value_not_bitwise', f'row {i}: saved {float(ay[i]).hex()} loaded {float(gy[i]).hex()}', row=i, **sub)
        ok = False
    be = ge.view('int64') - ae.view('int64')
    worst = int(np.abs(be).max()) if n else 0
    if not np.all(np.isfinite(ge)) or np.any(ge < 0) or worst > ULP_TOL:
        i = int(np.argmax(np.abs(be)))
        rec.viol('save_xye+load_xye', 'variance_ulp', f'row {i}: variance {float(ae[i])!r} loaded {float(ge[i])!r} ({int(be[i])} ulp)', row=i, **sub)
        ok = False
    rec.cls('var_exact', int(np.count_nonzero(be == 0)))
    rec.cls('var_off_by_ulps', int(np.count_nonzero(be != 0)))
    rec.validated += 1
    if ok:
        rec.cls('roundtrip_ok')
    return ok


def _value_classes(rec, ys):
    for y in ys:
        if y != 0 and abs(y) < 2.2250738585072014e-308:
            rec.cls('value_subnormal')
        if y == 0 and bits(y) != 0:
            rec.cls('value_negzero')
        if abs(y) > 1e308:
            rec.cls('value_extreme')


def run_case(case, rec):
    tmp = tempfile.mkdtemp(prefix='verif-c15-')
    try:
        _run(case, rec, Target(case['target'], tmp))
    finally:
        shutil.rmtree(tmp, ignore_errors=True)


def _run(case, rec, tgt):
    kind = case['kind']
    rec.cls('target_' + case['target'])
    if kind == 'one_row':
        x = COORDS[case['coord_index']]
        for y in VALUES:
            for e in VARS:
                da = make_da([x], [y], [e])
                judge_roundtrip(rec, case, tgt, da, [x], [y], [e], header_kw={}, sub={'x': x, 'y': y, 'variance': e})
                rec.states += 1
                rec.nontrivial += 1
                rec.cls('rows_1')
            _value_classes(rec, [y])
    elif kind in ('windows', 'long'):
        n = case['rows']
        period = len(CYC_V) * len(CYC_C) * len(CYC_E)
        offsets = range(period) if kind == 'windows' else (0, 7)
        for off in offsets:
            idx = [off + i for i in range(n)]
            xs = [CYC_C[i % len(CYC_C)] for i in idx]
            ys = [CYC_V[i % len(CYC_V)] for i in idx]
            es = [CYC_E[i % len(CYC_E)] for i in idx]
            da = make_da(xs, ys, es)
            judge_roundtrip(rec, case, tgt, da, xs, ys, es, header_kw={}, sub={'offset': off}, check_text=(off % 30 == 0))
            rec.states += 1
            rec.nontrivial += 1
            rec.cls('rows_2_3' if kind == 'windows' else 'rows_long')
        _value_classes(rec, CYC_V)
    elif kind == 'header':
        n = case['rows']
        xs, ys, es = COORDS[1 : 1 + n], VALUES[:n], VARS[3 : 3 + n]
        cname = case['coord_name']
        da = make_da(xs, ys, es, coord_name=cname, unit=case['unit'], coord_unit=case['coord_unit'])
        h = case['header']
        judge_roundtrip(rec, case, tgt, da, xs, ys, es, header_kw={} if h is None else {'header': h}, coord_name=cname,
                        load_coord=cname, unit=case['unit'], coord_unit=case['coord_unit'])
        rec.nontrivial += 1
        rec.cls('rows_1' if n == 1 else 'rows_2_3')
        if h is None:
            rec.cls('header_default')
        else:
            if h == '':
                rec.cls('header_empty')
            if '\n' in h:
                rec.cls('header_multiline')
            if '#' in h:
                rec.cls('header_hash')
            if '1 2 3' in h:
                rec.cls('header_numeric_looking')
    elif kind == 'coords':
        _run_coords(case, rec, tgt)
    elif kind == 'refusal':
        _run_refusal(case, rec, tgt)
    else:
        raise ValueError(kind)


def _layout(da, layout):
    """Same content, different memory layout."""
    if layout == 'own':
        return da
    n = da.sizes['x']
    if layout == 'slice':
        pad = sc.concat([da['x', :1], da, da['x', -1:]], 'x')
        out = pad['x', 1 : n + 1]
        return out
    # strided: column 1 of a 2-d array with 'x' as the outer dimension
    wide = sc.concat([da * 0.0 + 7.0, da, da * 0.0 - 7.0], 'y').transpose(['x', 'y']).copy()
    out = wide['y', 1]
    for name in list(out.coords):
        if out.coords[name].dims != ('x',):
            del out.coords[name]
    return out


def _run_coords(case, rec, tgt):
    n = case['rows']
    k, dimcoord, explicit = case['n_coords'], case['dimcoord'], case['explicit']
    names = _coord_names(k, dimcoord)
    ys, es = VALUES[:n], VARS[3 : 3 + n]
    table = {name: [COORDS[(3 * j + i) % len(COORDS)] + j for i in range(n)] for j, name in enumerate(names)}
    da = make_da(table[names[0]], ys, es, coord_name=names[0])
    for name in names[1:]:
        da.coords[name] = sc.array(dims=['x'], values=np.asarray(table[name]), unit='one')
    da = _layout(da, case['layout'])
    if set(da.coords.keys()) != set(names):
        raise RuntimeError('harness: layout changed the coordinate set')
    rec.cls('layout_' + case['layout'])
    if explicit is not None:
        chosen, cls = explicit, 'coord_explicit'
    elif k == 1:
        chosen, cls = names[0], 'coord_deduced_single'
    elif dimcoord:
        chosen, cls = 'x', 'coord_deduced_dimcoord'
    else:
        chosen, cls = None, 'refused_ambiguous'
    rec.nontrivial += 1
    if chosen is None:
        _expect_refusal(rec, tgt, da, {}, ['ambiguous'])
        return
    rec.cls(cls)
    # load under the default name (dim) when the dimension-coordinate was written, else under the chosen name
    load_coord = None if chosen == 'x' else chosen
    judge_roundtrip(rec, case, tgt, da, table[chosen], ys, es, header_kw={}, coord_kw=explicit, load_coord=load_coord)


def _expect_refusal(rec, tgt, da, kw, defects):
    rec.transitions += 1
    tgt.reset()
    try:
        tgt.save(da, **kw)
    except Exception as e:  # noqa: BLE001 - "refused" accepts any exception (DESIGN 3.3)
        rec.observe(type(e).__name__)
        if not tgt.nothing_written():
            rec.viol('save_xye', 'refused_but_wrote', f'raised {type(e).__name__} but left {tgt.raw_text()[:80]!r} in the target', defects=defects)
        else:
            rec.cls('refused')
            for d in defects:
                rec.cls('refused_' + d)
    else:
        rec.viol('save_xye', 'not_refused', f'data with defects {defects} was written: {(tgt.raw_text() or "")[:120]!r}', defects=defects)
    rec.evals += 1
    rec.validated += 1


def _run_refusal(case, rec, tgt):
    n = case['rows']
    defects = case['defects']
    xs, ys, es = COORDS[1 : 1 + n], VALUES[:n], VARS[3 : 3 + n]
    da = make_da(xs, ys, es)
    chosen = 'x'
    if 'ambiguous' in defects:
        da.coords['a'] = da.coords.pop('x')
        da.coords['b'] = da.coords['a'] + 1.0
        chosen = 'a'
    if 'edges' in defects:
        da.coords[chosen] = sc.array(dims=['x'], values=np.asarray([*xs, xs[-1] + 1.0]), unit='one')
    if 'ndim2' in defects:
        da = sc.concat([da, da], 'y').copy()  # dims (y, x); the coordinate(s) stay 1-d along x
    if 'ndim0' in defects:
        da = da['x', 0].copy()
    if 'mask' in defects:
        da.masks['m'] = sc.zeros(sizes=da.sizes, dtype=bool)
    if 'novar' in defects:
        da = sc.values(da)
    if 'nocoord' in defects:
        for name in list(da.coords):
            del da.coords[name]
    kw = {'coord': chosen} if case['explicit'] else {}
    # sanity of the harness: the object really carries the defects
    assert ('novar' in defects) == (da.variances is None)  # noqa: S101
    assert ('mask' in defects) == bool(da.masks)  # noqa: S101
    assert ('nocoord' in defects) == (len(da.coords) == 0)  # noqa: S101
    assert da.ndim == (0 if 'ndim0' in defects else 2 if 'ndim2' in defects else 1)  # noqa: S101
    rec.nontrivial += 1
    _expect_refusal(rec, tgt, da, kw, defects)
