"""Alphabets shared by the geometry checks C03 / C04 / C08 (directions, rotations)."""
from __future__ import annotations

import math

import numpy as np
import scipp as sc

from ref import geom

EPS = 2.0**-52

# directions: +-axes, face diagonals, space diagonals, two irrational directions
DIRECTIONS = [
    (1.0, 0.0, 0.0), (0.0, 0.0, -1.0), (1.0, 1.0, 0.0), (1.0, 1.0, 1.0),
    (1.0, math.sqrt(2.0), math.pi), (-math.e, 1.0 / 3.0, 0.1),
    # thorough tier adds the rest
    (-1.0, 0.0, 0.0), (0.0, 1.0, 0.0), (0.0, -1.0, 0.0), (0.0, 0.0, 1.0),
    (1.0, -1.0, 0.0), (0.0, 1.0, 1.0), (0.0, 1.0, -1.0), (1.0, 0.0, 1.0), (-1.0, 0.0, 1.0),
    (1.0, -1.0, 1.0), (-1.0, 1.0, 1.0), (1.0, 1.0, -1.0),
]
N_QUICK_DIRS = 6
# deep (thorough) tiers: the 18 above + nearly-axis, nearly-diagonal and integer-valued directions
DIRECTIONS_DEEP = [
    *DIRECTIONS, (1.0, 1e-8, 0.0), (1e-3, 1.0, -1e-3), (1.0, 1.0, 1e-12), (-1.0, 2.0, 2.0), (0.0, 3.0, 4.0), (2.0, -3.0, 6.0),
    (0.123, -0.456, 0.789), (-1e-5, -1e-5, -1.0),
]

CUBE = geom.cube_rotations()  # 24 exact rotations, identity first

# three generic rotations as (axis, angle) -> float matrices (Rodrigues in float; whatever
# floats come out ARE the rotation handed to the implementation)
_GENERIC_ROTVECS = [(0.3, -0.5, 0.9), (1.3, 0.2, -0.7), (-2.1, 1.1, 0.4)]


def rotvec_matrix(rv) -> np.ndarray:
    rv = np.asarray(rv, dtype=float)
    th = float(np.linalg.norm(rv))
    k = rv / th
    K = np.array([[0, -k[2], k[1]], [k[2], 0, -k[0]], [-k[1], k[0], 0]])
    return np.eye(3) + math.sin(th) * K + (1 - math.cos(th)) * (K @ K)


GENERIC = [rotvec_matrix(rv) for rv in _GENERIC_ROTVECS]
GENERIC_ROTVECS = _GENERIC_ROTVECS


def unit_dir(d):
    n = math.sqrt(sum(x * x for x in d))
    return tuple(x / n for x in d)


def perpendicular(d, which=0):
    """A unit vector perpendicular to d (float construction, need not be exact)."""
    d = np.asarray(unit_dir(d))
    a = np.eye(3)[int(np.argmin(np.abs(d)))]
    p = np.cross(d, a)
    p /= np.linalg.norm(p)
    if which:
        q = np.cross(d, p)
        p = math.cos(1.1) * p + math.sin(1.1) * q
    return tuple(float(x) for x in p)


def beam_at_angle(d, p, alpha, n):
    """n * (cos(alpha) d^ + sin(alpha) p^) as a float triple."""
    d = unit_dir(d)
    c, s = math.cos(alpha), math.sin(alpha)
    return tuple(n * (c * d[i] + s * p[i]) for i in range(3))


def vec(v, unit):
    return sc.vector([float(x) for x in v], unit=unit)


def vecs(vs, unit, dim='pixel'):
    return sc.vectors(dims=[dim], values=np.asarray(vs, dtype=float).reshape(-1, 3), unit=unit)


def ulp(x: float) -> float:
    return math.ulp(x)


class Worst:
    """Keeps, per (site, kind), the worst offender of a case; emitted once at the end of the case.

    Has the ``viol`` signature of ``mc.core.Rec`` so it can stand in for it (excess defaults to the
    order of arrival: the first offender is kept).
    """

    def __init__(self):
        self.d = {}

    def add(self, site, kind, excess, msg, **sub):
        k = (site, kind)
        cur = self.d.get(k)
        if cur is None:
            self.d[k] = [excess, msg, sub, 1]
        else:
            cur[3] += 1
            if excess > cur[0]:
                cur[0], cur[1], cur[2] = excess, msg, sub

    def viol(self, site, kind, msg, **sub):
        self.add(site, kind, 0.0, msg, **sub)

    def emit(self, rec):
        for (site, kind), (_, msg, sub, n) in self.d.items():
            rec.viol(site, kind, f'{msg}  [{n} such element(s) in this case]', **sub)


class Dedup:
    """Proxy for ``mc.core.Rec`` that keeps one violation per (site, kind) per case (the core keeps only
    the first 8 violations of a case, so a frequent kind must not crowd out a rare one)."""

    def __init__(self, rec):
        object.__setattr__(self, '_rec', rec)
        object.__setattr__(self, '_w', Worst())

    def __getattr__(self, name):
        return getattr(self._rec, name)

    def __setattr__(self, name, value):
        setattr(self._rec, name, value)

    def viol(self, site, kind, msg, **sub):
        self._w.viol(site, kind, msg, **sub)

    def flush(self):
        self._w.emit(self._rec)
