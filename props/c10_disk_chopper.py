"""C10 - disk-chopper open/close times are exactly the openings of the rotating disk.

Shape P(configs): every configuration of the alphabet below is built as a real
``DiskChopper``; its ``time_offset_open/close`` / ``open_duration`` and the expansion over
several pulses ``Chopper.from_disk_chopper`` are judged against the exact rotating-disk
simulator ``ref/disk.py`` (Fractions; written from the NeXus definitions, shares no formula
with the package).

Readings chosen (statement -> check):
* "covered time span" = convex hull of the reported pairs that are genuine openings; every
  reference opening intersecting it must be reported ('missing_opening').  In addition, for
  beam_position = phase = 0 the module documentation promises that the openings of the
  slits lie within the pulse(s) ("would lie within [T0, T0+dT)"): then every reference
  opening inside [0, npulses * max(T_pulse, T_rot)] must be reported ('pulse_not_covered').
* "each slit appears once per rotation": no reference opening is reported twice
  ('duplicate_opening'); for ``time_offset_*`` the number of reported pairs is
  n_slits * (n + 1), n = max(1, round(ratio)) - the "-1..n-1 turns" of the property record.
* slits that merely touch are in neither the accept nor the reject family.
* a ``UnitError`` from ``from_disk_chopper`` when chopper and pulse frequency come in
  different units reports no pair and is therefore only counted as an outcome class.
"""
from __future__ import annotations

import bisect
import math
from fractions import Fraction as Fr

import scipp as sc

import scippneutron.chopper.disk_chopper as _dc
from ref.disk import Disk, arcs_overlap
from scippneutron.chopper import DiskChopper
from scippneutron.tof.chopper_cascade import Chopper

# Nondeterminism owned by the harness (DESIGN 4): DiskChopper._apply_angle_repetitions names a
# scratch dimension str(uuid4()) on *every* call.  scipp keeps every label ever used in a
# process-wide table of ~64.5k entries, so a long-lived worker dies with "RuntimeError:
# Exceeded maximum number of different dimension labels" after ~64k calls (reported as a side
# finding; it is not part of the C10 statement).  The harness therefore pins the scratch label
# from outside (module attribute, no repository change) and checks on the first configuration
# of every case that the results are identical with the original uuid4.
_ORIG_UUID4 = _dc.uuid4
_FIXED_LABEL = 'c10-scratch-dim-0b0f6a62-6a3c-4f0e-9a51-2f6f3a1d7c10'


def _fixed_uuid4():
    return _FIXED_LABEL


_dc.uuid4 = _fixed_uuid4

ID = 'C10'
LEVEL = 'model_checking'
RULE = (
    'configs: |f|/f_pulse x sense x slit set x angle units x frequency units x pulse frequency (one case), '
    'inside a case every beam position x phase, each judged for time_offset_open/close + open_duration and for '
    'Chopper.from_disk_chopper with every npulses; plus the frequency-ratio accept/reject family and the '
    'slit-overlap reject family (both constructor routes, both listing orders). A configuration is non-trivial '
    'when at least one reported open/close pair was compared with the simulated disk; distinct = distinct '
    'canonical configuration hashes (case x beam x phase x npulses)'
)
ASSUMPTIONS = [
    'the disk model of ref/disk.py: theta(t) = beam + phase - f t (mod 1 turn), from the NXdisk_chopper definitions '
    'restated in the module documentation (anticlockwise-positive angles and frequency, phase = omega (t_tdc - T0))',
    'angles are given on a 1-degree lattice; in rad units the float nearest to deg*pi/180 is passed and the reference '
    'uses deg/360 turn (difference <= 1 ulp, tolerance is 1e-12 pulse periods)',
    'frequencies: the reference uses the exact rational value of the float passed',
    'slits that merely touch, zero-width slits and begin angles outside one common turn window are outside the alphabet',
    'the per-call uuid4 scratch dimension label of DiskChopper._apply_angle_repetitions is pinned to a constant by the harness '
    '(scipp\'s process-wide label table overflows after ~64.5k calls otherwise); results are checked to be identical with the original uuid4 '
    'on the first configuration of every case',
]
BOUND = {
    'quick': '7 ratios x 2 senses x 8 slit sets x {deg,rad} x 4 frequency-unit pairs at 14 Hz x 3 beam positions x 3 phases x '
    '(direct + npulses 1,2,3); int64 family; full ratio accept/reject family; full overlap family',
    'thorough': '7 ratios x 2 senses x 9 slit sets x {deg,rad,mixed} x 6 frequency-unit pairs x {14,10} Hz x 6 beam positions x '
    '5 phases x (direct + npulses 1..4); int64 family; ratio family; overlap family',
}
REQUIRED_CLASSES = [
    'sense_clockwise', 'sense_anticlockwise', 'ratio_subharmonic', 'ratio_one', 'ratio_harmonic',
    'slit_spans_tdc', 'slit_negative_begin', 'opening_before_pulse', 'opening_straddles_pulse_time',
    'phase_multi_turn', 'unit_rad', 'unit_kHz', 'unit_per_min', 'dtype_int64', 'ratio_mixed_dtypes_accepted', 'ratio_mixed_dtypes_rejected', 'ratio_mixed_dtypes_and_units',
    'direct_ok', 'twin_from_same_variables_ok', 'replaced_frequency_ok', 'fdc_npulses_1_ok', 'fdc_npulses_ge2_run',
    'ratio_rejected_ValueError', 'ratio_near_integer_accepted',
    'overlap_plain_rejected', 'begin_gt_end_rejected', 'overlap_tdc_case_run',
    'fdc_mixed_frequency_units_run', 'scratch_label_differential_identical',
]

RATIOS = [(1, 1), (2, 1), (1, 2), (3, 1), (1, 3), (8, 1), (1, 4)]
SENSES = [-1, 1]
# degrees, begin/end pairs, listed in the (deliberately unsorted) order given
SLITSETS = {
    'one': [(10, 20)],
    'two_at_tdc': [(0, 60), (124, 126)],
    'span_tdc': [(350, 370)],
    'neg_begin': [(-10, 10), (100, 130)],
    'narrow': [(5, 6)],
    'wide': [(30, 330)],
    'six_unsorted': [(200, 215), (20, 30), (340, 365), (100, 101), (31, 39), (300, 320)],
    'span_tdc_plus': [(350, 370), (100, 130), (11, 12)],
    'symmetric': [(10, 40), (190, 220)],
}
QUICK_SLITSETS = ['one', 'two_at_tdc', 'span_tdc', 'neg_begin', 'narrow', 'wide', 'six_unsorted', 'span_tdc_plus']
BEAMS = {'quick': [0, 37, 400], 'thorough': [0, 37, 180, 359, -40, 400]}
PHASES = {'quick': [0, 725, -20], 'thorough': [0, 15, 350, 725, -20]}
NPULSES = {'quick': [1, 2, 3], 'thorough': [1, 2, 3, 4]}
AMODES = {'quick': ['deg', 'rad'], 'thorough': ['deg', 'rad', 'mixed']}
FUNITS = {
    'quick': [('Hz', 'Hz'), ('kHz', 'kHz'), ('1/min', '1/min'), ('kHz', 'Hz')],
    'thorough': [('Hz', 'Hz'), ('kHz', 'kHz'), ('1/min', '1/min'), ('kHz', 'Hz'), ('Hz', '1/min'), ('1/min', 'kHz')],
}
PULSES = {'quick': [14.0], 'thorough': [14.0, 10.0]}

# frequency-ratio family: nominal ratio = base * (1 + delta)
RATIO_BASES = [(1, 4), (1, 2), (1, 1), (2, 1), (8, 1)]
DELTA_ACCEPT = [1e-12, -1e-11, 1e-9, -1e-9]
DELTA_REJECT = [1e-7, -1e-7, 1e-6, -1e-5, 1e-4]
RATIO_PLAIN_REJECT = [(3, 2), (2, 3), (5, 2), (3, 4), (2, 5), (7, 2)]
# (chopper Hz, pulse Hz, verdict): whole and fractional numbers on either side
MIXED_DTYPE_RATIOS = [
    (14, 14.0, 'accept'), (14, 7.0, 'accept'), (14, 3.5, 'accept'), (14, 28.0, 'accept'), (14, 56.0, 'accept'), (25, 12.5, 'accept'), (7, 17.5, 'reject'),
    (14, 14.4, 'reject'), (14, 14.9, 'reject'), (28, 14.7, 'reject'), (7, 14.5, 'reject'), (14, 13.5, 'reject'), (3, 2.0, 'reject'), (14, 9.0, 'reject'),
    (14.0, 14, 'accept'), (3.5, 14, 'accept'), (42.0, 14, 'accept'), (14.5, 14, 'reject'), (7.25, 14, 'reject'), (14.0, 4, 'reject'), (21.0, 14, 'reject'),
]

MIXED_UNIT_DTYPE_RATIOS = [
    (14.0, 'Hz', 'float64', 840, '1/min', 'int64', 'accept'), (14.0, 'Hz', 'float64', 850, '1/min', 'int64', 'reject'), (14.0, 'Hz', 'float64', 420, '1/min', 'int32', 'accept'),
    (14, 'Hz', 'int64', 840, '1/min', 'int64', 'accept'), (14, 'Hz', 'int64', 850, '1/min', 'int64', 'reject'), (14, 'Hz', 'int64', 1700, '1/min', 'int64', 'reject'),
    (0.014, 'kHz', 'float64', 14, 'Hz', 'int64', 'accept'), (0.028, 'kHz', 'float64', 14, 'Hz', 'int64', 'accept'), (0.021, 'kHz', 'float64', 14, 'Hz', 'int64', 'reject'),
    (840, '1/min', 'int64', 14.0, 'Hz', 'float64', 'accept'), (850, '1/min', 'int64', 14.0, 'Hz', 'float64', 'reject'), (840, '1/min', 'int64', 14, 'Hz', 'int64', 'accept'),
    (850, '1/min', 'int64', 14, 'Hz', 'int64', 'reject'), (1, 'kHz', 'int64', 500, 'Hz', 'int64', 'accept'), (1, 'kHz', 'int64', 300, 'Hz', 'int64', 'reject'),
    (14.0, 'Hz', 'float64', 1, 'kHz', 'int64', 'reject'), (2000.0, 'Hz', 'float64', 1, 'kHz', 'int64', 'accept'),
]
# overlap family (degrees); expect = ValueError at construction
OVERLAPS = {
    'plain': [(0, 100), (60, 140)],
    'plain_unsorted': [(60, 140), (200, 210), (0, 100)],
    'contained': [(10, 100), (30, 40)],
    'tdc_end_gt_360': [(350, 370), (5, 20)],
    'tdc_negative_begin': [(-10, 10), (340, 355)],
    'tdc_three_unsorted': [(100, 120), (350, 365), (0, 10)],
    'tdc_contained': [(300, 420), (10, 20)],
    'wider_than_turn': [(0, 400)],
    'begin_gt_end': [(50, 40)],
    'begin_gt_end_second': [(10, 20), (200, 100)],
}
TDC_FAMILIES = ('tdc_end_gt_360', 'tdc_negative_begin', 'tdc_three_unsorted', 'tdc_contained', 'wider_than_turn')

UNIT_HZ = {'Hz': Fr(1), 'kHz': Fr(1000), '1/min': Fr(1, 60)}
TOL_PERIODS = Fr(1, 10**12)


# ---------------------------------------------------------------------------------------
# enumeration


def cases(tier):
    out = []
    sets = QUICK_SLITSETS if tier == 'quick' else list(SLITSETS)
    inner = {'beams': BEAMS[tier], 'phases': PHASES[tier], 'npulses': NPULSES[tier]}
    for ratio in RATIOS:
        for sense in SENSES:
            for name in sets:
                for amode in AMODES[tier]:
                    for funit, punit in FUNITS[tier]:
                        for pulse in PULSES[tier]:
                            out.append({'kind': 'open', 'ratio': list(ratio), 'sense': sense, 'slits': name, 'amode': amode,
                                        'funit': funit, 'punit': punit, 'pulse': pulse, 'dtype': 'float64', **inner})
    # integer dtypes (the repository's own tests pass integer degrees): only where all values are integers
    for ratio in [(1, 1), (2, 1), (1, 2), (3, 1), (8, 1)]:
        for sense in SENSES:
            for name in sets:
                out.append({'kind': 'open', 'ratio': list(ratio), 'sense': sense, 'slits': name, 'amode': 'deg',
                            'funit': 'Hz', 'punit': 'Hz', 'pulse': 14.0, 'dtype': 'int64', **inner})
    # one integer-typed angle (deg) combined with a float angle in the other unit (rad)
    for ratio in [(1, 1), (2, 1), (1, 2)]:
        for sense in SENSES:
            for name in sets:
                for amode in ('intbeam', 'intphase'):
                    out.append({'kind': 'open', 'ratio': list(ratio), 'sense': sense, 'slits': name, 'amode': amode,
                                'funit': 'Hz', 'punit': 'Hz', 'pulse': 14.0, 'dtype': 'float64', **inner})
    for base in RATIO_BASES:
        for sense in SENSES:
            for funit, punit in FUNITS['thorough']:
                for pulse in (14.0, 10.0):
                    for d in DELTA_ACCEPT:
                        out.append({'kind': 'ratio', 'base': list(base), 'delta': d, 'expect': 'accept', 'sense': sense,
                                    'funit': funit, 'punit': punit, 'pulse': pulse})
                    for d in DELTA_REJECT:
                        out.append({'kind': 'ratio', 'base': list(base), 'delta': d, 'expect': 'reject', 'sense': sense,
                                    'funit': funit, 'punit': punit, 'pulse': pulse})
    for base in RATIO_PLAIN_REJECT:
        for sense in SENSES:
            for funit, punit in FUNITS['thorough']:
                for pulse in (14.0, 10.0):
                    out.append({'kind': 'ratio', 'base': list(base), 'delta': 0.0, 'expect': 'reject', 'sense': sense,
                                'funit': funit, 'punit': punit, 'pulse': pulse})
    # chopper and pulse frequency held in different dtypes (a set point typed as an integer next to a measured float, and
    # the reverse): the same numbers, so the same verdict and the same openings
    for fdt, pdt in (('int64', 'float64'), ('int32', 'float64'), ('float64', 'int64'), ('float64', 'int32'), ('int64', 'int32')):  # float32 frequencies: times are then computed in single precision, which the 1e-12 bound of this check does not cover
        for f, pz, expect in MIXED_DTYPE_RATIOS:
            if (fdt.startswith('int') and f != int(f)) or (pdt.startswith('int') and pz != int(pz)):
                continue
            for sense in SENSES:
                out.append({'kind': 'ratio_dtype', 'freq': f, 'pulse': pz, 'expect': expect, 'sense': sense, 'freq_dtype': fdt, 'pulse_dtype': pdt})
    # ... and in different units as well: whole numbers per minute next to Hz / kHz (values given in the unit named)
    for f, funit, fdt, pz, punit, pdt, expect in MIXED_UNIT_DTYPE_RATIOS:
        for sense in SENSES:
            out.append({'kind': 'ratio_dtype', 'freq': f, 'pulse': pz, 'expect': expect, 'sense': sense, 'freq_dtype': fdt, 'pulse_dtype': pdt, 'funit': funit, 'punit': punit})
    for fam in OVERLAPS:
        for aunit, dtype in (('deg', 'float64'), ('rad', 'float64'), ('deg', 'int64')):
            for order in ('listed', 'reversed'):
                for route in ('init', 'from_nexus_edges', 'from_nexus_begin_end'):
                    out.append({'kind': 'overlap', 'family': fam, 'aunit': aunit, 'dtype': dtype, 'order': order, 'route': route})
    return out


# ---------------------------------------------------------------------------------------
# building the real objects


def _angles(degs, unit, dtype, array):
    if unit == 'deg':
        vals = [int(d) for d in degs] if dtype == 'int64' else [float(d) for d in degs]
    else:
        vals = [math.radians(d) for d in degs]
    if array:
        return sc.array(dims=['slit'], values=vals, unit=unit, dtype=dtype)
    return sc.scalar(vals[0], unit=unit, dtype=dtype)


def _freq_value(hz: float, unit: str) -> float:
    return {'Hz': hz, 'kHz': hz / 1000.0, '1/min': hz * 60.0}[unit]


def build(slits_deg, *, beam, phase, amode, freq_value, funit, dtype='float64', freq_dtype=None):
    su, bu, pu = {'deg': ('deg',) * 3, 'rad': ('rad',) * 3, 'mixed': ('rad', 'deg', 'rad'),
                  'intbeam': ('deg', 'deg', 'rad'), 'intphase': ('deg', 'rad', 'deg')}[amode]
    freq_dtype = freq_dtype or dtype
    fv = int(freq_value) if freq_dtype.startswith('int') else float(freq_value)
    # 'intbeam' / 'intphase': one integer-typed angle in degrees next to a float angle in radians
    bdt = 'int64' if amode == 'intbeam' else dtype
    pdt = 'int64' if amode == 'intphase' else dtype
    return DiskChopper(
        axle_position=sc.vector([3.0, 0.0, 4.0], unit='m'),
        frequency=sc.scalar(fv, unit=funit, dtype=freq_dtype),
        beam_position=_angles([beam], bu, bdt, False),
        phase=_angles([phase], pu, pdt, False),
        slit_begin=_angles([b for b, _ in slits_deg], su, dtype, True),
        slit_end=_angles([e for _, e in slits_deg], su, dtype, True),
    )


def _seconds(var):
    return [float(x) for x in var.to(unit='s', dtype='float64').values.ravel()]


# ---------------------------------------------------------------------------------------
# the oracle


def judge(rec, site, disk: Disk, opens, closes, t_pulse: Fr, sub, *, cover=None):
    """Judge a reported list of (open, close) pairs [s] against the simulated disk.

    Returns the list of matched reference openings (one per reported pair, None if none).
    """
    n = len(opens)
    rec.evals += 1
    rec.observe(opens, closes)
    if n != len(closes):
        rec.viol(site, 'length_mismatch', f'{n} open times, {len(closes)} close times', **sub)
        return []
    if n == 0:
        return []
    tol = TOL_PERIODS * t_pulse
    eps = disk.min_feature() / 1000
    fo = [Fr(x) for x in opens]
    fc = [Fr(x) for x in closes]
    lo, hi = min(min(fo), min(fc)), max(max(fo), max(fc))
    if cover is not None:
        lo, hi = min(lo, cover[0]), max(hi, cover[1])
    refs = disk.openings(lo - tol, hi + tol)
    ref_open = [float(r.open) for r in refs]
    matched = [None] * n
    used = {}
    bad = {}  # kind -> (count, first message)

    def flag(kind, msg):
        c, m = bad.get(kind, (0, msg))
        bad[kind] = (c + 1, m)

    for j in range(n):
        o, c = fo[j], fc[j]
        rec.validated += 1
        if not o < c:
            flag('open_not_before_close', f'pair {j}: open {opens[j]!r} >= close {closes[j]!r}')
            continue
        # open throughout, closed just outside: the exact predicate at the float times reported
        why = None
        if not disk.is_open((o + c) / 2):
            why = 'closed at the midpoint'
        elif disk.is_open(o - eps):
            why = 'already open just before the reported open time'
        elif disk.is_open(c + eps):
            why = 'still open just after the reported close time'
        else:
            # no edge event strictly inside (o + eps, c - eps): the disk does not close in between
            if disk.edge_times(o + eps, c - eps):
                why = 'a slit edge passes inside the interval'
        if why is not None:
            flag('not_an_opening', f'pair {j} [{opens[j]!r}, {closes[j]!r}] s: {why}')
            continue
        # exact times
        k = bisect.bisect_left(ref_open, opens[j])
        hit = None
        for r in (k - 1, k, k + 1):
            if 0 <= r < len(refs) and abs(refs[r].open - o) <= tol and abs(refs[r].close - c) <= tol:
                hit = r
                break
        if hit is None:
            near = min(refs, key=lambda r: abs(r.open - o), default=None)
            if near is None:
                flag('time_mismatch', f'pair {j} [{opens[j]!r}, {closes[j]!r}] s: the simulated disk has no opening there')
            else:
                flag('time_mismatch', f'pair {j} [{opens[j]!r}, {closes[j]!r}] s; nearest opening [{float(near.open)!r}, {float(near.close)!r}] '
                     f'(off by {float(abs(near.open - o) / t_pulse):.3e} / {float(abs(near.close - c) / t_pulse):.3e} pulse periods)')
            continue
        matched[j] = refs[hit]
        used.setdefault(hit, []).append(j)
        # duration = slit width / |angular speed|
        (i, _), = refs[hit].slits
        b, e = disk.slits[i]
        if abs((c - o) - (e - b) * disk.period) > 2 * tol:
            flag('duration', f'pair {j}: close-open = {closes[j] - opens[j]!r}, slit width/|f| = {float((e - b) * disk.period)!r}')
    dups = {r: js for r, js in used.items() if len(js) > 1}
    if dups:
        r, js = sorted(dups.items())[0]
        flag_n = sum(len(v) - 1 for v in dups.values())
        bad['duplicate_opening'] = (flag_n, f'opening [{float(refs[r].open)!r}, {float(refs[r].close)!r}] s of slit/rotation {refs[r].slits} '
                                            f'is reported {len(js)} times (entries {js}); {len(dups)} openings are duplicated')
    if used:
        h_lo = min(refs[r].open for r in used)
        h_hi = max(refs[r].close for r in used)
        miss = [r for r in range(len(refs)) if r not in used and refs[r].close >= h_lo and refs[r].open <= h_hi]
        if miss:
            r = miss[0]
            bad['missing_opening'] = (len(miss), f'opening [{float(refs[r].open)!r}, {float(refs[r].close)!r}] s of slit/rotation {refs[r].slits} lies inside '
                                                 f'the covered span [{float(h_lo)!r}, {float(h_hi)!r}] but is not reported')
    if cover is not None:
        miss = [r for r in range(len(refs)) if r not in used and refs[r].open >= cover[0] and refs[r].close <= cover[1]]
        if miss:
            r = miss[0]
            bad['pulse_not_covered'] = (len(miss), f'beam_position = phase = 0: opening [{float(refs[r].open)!r}, {float(refs[r].close)!r}] s lies within '
                                                   f'[{float(cover[0])!r}, {float(cover[1])!r}] s but is not reported')
    for kind, (cnt, msg) in bad.items():
        rec.viol(site, kind, f'{cnt}x: {msg}', **sub)
    if any(o < 0 for o in opens):
        rec.cls('opening_before_pulse')
    if any(o < 0 < c for o, c in zip(opens, closes, strict=True)):
        rec.cls('opening_straddles_pulse_time')
    return matched if not bad else None


def _disk(slits_deg, beam, phase, freq_value, funit):
    return Disk(
        [(Fr(b, 360), Fr(e, 360)) for b, e in slits_deg],
        Fr(beam, 360),
        Fr(phase, 360),
        Fr(freq_value) * UNIT_HZ[funit],
    )


def check_config(rec, case, slits_deg, *, beam, phase, amode, freq_value, funit, pulse_value, punit, dtype, n_rep, npulses_list, first=False, freq_dtype=None, pulse_dtype=None):
    """One real DiskChopper: the direct API and every expansion over pulses."""
    sub0 = {'beam_deg': beam, 'phase_deg': phase}
    try:
        ch = build(slits_deg, beam=beam, phase=phase, amode=amode, freq_value=freq_value, funit=funit, dtype=dtype, freq_dtype=freq_dtype)
    except ValueError as e:
        rec.viol('DiskChopper.__init__', 'valid_slits_rejected', f'non-overlapping slits {slits_deg} deg rejected: {str(e)[:80]}', **sub0)
        return False
    pulse_dtype = pulse_dtype or dtype
    pv = int(pulse_value) if pulse_dtype.startswith('int') else float(pulse_value)
    pf = sc.scalar(pv, unit=punit, dtype=pulse_dtype)
    disk = _disk(slits_deg, beam, phase, ch.frequency.value.item() if hasattr(ch.frequency.value, 'item') else ch.frequency.value, funit)
    t_pulse = 1 / (Fr(pv) * UNIT_HZ[punit])
    rec.states += 1
    rec.transitions += 3
    zero = beam == 0 and phase == 0 and all(0 <= b and e <= 360 for b, e in slits_deg)

    site = 'DiskChopper.time_offset_open_close'
    try:
        topen = ch.time_offset_open(pulse_frequency=pf)
        tclose = ch.time_offset_close(pulse_frequency=pf)
        tdur = ch.open_duration(pulse_frequency=pf)
    except ValueError as e:
        rec.viol('DiskChopper._source_phase_factor', 'in_phase_ratio_rejected',
                 f'frequency {ch.frequency.value!r} {funit} at pulse frequency {pv!r} {punit} rejected: {str(e)[:60]}', **sub0)
        return False
    if topen.unit != tclose.unit or topen.dims != tclose.dims:
        rec.viol(site, 'unit_or_dims', f'open {topen.dims} [{topen.unit}] vs close {tclose.dims} [{tclose.unit}]', **sub0)
    if first:
        _dc.uuid4 = _ORIG_UUID4
        try:
            same = sc.identical(topen, ch.time_offset_open(pulse_frequency=pf)) and sc.identical(tclose, ch.time_offset_close(pulse_frequency=pf))
        finally:
            _dc.uuid4 = _fixed_uuid4
        if not same:
            raise AssertionError('broken harness: pinning the scratch dimension label changes the result')
        rec.cls('scratch_label_differential_identical')
    opens, closes, durs = _seconds(topen), _seconds(tclose), _seconds(tdur)
    ok = judge(rec, site, disk, opens, closes, t_pulse, sub0, cover=(Fr(0), max(t_pulse, disk.period)) if zero else None)
    want = len(slits_deg) * (n_rep + 1)
    if len(opens) != want:
        rec.viol(site, 'count', f'{len(opens)} pairs reported, expected n_slits*(n+1) = {len(slits_deg)}*({n_rep}+1) = {want}', **sub0)
    rec.validated += 1
    tol = float(TOL_PERIODS * t_pulse)
    if len(durs) != len(opens) or any(abs(d - (c - o)) > 2 * tol for d, o, c in zip(durs, opens, closes, strict=False)):
        rec.viol('DiskChopper.open_duration', 'not_close_minus_open', f'open_duration {durs[:4]} vs close-open {[c - o for o, c in zip(opens, closes, strict=False)][:4]}', **sub0)
    rec.evals += 1
    if ok is not None:
        rec.cls('direct_ok')
        rec.nontrivial += 1

    if first or (phase != 0 and amode != 'deg'):
        # a twin disk built from the very same Variable objects (other sense of rotation), after the first chopper has
        # been used: the first chopper's methods may not have changed the caller's variables
        rec.states += 1
        rec.transitions += 2
        try:
            twin = DiskChopper(axle_position=ch.axle_position, frequency=-ch.frequency, beam_position=ch.beam_position, phase=ch.phase,
                               slit_begin=ch.slit_begin, slit_end=ch.slit_end)
            fv2 = twin.frequency.value.item() if hasattr(twin.frequency.value, 'item') else twin.frequency.value
            disk2 = _disk(slits_deg, beam, phase, fv2, funit)
            o2, c2 = _seconds(twin.time_offset_open(pulse_frequency=pf)), _seconds(twin.time_offset_close(pulse_frequency=pf))
        except ValueError as e:
            rec.viol('DiskChopper.__init__', 'twin_from_same_variables_rejected', f'{str(e)[:100]}', **sub0)
        else:
            if judge(rec, 'DiskChopper.time_offset_open_close/twin_from_same_variables', disk2, o2, c2, t_pulse, sub0) is not None:
                rec.cls('twin_from_same_variables_ok')
        # a chopper derived from the used one with dataclasses.replace (twice the speed): it must behave like a freshly
        # built chopper of that speed (rotations per pulse are a function of the new frequency, not of the old object)
        import dataclasses

        rec.states += 1
        rec.transitions += 2
        try:
            fast = dataclasses.replace(ch, frequency=ch.frequency * 2)
            fv3 = fast.frequency.value.item() if hasattr(fast.frequency.value, 'item') else fast.frequency.value
            disk3 = _disk(slits_deg, beam, phase, fv3, funit)
            o3, c3 = _seconds(fast.time_offset_open(pulse_frequency=pf)), _seconds(fast.time_offset_close(pulse_frequency=pf))
        except ValueError as e:
            r3 = abs(Fr(ch.frequency.value.item() if hasattr(ch.frequency.value, 'item') else ch.frequency.value) * 2 * UNIT_HZ[funit]) * t_pulse
            if r3.denominator == 1 or r3.numerator == 1:
                rec.viol('DiskChopper.time_offset_open_close/replaced_frequency', 'in_phase_ratio_rejected', f'{str(e)[:100]}', **sub0)
            else:
                rec.cls('replaced_frequency_out_of_phase_rejected')  # e.g. 2 x 1/3: rightly refused
        else:
            ratio3 = abs(Fr(fv3) * UNIT_HZ[funit]) * t_pulse
            n3 = max(round(ratio3), 1)
            if judge(rec, 'DiskChopper.time_offset_open_close/replaced_frequency', disk3, o3, c3, t_pulse, sub0) is not None and len(o3) == len(slits_deg) * (n3 + 1):
                rec.cls('replaced_frequency_ok')
            elif len(o3) != len(slits_deg) * (n3 + 1):
                rec.viol('DiskChopper.time_offset_open_close/replaced_frequency', 'count', f'{len(o3)} pairs reported after dataclasses.replace(frequency x2), expected {len(slits_deg)}*({n3}+1)', **sub0)

    site = 'Chopper.from_disk_chopper'
    for npulses in npulses_list:
        sub = dict(sub0, npulses=npulses)
        rec.states += 1
        rec.transitions += 1
        if funit != punit:
            rec.cls('fdc_mixed_frequency_units_run')
        try:
            cc = Chopper.from_disk_chopper(ch, pf, npulses)
        except sc.UnitError as e:
            rec.viol('Chopper.from_disk_chopper', 'raises_unit_error', f'chopper in {funit}, pulse in {punit}: {str(e)[:80]}', **sub)
            continue
        except ValueError as e:
            rec.viol('DiskChopper._source_phase_factor', 'in_phase_ratio_rejected', f'from_disk_chopper: {str(e)[:60]}', **sub)
            continue
        if funit != punit:
            rec.cls('fdc_mixed_frequency_units_ok')
        rec.observe(cc.distance.values)
        cover = (Fr(0), max(npulses * t_pulse, disk.period)) if zero else None
        ok = judge(rec, site, disk, _seconds(cc.time_open), _seconds(cc.time_close), t_pulse, sub, cover=cover)
        rec.cls('fdc_npulses_1_run' if npulses == 1 else 'fdc_npulses_ge2_run')
        if ok is not None:
            rec.cls('fdc_npulses_1_ok' if npulses == 1 else 'fdc_npulses_ge2_ok')
            rec.nontrivial += 1
    return True


def run_open(case, rec):
    n, d = case['ratio']
    pulse = case['pulse']
    hz = pulse * n / d
    fv = case['sense'] * _freq_value(hz, case['funit'])
    pv = _freq_value(pulse, case['punit'])
    slits = SLITSETS[case['slits']]
    n_rep = max(1, round(n / d))
    rec.cls('sense_clockwise' if case['sense'] < 0 else 'sense_anticlockwise')
    rec.cls('ratio_one' if n == d else 'ratio_harmonic' if n > d else 'ratio_subharmonic')
    if any(e > 360 for _, e in slits):
        rec.cls('slit_spans_tdc')
    if any(b < 0 for b, _ in slits):
        rec.cls('slit_negative_begin')
    if case['amode'] != 'deg':
        rec.cls('unit_rad')
    if case['amode'] == 'mixed':
        rec.cls('unit_angles_mixed')
    for u in (case['funit'], case['punit']):
        if u == 'kHz':
            rec.cls('unit_kHz')
        if u == '1/min':
            rec.cls('unit_per_min')
    if case['dtype'] == 'int64':
        rec.cls('dtype_int64')
    for beam in case['beams']:
        for phase in case['phases']:
            if abs(phase) >= 360:
                rec.cls('phase_multi_turn')
            check_config(rec, case, slits, beam=beam, phase=phase, amode=case['amode'], freq_value=fv, funit=case['funit'],
                         pulse_value=pv, punit=case['punit'], dtype=case['dtype'], n_rep=n_rep, npulses_list=case['npulses'],
                         first=(beam == case['beams'][0] and phase == case['phases'][0]))


def run_ratio(case, rec):
    n, d = case['base']
    pulse = case['pulse']
    hz = pulse * n / d * (1.0 + case['delta'])
    fv = case['sense'] * _freq_value(hz, case['funit'])
    pv = _freq_value(pulse, case['punit'])
    slits = SLITSETS['two_at_tdc']
    if case['expect'] == 'accept':
        quot = abs(fv) * float(UNIT_HZ[case['funit']]) / (pv * float(UNIT_HZ[case['punit']]))
        n_rep = round(max(quot, 1))
        if check_config(rec, case, slits, beam=37, phase=15, amode='deg', freq_value=fv, funit=case['funit'],
                        pulse_value=pv, punit=case['punit'], dtype='float64', n_rep=n_rep, npulses_list=[1]):
            rec.cls('ratio_near_integer_accepted')
        return
    ch = build(slits, beam=37, phase=15, amode='deg', freq_value=fv, funit=case['funit'])
    pf = sc.scalar(pv, unit=case['punit'])
    calls = {
        'DiskChopper.time_offset_open': lambda: ch.time_offset_open(pulse_frequency=pf),
        'DiskChopper.time_offset_close': lambda: ch.time_offset_close(pulse_frequency=pf),
        'DiskChopper.open_duration': lambda: ch.open_duration(pulse_frequency=pf),
        'Chopper.from_disk_chopper': lambda: Chopper.from_disk_chopper(ch, pf, 2),
    }
    for site, call in calls.items():
        rec.transitions += 1
        rec.evals += 1
        rec.validated += 1
        try:
            res = call()
        except ValueError:
            rec.cls('ratio_rejected_ValueError')
        else:
            rec.observe(repr(res)[:200])
            rec.viol(site, 'out_of_phase_ratio_accepted', f'ratio {n}/{d}*(1{case["delta"]:+.0e}) is neither an integer nor an inverse integer to 1e-8 but no ValueError was raised',
                     ratio=hz / pulse)
    rec.nontrivial += 1


def run_ratio_dtype(case, rec):
    f, pz = case['sense'] * case['freq'], case['pulse']
    fdt, pdt = case['freq_dtype'], case['pulse_dtype']
    funit, punit = case.get('funit', 'Hz'), case.get('punit', 'Hz')
    slits = SLITSETS['two_at_tdc']
    rec.cls('ratio_mixed_dtypes')
    if funit != punit:
        rec.cls('ratio_mixed_dtypes_and_units')
    if case['expect'] == 'accept':
        quot = abs(f) * float(UNIT_HZ[funit]) / (pz * float(UNIT_HZ[punit]))
        n_rep = round(max(quot, 1))
        if check_config(rec, case, slits, beam=37, phase=15, amode='deg', freq_value=f, funit=funit, pulse_value=pz, punit=punit, dtype='float64',
                        n_rep=n_rep, npulses_list=[1, 2] if funit == punit else [1], freq_dtype=fdt, pulse_dtype=pdt):
            rec.cls('ratio_mixed_dtypes_accepted')
        return
    ch = build(slits, beam=37, phase=15, amode='deg', freq_value=f, funit=funit, freq_dtype=fdt)
    pf = sc.scalar(int(pz) if pdt.startswith('int') else float(pz), unit=punit, dtype=pdt)
    calls = {
        'DiskChopper.time_offset_open': lambda: ch.time_offset_open(pulse_frequency=pf),
        'DiskChopper.time_offset_close': lambda: ch.time_offset_close(pulse_frequency=pf),
        'DiskChopper.open_duration': lambda: ch.open_duration(pulse_frequency=pf),
        'Chopper.from_disk_chopper': lambda: Chopper.from_disk_chopper(ch, pf, 2),
    }
    for site, call in calls.items():
        rec.transitions += 1
        rec.evals += 1
        rec.validated += 1
        try:
            res = call()
        except ValueError:
            rec.cls('ratio_mixed_dtypes_rejected')
        else:
            rec.observe(repr(res)[:200])
            rec.viol(site, 'out_of_phase_ratio_accepted', f'chopper {f} Hz ({fdt}) with pulse {pz} Hz ({pdt}): the ratio is neither an integer nor an inverse integer but no ValueError was raised', ratio=f / pz)
    rec.nontrivial += 1


def run_overlap(case, rec):
    fam = case['family']
    slits = list(OVERLAPS[fam])
    if case['order'] == 'reversed':
        slits.reverse()
    turns = [(Fr(b, 360), Fr(e, 360)) for b, e in slits]
    begin_gt_end = any(e < b for b, e in slits)
    # the reference model decides the family membership, not the table above
    if not begin_gt_end:
        assert arcs_overlap(turns), fam
        d = Disk(turns, 0, 0, 1)
        ops = d.openings(0, 1)
        assert ops is None or any(len(o.slits) > 1 for o in ops), fam
    rec.validated += 1
    aunit, dtype = case['aunit'], case['dtype']
    begin = _angles([b for b, _ in slits], aunit, dtype, True)
    end = _angles([e for _, e in slits], aunit, dtype, True)
    common = {
        'position': sc.vector([0.0, 0.0, 5.0], unit='m'),
        'rotation_speed': sc.scalar(14.0, unit='Hz'),
        'beam_position': sc.scalar(0.0, unit='deg'),
        'phase': sc.scalar(0.0, unit='deg'),
    }
    rec.transitions += 1
    rec.evals += 1
    if fam in TDC_FAMILIES:
        rec.cls('overlap_tdc_case_run')
    try:
        if case['route'] == 'init':
            DiskChopper(axle_position=common['position'], frequency=common['rotation_speed'], beam_position=common['beam_position'],
                        phase=common['phase'], slit_begin=begin, slit_end=end)
        elif case['route'] == 'from_nexus_begin_end':
            DiskChopper.from_nexus({**common, 'slit_begin': begin, 'slit_end': end})
        else:
            edges = _angles([x for be in slits for x in be], aunit, dtype, True)
            DiskChopper.from_nexus({**common, 'slit_edges': edges})
    except ValueError as e:
        rec.observe(str(e)[:60])
        if begin_gt_end:
            rec.cls('begin_gt_end_rejected')
        elif fam in TDC_FAMILIES:
            rec.cls('overlap_tdc_rejected')
        else:
            rec.cls('overlap_plain_rejected')
    else:
        site = 'DiskChopper.__init__' if case['route'] == 'init' else 'DiskChopper.from_nexus'
        kind = ('begin_gt_end_accepted' if begin_gt_end else 'slit_wider_than_turn_accepted' if fam == 'wider_than_turn'
                else 'overlap_across_tdc_accepted' if fam in TDC_FAMILIES else 'overlapping_slits_accepted')
        rec.viol(site, kind, f'slits {slits} deg ({fam}) overlap on the disk but no ValueError was raised', family=fam)
    rec.nontrivial += 1


def run_case(case, rec):
    kind = case['kind']
    if kind == 'open':
        run_open(case, rec)
    elif kind == 'ratio':
        run_ratio(case, rec)
    elif kind == 'ratio_dtype':
        run_ratio_dtype(case, rec)
    elif kind == 'overlap':
        run_overlap(case, rec)
    else:
        raise ValueError(kind)
