"""C11 - chopper-cascade frames are exactly the set of transmitted neutrons.

Shape P: for every (pulse, cascade) configuration of the bounded alphabet, a family of
programs over {chop(list), propagate_to(d), [d]} is executed on the real
FrameSequence/Frame/Subframe/Chopper classes.

Oracles
  * ref/clip.py: exact-rational transmitted region in emission space (one convex piece per
    choice of one window per chopper) + pointwise transmission predicate.
      - every reported subframe fits one window per chopper and the pulse (1e-9 band),
      - per window combination, reported area == exact area (1e-9 of the pulse area),
      - vertex sets agree (1e-9),
      - lattice of 41 x 41 interior emission points + probes around every model vertex:
        arrival point in a reported polygon <=> transmitted (1e-9 don't-care bands),
      - vertex wavelengths inside the source band (1e-12 angstrom).
  * differential: incremental chop == one call; every listing order; split calls (with and
    without a propagate_to in between); two-step == one-step propagation (forward,
    zero-length, beyond-and-back, Frame- and FrameSequence-level, array of distances);
    [distance] indexing at / between / beyond choppers against the model.
  * every subframe of every frame produced is_regular(); subbounds()/bounds() return and
    equal min/max over the vertices.
  * a window that touches a subframe *exactly* (float tie with the frame the real code
    produced) keeps the touching point/segment as a (degenerate) subframe.

Readings chosen (weakest consistent with the statement)
  * "does not depend on the order in which choppers are listed": for pairwise different
    distances Frame.__eq__ on every frame; for choppers at the *same* distance the frames
    are compared as sets of non-degenerate subframes (listing order legitimately changes
    the order of subframes and the rounding path), tolerance 1e-9.
  * a frame indexed exactly at a chopper's distance is the frame behind that chopper.
  * chop calls issued against the beam direction may raise ValueError or give the
    order-independent result; anything else is a violation.
  * empty frames have no subframes, so bounds need not be available for them.

Unit representation (cases of kind 'units'): the same physical cascade written with chopper distances in cm / mm /
km / mixed units, propagate_to / [distance] arguments in another unit than the choppers, windows in ms / us, pulse in
s / us and nm, and int64 where the numbers are whole.  Every frame of chop(all) / one-by-one / reversed list, the final
frame via propagate_to in every query unit, two-step propagation through a foreign-unit distance and every lookup
(before / between / at / beyond choppers, on chop(all) and on the propagated sequence) must (1) report the physical
distance, (2) be the same set as the all-metres representation (differential, 1e-9), (3) agree with the exact
reference.  A units case stops at its first violation (the rest is a consequence of the same conversion).

Persistent-object semantics ("any sequence of chop / propagate calls"): every Frame and FrameSequence obtained is
kept and byte-snapshotted; after every operation all of them must be unchanged (kind earlier_frame_modified /
earlier_sequence_modified) - deriving a variant must not change the base it was derived from.  A case is aborted at
the first such hit (everything after it would be built on corrupted objects).  Cases of kind 'history' explore this
breadth-first: every sequence of {chop([S1|S2 at the base's distance]), chop([Z at 0 m]), chop([F at 23.7 m]),
propagate_to(same distance), propagate_to(30 m)} up to depth 3 (quick) / 4 (thorough) from one shared base sequence,
with [distance] / [int] inspection and Frame-level propagate_to/chop on the held last frame at every node, every new
frame compared with the exact reference, and all frames re-compared at the end.
"""
from __future__ import annotations

import itertools
from fractions import Fraction as Fr

import numpy as np
import scipp as sc
from scippneutron.tof import chopper_cascade as cc

from ref import clip

ID = 'C11'
LEVEL = 'model_checking'
RULE = (
    'configurations: pulse rectangle x ordered list of (distance, window pattern) letters, windows resolved relative '
    'to the frame arriving at the chopper (fractions of its time range from the exact model; exact vertex times of the '
    'real frame for touching windows, optionally nudged by 1 ulp); per configuration every program of the family '
    '{incremental, one call, all listing orders, all 2-splits (+propagate between, reversed blocks, against the beam), '
    'two-step propagation via 4 intermediate distances, indexing at/between/beyond choppers, array of distances} is '
    'executed; non-trivial = at least one chopper removes part of the pulse and something is transmitted; '
    'states = distinct frames (vertex lists rounded to 1e-12) produced; history cases: BFS over all operation sequences '
    'up to the depth bound from one shared base sequence, all earlier frames/sequences byte-compared after every operation; '
    'units cases: cascade x representation (unit and dtype of chopper distances, query distances, windows, pulse), judged against the '
    'all-metres run of the same cascade and the reference'
)
ASSUMPTIONS = [
    'neutron kinematics t = t0 + (m_n/h) * lambda * d with m_n, h as scipp exposes them; windows are closed intervals',
    'float evaluation of the pointwise predicate is exact outside a 1e-9 relative band around every window / pulse edge (points inside the band are not judged)',
    'the statement is about physical quantities: a cascade may be written in any length / time unit and in integer dtype; loud refusals (UnitError for '
    'chopper lists with mixed distance units, for windows not in seconds and for lookups in a sequence whose frames carry different distance units; DTypeError for '
    'integer/float clashes) are counted, not flagged - a silently different answer is a violation',
    'windows of one chopper do not overlap in more than an endpoint',
]
BOUND = {
    'quick': '4 pulses; 1 chopper: 5 distances x 19 window patterns; 2 choppers: 4 distance pairs (one at equal distance) x 13^2 patterns; '
    '3 choppers: 2 ladders x 3^3 patterns x 2 pulses; 5 choppers: all 5 distances x 3^5 patterns; per configuration the whole program family '
    '(all listing orders up to 4 choppers, 9 orders for 5), final distance 80 m; histories: 2 pulses x 4 bases x all sequences of 6 operations '
    'up to depth 3 (<= 259 sequences each); units: 2 pulses x 13 cascades (0-5 choppers, equal distances, chopper at 0 m) x 16 representations; completed',
    'thorough': '7 pulses x 5 distances x 22 patterns (1 chopper); 6 pulses x all 15 distance pairs x 19^2 patterns (2 choppers); 4 pulses x 6 ladders x 6^3 '
    '(3 choppers); 3 pulses x 2 ladders x 4^4 (4 choppers); 2 pulses x 2 ladders x 3^5 (5 choppers); same program family; '
    'histories: 4 pulses x 6 bases x all sequences of 6 operations up to depth 4 (<= 1555 sequences each); units: quick set + 4 pulses x every 1-chopper '
    'configuration x 16 representations + 15 pairs x 13^2 patterns x 3 key representations + 2 pulses x 3 ladders x 3^3 x 16 + 3^5 x 5; completed',
}
REQUIRED_CLASSES = [
    'cut_const_lambda_edge_open',
    'cut_const_lambda_edge_close',
    'cut_slanted_edge_open',
    'cut_slanted_edge_close',
    'cut_chopper_edge_open',
    'cut_chopper_edge_close',
    'frame_empty',
    'multi_subframe',
    'touch_exact_point',
    'touch_exact_segment',
    'degenerate_subframe',
    'perm_equal_eq',
    'perm_equal_set',
    'split_equal',
    'backward_rejected',
    'backward_same_distance_equal',
    'two_step_equal',
    'index_between',
    'index_at_chopper',
    'index_before_first',
    'probe_transmitted',
    'probe_blocked',
    'probe_dontcare',
    'same_distance',
    'subbounds_ok',
    'bounds_ok',
    'choppers_0',
    'choppers_1',
    'choppers_2',
    'choppers_3',
    'choppers_5',
    'snapshots_intact',
    'history_node',
    'history_rejected',
    'history_same_distance_chop',
    'history_zero_step',
    'history_recompared',
    'units_same_as_metres',
    'units_cm',
    'units_mm',
    'units_km',
    'units_query_cm_mm',
    'units_mixed',
    'units_win_ms',
    'units_pulse_s_nm',
    'units_int_mm',
    'units_int_m',
    'units_int_query_mm',
    'units_int_pulse_ms',
    'units_int_wavelength',
    'refused_time_unit',
    'units_index_final',
    'units_index_between',
    'units_index_at_chopper',
    'units_index_before_first',
    'units_choppers_0',
    'units_choppers_2',
    'units_choppers_5',
]

ALPHA = clip.alpha_from(sc.constants.m_n.value, sc.constants.h.value)
ALPHA_F = float(ALPHA)
FINAL = 80.0
BAND = 1e-9
NL = 41

# ---------------------------------------------------------------------------------------
# alphabet

PULSES = {
    'wide': (0.0, 3.0, 0.0, 10.0),
    'ess': (0.0, 3.0, 1.8, 7.2),
    'narrow': (0.0, 3.0, 0.5, 0.625),
    'wide12': (1.0, 2.0, 0.0, 10.0),
    'ess12': (1.0, 2.0, 1.8, 7.2),
    'narrow12': (1.0, 2.0, 0.5, 0.625),
    'odd': (0.3, 2.9, 0.9, 4.1),
}
DISTANCES = (0.0, 6.3, 10.0, 23.7, 60.0)


def F(n, d):
    return ['f', n, d]


def V(k, u=0):
    return ['v', k, u]


PATTERNS = {
    'contain': [(F(-1, 4), F(5, 4))],
    'before': [(F(-1, 2), F(-1, 4))],
    'after': [(F(5, 4), F(3, 2))],
    'open': [(F(1, 3), F(5, 4))],
    'close': [(F(-1, 4), F(5, 8))],
    'both': [(F(1, 8), F(1, 2))],
    'early': [(F(1, 16), F(3, 16))],
    'late': [(F(13, 16), F(15, 16))],
    'shared': [(F(1, 8), F(3, 8)), (F(3, 8), F(3, 4))],
    'unsorted': [(F(5, 8), F(7, 8)), (F(1, 8), F(3, 8))],
    'touchmin': [(F(-1, 4), V(0))],
    'touchmax': [(V(-1), F(5, 4))],
    'vertex': [(V(1), V(2))],
    'vshared': [(F(-1, 4), V(1)), (V(1), F(5, 4))],
    'four': [(F(-1, 2), F(-1, 4)), (F(1, 16), F(1, 4)), (F(1, 4), F(1, 2)), (F(3, 4), F(5, 4))],
    'three_unsorted': [(F(3, 4), F(7, 8)), (F(1, 4), F(3, 8)), (F(1, 2), F(5, 8))],
    'touchmin+': [(F(-1, 4), V(0, 1))],
    'touchmin-': [(F(-1, 4), V(0, -1))],
    'touchmax+': [(V(-1, 1), F(5, 4))],
    'touchmax-': [(V(-1, -1), F(5, 4))],
    'vertex+': [(V(1, 1), V(2, 1))],
    'vertex-': [(V(1, -1), V(2, -1))],
}
P_QUICK2 = ['contain', 'before', 'open', 'close', 'both', 'late', 'shared', 'unsorted', 'touchmin', 'touchmax', 'vertex', 'vshared', 'four']
P_ALL = [*P_QUICK2, 'after', 'early', 'three_unsorted', 'touchmin+', 'touchmax-', 'vertex+']
P_EXTRA = ['touchmin-', 'touchmax+', 'vertex-']
P_WIDE = ['open', 'close', 'shared']
P_WIDE4 = ['open', 'close', 'shared', 'vshared']
P_MID = ['open', 'close', 'shared', 'unsorted', 'vshared', 'touchmax']


def cases(tier):
    out = []

    def add(pulse, chops):
        out.append({'pulse': pulse, 'choppers': [[d, p] for d, p in chops]})

    thorough = tier == 'thorough'
    pulses = [p for p in PULSES if p != 'odd'] if thorough else ['wide', 'ess', 'narrow', 'ess12']
    pulses1 = [*pulses, 'odd'] if thorough else pulses
    for pu in pulses1:
        add(pu, [])
    # one chopper: every distance x every pattern
    for pu in pulses1:
        for d in DISTANCES:
            for p in P_ALL + (P_EXTRA if thorough else []):
                add(pu, [(d, p)])
    # two choppers
    if thorough:
        pairs = [(a, b) for i, a in enumerate(DISTANCES) for b in DISTANCES[i:]]
        pats = P_ALL
    else:
        pairs = [(0.0, 6.3), (6.3, 6.3), (6.3, 23.7), (10.0, 60.0)]
        pats = P_QUICK2
    for pu in pulses:
        for a, b in pairs:
            for p1 in pats:
                for p2 in pats:
                    add(pu, [(a, p1), (b, p2)])
    # three choppers
    if thorough:
        ladders3 = [(6.3, 10.0, 23.7), (0.0, 10.0, 10.0), (6.3, 6.3, 6.3), (0.0, 6.3, 60.0), (10.0, 23.7, 60.0), (23.7, 23.7, 60.0)]
        pats3 = P_MID
        pulses3 = ['wide', 'ess', 'narrow', 'ess12']
    else:
        ladders3 = [(6.3, 10.0, 23.7), (0.0, 10.0, 10.0)]
        pats3 = P_WIDE
        pulses3 = ['ess', 'wide12']
    for pu in pulses3:
        for lad in ladders3:
            for ps in itertools.product(pats3, repeat=3):
                add(pu, list(zip(lad, ps, strict=True)))
    # four / five choppers
    if thorough:
        for pu in ['ess', 'wide12', 'narrow']:
            for lad in [(0.0, 6.3, 10.0, 23.7), (6.3, 10.0, 10.0, 60.0)]:
                for ps in itertools.product(P_WIDE4, repeat=4):
                    add(pu, list(zip(lad, ps, strict=True)))
    for pu in ['ess', 'wide12'] if thorough else ['ess']:
        for lad in [DISTANCES] + ([(6.3, 6.3, 10.0, 23.7, 23.7)] if thorough else []):
            for ps in itertools.product(P_WIDE, repeat=5):
                add(pu, list(zip(lad, ps, strict=True)))
    out.extend(unit_cases(tier))
    # branching histories (each is a long case): spread evenly over the list so that they land in different work items
    hist = history_cases(tier)
    for i, h in enumerate(hist):
        out.insert((i + 1) * len(out) // (len(hist) + 1), h)
    return out


# ---------------------------------------------------------------------------------------
# helpers: real objects


def m(x):
    return sc.scalar(float(x), unit='m')


def dist_m(x):
    """Physical distance in metres of a frame (or of a distance variable), whatever unit / dtype it is stored in."""
    d = x.distance if hasattr(x, 'distance') else x
    return float(d.to(unit='m', dtype='float64').value)


def make_chopper(distance, windows):
    return cc.Chopper(
        distance=m(distance),
        time_open=sc.array(dims=['slit'], values=[float(o) for o, _ in windows], unit='s'),
        time_close=sc.array(dims=['slit'], values=[float(c) for _, c in windows], unit='s'),
    )


def sub_arrays(sub):
    if sub.time.unit != sc.Unit('s') or sub.wavelength.unit != sc.Unit('angstrom'):
        raise AssertionError(f'subframe units {sub.time.unit}, {sub.wavelength.unit}')
    time = sub.time
    if time.ndim > 1:  # array of distances: put the vertex dim last, whatever layout the library chose
        wdims = list(sub.wavelength.dims)
        time = time.transpose([*(d for d in time.dims if d not in wdims), *wdims])
    return np.array(time.values, dtype=float), np.array(sub.wavelength.values, dtype=float)


def frame_arrays(frame):
    return [sub_arrays(s) for s in frame.subframes]


def frame_digest(frame):
    parts = [repr(float(frame.distance.value))]
    for t, lam in frame_arrays(frame):
        parts.append(','.join(f'{x:.12e}' for x in t.ravel()) + '|' + ','.join(f'{x:.12e}' for x in lam.ravel()))
    return ';'.join(parts)


class Abort(Exception):
    """The objects the rest of the case builds on are corrupted (already reported); stop the case."""


MAX_SUBFRAMES = 512  # the alphabet yields at most 2^5 pieces plus touching segments per frame


def _snapshot(frame, label):
    items = []
    for sub in frame.subframes:
        tv, wv = sub.time, sub.wavelength
        ta, wa = tv.values, wv.values  # views into the library's buffers
        items.append((sub, tv, wv, ta, wa, ta.tobytes(), wa.tobytes(), ta.shape, wa.shape))
    return {
        'frame': frame,
        'label': label,
        'subs': frame.subframes,
        'items': items,
        'dist': frame.distance,
        'dval': float(frame.distance.value),
        'dunit': str(frame.distance.unit),
    }


def _snapshot_intact(snap):
    """True iff the frame still holds, bit for bit, what it held when the snapshot was taken."""
    f = snap['frame']
    items = snap['items']
    subs = f.subframes
    if len(subs) != len(items):
        return False
    if str(f.distance.unit) != snap['dunit'] or float(f.distance.value) != snap['dval']:
        return False
    for sub, (s0, tv, wv, ta, wa, tb, wb, tsh, wsh) in zip(subs, items, strict=True):
        if sub is s0 and sub.time is tv and sub.wavelength is wv:
            # same objects: the stored views see any in-place change
            if ta.shape != tsh or wa.shape != wsh or ta.tobytes() != tb or wa.tobytes() != wb:
                return False
        else:
            t, w = sub.time, sub.wavelength
            if str(t.unit) != 's' or str(w.unit) != 'angstrom':
                return False
            t, w = t.values, w.values
            if t.shape != tsh or w.shape != wsh or t.tobytes() != tb or w.tobytes() != wb:
                return False
    return True


class Ctx:
    """Per-case state: the model, tolerances, counters."""

    def __init__(self, case, rec):
        self.case = case
        self.rec = rec
        t0, t1, l0, l1 = PULSES[case['pulse']]
        self.tmin = float(sc.scalar(t0, unit='ms').to(unit='s').value)
        self.tmax = float(sc.scalar(t1, unit='ms').to(unit='s').value)
        self.lmin, self.lmax = float(l0), float(l1)
        self.pulse = clip.Pulse(self.tmin, self.tmax, self.lmin, self.lmax)
        self.parea = float(self.pulse.area())
        self.atol_area = BAND * self.parea
        self.seq0 = cc.FrameSequence.from_source_pulse(
            time_min=sc.scalar(t0, unit='ms'),
            time_max=sc.scalar(t1, unit='ms'),
            wavelength_min=sc.scalar(l0, unit='angstrom'),
            wavelength_max=sc.scalar(l1, unit='angstrom'),
        )
        self.mchops = []  # clip.Chop, resolution order
        self.rchops = []  # cc.Chopper, same order
        self.windows = []  # float windows per chopper
        self._model = {}
        self.digests = set()
        self.reported = set()
        self.snaps = {}  # id(frame) -> snapshot (the frame is kept alive by the snapshot)
        self.seqs = []
        self.chopper_snaps = []
        # Frame.bounds() is exercised on the final frame of the 0/1-chopper cases and of the cases
        # whose choppers all use the same pattern (bounded number of calls per process, see check_regular)
        self.bounds_here = 'choppers' in case and len({p for _, p in case['choppers']}) <= 1
        # lattice strictly inside the pulse (emission space)
        i = (2 * np.arange(NL) + 1) / (2 * NL)
        self.lat_t0 = np.repeat(self.tmin + (self.tmax - self.tmin) * i, NL)
        self.lat_lam = np.tile(self.lmin + (self.lmax - self.lmin) * i, NL)

    # -- model -------------------------------------------------------------------------
    def model(self, applied):
        applied = tuple(applied)
        if applied not in self._model:
            pieces = clip.region(self.pulse, [self.mchops[i] for i in applied], ALPHA)
            self._model[applied] = pieces
        return self._model[applied]

    def tscale(self, distance):
        return max(abs(self.tmin), abs(self.tmax)) + ALPHA_F * self.lmax * abs(distance)

    # -- persistent-object semantics -----------------------------------------------------
    def watch(self, seq, label):
        """Remember every frame of a sequence (byte snapshot of all subframe arrays) and the sequence's frame list."""
        frames = list(seq.frames)
        self.seqs.append((seq, [id(f) for f in frames], label))
        for k, f in enumerate(frames):
            if len(f.subframes) > MAX_SUBFRAMES:
                self.viol_once('Frame.chop', 'subframe_explosion', f'{label}: frame {k} has {len(f.subframes)} subframes')
                raise Abort
            if id(f) not in self.snaps:
                self.snaps[id(f)] = _snapshot(f, f'frame {k} of {label}')

    def watch_chopper(self, ch):
        self.chopper_snaps.append((ch, ch.time_open.values.tolist(), ch.time_close.values.tolist(), ch.distance.value, str(ch.distance.unit)))

    def verify(self, site, after):
        """No operation may change a frame or a sequence obtained earlier."""
        self.rec.evals += 1
        for seq, ids, label in self.seqs:
            if [id(f) for f in seq.frames] != ids:
                self.viol_once(site, 'earlier_sequence_modified', f'after {after}: the frame list of {label} changed ({len(ids)} -> {len(seq.frames)} frames)')
                raise Abort
        for ci, (ch, wins) in enumerate(zip(self.rchops, self.windows, strict=False)):
            if ch.time_open.values.tolist() != [o for o, _ in wins] or ch.time_close.values.tolist() != [c for _, c in wins] or float(ch.distance.value) != float(self.mchops[ci].distance):
                self.viol_once(site, 'chopper_modified', f'after {after}: the Chopper object {ci} passed in was changed')
                raise Abort
        for ch, o, c, dv, du in self.chopper_snaps:
            if ch.time_open.values.tolist() != o or ch.time_close.values.tolist() != c or ch.distance.value != dv or str(ch.distance.unit) != du:
                self.viol_once(site, 'chopper_modified', f'after {after}: a Chopper object passed in was changed')
                raise Abort
        for snap in self.snaps.values():
            self.rec.validated += 1
            if not _snapshot_intact(snap):
                f = snap['frame']
                self.viol_once(
                    site,
                    'earlier_frame_modified',
                    f'after {after}: {snap["label"]} (an object obtained earlier) changed: it had {len(snap["items"])} subframe(s) at '
                    f'{snap["dval"]} {snap["dunit"]}, now {len(f.subframes)} at {float(f.distance.value)} {f.distance.unit}; '
                    f'first subframe before: {[np.frombuffer(snap["items"][0][5]).tolist(), np.frombuffer(snap["items"][0][6]).tolist()] if snap["items"] else None}, '
                    f'now: {[f.subframes[0].time.values.tolist(), f.subframes[0].wavelength.values.tolist()] if f.subframes else None}',
                )
                raise Abort
        self.rec.cls('snapshots_intact')

    def viol_once(self, site, kind, msg, **sub):
        key = (site, kind, sub.get('cause'))
        if key in self.reported:
            return
        self.reported.add(key)
        self.rec.viol(site, kind, msg, **sub)


# ---------------------------------------------------------------------------------------
# resolving the symbolic windows of one chopper


def distinct_times(frame):
    ts = sorted({float(x) for t, _ in frame_arrays(frame) for x in t.ravel()})
    out = []
    for x in ts:
        if out and abs(x - out[-1]) <= 1e-12 * max(abs(x), abs(out[-1]), 1e-300):
            continue
        out.append(x)
    return out


def resolve_windows(ctx, distance, pattern, arriving, applied=None):
    """Symbolic pattern -> list of float (open, close).  ``applied``: the model choppers that shaped the frame the
    fractions refer to (default: all resolved so far); ``arriving`` is only needed for the 'v' symbols."""
    if applied is None:
        applied = tuple(range(len(ctx.mchops)))
    pieces = [p for p in ctx.model(applied) if float(p.area) > ctx.atol_area]
    if not pieces:
        pieces = ctx.model(())
    ts = [t for p in pieces for t, _ in clip.arrival(p.verts, ALPHA, Fr(distance))]
    lo, hi = min(ts), max(ts)
    vt = distinct_times(arriving) if arriving is not None else []

    def point(sym):
        kind, a, b = sym
        if kind == 'f':
            return float(lo + (hi - lo) * Fr(a, b))
        if not vt:
            return float(lo + (hi - lo) * Fr(a % 4, 4))
        x = vt[a % len(vt)]
        for _ in range(abs(b)):
            x = float(np.nextafter(x, np.inf if b > 0 else -np.inf))
        return x

    out = []
    for o, c in PATTERNS[pattern]:
        a, b = point(o), point(c)
        if a > b:
            a, b = b, a
        out.append((a, b))
    return out


# ---------------------------------------------------------------------------------------
# checks on one frame


def check_regular(ctx, frame, arrays, label, with_bounds=False):
    """(vi) every subframe regular, bounds available and equal to min/max of the vertices.

    Frame.bounds() goes through sc.reduce, which registers 4 fresh (uuid) dimension labels
    per call; scipp allows 64536 labels per process and gets slower as the table fills, so
    bounds() is only called where with_bounds is set (see Ctx.bounds_here)."""
    rec = ctx.rec
    site = 'Frame.subbounds'
    if not frame.subframes:
        rec.cls('frame_empty')
        return
    irregular = []
    for k, sub in enumerate(frame.subframes):
        rec.evals += 1
        if bool(sub.is_regular()):
            rec.cls('regular')
        else:
            irregular.append(k)
    for k in irregular:
        t, lam = arrays[k]
        t, lam = t.reshape(-1, t.shape[-1])[-1], lam
        cause = 'other'
        for ext_t, ext_l in ((t == t.min(), lam.min()), (t == t.max(), lam.max())):
            near = np.abs(lam[ext_t] - ext_l) <= 4 * np.spacing(abs(ext_l))
            if near.any() and not (lam[ext_t] == ext_l).any():
                cause = 'lambda_ulp'
        sliver = clip.float_area(t, lam) <= ctx.atol_area
        if sliver:
            cause += '_sliver'
        rec.cls('irregular_' + cause)
        ctx.viol_once(
            site,
            'irregular_sliver' if sliver else 'irregular_subframe',
            f'{label}: subframe {k} produced by the library is not is_regular(): time={t.tolist()} wavelength={lam.tolist()}',
            cause=cause,
            sliver=bool(sliver),
            pulse=ctx.case['pulse'],
            time=t.tolist(),
            wavelength=lam.tolist(),
        )
    try:
        sb = frame.subbounds()
        bd = frame.bounds() if with_bounds else None
    except NotImplementedError as e:
        if not irregular:
            ctx.viol_once(site, 'raises', f'{label}: NotImplementedError although every subframe is regular: {e}')
        return
    if irregular:
        ctx.viol_once(site, 'irregular_not_refused', f'{label}: irregular subframes but subbounds() returned')
        return
    rec.cls('subbounds_ok')
    rec.evals += 1
    def by_name(v):
        return np.array(v.transpose([*(d for d in v.dims if d not in ('subframe', 'bound')), 'subframe', 'bound']).values, dtype=float)

    tb = by_name(sb['time'])
    lb = by_name(sb['wavelength'])
    want_t = np.array([[t.min(axis=-1), t.max(axis=-1)] for t, _ in arrays])  # (subframe, bound[, distance])
    want_l = np.array([[lam.min(), lam.max()] for _, lam in arrays])
    if tb.ndim == 3:  # (distance, subframe, bound)
        want_t = np.moveaxis(want_t, -1, 0)
    if tb.shape != want_t.shape or not np.array_equal(tb, want_t):
        ctx.viol_once(site, 'wrong_time_bounds', f'{label}: subbounds time {tb.tolist()} != vertex min/max {want_t.tolist()}')
    if lb.shape != want_l.shape or not np.array_equal(lb, want_l):
        ctx.viol_once(site, 'wrong_wavelength_bounds', f'{label}: subbounds wavelength {lb.tolist()} != vertex min/max {want_l.tolist()}')
    if sb['time'].unit != sc.Unit('s') or sb['wavelength'].unit != sc.Unit('angstrom'):
        ctx.viol_once(site, 'wrong_unit', f'{label}: {sb["time"].unit} {sb["wavelength"].unit}')
    if bd is None:
        return
    rec.cls('bounds_ok')
    gt = np.array(bd['time'].values, dtype=float)
    gl = np.array(bd['wavelength'].values, dtype=float)
    if tb.ndim == 2 and not (gt[0] == want_t[:, 0].min() and gt[1] == want_t[:, 1].max() and gl[0] == want_l[:, 0].min() and gl[1] == want_l[:, 1].max()):
        ctx.viol_once('Frame.bounds', 'wrong_bounds', f'{label}: bounds {gt.tolist()} {gl.tolist()}')


def check_against_model(ctx, frame, applied, label, site, lattice=True, with_bounds=False):
    """(i) (ii) (iii): the frame is exactly the transmitted set of the applied choppers."""
    rec = ctx.rec
    rec.transitions += 0
    D = dist_m(frame)
    arrays = frame_arrays(frame)
    ctx.digests.add(frame_digest(frame))
    rec.observe(label, [(t.tolist(), lam.tolist()) for t, lam in arrays])
    check_regular(ctx, frame, arrays, label, with_bounds=with_bounds)
    pieces = ctx.model(applied)
    rec.validated += 1
    chops = [ctx.mchops[i] for i in applied]
    lscale = max(abs(ctx.lmin), abs(ctx.lmax))
    tol_l = BAND * lscale
    # --- per subframe: band, fit into one window per chopper, area per combination
    got_area = {}
    for k, (t, lam) in enumerate(arrays):
        rec.evals += 1
        if len(arrays) > 1:
            rec.cls('multi_subframe')
        if lam.min() < ctx.lmin - 1e-12 or lam.max() > ctx.lmax + 1e-12:
            ctx.viol_once(site, 'outside_wavelength_band', f'{label}: subframe {k} wavelength {float(lam.min())!r}..{float(lam.max())!r} outside [{ctx.lmin}, {ctx.lmax}]', applied=list(applied))
        t0 = t - ALPHA_F * lam * D
        tol0 = BAND * ctx.tscale(D)
        if t0.min() < ctx.tmin - tol0 or t0.max() > ctx.tmax + tol0:
            ctx.viol_once(site, 'outside_pulse_time', f'{label}: subframe {k} emission times {float(t0.min())!r}..{float(t0.max())!r} outside the pulse', applied=list(applied))
        a = clip.float_area(t, lam)
        if a <= ctx.atol_area:
            rec.cls('degenerate_subframe')
            continue
        combos = [[]]
        for ci, ch in zip(applied, chops, strict=True):
            d = float(ch.distance)
            tc = t0 + ALPHA_F * lam * d
            tol = BAND * max(ctx.tscale(d), *(abs(x) for w in ctx.windows[ci] for x in w))
            fits = [wi for wi, (o, c) in enumerate(ctx.windows[ci]) if tc.min() >= o - tol and tc.max() <= c + tol]
            if not fits:
                ctx.viol_once(
                    site,
                    'subframe_outside_windows',
                    f'{label}: subframe {k} arrives at chopper {ci} (d={d}) during {float(tc.min())!r}..{float(tc.max())!r}, inside none of {ctx.windows[ci]}',
                    applied=list(applied),
                    chopper=ci,
                )
                combos = []
                break
            combos = [[*c0, wi] for c0 in combos for wi in fits]
        if not combos:
            continue
        # ambiguous fits can only come from thin pieces on a shared endpoint; take the best area match
        best = None
        for combo in combos:
            mp = [p for p in pieces if p.combo == tuple(combo)]
            ma = float(mp[0].area) if mp else 0.0
            if best is None or abs(ma - a) < best[0]:
                best = (abs(ma - a), tuple(combo))
        got_area.setdefault(best[1], []).append((a, k))
    want = {p.combo: p for p in pieces if float(p.area) > ctx.atol_area}
    for combo in sorted(set(got_area) | set(want)):
        ga = sum(a for a, _ in got_area.get(combo, []))
        wa = float(want[combo].area) if combo in want else float(sum(p.area for p in pieces if p.combo == combo))
        rec.validated += 1
        if abs(ga - wa) > ctx.atol_area:
            n = len(got_area.get(combo, []))
            kind = 'subframe_missing' if n == 0 else ('subframe_duplicated' if n > 1 and abs(ga - n * wa) <= n * ctx.atol_area else 'wrong_area')
            ctx.viol_once(site, kind, f'{label}: windows {combo}: reported area {ga!r} ({n} subframes), exact {wa!r} (pulse area {ctx.parea!r})', applied=list(applied), combo=list(combo))
            continue
        if combo in want and len(got_area[combo]) == 1:
            k = got_area[combo][0][1]
            t, lam = arrays[k]
            mv = clip.arrival(want[combo].verts, ALPHA, Fr(D))
            mt = np.array([float(x) for x, _ in mv])
            ml = np.array([float(y) for _, y in mv])
            tol_t = BAND * ctx.tscale(D)
            near = (np.abs(mt[:, None] - t[None, :]) <= tol_t) & (np.abs(ml[:, None] - lam[None, :]) <= tol_l)
            if not (near.any(axis=0).all() and near.any(axis=1).all()):
                ctx.viol_once(site, 'wrong_vertices', f'{label}: windows {combo}: vertices t={t.tolist()} lam={lam.tolist()} vs exact t={mt.tolist()} lam={ml.tolist()}', applied=list(applied), combo=list(combo))
    # --- outcome classes from the model: which kind of edge each cut crossed
    for p in pieces:
        if float(p.area) > ctx.atol_area:
            for kind, oc in p.crossed:
                rec.cls(f'cut_{kind}_{oc}')
    # --- (i) pointwise
    if lattice:
        pt0 = [ctx.lat_t0]
        plam = [ctx.lat_lam]
        et = 1e-5 * (ctx.tmax - ctx.tmin)
        el = 1e-5 * (ctx.lmax - ctx.lmin)
        for p in pieces:
            for x, y in p.verts:
                x, y = float(x), float(y)
                pt0.append(np.array([x - et, x + et, x + et, x - et]))
                plam.append(np.array([y - el, y - el, y + el, y + el]))
        pt0 = np.concatenate(pt0)
        plam = np.concatenate(plam)
        ok, dc = clip.classify_points(pt0, plam, ctx.pulse, chops, ALPHA, band_rel=BAND)
        inside, _ = clip.points_in_polygons(pt0 + ALPHA_F * plam * D, plam, [(t, lam) for t, lam in arrays if t.ndim == 1])
        judged = ~dc
        rec.cls('probe_dontcare', int(dc.sum()))
        rec.cls('probe_transmitted', int((ok & judged).sum()))
        rec.cls('probe_blocked', int((~ok & judged).sum()))
        rec.validated += int(judged.sum())
        bad = judged & (inside != ok)
        if bad.any():
            j = int(np.flatnonzero(bad)[0])
            kind = 'transmitted_not_in_frame' if ok[j] else 'blocked_but_in_frame'
            ctx.viol_once(
                site,
                kind,
                f'{label}: neutron t0={float(pt0[j])!r} s lam={float(plam[j])!r} A is {"transmitted" if ok[j] else "blocked"} by the model but '
                f'{"outside every" if ok[j] else "inside a"} reported polygon at {D} m ({int(bad.sum())} of {int(judged.sum())} probes disagree)',
                applied=list(applied),
                t0=float(pt0[j]),
                lam=float(plam[j]),
            )
    return arrays


# ---------------------------------------------------------------------------------------
# comparing two frames produced by the real code


def nondegenerate(ctx, arrays):
    return [(t, lam) for t, lam in arrays if clip.float_area(t, lam) > ctx.atol_area]


def same_set(ctx, a_arrays, b_arrays, D, rel):
    """Frames equal as sets of non-degenerate subframes (vertex sets within rel)."""
    A = nondegenerate(ctx, a_arrays)
    B = nondegenerate(ctx, b_arrays)
    if len(A) != len(B):
        return False
    tol_t = rel * ctx.tscale(D)
    tol_l = rel * max(abs(ctx.lmin), abs(ctx.lmax))
    used = set()
    for t, lam in A:
        hit = None
        for j, (u, mu) in enumerate(B):
            if j in used:
                continue
            near = (np.abs(t[:, None] - u[None, :]) <= tol_t) & (np.abs(lam[:, None] - mu[None, :]) <= tol_l)
            if near.any(axis=0).all() and near.any(axis=1).all():
                hit = j
                break
        if hit is None:
            return False
        used.add(hit)
    return True


def same_vertices(ctx, a_arrays, b_arrays, D):
    """Same subframes in the same order, same vertex order, coordinates within 1e-12 (relative to the scale of
    the frame) - the notion of Subframe.__eq__, evaluated independently."""
    if len(a_arrays) != len(b_arrays):
        return False
    tol_t = 1e-12 * ctx.tscale(D)
    tol_l = 1e-12 * max(abs(ctx.lmin), abs(ctx.lmax))
    for (t, lam), (u, mu) in zip(a_arrays, b_arrays, strict=True):
        if t.shape != u.shape or lam.shape != mu.shape:
            return False
        if not ((np.abs(lam - mu) <= tol_l).all() and (np.abs(t - u) <= tol_t).all()):
            return False
    return True


def frames_eq(a, b):
    try:
        return bool(a == b)
    except ValueError:  # Frame.__eq__ zips strictly: different number of subframes
        return False


# ---------------------------------------------------------------------------------------
# the case


def run_case(case, rec):
    ctx = Ctx(case, rec)
    try:
        if case.get('kind') == 'history':
            _run_history(ctx, case, rec)
        elif case.get('kind') == 'units':
            _run_units(ctx, case, rec)
        else:
            _run_cascade(ctx, case, rec)
    except Abort:
        rec.cls('case_aborted')
    rec.states += len(ctx.digests)


def _run_cascade(ctx, case, rec):
    spec = case['choppers']
    n = len(spec)
    rec.cls(f'choppers_{n}')
    dists = [float(d) for d, _ in spec]
    if len(set(dists)) < len(dists):
        rec.cls('same_distance')
    distinct = len(set(dists)) == len(dists)

    # ---- resolve the windows chopper by chopper, chopping incrementally with the real code
    inc = ctx.seq0
    ctx.watch(ctx.seq0, 'from_source_pulse(...)')
    for ci, (d, pat) in enumerate(spec):
        arriving = inc[-1].propagate_to(m(d))
        rec.transitions += 1
        ctx.verify('Frame.propagate_to', f'frames[-1].propagate_to({d} m)')
        wins = resolve_windows(ctx, d, pat, arriving)
        ctx.windows.append(wins)
        ctx.mchops.append(clip.Chop(float(d), wins))
        ch = make_chopper(d, wins)
        ctx.rchops.append(ch)
        inc = inc.chop([ch])
        rec.transitions += 1
        ctx.verify('FrameSequence.chop', f'chop([chopper {ci} at {d} m]) on the sequence ending at {float(inc[-2].distance.value) if len(inc) > 1 else 0.0} m')
        ctx.watch(inc, f'source.chop(choppers 0..{ci} one by one)')
        # exact touches: the touching point / segment must survive as a subframe
        out = frame_arrays(inc[-1])
        for t, lam in frame_arrays(arriving):
            for o, c in wins:
                for T, hit in ((c, c == t.min() and o < c), (o, o == t.max() and o < c)):
                    if not hit:
                        continue
                    lam_t = lam[t == T]
                    seg = lam_t.max() > lam_t.min()
                    rec.cls('touch_exact_segment' if seg else 'touch_exact_point')
                    rec.evals += 1
                    kept = any(
                        (u == T).all() and abs(mu.min() - lam_t.min()) <= 1e-12 * max(1.0, abs(lam_t.min())) and abs(mu.max() - lam_t.max()) <= 1e-12 * max(1.0, abs(lam_t.max()))
                        for u, mu in out
                    )
                    if not kept:
                        ctx.viol_once(
                            'Frame.chop',
                            'touching_window_lost',
                            f'chopper {ci} at {d} m window [{o!r}, {c!r}] touches the arriving subframe exactly at t={T!r} '
                            f'(lam {float(lam_t.min())!r}..{float(lam_t.max())!r}); the neutrons arriving at that instant pass but no reported subframe contains them',
                            chopper=ci,
                            window=[o, c],
                        )

    allc = list(range(n))
    final_d = m(FINAL)

    # ---- canonical program: one chop call, then propagate to the final distance
    can = ctx.seq0.chop(list(ctx.rchops))
    rec.transitions += n
    ctx.verify('FrameSequence.chop', 'source.chop(all choppers)')
    ctx.watch(can, 'source.chop(all choppers)')
    if len(can) != n + 1 or len(inc) != n + 1:
        rec.viol('FrameSequence.chop', 'frame_count', f'{len(can)} / {len(inc)} frames for {n} choppers')
        return
    for k in range(n + 1):
        if not (frames_eq(can[k], inc[k]) and same_vertices(ctx, frame_arrays(can[k]), frame_arrays(inc[k]), dists[k - 1] if k else 0.0)):
            ctx.viol_once('FrameSequence.chop', 'one_call_vs_incremental', f'frame {k} of chop(all) differs from chopping one by one')
        rec.validated += 1
        fd = dist_m(can[k])
        want_d = 0.0 if k == 0 else dists[k - 1]
        if fd != want_d:
            ctx.viol_once('FrameSequence.chop', 'frame_distance', f'frame {k} has distance {fd}, expected {want_d}')
        check_against_model(ctx, can[k], allc[:k], f'frame {k} (d={fd})', 'Frame.chop' if k else 'FrameSequence.from_source_pulse', lattice=(k == n or k == 0))
    finseq = can.propagate_to(final_d)
    rec.transitions += 1
    ctx.verify('FrameSequence.propagate_to', f'chop(all).propagate_to({FINAL} m)')
    ctx.watch(finseq, f'source.chop(all choppers).propagate_to({FINAL} m)')
    final = finseq[-1]
    if len(finseq) != n + 2:
        ctx.viol_once('FrameSequence.propagate_to', 'frame_count', f'{len(finseq)} frames')
    fin_arr = check_against_model(ctx, final, allc, f'final frame ({FINAL} m)', 'FrameSequence.propagate_to', with_bounds=ctx.bounds_here)
    model_final = [p for p in ctx.model(allc) if float(p.area) > ctx.atol_area]
    cut = sum(float(p.area) for p in model_final)
    if n and model_final and cut < (1 - 1e-6) * ctx.parea:
        rec.nontrivial += 1
    tol_t = 1e-12 * ctx.tscale(FINAL)

    def judge_final(frame, label, site, kind, exact_path, regular=True):
        """frame at FINAL must equal the canonical final frame."""
        rec.validated += 1
        arr = frame_arrays(frame)
        ctx.digests.add(frame_digest(frame))
        if regular:
            check_regular(ctx, frame, arr, label)
        fd = dist_m(frame)
        if fd != FINAL:
            ctx.viol_once(site, 'frame_distance', f'{label}: distance {fd}')
            return False
        if exact_path:
            ok = frames_eq(frame, final) and same_vertices(ctx, arr, fin_arr, FINAL)
        else:
            ok = same_set(ctx, arr, fin_arr, FINAL, BAND)
        if not ok:
            ctx.viol_once(site, kind, f'{label}: final frame differs from chop(all).propagate_to({FINAL} m): {[(t.tolist(), l.tolist()) for t, l in arr][:3]} vs {[(t.tolist(), l.tolist()) for t, l in fin_arr][:3]}')
        return ok

    # ---- (iv) every listing order
    if n >= 2:
        perms = list(itertools.permutations(range(n)))[1:]
        if n >= 5:
            keep = {tuple(reversed(range(n)))}
            for r in range(1, n):
                keep.add(tuple(list(range(n))[r:] + list(range(n))[:r]))
            for i in range(n - 1):
                sw = list(range(n))
                sw[i], sw[i + 1] = sw[i + 1], sw[i]
                keep.add(tuple(sw))
            perms = [p for p in perms if p in keep]
        for perm in perms:
            rec.transitions += n
            try:
                r = ctx.seq0.chop([ctx.rchops[i] for i in perm])
            except Exception as e:  # noqa: BLE001 - any refusal of a permuted list is order dependence
                ctx.viol_once('FrameSequence.chop', 'order_dependence', f'listing order {perm} raises {type(e).__name__}: {e}', perm=list(perm))
                continue
            ctx.verify('FrameSequence.chop', f'source.chop(listing order {perm})')
            if distinct:
                ok = len(r) == len(can) and all(frames_eq(r[k], can[k]) and same_vertices(ctx, frame_arrays(r[k]), frame_arrays(can[k]), dists[k - 1] if k else 0.0) for k in range(len(can)))
                rec.validated += len(can)
                if ok:
                    rec.cls('perm_equal_eq')
                else:
                    ctx.viol_once('FrameSequence.chop', 'order_dependence', f'listing order {perm}: frames differ from listing order {tuple(range(n))}', perm=list(perm))
            else:
                f = r.propagate_to(final_d)[-1]
                if judge_final(f, f'listing order {perm}', 'FrameSequence.chop', 'order_dependence', exact_path=False):
                    rec.cls('perm_equal_set')

    # ---- chop in two calls; with a propagate in between; blocks listed backwards; against the beam
    for k in range(1, n):
        a = [ctx.rchops[i] for i in range(k)]
        b = [ctx.rchops[i] for i in range(k, n)]
        rec.transitions += 2 * n + 1
        same_path = distinct or (len(set(dists[:k])) == k and len(set(dists[k:])) == n - k)
        try:
            r = ctx.seq0.chop(a[::-1]).chop(b[::-1])
            f = r.propagate_to(final_d)[-1]
        except Exception as e:  # noqa: BLE001 - both calls go with the beam; nothing may be refused
            ctx.viol_once('FrameSequence.chop', 'two_calls_raise', f'chop({dists[:k][::-1]}).chop({dists[k:][::-1]}) raises {type(e).__name__}: {e}')
        else:
            if len(r) == n + 1 and judge_final(f, f'chop({k} choppers).chop({n - k} choppers)', 'FrameSequence.chop', 'two_calls_vs_one', exact_path=same_path):
                rec.cls('split_equal')
        mid = (dists[k - 1] + dists[k]) / 2
        try:
            r = ctx.seq0.chop(a).propagate_to(m(mid)).chop(b)
            f = r.propagate_to(final_d)[-1]
        except Exception as e:  # noqa: BLE001
            ctx.viol_once('FrameSequence.propagate_to', 'propagate_between_chops_raises', f'chop({dists[:k]}).propagate_to({mid} m).chop({dists[k:]}) raises {type(e).__name__}: {e}')
        else:
            if judge_final(f, f'chop({k}).propagate_to({mid} m).chop({n - k})', 'FrameSequence.propagate_to', 'propagate_between_chops', exact_path=False):
                rec.cls('split_propagate_equal')
        ctx.verify('FrameSequence.chop', f'chop in two calls / with a propagate_to between (split after {k})')
        # against the beam
        try:
            r = ctx.seq0.chop(b).chop(a)
        except ValueError:
            if dists[0] < dists[-1]:
                rec.cls('backward_rejected')
            else:
                ctx.viol_once('Frame.chop', 'same_distance_rejected', f'chop({dists[k:]}).chop({dists[:k]}) raises ValueError although no chopper is upstream of the frame')
        else:
            f = r.propagate_to(final_d)[-1]
            if judge_final(f, f'chop({dists[k:]}).chop({dists[:k]})', 'Frame.chop', 'backward_chop_wrong', exact_path=False):
                rec.cls('backward_same_distance_equal' if dists[0] == dists[-1] else 'backward_accepted_equal')
        ctx.verify('Frame.chop', f'chop({dists[k:]}).chop({dists[:k]})')
    if n:
        try:
            finseq.chop([ctx.rchops[0]])
        except ValueError:
            rec.cls('backward_rejected')
        # (accepted instead: nothing to judge, there is no frame behind FINAL in the alphabet)
    if n == 0:
        r = ctx.seq0.chop([])
        rec.transitions += 1
        if len(r) != 1 or not frames_eq(r[0], can[0]):
            ctx.viol_once('FrameSequence.chop', 'empty_list', 'chop([]) changes the sequence')

    # ---- (v) two-step propagation == one-step
    dl = dists[-1] if n else 0.0
    for dm in (dl, (dl + FINAL) / 2, FINAL, 100.0):
        rec.transitions += 4
        f1 = can.propagate_to(m(dm)).propagate_to(final_d)[-1]
        f2 = can[-1].propagate_to(m(dm)).propagate_to(final_d)
        # a step against the beam (100 m -> 80 m) is judged for (v) only: backward shearing is not monotone in
        # floating point, and the statement's regularity claim is about frames propagated *through* the cascade
        fwd = dm <= FINAL
        ok1 = judge_final(f1, f'propagate_to({dm}).propagate_to({FINAL})', 'FrameSequence.propagate_to', 'two_step_vs_one_step', exact_path=True, regular=fwd)
        ok2 = judge_final(f2, f'Frame.propagate_to({dm}).propagate_to({FINAL})', 'Frame.propagate_to', 'two_step_vs_one_step', exact_path=True, regular=fwd)
        if ok1 and ok2:
            rec.cls('two_step_equal')
        ctx.verify('FrameSequence.propagate_to', f'propagate_to({dm} m).propagate_to({FINAL} m)')
    # array of distances
    arr_seq = can.propagate_to(sc.array(dims=['distance'], values=[(dl + FINAL) / 2, FINAL], unit='m'))
    rec.transitions += 1
    ctx.verify('FrameSequence.propagate_to', 'propagate_to(array of distances)')
    af = arr_seq[-1]
    a_arr = frame_arrays(af)
    okarr = len(a_arr) == len(fin_arr)
    for (t, lam), (u, mu) in zip(a_arr, fin_arr, strict=False):
        okarr = okarr and t.shape == (2, *u.shape) and np.array_equal(lam, mu) and bool((np.abs(t[1] - u) <= tol_t).all())
    if not okarr:
        ctx.viol_once('FrameSequence.propagate_to', 'array_of_distances', 'slice at the final distance differs from the scalar propagation')
    else:
        rec.cls('array_equal')
    check_regular(ctx, af, a_arr, 'propagate_to([mid, final])')

    # ---- [distance] indexing
    judge_final(can[final_d], f'chop(all)[{FINAL} m]', 'FrameSequence.__getitem__', 'index_vs_propagate', exact_path=True)
    judge_final(finseq[final_d], f'chop(all).propagate_to({FINAL})[{FINAL} m]', 'FrameSequence.__getitem__', 'index_vs_propagate', exact_path=True)
    rec.transitions += 2
    marks = []
    ud = sorted(set(dists))
    if ud and ud[0] > 0:
        marks.append((ud[0] / 2, 'index_before_first'))
    for i, d in enumerate(ud):
        marks.append((d, 'index_at_chopper'))
        marks.append(((d + (ud[i + 1] if i + 1 < len(ud) else FINAL)) / 2, 'index_between' if i + 1 < len(ud) else 'index_beyond'))
    for d, label in marks:
        for seq, sname in ((can, 'chop(all)'), (finseq, f'chop(all).propagate_to({FINAL})')):
            rec.transitions += 1
            try:
                f = seq[m(d)]
            except Exception as e:  # noqa: BLE001 - every mark lies at or behind the source frame
                ctx.viol_once('FrameSequence.__getitem__', 'raises', f'{sname}[{d} m] raises {type(e).__name__}: {e}')
                continue
            fd = dist_m(f)
            if fd != d:
                ctx.viol_once('FrameSequence.__getitem__', 'frame_distance', f'{sname}[{d} m] has distance {fd}')
                continue
            applied = [i for i in allc if dists[i] <= d]
            check_against_model(ctx, f, applied, f'{sname}[{d} m]', 'FrameSequence.__getitem__', lattice=(seq is can and label != 'index_at_chopper'))
            rec.cls(label)
        ctx.verify('FrameSequence.__getitem__', f'indexing at {d} m')


# ---------------------------------------------------------------------------------------
# branching histories from a shared base sequence (persistent-object semantics)

# operation alphabet; 'S1'/'S2' sit at the distance of the base's last frame (second disk of a double-disk chopper,
# or a chopper at the source position when there is no base chopper), 'Z' at the source, 'F' downstream
HIST_CHOPPERS = {'S1': ('base', 'close'), 'S2': ('base', 'shared'), 'Z': (0.0, 'both'), 'F': (23.7, 'open')}
HIST_OPS = [['chop', 'S1'], ['chop', 'S2'], ['chop', 'Z'], ['chop', 'F'], ['prop', 'same'], ['prop', 30.0]]
HIST_BASES = {
    'quick': [[], [[0.0, 'open']], [[6.3, 'open']], [[6.3, 'shared']]],
    'thorough': [[], [[0.0, 'open']], [[6.3, 'open']], [[6.3, 'shared']], [[0.0, 'shared']], [[10.0, 'unsorted']]],
}


def history_cases(tier):
    thorough = tier == 'thorough'
    pulses = ['ess', 'wide12', 'wide', 'narrow'] if thorough else ['ess', 'wide12']
    return [
        {'kind': 'history', 'pulse': pu, 'base': base, 'ops': HIST_OPS, 'depth': 4 if thorough else 3}
        for base in HIST_BASES[tier]
        for pu in pulses
    ]


def _run_history(ctx, case, rec):
    """BFS over every sequence of operations (up to case['depth']) applied to one shared base sequence.  Every node
    keeps its FrameSequence alive; after every single operation *all* frames and sequences obtained so far must be
    bit-for-bit what they were (so their comparison with the reference still stands), the new frame is compared with
    the exact reference, and at the end every frame of every sequence is compared with its reference once more."""
    rec.cls('history_case')
    ctx.watch(ctx.seq0, 'from_source_pulse(...)')
    # ---- base sequence
    seq = ctx.seq0
    meta = [(0.0, ())]
    for ci, (d, pat) in enumerate(case['base']):
        arriving = seq[-1].propagate_to(m(d))
        wins = resolve_windows(ctx, d, pat, arriving)
        ctx.windows.append(wins)
        ctx.mchops.append(clip.Chop(float(d), wins))
        ctx.rchops.append(make_chopper(d, wins))
        seq = seq.chop([ctx.rchops[-1]])
        rec.transitions += 2
        meta.append((float(d), (*meta[-1][1], ci)))
        ctx.verify('FrameSequence.chop', f'base: chop([chopper at {d} m])')
        ctx.watch(seq, 'base')
    d_base = meta[-1][0]
    # ---- the choppers of the alphabet, windows as fractions of the *unchopped* pulse's time range at their distance
    index = {}
    for name, (d, pat) in HIST_CHOPPERS.items():
        d = d_base if d == 'base' else d
        wins = resolve_windows(ctx, d, pat, None, applied=())
        index[name] = len(ctx.mchops)
        ctx.windows.append(wins)
        ctx.mchops.append(clip.Chop(float(d), wins))
        ctx.rchops.append(make_chopper(d, wins))
    nodes = [{'seq': seq, 'meta': meta, 'path': 'base', 'depth': 0}]
    for k, (d, applied) in enumerate(meta):
        check_against_model(ctx, seq[k], applied, f'base frame {k}', 'FrameSequence.chop', lattice=True)

    def observe(node):
        """inspection must not change anything either: int index, distance index, Frame-level calls on a held frame"""
        sq, (d_last, applied) = node['seq'], node['meta'][-1]
        path = node['path']
        for d in (d_last, FINAL):
            f = sq[m(d)]
            rec.transitions += 1
            check_against_model(ctx, f, applied, f'{path}[{d} m]', 'FrameSequence.__getitem__', lattice=False)
        ctx.verify('FrameSequence.__getitem__', f'{path}[{d_last} m] and [{FINAL} m]')
        held = sq[len(sq) - 1]
        f = held.propagate_to(m(d_last))
        check_against_model(ctx, f, applied, f'{path}[-1].propagate_to({d_last} m)', 'Frame.propagate_to', lattice=False)
        ci = index['S1']
        if float(ctx.mchops[ci].distance) >= d_last:
            f = held.chop(ctx.rchops[ci])
            check_against_model(ctx, f, (*applied, ci), f'{path}[-1].chop(S1)', 'Frame.chop', lattice=False)
            if float(ctx.mchops[ci].distance) == d_last:
                rec.cls('history_same_distance_chop')
        rec.transitions += 2
        ctx.verify('Frame.chop', f'{path}[-1].propagate_to({d_last} m) / [-1].chop(S1)')

    observe(nodes[0])
    frontier = list(nodes)
    for depth in range(1, case['depth'] + 1):
        nxt = []
        for node in frontier:
            d_last, applied = node['meta'][-1]
            for op, arg in case['ops']:
                rec.transitions += 1
                if op == 'chop':
                    ci = index[arg]
                    dc = float(ctx.mchops[ci].distance)
                    path = f'{node["path"]}.chop([{arg}@{dc}])'
                    try:
                        new = node['seq'].chop([ctx.rchops[ci]])
                    except ValueError:
                        if dc < d_last:
                            rec.cls('history_rejected')
                        else:
                            ctx.viol_once('FrameSequence.chop', 'raises', f'{path} raises ValueError although the chopper is not upstream of the frame at {d_last} m')
                        ctx.verify('FrameSequence.chop', path + ' (refused)')
                        continue
                    if dc < d_last:
                        rec.cls('history_backward_accepted')  # allowed reading; no reference for the frame's distance
                        ctx.verify('FrameSequence.chop', path)
                        continue
                    if dc == d_last:
                        rec.cls('history_same_distance_chop')
                    new_meta = [*node['meta'], (dc, (*applied, ci))]
                    site = 'FrameSequence.chop'
                else:
                    dp = d_last if arg == 'same' else float(arg)
                    if dp < d_last:
                        continue
                    if dp == d_last:
                        rec.cls('history_zero_step')
                    path = f'{node["path"]}.propagate_to({dp})'
                    new = node['seq'].propagate_to(m(dp))
                    new_meta = [*node['meta'], (dp, applied)]
                    site = 'FrameSequence.propagate_to'
                # nothing obtained earlier may have changed - checked before anything else looks at the new object
                ctx.verify(site, path)
                if len(new) != len(new_meta) or len(node['seq']) != len(node['meta']):
                    ctx.viol_once(site, 'frame_count', f'{path}: {len(new)} frames, expected {len(new_meta)}; parent has {len(node["seq"])}')
                    raise Abort
                fd = dist_m(new[-1])
                if fd != new_meta[-1][0]:
                    ctx.viol_once(site, 'frame_distance', f'{path}: last frame at {fd} m, expected {new_meta[-1][0]} m')
                check_against_model(ctx, new[-1], new_meta[-1][1], f'{path} last frame', site, lattice=True)
                ctx.watch(new, path)
                child = {'seq': new, 'meta': new_meta, 'path': path, 'depth': depth}
                nodes.append(child)
                nxt.append(child)
                rec.cls('history_node')
                observe(child)
        frontier = nxt
    # ---- every frame of every sequence once more against its reference
    seen = set()
    for node in nodes:
        for k, (d, applied) in enumerate(node['meta']):
            f = node['seq'][k]
            if id(f) in seen:
                continue
            seen.add(id(f))
            fd = dist_m(f)
            if fd != d:
                ctx.viol_once('FrameSequence.chop', 'frame_distance', f'{node["path"]}: frame {k} at {fd} m, expected {d} m')
                continue
            check_against_model(ctx, f, applied, f'{node["path"]} frame {k} (end of history)', 'FrameSequence.chop', lattice=False)
    ctx.verify('FrameSequence.chop', 'the final re-comparison')
    rec.cls('history_recompared', len(seen))
    rec.nontrivial += 1


# ---------------------------------------------------------------------------------------
# unit / dtype representation of the same physical cascade
#
# A representation says in which unit (and dtype) each quantity is handed to the library:
#   cd  chopper distances: one spec for all choppers, or a list cycled over the choppers (mixed units)
#   qd  the distances passed to propagate_to / seq[distance] (every listed spec is used)
#   tw  chopper windows;  pt / pl  pulse time / wavelength
# spec = 'unit' or 'unit:int' (int64 where the number is whole in that unit, float64 otherwise).
# The oracle is the same exact reference, evaluated on the physical (SI) quantities, plus the differential against the
# all-metres representation of the same cascade; a frame's distance must be the physical distance.

REPS = {
    'cm': {'cd': 'cm', 'qd': ['m', 'cm']},
    'mm': {'cd': 'mm', 'qd': ['mm', 'm']},
    'km': {'cd': 'km', 'qd': ['m', 'km']},
    'query_cm_mm': {'cd': 'm', 'qd': ['cm', 'mm']},
    'mixed': {'cd': ['cm', 'm', 'mm', 'km'], 'qd': ['m']},
    'win_ms': {'tw': 'ms'},
    'win_us': {'tw': 'us', 'cd': 'cm', 'qd': ['m']},
    'pulse_s_nm': {'pt': 's', 'pl': 'nm'},
    'pulse_us_nm': {'pt': 'us', 'pl': 'nm', 'cd': 'mm', 'qd': ['cm']},
    'int_mm': {'cd': 'mm:int', 'qd': ['mm:int']},
    'int_cm': {'cd': 'cm:int', 'qd': ['m:int', 'cm:int']},
    'int_m': {'cd': 'm:int', 'qd': ['m:int']},
    'int_query_mm': {'cd': 'm', 'qd': ['mm:int']},
    'int_pulse_ms': {'pt': 'ms:int'},
    'int_pulse_us': {'pt': 'us:int', 'cd': 'mm', 'qd': ['mm']},
    'int_wavelength': {'pl': 'angstrom:int', 'pt': 'us:int', 'cd': 'cm:int', 'qd': ['mm:int']},
}
REP_DEFAULT = {'cd': 'm', 'qd': ['m'], 'tw': 's', 'pt': 'ms', 'pl': 'angstrom'}
REPS_KEY = ['cm', 'mm', 'query_cm_mm', 'int_mm', 'pulse_us_nm']
REPS_PAIRS = ['cm', 'int_mm', 'pulse_us_nm']

UNIT_CASCADES = [
    [],
    [(0.0, 'open')],
    [(6.3, 'both')],
    [(10.0, 'shared')],
    [(60.0, 'close')],
    [(0.0, 'open'), (6.3, 'close')],
    [(6.3, 'open'), (6.3, 'close')],
    [(6.3, 'shared'), (23.7, 'both')],
    [(10.0, 'unsorted'), (60.0, 'open')],
    [(0.0, 'close'), (10.0, 'open'), (10.0, 'shared')],
    [(6.3, 'open'), (10.0, 'close'), (23.7, 'shared')],
    [(0.0, 'open'), (6.3, 'close'), (10.0, 'shared'), (23.7, 'open')],
    [(0.0, 'open'), (6.3, 'close'), (10.0, 'shared'), (23.7, 'open'), (60.0, 'close')],
]


def unit_cases(tier):
    out = []

    def add(pu, chops, rname):
        out.append({'kind': 'units', 'pulse': pu, 'choppers': [[d, p] for d, p in chops], 'rep': rname})

    for pu in ['ess', 'wide12']:
        for chops in UNIT_CASCADES:
            for rname in REPS:
                add(pu, chops, rname)
    if tier == 'thorough':
        for pu in ['wide', 'ess', 'narrow', 'ess12']:
            for d in DISTANCES:
                for p in P_ALL + P_EXTRA:
                    for rname in REPS:
                        add(pu, [(d, p)], rname)
        pairs = [(a, b) for i, a in enumerate(DISTANCES) for b in DISTANCES[i:]]
        for pu in ['ess']:
            for a, b in pairs:
                for p1 in P_QUICK2:
                    for p2 in P_QUICK2:
                        for rname in REPS_PAIRS:
                            add(pu, [(a, p1), (b, p2)], rname)
        for pu in ['ess', 'wide12']:
            for lad in [(6.3, 10.0, 23.7), (0.0, 10.0, 10.0), (6.3, 6.3, 6.3)]:
                for ps in itertools.product(P_WIDE, repeat=3):
                    for rname in REPS:
                        add(pu, list(zip(lad, ps, strict=True)), rname)
        for ps in itertools.product(P_WIDE, repeat=5):
            for rname in REPS_KEY:
                add('ess', list(zip(DISTANCES, ps, strict=True)), rname)
    return out


def _spec(spec):
    unit, _, kind = spec.partition(':')
    return unit, kind == 'int'


def qty(value, from_unit, spec):
    """The physical quantity value*from_unit written in the unit / dtype of spec (numbers rounded to 12 digits so that
    e.g. 6.3 m is the literal 630.0 cm); int64 only where the number is whole."""
    unit, want_int = _spec(spec)
    v = float(f'{sc.scalar(float(value), unit=from_unit).to(unit=unit).value:.12g}')
    if want_int and v == round(v):
        return sc.scalar(int(round(v)), unit=unit)
    return sc.scalar(v, unit=unit)


def _run_units(ctx, case, rec):
    rep = {**REP_DEFAULT, **REPS[case['rep']]}
    rname = case['rep']
    spec = case['choppers']
    n = len(spec)
    dists = [float(d) for d, _ in spec]
    rec.cls(f'units_{rname}')
    rec.cls(f'units_choppers_{n}')
    cds = rep['cd'] if isinstance(rep['cd'], list) else [rep['cd']]
    cd_of = [cds[i % len(cds)] for i in range(n)]
    tw_unit, _ = _spec(rep['tw'])
    mixed_cd = len({_spec(c)[0] for c in cd_of}) > 1
    any_int = any(_spec(x)[1] for x in [*cd_of, *rep['qd'], rep['pt'], rep['pl']])
    sub = {'rep': rname}

    # ---- the cascade in the all-metres representation: windows resolved as in the cascade cases, frames = baseline
    ctx.watch(ctx.seq0, 'from_source_pulse(...) [all metres]')
    base = ctx.seq0
    for ci, (d, pat) in enumerate(spec):
        arriving = base[-1].propagate_to(m(d))
        wins = resolve_windows(ctx, d, pat, arriving)
        ctx.windows.append(wins)
        ctx.mchops.append(clip.Chop(float(d), wins))
        ctx.rchops.append(make_chopper(d, wins))
        base = base.chop([ctx.rchops[-1]])
        rec.transitions += 2
    base_final = base.propagate_to(m(FINAL))[-1]
    ctx.watch(base, 'all-metres cascade')
    allc = list(range(n))

    # ---- the same physical objects in the representation under test
    t0, t1, l0, l1 = PULSES[case['pulse']]
    pulse_args = dict(
        time_min=qty(t0, 'ms', rep['pt']),
        time_max=qty(t1, 'ms', rep['pt']),
        wavelength_min=qty(l0, 'angstrom', rep['pl']),
        wavelength_max=qty(l1, 'angstrom', rep['pl']),
    )
    choppers = []
    for ci, (d, _) in enumerate(spec):
        wins = ctx.windows[ci]
        ch = cc.Chopper(
            distance=qty(d, 'm', cd_of[ci]),
            time_open=sc.array(dims=['slit'], values=[o for o, _ in wins], unit='s').to(unit=tw_unit),
            time_close=sc.array(dims=['slit'], values=[c for _, c in wins], unit='s').to(unit=tw_unit),
        )
        ctx.watch_chopper(ch)
        choppers.append(ch)

    def refusal(e, what):
        """Loud refusals the statement does not forbid (reading chosen): mixed chopper units in one list, windows not in
        seconds, lookups in a sequence whose frames carry different distance units, integer/float dtype clashes."""
        if isinstance(e, sc.UnitError) and (mixed_cd or tw_unit != 's' or what == 'index_mixed_frames'):
            rec.cls('refused_mixed_chopper_units' if mixed_cd and what == 'chop' else ('refused_time_unit' if tw_unit != 's' and what == 'chop' else 'refused_lookup_mixed_frame_units'))
            return True
        if isinstance(e, sc.DTypeError) and any_int:
            rec.cls('refused_int_dtype')
            return True
        return False

    def judge(frame, applied, want_d, label, site, base_frame=None, lattice=False):
        """distance reported = physical distance; same set as the all-metres representation; same set as the reference.
        The case stops at its first violation: everything after it is a consequence of the same wrong conversion."""
        fd = dist_m(frame)
        rec.evals += 1
        before = rec.nviol
        if abs(fd - want_d) > 1e-12 * max(1.0, abs(want_d)):
            ctx.viol_once(site, 'frame_distance', f'{label}: the frame reports {frame.distance.value} {frame.distance.unit} ({frame.distance.dtype}) = {fd!r} m, the physical distance is {want_d!r} m', **sub)
            raise Abort
        if base_frame is None:  # the all-metres cascade behind the same choppers, brought to the same place by the real code
            base_frame = base[len(applied)].propagate_to(m(want_d))
        rec.validated += 1
        arr = frame_arrays(frame)
        barr = frame_arrays(base_frame)
        if same_set(ctx, arr, barr, want_d, BAND):
            rec.cls('units_same_as_metres')
        else:
            ctx.viol_once(
                site,
                'representation_dependence',
                f'{label}: not the same set of neutrons as the all-metres representation of the same physical cascade: '
                f'{[(t.tolist(), w.tolist()) for t, w in nondegenerate(ctx, arr)][:2]} vs {[(t.tolist(), w.tolist()) for t, w in nondegenerate(ctx, barr)][:2]}',
                **sub,
            )
            raise Abort
        check_against_model(ctx, frame, applied, label, site, lattice=lattice)
        if rec.nviol > before:
            raise Abort

    try:
        seq = cc.FrameSequence.from_source_pulse(**pulse_args)
    except Exception as e:  # noqa: BLE001
        if refusal(e, 'pulse'):
            return
        raise
    ctx.watch(seq, f'from_source_pulse({rep["pt"]}, {rep["pl"]})')
    judge(seq[0], [], 0.0, 'source frame', 'FrameSequence.from_source_pulse', base_frame=base[0], lattice=True)

    def run(label, what, fn):
        rec.transitions += 1
        try:
            out = fn()
        except Exception as e:  # noqa: BLE001
            if refusal(e, what):
                return None
            ctx.viol_once(f'FrameSequence.{"__getitem__" if what.startswith("index") else what}', 'raises', f'{label} raises {type(e).__name__}: {e}', **sub)
            return None
        ctx.verify('FrameSequence.chop', label)
        return out

    # ---- one call, one by one, reversed listing order
    can = run(f'chop({cd_of})', 'chop', lambda: seq.chop(choppers))
    if can is None:
        rec.cls('units_cascade_refused')
        return
    ctx.watch(can, f'chop(all) [{rname}]')
    if len(can) != n + 1:
        ctx.viol_once('FrameSequence.chop', 'frame_count', f'{len(can)} frames for {n} choppers', **sub)
        return
    for k in range(1, n + 1):
        judge(can[k], allc[:k], dists[k - 1], f'frame {k} of chop(all) [{rname}]', 'FrameSequence.chop', base_frame=base[k], lattice=(k == n))
    inc = seq
    for ci, ch in enumerate(choppers):
        inc = run(f'chop one by one, chopper {ci}', 'chop', lambda inc=inc, ch=ch: inc.chop([ch]))
        if inc is None:
            break
        judge(inc[-1], allc[: ci + 1], dists[ci], f'chopper {ci} applied alone [{rname}]', 'FrameSequence.chop', base_frame=base[ci + 1])
    if n >= 2:
        r = run('chop(reversed list)', 'chop', lambda: seq.chop(choppers[::-1]))
        if r is not None and len(r) == n + 1:
            judge(r.propagate_to(m(FINAL))[-1], allc, FINAL, f'reversed listing order [{rname}]', 'FrameSequence.chop', base_frame=base_final)

    # ---- distances handed to propagate_to / [distance] in every query representation
    ud = sorted(set(dists))
    marks = [(FINAL, 'final')]
    if ud and ud[0] > 0:
        marks.append((ud[0] / 2, 'before_first'))
    for i, d in enumerate(ud):
        marks.append(((d + (ud[i + 1] if i + 1 < len(ud) else FINAL)) / 2, 'between' if i + 1 < len(ud) else 'beyond'))
        marks.append((d, 'at_chopper'))
    dl = dists[-1] if n else 0.0
    for qs in rep['qd']:
        q_final = qty(FINAL, 'm', qs)
        fin = run(f'propagate_to({q_final.value} {q_final.unit})', 'propagate_to', lambda q=q_final: can.propagate_to(q))
        if fin is not None:
            ctx.watch(fin, f'chop(all).propagate_to({qs}) [{rname}]')
            judge(fin[-1], allc, FINAL, f'chop(all).propagate_to({q_final.value} {q_final.unit} {q_final.dtype})[-1] [{rname}]', 'FrameSequence.propagate_to', base_frame=base_final, lattice=True)
        q_mid = qty((dl + FINAL) / 2, 'm', qs)
        two = run(f'propagate_to({q_mid.value} {q_mid.unit}).propagate_to({FINAL} m)', 'propagate_to', lambda q=q_mid: can.propagate_to(q).propagate_to(m(FINAL)))
        if two is not None:
            judge(two[-1], allc, FINAL, f'propagate_to({q_mid.value} {q_mid.unit} {q_mid.dtype}).propagate_to({FINAL} m)[-1] [{rname}]', 'FrameSequence.propagate_to', base_frame=base_final)
            judge(two[-2], allc, (dl + FINAL) / 2, f'propagate_to({q_mid.value} {q_mid.unit} {q_mid.dtype})[-1] [{rname}]', 'FrameSequence.propagate_to')
        for d, label in marks:
            q = qty(d, 'm', qs)
            applied = [i for i in allc if dists[i] <= d]
            if label == 'at_chopper':
                # the frame *at* a chopper is only defined where both conversions give the same float
                tied = [i for i in allc if dists[i] == d]
                if any(dist_m(choppers[i].distance) != dist_m(q) for i in tied) or any(dist_m(choppers[i].distance) != dist_m(choppers[tied[0]].distance) for i in tied):
                    rec.cls('units_at_chopper_dontcare')
                    continue
            for sq, sname, what in ((can, 'chop(all)', 'index'), (fin, f'chop(all).propagate_to({qs})', 'index_mixed_frames' if _spec(qs)[0] != 'm' or _spec(cd_of[0] if cd_of else 'm')[0] != 'm' else 'index')):
                if sq is None:
                    continue
                f = run(f'{sname}[{q.value} {q.unit}]', what, lambda sq=sq, q=q: sq[q])
                if f is None:
                    continue
                judge(f, applied, d, f'{sname}[{q.value} {q.unit} {q.dtype}] [{rname}]', 'FrameSequence.__getitem__', lattice=(sq is can and label in ('final', 'between')))
                rec.cls(f'units_index_{label}')
    if n:
        rec.nontrivial += 1
