"""C18 - cylinder absorption: path lengths, quadrature and transmission are geometric.

Shape G.  Three case families, all judged in an orthonormal frame built by the reference
model ``ref/cyl.py`` (Gram-Schmidt, 50 digits; no rotation formula shared with the package):

* ``rays``  - ``Cylinder.beam_intersection`` against the exact length of {t >= 0 : inside};
* ``quad``  - ``Cylinder.quadrature``: membership, positive weights, volume, moments;
* ``trans`` - ``compute_transmission_map``: range, mu = 0, monotone in mu, equal to the
  reference sum over the returned points, equal (to the accuracy of the quadrature) to an
  independent converged integral under every rigid motion and from the other end;
* ``share`` - two cylinders built from the *same* axis / base / size Variables: every history
  of up to 3 operations {quadrature, beam_intersection, compute_transmission_map} x {A, B};
  each result equals the one on freshly built objects and is right for the solid as it was
  constructed; no Variable handed to the package is modified (also checked in every other family);
* ``large`` - detector banks whose (points x detectors) count crosses the package's limit for
  one vectorised evaluation (2e7), through the public function only: = 1 without attenuation,
  every value equal to the same detector computed in a small call and to the reference sum.

Readings chosen (DESIGN 3.3, weakest reading consistent with the code's documentation):
* "sum to its volume / integrate exactly": to the 8 significant digits of the tabulated
  disk rules (W_TOL); low degree = degree <= 1 and the in-plane second moments; the axial
  second moment is only required to the accuracy it has on the z-aligned cylinder the
  repository's tests use (the Chebyshev line rule is not exact for z^2).
* "(0, 1]" and "= 1 without attenuation": up to the same W_TOL (sum of weights / volume).
* "up to the accuracy of the quadrature": |T - T_exact| <= ACC[kind] (1 - T_exact) + W_TOL,
  ACC calibrated on the z-aligned cylinder (the orientation the repository's tests pin)
  and then demanded of every orientation.
The Monte-Carlo quadrature kind is never used.
"""
from __future__ import annotations

import functools
import itertools
import math
import os

import numpy as np
import scipp as sc
from scippneutron.absorption import Cylinder, Material, compute_transmission_map
from scippneutron.atoms import ScatteringParams

from ref import cyl

ID = 'C18'
LEVEL = 'model_checking'
RULE = (
    'grid: axis alphabet (+-x +-y +-z, 8 space diagonals, generic axes of either z sign, '
    'nearly +-z, in-plane axis whose float norm is 1+ulp) x base x (radius, height) in '
    '{1e-3, 0.2, 1.2, 1e3}^2 x unit; per cylinder 10 start positions x up to 28 directions (incl. parallel to the axis exactly, to 1 ulp and tilted by 1e-13..1e-5) '
    '(rays), 3 deterministic quadrature kinds (quad), and scenes = cylinder x beam x 14 '
    'detectors x 12 attenuation levels x 33 rigid motions (incl. a translation by 7e4 sample sizes) / other-end description (trans); '
    'all 258 operation histories of length <= 3 over two cylinders sharing Variables (share); '
    'detector banks with points x detectors from 2.5e5 to 1.2e8 around the 2e7 limit (large); '
    'a configuration is non-trivial when the ray set meets the solid / the quadrature is '
    'for a rotated or translated cylinder / the attenuation is non-zero; distinct = '
    'distinct canonical case hashes x inner configurations counted in states'
)
ASSUMPTIONS = [
    'axes are unit vectors to 1 ulp (what normalising in float64 yields); directions likewise',
    'all lengths of one cylinder share one unit for beam_intersection (mixed radius unit only for quadrature)',
    'sum-of-weights / moment exactness read as exact to the 8 digits of the tabulated disk rules (2.5e-7)',
    'accuracy of the quadrature calibrated on the z-aligned cylinder: cheap 6e-2, medium 1.5e-2, expensive 6e-3 of (1-T)',
    'reference wavelength of tabulated absorption cross sections is 1.7982 angstrom (2200 m/s)',
    'Monte-Carlo quadrature kind excluded (not deterministic)',
    'aspect ratio radius/height within 1e-6..1e6 (both within 1e-3..1e3 of one unit); detectors outside the sample at 7 x its size',
    'the value of the map for one detector position does not depend on the other positions in the same call (1e-12)',
    'no scipp Variable handed to Cylinder / Material / the three functions may be modified or replaced in the object holding it',
    'the 2e7 broadcast limit of absorption/base.py is only used to size the banks and to label outcome classes; it is never patched',
]
BOUND = {
    'quick': '31 axes x 3 bases x unit m (+ mm on the far base): rays on 6 (r,h) pairs, all 3 quadrature kinds on all 16; '
    'transmission scenes: 4 (r,h) x 3 beams x 2 base axes x 3 kinds x 2 unit/cross-section styles x 32 motions; '
    'shared Variables: 12 axes (8 octants, +-z, in-plane, (0.6,0,-0.8)) x 4 sharing modes x 258 histories (depth 3), cheap rule; '
    'large banks (public API, real limit): 1-d 2224 detectors x 8995 points (detector-by-detector branch); 2-d banks of 20 or 40 rows just above '
    '2e7 pairs for 180, 385, 1375, 2827, 8995 points (with and without attenuation) and just above 4e7 for 385 and 2827; 1-d banks of 2.5e5 and 2.5e6 pairs',
    'thorough': '31 axes x 3 bases x 16 (r,h) x {m, mm} (+ mixed radius unit): rays and quadrature; '
    'transmission scenes: 16 (r,h) x 3 beams x 2 base axes x 3 kinds x 4 unit/cross-section styles x 32 motions; '
    'shared Variables: all 31 axes x 4 sharing modes x 258 histories, cheap and medium rule; '
    'large banks (public API, real limit): 1-d banks just above 2e7 pairs for 1375, 2827, 8995 points and one 1-d bank just below (385 x 51948); '
    '2-d banks just above 2e7, 4e7, 8e7, 1.2e8 pairs (2, 3, 5, 7 pieces) for all of 60, 120, 180, 385, 770, 1375, 2827, 5654, 8995 points, '
    'with and without attenuation; 1-d banks of 2.5e5 and 2.5e6 pairs',
}
_REQUIRED = [
    'arguments_unmodified', 'history_equals_fresh', 'history_uses_both_cylinders',
    'share_axis', 'share_base', 'share_axis+base', 'share_size',
    'large_above_limit', 'large_below_limit', 'large_pieces_1', 'large_pieces_2', 'large_pieces_3', 'large_layout_1d', 'large_layout_2d',
    'large_points_not_divisible_by_2', 'large_points_not_divisible_by_3', 'large_vacuum', 'large_atten', 'large_equals_small_calls',
    'reused_instance_equals_fresh', 'ray_hit', 'ray_miss', 'ray_graze', 'ray_dont_care', 'ray_from_inside', 'ray_from_outside',
    'ray_parallel_axis_exact', 'ray_nearly_parallel_axis', 'ray_perp_axis_exact', 'ray_clipped_at_start',
    'axis_neg_z', 'axis_pos_z', 'axis_in_plane', 'axis_no_rotation_branch', 'axis_norm_above_one',
    'quad_cheap', 'quad_medium', 'quad_expensive', 'quad_inside_ok', 'quad_mixed_units',
    'trans_mu_zero', 'trans_attenuated', 'trans_motion_rotation', 'trans_motion_translation',
    'trans_other_end', 'trans_moved_axis_neg_z', 'trans_det_unit_differs', 'trans_model_sum_ok',
]
REQUIRED_CLASSES = {'quick': _REQUIRED, 'thorough': [*_REQUIRED, 'large_pieces_5', 'large_pieces_7']}

EPS = 2.0 ** -52
_DEBUG = bool(os.environ.get('C18_DEBUG'))
KINDS = ('cheap', 'medium', 'expensive')
# exactness of sum(w)/V and of the polynomial moments: digits of the tabulated disk rules
W_TOL = {'cheap': 1e-12, 'medium': 1e-7, 'expensive': 2.5e-7}
# axial second moment: accuracy measured on the z-aligned unit cylinder (see module doc)
AXIAL2_TOL = {'cheap': 1e-12, 'medium': 2.5e-2, 'expensive': 1e-2}
# the package documents that axes within 1e-10 of z are treated as z: misalignment allowed
ALIGN = 1e-10
# accuracy of the quadrature for the transmission integral, relative to (1 - T_exact)
ACC = {'cheap': 6e-2, 'medium': 1.5e-2, 'expensive': 6e-3}


def _unit(v):
    v = np.array(v, dtype=float)
    return (v / np.linalg.norm(v)).tolist()


def _axes():
    ax = {}
    for i, nm in enumerate('xyz'):
        for s, sn in ((1.0, '+'), (-1.0, '-')):
            v = [0.0, 0.0, 0.0]
            v[i] = s
            ax[sn + nm] = v
    for sx, sy, sz in itertools.product((1, -1), repeat=3):
        ax['diag' + ''.join('+' if s > 0 else '-' for s in (sx, sy, sz))] = _unit([sx, sy, sz])
    ax['gen_test'] = [-0.5620126808026259, -0.1798933776079791, 0.8073290031392648]  # the repo test's axis
    ax['gen_test_negz'] = [-0.5620126808026259, -0.1798933776079791, -0.8073290031392648]
    ax['gen_a'] = _unit([2, -3, 6])
    ax['gen_a_neg'] = _unit([-2, 3, -6])
    ax['gen_b'] = _unit([0.36, 0.48, -0.8])
    ax['gen_c'] = _unit([-0.48, 0.6, 0.64])
    ax['gen_d'] = _unit([0.9, -0.4, -0.17])
    ax['gen_e'] = _unit([-0.7, -0.7, 0.14])
    ax['yz+'] = [0.0, 0.6, 0.8]
    ax['yz-'] = [0.0, 0.6, -0.8]
    ax['xz-'] = [0.6, 0.0, -0.8]
    ax['near+z'] = _unit([3e-11, 0, 1])  # |z x a| < 1e-10: the implementation skips the rotation
    ax['near-z'] = _unit([3e-11, 0, -1])
    ax['tilt-z'] = _unit([1e-3, 2e-3, -1])
    ax['tilt+z'] = _unit([1e-3, 2e-3, 1])
    # nearest doubles to a unit vector perpendicular to z whose computed norm is 1 + 2^-52
    ax['inplane_ulp'] = [-0.9956015322215984, -0.093688788219327, 0.0]
    ax['inplane'] = [0.6, 0.8, 0.0]
    return ax


AXES = _axes()
BASES = {'origin': [0.0, 0.0, 0.0], 'near': [1.0, -2.0, 3.0], 'far': [-40.0, 7.0, 0.5]}
SIZES = (1e-3, 0.2, 1.2, 1e3)
RH = [(r, h) for r in SIZES for h in SIZES]
RH_SIX = [(0.2, 1.2), (1.2, 0.2), (1e-3, 1e3), (1e3, 1e-3), (1.2, 1.2), (1e-3, 1e-3)]
OTHER_UNIT = {'m': 'mm', 'mm': 'm'}
TO_M = {'m': 1.0, 'mm': 1e-3}


def _axis_class(rec, a):
    if a[2] < 0:
        rec.cls('axis_neg_z')
    elif a[2] > 0:
        rec.cls('axis_pos_z')
    else:
        rec.cls('axis_in_plane')
    un = math.hypot(a[0], a[1])
    if un < 1e-10:
        rec.cls('axis_no_rotation_branch')
    if sc.norm(sc.cross(sc.vector([0, 0, 1.0]), sc.vector(a))).value > 1.0:
        rec.cls('axis_norm_above_one')


# ----------------------------------------------------------------------------------------
# arguments and fields are read-only for the package


def _sig(v):
    """Everything observable about a scipp Variable, as a comparable value."""
    return (tuple(v.dims), tuple(v.shape), str(v.unit), str(v.dtype), np.ascontiguousarray(v.values).tobytes())


class _Guard:
    """Snapshot of every Variable handed to the package (and of which Variable object each
    Cylinder / Material field holds); ``check`` reports any that changed."""

    def __init__(self):
        self.vars = []  # (name, variable, signature)
        self.objs = []  # (name, object, {field: variable object})

    def var(self, name, v):
        self.vars.append((name, v, _sig(v)))
        return v

    def obj(self, name, o, fields):
        held = {f: getattr(o, f) for f in fields}
        self.objs.append((name, o, held))
        for f, v in held.items():
            if not any(v is w for _, w, _ in self.vars):
                self.var(f'{name}.{f}', v)
        return o

    def cylinder(self, name, c):
        return self.obj(name, c, ('symmetry_line', 'center_of_base', 'radius', 'height'))

    def material(self, name, m):
        self.obj(name + '.scattering_params', m.scattering_params, ('absorption_cross_section', 'total_scattering_cross_section'))
        return self.obj(name, m, ('effective_sample_number_density',))

    def check(self, rec, site, op, seen=None, **sub):
        """True if nothing was modified by ``op``.  ``seen``: report each modified item once."""
        ok = True
        for i, (name, v, sig) in enumerate(self.vars):
            rec.validated += 1
            now = _sig(v)
            if now != sig:
                ok = False
                self.vars[i] = (name, v, now)  # later operations are only blamed for further changes
                if seen is not None:
                    if (site, name) in seen:
                        continue
                    seen.add((site, name))
                rec.viol(site, 'argument_modified', f'{op} modified {name}: now {np.asarray(v.values).tolist()!r:.200} [{v.unit}]', what=name, op=op, **sub)
        for name, o, held in self.objs:
            for f, v in held.items():
                if getattr(o, f) is not v:
                    ok = False
                    rec.viol(site, 'field_rebound', f'{op} replaced the Variable held by {name}.{f}', what=f'{name}.{f}', op=op, **sub)
        if ok:
            rec.cls('arguments_unmodified')
        return ok


# ----------------------------------------------------------------------------------------
# enumeration


def cases(tier):
    out = list(_large_cases(tier))
    units = ('m', 'mm')
    names = list(AXES)
    share_axes = names if tier == 'thorough' else [n for n in names if n.startswith('diag') or n in (
        '+z', '-z', 'xz-', 'inplane')]
    for i, aname in enumerate(share_axes):
        for mode in SHARE_MODES:
            for q in (('cheap',) if tier == 'quick' else ('cheap', 'medium')):
                out.append({'kind': 'share', 'axis': aname, 'axis2': names[(names.index(aname) * 7 + 3) % len(names)], 'mode': mode,
                            'unit': units[i % 2], 'qkind': q, 'depth': 3})
    for i, aname in enumerate(names if tier == 'thorough' else names[:: max(1, len(names) // 6)]):
        for q in KINDS:
            out.append({'kind': 'reuse', 'axis': aname, 'axis2': names[(i * 7 + 3) % len(names)], 'unit': units[i % 2], 'qkind': q})
    for unit in units:
        for bname in BASES:
            if tier == 'quick' and unit == 'mm' and bname != 'far':
                continue
            for aname in AXES:
                out.append({'kind': 'rays', 'axis': aname, 'base': bname, 'unit': unit,
                            'sizes': 'six' if tier == 'quick' else 'all'})
    for unit in units:
        for bname in BASES:
            if tier == 'quick' and unit == 'mm' and bname == 'near':
                continue
            for aname in AXES:
                for q in KINDS:
                    out.append({'kind': 'quad', 'axis': aname, 'base': bname, 'unit': unit, 'r_unit': unit, 'qkind': q})
    mixed_axes = list(AXES) if tier == 'thorough' else ['+z', 'gen_test', 'gen_b', '-y']
    for aname in mixed_axes:
        for q in KINDS:
            out.append({'kind': 'quad', 'axis': aname, 'base': 'near', 'unit': 'm', 'r_unit': 'mm', 'qkind': q})
            out.append({'kind': 'quad', 'axis': aname, 'base': 'near', 'unit': 'mm', 'r_unit': 'm', 'qkind': q})
    if tier == 'quick':
        rh = [(1.2, 0.2), (0.2, 1.2), (1e-3, 1e3), (1e3, 1e-3)]
        styles = [('m', 'm', 'native'), ('mm', 'm', 'barn')]
    else:
        rh = RH
        styles = [('m', 'm', 'native'), ('mm', 'mm', 'barn'), ('m', 'mm', 'barn'), ('mm', 'm', 'native')]
    for q in KINDS:
        for r, h in rh:
            for beam in BEAMS:
                for a0 in ('+z', 'gen_test'):
                    for unit, det_unit, xs in styles:
                        out.append({'kind': 'trans', 'a0': a0, 'r': r, 'h': h, 'unit': unit, 'det_unit': det_unit,
                                    'xs': xs, 'beam': beam, 'qkind': q})
    # long-running cases first so that no worker is left with them at the end (stable otherwise)
    weight = {'large': 0, 'trans': 1, 'rays': 2, 'share': 3}
    out.sort(key=lambda c: (weight.get(c['kind'], 4), -KINDS.index(c['qkind']) if c['kind'] == 'trans' else 0))
    return out


# ----------------------------------------------------------------------------------------
# rays

# start positions in the cylinder frame: (rho / r, phi in degrees, z / h)
POSITIONS = {
    'centre': (0.0, 0.0, 0.5),
    'on_axis': (0.0, 0.0, 0.25),
    'inside': (0.6, 50.0, 0.3),
    'wall': (1.0, 110.0, 0.5),
    'cap': (0.5, 200.0, 0.0),
    'rim': (1.0, 300.0, 1.0),
    'out_radial': (2.5, 20.0, 0.4),
    'out_axial': (0.3, 75.0, 1.8),
    'out_both': (1.7, 250.0, -0.6),
    'out_far': (30.0, 160.0, 12.0),
}
# directions in the local (radial, tangential, axial) basis at the start position
DIRECTIONS = {
    'radial_out': (1.0, 0.0, 0.0),
    'radial_in': (-1.0, 0.0, 0.0),
    'tangent': (0.0, 1.0, 0.0),
    'obl1': (-0.6, 0.3, 0.74),
    'obl2': (0.5, -0.4, -0.77),
    'obl3': (-0.2, -0.9, 0.4),
    'obl4': (0.3, 0.3, 0.9),
}
# the same in coordinates scaled by (r, r, h): meets caps and wall alike at every aspect ratio
SCALED_DIRECTIONS = {
    'sc1': (-0.9, 0.2, 0.5),
    'sc2': (-1.5, -0.3, -0.8),
    'sc3': (0.4, 1.1, 0.3),
}


def _ray_set(fr, axis, r, h):
    """-> names, starts[n,3], dirs[n,3] (global float64)."""
    names, starts, dirs = [], [], []
    for pname, (q, phi, zeta) in POSITIONS.items():
        ph = math.radians(phi)
        er = np.array([math.cos(ph), math.sin(ph), 0.0])
        et = np.array([-math.sin(ph), math.cos(ph), 0.0])
        ez = np.array([0.0, 0.0, 1.0])
        loc = q * r * er + zeta * h * ez
        start = fr.to_global_point(loc)
        cand = []
        cand.append(('axis+', np.array(axis, dtype=float)))  # exactly parallel: same floats as the axis
        cand.append(('axis-', -np.array(axis, dtype=float)))
        # parallel to the axis up to the last bit / up to a small tilt (a direction obtained by
        # a separate normalisation or rotation differs from the axis floats in the last bits)
        av = np.array(axis, dtype=float)
        for k, ds in enumerate(((1, 0, -1), (-1, 1, 0), (0, -1, 1))):
            n = np.array([np.nextafter(av[i], av[i] + ds[i]) if ds[i] else av[i] for i in range(3)])
            cand.append((f'axis+ulp{k}', n))
            cand.append((f'axis-ulp{k}', -n))
        for k, tilt in enumerate((1e-13, 1e-9, 1e-5)):
            cand.append((f'axis+tilt{k}', fr.to_global_dir(ez + tilt * (0.6 * er + 0.8 * et))))
            cand.append((f'axis-tilt{k}', fr.to_global_dir(-ez + tilt * (0.8 * er - 0.6 * et))))
        for dname, (cr, ct, cz) in DIRECTIONS.items():
            cand.append((dname, fr.to_global_dir(cr * er + ct * et + cz * ez)))
        for dname, (cr, ct, cz) in SCALED_DIRECTIONS.items():
            cand.append((dname, fr.to_global_dir(cr * r * er + ct * r * et + cz * h * ez)))
        centre = np.array([0.0, 0.0, 0.5 * h])
        if np.linalg.norm(loc - centre) > 0:
            cand.append(('to_centre', fr.to_global_dir(centre - loc)))
        rim_pt = -r * er + h * ez  # far rim of the top cap
        if np.linalg.norm(rim_pt - loc) > 0:
            cand.append(('to_rim', fr.to_global_dir(rim_pt - loc)))
        if q > 1.0:
            al = math.asin(1.0 / q)
            cand.append(('graze', fr.to_global_dir(-math.cos(al) * er + math.sin(al) * et)))
            cand.append(('graze_oblique', fr.to_global_dir((-math.cos(al) * er + math.sin(al) * et) * q * r + 0.1 * h * ez)))
        for dname, d in cand:
            names.append(f'{pname}/{dname}')
            starts.append(start)
            dirs.append(d)
    return names, np.array(starts), np.array(dirs)


def _run_rays(case, rec):
    axis = AXES[case['axis']]
    base = BASES[case['base']]
    unit = case['unit']
    _axis_class(rec, axis)
    fr = cyl.Frame(axis, base)
    site = 'Cylinder.beam_intersection'
    for r, h in (RH if case['sizes'] == 'all' else RH_SIX):
        rec.states += 1
        g = _Guard()
        c = g.cylinder('cylinder', Cylinder(sc.vector(axis), sc.vector(base, unit=unit), sc.scalar(r, unit=unit), sc.scalar(h, unit=unit)))
        names, starts, dirs = _ray_set(fr, axis, r, h)
        got_v = c.beam_intersection(
            g.var('start_point', sc.vectors(dims=['ray'], values=starts, unit=unit)),
            g.var('direction', sc.vectors(dims=['ray'], values=dirs)),
        )
        rec.transitions += 1
        g.check(rec, site, 'beam_intersection', axis=axis, base=base, r=r, h=h)
        if got_v.unit != sc.Unit(unit) or got_v.dims != ('ray',):
            rec.viol(site, 'wrong_unit_or_shape', f'{got_v.dims} {got_v.unit}', axis=axis, r=r, h=h)
            continue
        got = got_v.values
        rec.observe(got.tobytes())
        ndota = sc.dot(sc.vectors(dims=['ray'], values=dirs), sc.vector(axis)).values
        nxa = sc.cross(sc.vectors(dims=['ray'], values=dirs), sc.vector(axis))
        nxa2 = sc.dot(nxa, nxa).values
        hit_any = False
        for i, name in enumerate(names):
            rec.evals += 1
            p = fr.local_point(starts[i])
            d = fr.local_dir(dirs[i])
            dist = float(cyl.mpmath.sqrt(p[0] ** 2 + p[1] ** 2 + (p[2] - cyl.mpf(h) / 2) ** 2))
            delta = 64 * EPS * (dist + r + h)
            lo = cyl.ray_length(p, d, r, h, -delta)
            hi = cyl.ray_length(p, d, r, h, delta)
            gi = float(got[i])
            if nxa2[i] == 0.0:
                rec.cls('ray_parallel_axis_exact')
            elif nxa2[i] < 1e-8:
                rec.cls('ray_nearly_parallel_axis')
            if ndota[i] == 0.0:
                rec.cls('ray_perp_axis_exact')
            rec.cls('ray_from_inside' if cyl.inside(p, r, h, -delta) else ('ray_from_outside' if not cyl.inside(p, r, h, delta) else 'ray_from_surface'))
            width = float(hi - lo)
            if width > 1e-3 * min(r, h) and width > 1e-6 * float(hi):
                # the ray lies in the lateral surface or in an end cap (or runs along an edge)
                # to within rounding: the length is not determined by the floats received.
                # Not counted as validated; only the range for a grossly perturbed solid is
                # demanded (catches negative, non-finite or longer-than-the-solid results).
                rec.cls('ray_dont_care')
                lo = cyl.ray_length(p, d, r, h, -delta * 2 ** 20)
                hi = cyl.ray_length(p, d, r, h, delta * 2 ** 20)
            elif hi == 0:
                rec.validated += 1
                rec.cls('ray_miss')
            elif lo == 0:
                rec.validated += 1
                rec.cls('ray_graze')
            else:
                rec.validated += 1
                rec.cls('ray_hit')
                hit_any = True
                iv = cyl.ray_interval(p, d, r, h)
                if iv is not None and iv[0] == 0 and cyl.ray_length(p, [-x for x in d], r, h) > 0:
                    rec.cls('ray_clipped_at_start')
            tau = 1e-9 * float(hi) + 1e-300
            if not (math.isfinite(gi) and float(lo) - tau <= gi <= float(hi) + tau):
                rec.viol(site, 'path_length', f'{name}: got {gi!r}, exact {float(cyl.ray_length(p, d, r, h))!r} (admissible [{float(lo)!r}, {float(hi)!r}])',
                         axis=axis, base=base, r=r, h=h, unit=unit, ray=name,
                         start=starts[i].tolist(), direction=dirs[i].tolist())
        if hit_any:
            rec.nontrivial += 1


# ----------------------------------------------------------------------------------------
# quadrature


def _run_quad(case, rec):
    axis = AXES[case['axis']]
    base = BASES[case['base']]
    unit, r_unit, kind = case['unit'], case['r_unit'], case['qkind']
    _axis_class(rec, axis)
    rec.cls('quad_' + kind)
    if r_unit != unit:
        rec.cls('quad_mixed_units')
    fr = cyl.Frame(axis, base)
    site = 'Cylinder.quadrature'
    wtol = W_TOL[kind]
    for r_in, h in RH:
        r = r_in * TO_M[r_unit] / TO_M[unit]  # radius in the unit of base and height
        if not (1e-6 * (1 - 1e-9) <= r / h <= 1e6 * (1 + 1e-9)):
            continue  # mixed units would take the aspect ratio outside the property's 1e-3..1e3 range
        rec.states += 1
        rec.evals += 1
        sub = {'axis': axis, 'base': base, 'r': r_in, 'h': h, 'unit': unit, 'r_unit': r_unit, 'qkind': kind}
        g = _Guard()
        c = g.cylinder('cylinder', Cylinder(sc.vector(axis), sc.vector(base, unit=unit), sc.scalar(r_in, unit=r_unit), sc.scalar(h, unit=unit)))
        pts, wts = c.quadrature(kind)
        rec.transitions += 1
        g.check(rec, site, 'quadrature', **sub)
        if pts.unit != sc.Unit(unit):
            rec.viol(site, 'wrong_unit', f'points in {pts.unit}, centre in {unit}', **sub)
            continue
        P = pts.values
        W = wts.to(unit=f'{unit}**3').values
        rec.observe(P.tobytes(), W.tobytes())
        if not (np.isfinite(P).all() and np.isfinite(W).all()):
            rec.viol(site, 'not_finite', f'{int((~np.isfinite(P)).any(axis=1).sum())} of {len(P)} points are not finite', **sub)
            continue
        if not (W > 0).all():
            rec.viol(site, 'nonpositive_weight', f'min weight {W.min()}', **sub)
        loc = fr.np_local_points(P)
        absn = 16 * EPS * (float(np.linalg.norm(base)) + r + h)  # rounding of base + offset
        ok = cyl.np_inside(loc, r, h, 1e-12 * r + absn, 1e-12 * h + absn)
        rec.validated += 1
        if not ok.all():
            rho = np.hypot(loc[:, 0], loc[:, 1])
            rec.viol(site, 'point_outside_solid',
                     f'{int((~ok).sum())} of {len(P)} points outside: axial range [{loc[:, 2].min() / h:.4g}, {loc[:, 2].max() / h:.4g}] h, '
                     f'max radial {rho.max() / r:.4g} r', **sub)
        else:
            rec.cls('quad_inside_ok')
        V = math.pi * r * r * h
        m0 = W.sum()
        if abs(m0 / V - 1) > wtol:
            rec.viol(site, 'weight_sum', f'sum of weights / volume - 1 = {m0 / V - 1:.3e}', **sub)
        cen = loc - np.array([0.0, 0.0, h / 2])
        m1 = (W @ cen) / V
        cond = 64 * EPS * (float(np.linalg.norm(base)) + r + h)
        if abs(m1[0]) > wtol * r + cond or abs(m1[1]) > wtol * r + cond or abs(m1[2]) > wtol * h + cond:
            rec.viol(site, 'first_moment', f'centroid - centre = {m1.tolist()} (local frame)', **sub)
        if not ok.all():
            continue  # second moments of a point set that left the solid add nothing
        m2 = (cen * W[:, None]).T @ cen / V
        condr = cond / r
        condh = cond / h
        bad = []
        for i in (0, 1):
            if abs(m2[i, i] / (r * r / 4) - 1) > wtol + 8 * condr + (ALIGN * h / r) ** 2 / 3:
                bad.append(f'm{i}{i}/(r^2/4)-1={m2[i, i] / (r * r / 4) - 1:.3e}')
            if abs(m2[i, 2]) / (r * h) > wtol + 8 * (condr + condh) + ALIGN * abs(h * h / 12 - r * r / 4) / (r * h):
                bad.append(f'm{i}2/(r h)={m2[i, 2] / (r * h):.3e}')
        if abs(m2[0, 1]) / (r * r / 4) > wtol + 8 * condr:
            bad.append(f'm01/(r^2/4)={m2[0, 1] / (r * r / 4):.3e}')
        if abs(m2[2, 2] / (h * h / 12) - 1) > AXIAL2_TOL[kind] + 8 * condh:
            bad.append(f'm22/(h^2/12)-1={m2[2, 2] / (h * h / 12) - 1:.3e}')
        if bad:
            rec.viol(site, 'second_moment', '; '.join(bad), **sub)
        rec.validated += 1
        if case['axis'] != '+z' or case['base'] != 'origin':
            rec.nontrivial += 1


# ----------------------------------------------------------------------------------------
# transmission

BEAMS = {'axial': (0.0, 0.0, 1.0), 'radial': (1.0, 0.0, 0.0), 'oblique': (0.48, 0.6, 0.64)}
DET_DIRS = np.array(
    [(1, 0, 0), (-1, 0, 0), (0, 1, 0), (0, -1, 0), (0, 0, 1), (0, 0, -1)]
    + list(itertools.product((1, -1), repeat=3)),
    dtype=float,
)
DET_DIRS /= np.linalg.norm(DET_DIRS, axis=1, keepdims=True)
WAVELENGTHS = (0.1, 1.8, 20.0)  # angstrom
# materials as (mu_scatter * size, mu_absorb(lambda_ref) * size)
MATERIALS = {
    'vacuum': (0.0, 0.0),
    'scatter': (1.0, 0.0),
    'absorb': (0.0, 10.0 * cyl.REFERENCE_WAVELENGTH_ANGSTROM / 20.0),
    'both': (0.01, 0.02),
}


def _cube_rotations():
    mats = []
    for perm in itertools.permutations(range(3)):
        for signs in itertools.product((1.0, -1.0), repeat=3):
            M = np.zeros((3, 3))
            for i in range(3):
                M[i, perm[i]] = signs[i]
            if round(np.linalg.det(M)) == 1:
                mats.append(M)
    return mats


def _rodrigues(axis, angle):
    k = np.array(axis, dtype=float)
    k /= np.linalg.norm(k)
    K = np.array([[0, -k[2], k[1]], [k[2], 0, -k[0]], [-k[1], k[0], 0]])
    return np.eye(3) + math.sin(angle) * K + (1 - math.cos(angle)) * (K @ K)


def _motions():
    ms = []
    for i, M in enumerate(_cube_rotations()):
        ident = np.array_equal(M, np.eye(3))
        ms.append(('identity' if ident else f'cube{i:02d}', M, np.zeros(3), 'identity' if ident else 'rotation'))
    ms.sort(key=lambda m: m[3] != 'identity')  # identity first
    ms.append(('gen_rot1', _rodrigues([1, 2, -0.5], 2.2), np.zeros(3), 'rotation'))
    ms.append(('gen_rot2', _rodrigues([-0.3, 0.1, 1], -0.7), np.zeros(3), 'rotation'))
    ms.append(('shift1', np.eye(3), np.array([1.0, -2.0, 3.0]), 'translation'))
    ms.append(('shift2', np.eye(3), np.array([-40.0, 7.0, 0.5]), 'translation'))
    ms.append(('shift3', np.eye(3), np.array([0.0, 0.0, -1e3]), 'translation'))
    ms.append(('rot_shift', _rodrigues([1, 2, -0.5], 2.2), np.array([3.0, 1.0, -2.0]), 'rotation'))
    ms.append(('other_end', np.eye(3), np.zeros(3), 'other_end'))
    return ms


MOTIONS = _motions()


@functools.lru_cache(maxsize=64)
def _exact(r, h, beam_name, mus):
    size = max(r, h)
    dets = DET_DIRS * (7 * size) + np.array([0.0, 0.0, h / 2])
    T, err = cyl.transmission_exact(r, h, BEAMS[beam_name], dets, list(mus), n=(16, 64, 16))
    return T, err


def _material(xs, unit, mu_s, mu_a, size):
    """Material whose attenuation is mu_s/size + mu_a/size * lambda/lambda_ref (per `unit`)."""
    if xs == 'native':
        dens = sc.scalar(1.0 / size, unit=f'1/{unit}**3')
        return Material(
            ScatteringParams('Fake', absorption_cross_section=sc.scalar(mu_a, unit=f'{unit}**2'),
                             total_scattering_cross_section=sc.scalar(mu_s, unit=f'{unit}**2')),
            dens,
        )
    # barn and 1/angstrom^3: n sigma = 100 / m per (barn / angstrom^3)
    per_m = 1.0 / (size * TO_M[unit])  # 1/size in 1/m
    dens_val = 0.05
    k = per_m / (100.0 * dens_val)
    return Material(
        ScatteringParams('Fake', absorption_cross_section=sc.scalar(mu_a * k, unit='barn'),
                         total_scattering_cross_section=sc.scalar(mu_s * k, unit='barn')),
        sc.scalar(dens_val, unit='1/angstrom**3'),
    )


def _run_trans(case, rec):
    r, h, unit, det_unit, kind = case['r'], case['h'], case['unit'], case['det_unit'], case['qkind']
    size = max(r, h)
    a0 = np.array(AXES[case['a0']])
    base0 = np.array(BASES['origin'] if case['a0'] == '+z' else BASES['near'])
    fr0 = cyl.Frame(a0, base0)
    beam0 = fr0.to_global_dir(np.array(BEAMS[case['beam']]))
    dets_local = DET_DIRS * (7 * size) + np.array([0.0, 0.0, h / 2])
    dets0 = fr0.to_global_point(dets_local)
    site = 'compute_transmission_map'
    V = math.pi * r * r * h
    wtol = W_TOL[kind]
    if det_unit != unit:
        rec.cls('trans_det_unit_differs')

    # attenuation levels (per unit length of `unit`), in the order materials x wavelengths
    mat_items = list(MATERIALS.items())
    mu_tab = {
        name: tuple(cyl.attenuation(1.0 / size, ms, ma, lam) for lam in WAVELENGTHS)
        for name, (ms, ma) in mat_items
    }
    all_mus = tuple(m for name, _ in mat_items for m in mu_tab[name])
    T_exact, T_err = _exact(r, h, case['beam'], all_mus)  # [det, mu]
    mats = {name: _material(case['xs'], unit, ms, ma, size) for name, (ms, ma) in mat_items}
    wl = sc.array(dims=['wavelength'], values=list(WAVELENGTHS), unit='angstrom')

    results = {}
    # round 6: besides the fixed motions, a translation by ~7e4 sample sizes - the sample far from the origin of the
    # coordinates while the detectors stay 7 sizes away from it (distance from the origin says nothing about distance from the sample)
    motions = [*MOTIONS, ('shift_far', np.eye(3), size * np.array([2e4, -3e4, 6e4]), 'translation')]
    for mname, R, t, mtype in motions:
        rec.states += 1
        if mtype == 'other_end':
            axis = (-a0).tolist()
            base = (base0 + h * a0).tolist()
            rec.cls('trans_other_end')
        else:
            axis = (R @ a0).tolist()
            base = (R @ base0 + t).tolist()
        beam = (R @ beam0).tolist()
        dets = dets0 @ R.T + t
        if mtype == 'rotation':
            rec.cls('trans_motion_rotation')
            if axis[2] < 0:
                rec.cls('trans_moved_axis_neg_z')
        elif mtype == 'translation':
            rec.cls('trans_motion_translation')
        g = _Guard()
        c = g.cylinder('cylinder', Cylinder(sc.vector(axis), sc.vector(base, unit=unit), sc.scalar(r, unit=unit), sc.scalar(h, unit=unit)))
        det_vals = dets * (TO_M[unit] / TO_M[det_unit])
        det_var = g.var('detector_position', sc.vectors(dims=['det'], values=det_vals, unit=det_unit))
        beam_var = g.var('beam_direction', sc.vector(beam))
        g.var('wavelength', wl)
        for name, m in mats.items():
            g.material('material[' + name + ']', m)
        sub0 = {'motion': mname, 'axis': axis, 'base': base}
        # the reference sum over the points the package itself uses (evaluated on the floats received)
        pts, wts = c.quadrature(kind)
        P, W = pts.values, wts.values
        frg = cyl.Frame(axis, base)
        pts_ok = bool(np.isfinite(P).all())
        if pts_ok:
            model = cyl.transmission_sum(
                frg.np_local_points(P), W, V, r, h, frg.np_local_dirs(np.array(beam)),
                frg.np_local_points(det_vals * (TO_M[det_unit] / TO_M[unit])), list(all_mus),
            )
        Tg = np.empty((len(DET_DIRS), len(all_mus)))
        col = 0
        for name, _ in mat_items:
            tm = compute_transmission_map(
                c, mats[name], beam_direction=beam_var, wavelength=wl,
                detector_position=det_var, quadrature_kind=kind,
            )
            rec.transitions += 1
            if tm.dims != ('wavelength', 'det') or tm.unit != sc.units.one:
                rec.viol(site, 'wrong_shape_or_unit', f'{tm.dims} {tm.unit}', **sub0)
                return
            if not (sc.identical(tm.coords['wavelength'], wl) and sc.identical(tm.coords['detector_position'], det_var)):
                rec.viol(site, 'coords_changed', 'coordinates of the map differ from the arguments', **sub0)
            Tg[:, col:col + 3] = tm.values.T
            col += 3
        rec.observe(Tg.tobytes())
        rec.evals += Tg.size
        results[mname] = Tg
        g.check(rec, site, 'quadrature + compute_transmission_map', **sub0)
        mus = np.array(all_mus)
        # range, mu = 0
        if not np.isfinite(Tg).all():
            rec.viol(site, 'not_finite', f'{int((~np.isfinite(Tg)).sum())} of {Tg.size} values are not finite', **sub0)
            continue
        if (Tg <= 0).any() or (Tg > 1 + wtol).any():
            rec.viol(site, 'out_of_range', f'range [{float(Tg.min())!r}, {float(Tg.max())!r}] not in (0, 1]', **sub0)
        z = mus == 0
        rec.cls('trans_mu_zero', int(z.sum()) * len(DET_DIRS))
        rec.cls('trans_attenuated', int((~z).sum()) * len(DET_DIRS))
        if (np.abs(Tg[:, z] - 1) > wtol).any():
            rec.viol(site, 'not_one_without_attenuation', f'max |T-1| = {np.abs(Tg[:, z] - 1).max():.3e} at mu = 0', **sub0)
        # strictly decreasing in mu
        order = np.argsort(mus, kind='stable')
        ms = mus[order]
        Ts = Tg[:, order]
        inc = ms[1:] > ms[:-1]
        if (Ts[:, 1:][:, inc] >= Ts[:, :-1][:, inc]).any():
            j, k = np.argwhere(Ts[:, 1:][:, inc] >= Ts[:, :-1][:, inc])[0]
            rec.viol(site, 'not_decreasing_in_mu', f'detector {j}: T does not decrease between attenuation levels {ms[:-1][inc][k]} and {ms[1:][inc][k]}', **sub0)
        rec.validated += 1
        # equal to the reference sum over the same points
        cond = 64 * EPS * mus.max() * (float(np.linalg.norm(base)) + float(np.linalg.norm(dets, axis=1).max()) + size)
        if pts_ok:
            dm = np.abs(Tg - model).max()
            if dm > 1e-10 + cond:
                j, k = np.unravel_index(np.argmax(np.abs(Tg - model)), Tg.shape)
                rec.viol(site, 'differs_from_sum_over_points', f'detector {j}, mu {mus[k]}: map {float(Tg[j, k])!r}, sum over the returned points with exact path lengths {float(model[j, k])!r}', **sub0)
            else:
                rec.cls('trans_model_sum_ok')
            rec.validated += 1
        # equal to the converged integral, to the accuracy of the quadrature
        tol = ACC[kind] * (1 - T_exact) + wtol + 4 * T_err + cond
        dev = np.abs(Tg - T_exact)
        if _DEBUG:
            print('C18DBG', kind, case['a0'], r, h, case['beam'], mname, float((dev / tol).max()), flush=True)
        if (dev > tol).any():
            j, k = np.unravel_index(np.argmax(dev / tol), dev.shape)
            knd = {'identity': 'differs_from_integral', 'other_end': 'changes_from_other_end'}.get(mtype, 'changes_under_rigid_motion')
            rec.viol(site, knd, f'{mname}: detector {j}, mu*size {mus[k] * size:.4g}: map {float(Tg[j, k])!r}, integral {float(T_exact[j, k])!r} '
                     f'(allowed {tol[j, k]:.3e}, off by {dev[j, k]:.3e}); axis {axis}', **sub0)
        rec.validated += 1
        rec.nontrivial += 1
    # translations carry the quadrature along exactly: equal to rounding
    ref = results.get('identity')
    if ref is not None and np.isfinite(ref).all():
        for mname, R, t, mtype in motions:
            if mtype != 'translation' or mname not in results:
                continue
            cond = 64 * EPS * max(all_mus) * (float(np.linalg.norm(t)) + float(np.linalg.norm(base0)) + 8 * size)
            d = np.abs(results[mname] - ref).max()
            rec.validated += 1
            if not d <= 1e-10 + cond:
                rec.viol(site, 'changes_under_translation', f'{mname}: max change {d:.3e} (allowed {1e-10 + cond:.3e})', motion=mname, axis=a0.tolist())


# ----------------------------------------------------------------------------------------
# shared variables: two cylinders built from the same axis / base / size Variables

SHARE_MODES = ('axis', 'base', 'axis+base', 'size')
SHARE_OPS = tuple((op, who) for who in 'AB' for op in ('quad', 'ray', 'trans'))
SHARE_SHIFT = [4.0, -7.0, 2.5]


def _share_build(case):
    """-> (guard, {'A': cyl, 'B': cyl}, {'A': plain description, 'B': ...}, call arguments).
    Every call builds new, independent Variables; within one build the Variables named by
    ``mode`` are the *same objects* in A and B."""
    unit, mode = case['unit'], case['mode']
    a1, a2 = AXES[case['axis']], AXES[case['axis2']]
    b1 = BASES['near']
    b2 = (np.array(b1) + np.array(SHARE_SHIFT)).tolist()
    desc = {'A': {'axis': a1, 'base': b1, 'r': 0.5, 'h': 1.2}}
    g = _Guard()
    ax_a, base_a = sc.vector(a1), sc.vector(b1, unit=unit)
    r_a, h_a = sc.scalar(0.5, unit=unit), sc.scalar(1.2, unit=unit)
    if mode == 'axis':
        desc['B'] = {'axis': a1, 'base': b2, 'r': 0.5, 'h': 1.2}
        ax_b, base_b, r_b, h_b = ax_a, sc.vector(b2, unit=unit), sc.scalar(0.5, unit=unit), sc.scalar(1.2, unit=unit)
    elif mode == 'base':
        desc['B'] = {'axis': a2, 'base': b1, 'r': 0.5, 'h': 1.2}
        ax_b, base_b, r_b, h_b = sc.vector(a2), base_a, sc.scalar(0.5, unit=unit), sc.scalar(1.2, unit=unit)
    elif mode == 'axis+base':
        desc['B'] = {'axis': a1, 'base': b1, 'r': 0.35, 'h': 0.7}
        ax_b, base_b, r_b, h_b = ax_a, base_a, sc.scalar(0.35, unit=unit), sc.scalar(0.7, unit=unit)
    elif mode == 'size':
        desc['B'] = {'axis': a2, 'base': b2, 'r': 0.5, 'h': 1.2}
        ax_b, base_b, r_b, h_b = sc.vector(a2), sc.vector(b2, unit=unit), r_a, h_a
    else:
        raise ValueError(mode)
    cyls = {
        'A': g.cylinder('A', Cylinder(ax_a, base_a, r_a, h_a)),
        'B': g.cylinder('B', Cylinder(ax_b, base_b, r_b, h_b)),
    }
    args = {}
    for who, d in desc.items():
        fr = cyl.Frame(d['axis'], d['base'])
        r, h = d['r'], d['h']
        # well-conditioned rays in the frame of the solid as constructed
        loc = np.array([[0, 0, 0.5 * h], [0, 0, 0.5 * h], [0.3 * r, 0.2 * r, 0.25 * h], [0.3 * r, 0.2 * r, 0.25 * h],
                        [3 * r, 0.5 * r, 0.4 * h], [0.2 * r, -0.1 * r, -2 * h], [-0.4 * r, 0.3 * r, 0.6 * h], [2 * r, 2 * r, 3 * h]])
        dl = np.array([[0, 0, 1.0], [0, 0, -1.0], [0.6, 0.3, 0.74], [-0.5, 0.4, -0.77],
                       [-1.0, -0.1, 0.05], [0.02, 0.03, 1.0], [1.0, 0.2, 0.1], [0.3, -0.2, 1.0]])
        dirs = fr.to_global_dir(dl)
        dirs[0] = np.array(d['axis'])  # exactly the axis floats
        dirs[1] = -np.array(d['axis'])
        det_loc = np.array([[7.0, 1.0, 0.6], [-3.0, 6.0, -2.0], [0.5, -0.5, 8.0]])
        args[who] = {
            'frame': fr,
            'starts': g.var(who + '.start_point', sc.vectors(dims=['ray'], values=fr.to_global_point(loc), unit=unit)),
            'dirs': g.var(who + '.direction', sc.vectors(dims=['ray'], values=dirs)),
            'loc': loc, 'dl': dl / np.linalg.norm(dl, axis=1, keepdims=True),
            'det': g.var(who + '.detector_position', sc.vectors(dims=['det'], values=fr.to_global_point(det_loc), unit=unit)),
        }
    args['beam'] = g.var('beam_direction', sc.vector([0.0, 0.6, 0.8]))
    args['wl'] = g.var('wavelength', sc.array(dims=['wavelength'], values=[1.0, 4.0], unit='angstrom'))
    args['mat'] = g.material('material', Material(
        ScatteringParams('Fake', absorption_cross_section=sc.scalar(0.5, unit=f'{unit}**2'),
                         total_scattering_cross_section=sc.scalar(0.2, unit=f'{unit}**2')),
        sc.scalar(1.0, unit=f'1/{unit}**3')))
    return g, cyls, desc, args


def _share_do(op, who, cyls, args, kind):
    c = cyls[who]
    if op == 'quad':
        pts, w = c.quadrature(kind)
        return {'points': pts, 'weights': w}
    if op == 'ray':
        return {'path_lengths': c.beam_intersection(args[who]['starts'], args[who]['dirs'])}
    tm = compute_transmission_map(c, args['mat'], beam_direction=args['beam'], wavelength=args['wl'],
                                  detector_position=args[who]['det'], quadrature_kind=kind)
    return {'transmission': tm.data}


_SHARE_SITE = {'quad': 'Cylinder.quadrature', 'ray': 'Cylinder.beam_intersection', 'trans': 'compute_transmission_map'}


def _share_judge(rec, op, who, got, want, desc, args, sub):
    """Result of the last operation of a history: equal to the same operation on freshly
    built independent objects, and right for the solid as it was constructed."""
    site = _SHARE_SITE[op]
    d = desc[who]
    ok = True
    for name, v in got.items():
        rec.validated += 1
        rec.observe(np.ascontiguousarray(v.values).tobytes())
        if not sc.identical(v, want[name], equal_nan=True):
            ok = False
            rec.viol(site, 'depends_on_history', f'{name} of {who} after {sub["history"]} differs from the result on freshly built objects', output=name, **sub)
    fr = args[who]['frame']
    if op == 'quad':
        loc = fr.np_local_points(got['points'].values)
        rec.validated += 1
        if not cyl.np_inside(loc, d['r'], d['h'], 1e-9 * d['r'], 1e-9 * d['h']).all():
            ok = False
            rec.viol(site, 'point_outside_solid', f'{who} after {sub["history"]}: points outside the solid {who} was constructed for '
                     f'(axial range [{loc[:, 2].min() / d["h"]:.4g}, {loc[:, 2].max() / d["h"]:.4g}] h)', **sub)
    elif op == 'ray':
        ref = cyl.np_ray_length(args[who]['loc'], args[who]['dl'], d['r'], d['h'])
        rec.validated += 1
        if not np.allclose(got['path_lengths'].values, ref, rtol=0, atol=1e-9):
            ok = False
            rec.viol(site, 'path_length', f'{who} after {sub["history"]}: {got["path_lengths"].values.tolist()} expected {ref.tolist()}', **sub)
    return ok


def _run_share(case, rec):
    kind = case['qkind']
    for a in (AXES[case['axis']], AXES[case['axis2']]):
        _axis_class(rec, a)
    rec.cls('share_' + case['mode'])
    # expected results: every operation on its own freshly built objects
    want = {}
    for op, who in SHARE_OPS:
        g, cyls, desc, args = _share_build(case)
        want[op, who] = _share_do(op, who, cyls, args, kind)
        sub = {'history': [op + ':' + who], 'mode': case['mode'], 'axis': AXES[case['axis']]}
        _share_judge(rec, op, who, want[op, who], want[op, who], desc, args, sub)
    seen = set()
    for depth in range(1, case['depth'] + 1):
        for hist in itertools.product(SHARE_OPS, repeat=depth):
            g, cyls, desc, args = _share_build(case)
            rec.states += 1
            names = [op + ':' + who for op, who in hist]
            sub = {'history': names, 'mode': case['mode'], 'axis': AXES[case['axis']]}
            clean = True
            for i, (op, who) in enumerate(hist):
                got = _share_do(op, who, cyls, args, kind)
                rec.transitions += 1
                clean &= g.check(rec, _SHARE_SITE[op], f'{names[i]} (step {i + 1} of {names})', seen=seen, **sub)
            rec.evals += 1
            # prefixes are histories of their own: only the last result needs judging
            if _share_judge(rec, op, who, got, want[op, who], desc, args, sub) and clean:
                rec.cls('history_equals_fresh')
            if depth > 1 and len({w for _, w in hist}) == 2:
                rec.nontrivial += 1
                rec.cls('history_uses_both_cylinders')


# ----------------------------------------------------------------------------------------
# large detector banks: the package switches to a piecewise evaluation when
# (number of quadrature points) x (number of detector positions) exceeds BROADCAST_LIMIT

BROADCAST_LIMIT = 20_000_000  # as documented in absorption/base.py; used for sizing and class labels only
LARGE_SHAPES = {  # qkind -> (radius, height) giving the point counts below
    ('cheap', 60): (1.0, 1.0), ('cheap', 120): (1.0, 2.0), ('cheap', 180): (0.2, 1.2),
    ('medium', 385): (1.0, 1.0), ('medium', 770): (1.0, 2.0), ('medium', 1375): (0.2, 1.2),
    ('expensive', 2827): (1.0, 1.0), ('expensive', 5654): (1.0, 2.0), ('expensive', 8995): (0.2, 1.2),
}


def _fibonacci_sphere(n):
    i = np.arange(n) + 0.5
    phi = np.arccos(1 - 2 * i / n)
    theta = math.pi * (1 + 5 ** 0.5) * i
    return np.stack([np.cos(theta) * np.sin(phi), np.sin(theta) * np.sin(phi), np.cos(phi)], axis=1)


def _large_cases(tier):
    out = []

    def add(kind, npts, pairs, layout, mat, axis='gen_b'):
        ndet = pairs // npts + 1  # smallest bank with npts * ndet > pairs
        if layout == '2d':
            rows = 20 * max(1, pairs // BROADCAST_LIMIT)  # about 1e6 pairs per row
            shape = [rows, -(-ndet // rows)]
        else:
            shape = [ndet]
        out.append({'kind': 'large', 'qkind': kind, 'npoints': npts, 'shape': shape, 'mat': mat, 'axis': axis})

    L = BROADCAST_LIMIT
    quick_counts = [('cheap', 180), ('medium', 385), ('medium', 1375), ('expensive', 2827), ('expensive', 8995)]
    counts = quick_counts if tier == 'quick' else list(LARGE_SHAPES)
    # the plain one-dimensional bank just above the limit (the package then works detector by detector)
    add('expensive', 8995, L, '1d', 'atten')
    if tier == 'thorough':
        add('expensive', 8995, L, '1d', 'vacuum', axis='diag+--')
        add('expensive', 2827, L, '1d', 'atten', axis='-z')
        add('medium', 1375, L, '1d', 'atten', axis='inplane')
        # just below the limit: one fully vectorised call of 2e7 pairs
        out.append({'kind': 'large', 'qkind': 'medium', 'npoints': 385, 'shape': [L // 385], 'mat': 'atten', 'axis': 'gen_a'})
    for k, (kind, npts) in enumerate(counts):
        axis = ('gen_b', 'diag--+', 'yz-', '+z', 'gen_test')[k % 5]
        for blocks in (2, 3, 5, 7):
            for mat in ('atten', 'vacuum'):
                if tier == 'quick' and (blocks > 3 or (blocks == 3 and (mat == 'vacuum' or npts not in (385, 2827)))):
                    continue
                add(kind, npts, (blocks - 1) * L, '2d', mat, axis)
        # well below the limit and a possible lower limit: same oracle
        for pairs in (L // 80, L // 8):
            add(kind, npts, pairs, '1d', 'atten', axis)
    return out


def _run_large(case, rec):
    kind, npts, shape = case['qkind'], case['npoints'], case['shape']
    r, h = LARGE_SHAPES[kind, npts]
    unit = 'mm'
    size = max(r, h)
    axis, base = AXES[case['axis']], BASES['near']
    _axis_class(rec, axis)
    site = 'compute_transmission_map'
    sub = {'qkind': kind, 'npoints': npts, 'shape': shape, 'axis': axis}
    g = _Guard()
    c = g.cylinder('cylinder', Cylinder(sc.vector(axis), sc.vector(base, unit=unit), sc.scalar(r, unit=unit), sc.scalar(h, unit=unit)))
    pts, wts = c.quadrature(kind)
    if pts.sizes['quad'] != npts:
        raise RuntimeError(f'harness: expected {npts} quadrature points for {kind} r={r} h={h}, got {pts.sizes["quad"]}')
    ndet = int(np.prod(shape))
    pairs = npts * ndet
    fr = cyl.Frame(axis, base)
    centre = fr.to_global_point(np.array([0.0, 0.0, h / 2]))
    det_vals = _fibonacci_sphere(ndet) * (7 * size) + centre
    flat = sc.vectors(dims=['det'], values=det_vals, unit=unit)
    det = flat if len(shape) == 1 else sc.fold(flat, 'det', sizes={'row': shape[0], 'col': shape[1]})
    det = g.var('detector_position', det.copy())
    beam = g.var('beam_direction', sc.vector(_unit([0.2, -0.3, 0.9])))
    wl = g.var('wavelength', sc.array(dims=['wavelength'], values=[1.0, 4.0], unit='angstrom'))
    ms, ma = (0.0, 0.0) if case['mat'] == 'vacuum' else (0.6, 0.5)
    mat = g.material('material', _material('native', unit, ms, ma, size))
    mus = [cyl.attenuation(1.0 / size, ms, ma, lam) for lam in (1.0, 4.0)]
    rec.cls('large_above_limit' if pairs > BROADCAST_LIMIT else 'large_below_limit')
    rec.cls(f'large_pieces_{-(-pairs // BROADCAST_LIMIT)}')
    rec.cls('large_layout_%dd' % len(shape))
    for q in (2, 3, 5, 7):
        if npts % q:
            rec.cls(f'large_points_not_divisible_by_{q}')
    rec.cls('large_' + case['mat'])

    tm = compute_transmission_map(c, mat, beam_direction=beam, wavelength=wl, detector_position=det, quadrature_kind=kind)
    rec.transitions += 1
    rec.states += 1
    g.check(rec, site, 'compute_transmission_map', **sub)
    if set(tm.dims) != set(det.dims) | {'wavelength'} or tm.unit != sc.units.one or any(tm.sizes[d] != det.sizes[d] for d in det.dims):
        rec.viol(site, 'wrong_shape_or_unit', f'{tm.sizes} {tm.unit} for detectors {det.sizes}', **sub)
        return
    if not (sc.identical(tm.coords['wavelength'], wl) and sc.identical(tm.coords['detector_position'], det)):
        rec.viol(site, 'coords_changed', 'coordinates of the map differ from the arguments', **sub)
    T = tm.data.transpose([*det.dims, 'wavelength']).values.reshape(ndet, 2)
    rec.observe(T.tobytes())
    rec.evals += T.size
    wtol = W_TOL[kind]
    if not np.isfinite(T).all() or (T <= 0).any() or (T > 1 + wtol).any():
        rec.viol(site, 'out_of_range', f'range [{float(np.nanmin(T))!r}, {float(np.nanmax(T))!r}] not in (0, 1]', **sub)
        return
    if case['mat'] == 'vacuum':
        rec.validated += 1
        if (np.abs(T - 1) > wtol).any():
            rec.viol(site, 'not_one_without_attenuation', f'{ndet} detectors x {npts} points: max |T-1| = {np.abs(T - 1).max():.3e} at mu = 0', **sub)
    # the same detectors in small calls (far below any limit): the value for a detector
    # does not depend on how many other detectors are in the call
    step = max(1, 500_000 // npts)
    idx = range(0, ndet, step) if case['mat'] != 'vacuum' else range(0, min(ndet, step), step)
    worst = 0.0
    for i0 in idx:
        sm = compute_transmission_map(c, mat, beam_direction=beam, wavelength=wl, detector_position=flat['det', i0:i0 + step], quadrature_kind=kind)
        rec.transitions += 1
        Ts = sm.data.transpose(['det', 'wavelength']).values
        ref = Ts if case['mat'] != 'vacuum' else Ts[:1]
        tgt = T[i0:i0 + step] if case['mat'] != 'vacuum' else T
        worst = max(worst, float(np.abs(tgt - ref).max()))
    rec.validated += 1
    if not worst <= 1e-12:
        rec.viol(site, 'depends_on_bank_size', f'{ndet} detectors x {npts} points: values differ by up to {worst:.3e} from the same detectors computed in calls of {step}', **sub)
    else:
        rec.cls('large_equals_small_calls')
    # reference sum over the returned points for a spread of detectors
    pick = np.unique(np.linspace(0, ndet - 1, 24).astype(int))
    model = cyl.transmission_sum(fr.np_local_points(pts.values), wts.values, math.pi * r * r * h, r, h,
                                 fr.np_local_dirs(np.array(beam.values)), fr.np_local_points(det_vals[pick]), mus)
    cond = 64 * EPS * max(mus) * (float(np.linalg.norm(base)) + 8 * size)
    rec.validated += 1
    if np.abs(T[pick] - model).max() > 1e-10 + cond:
        j = int(np.argmax(np.abs(T[pick] - model).max(axis=1)))
        rec.viol(site, 'differs_from_sum_over_points', f'detector {int(pick[j])} of {ndet}: map {T[pick[j]].tolist()}, sum over the returned points with exact path lengths {model[j].tolist()}', **sub)
    rec.nontrivial += 1


def _run_reuse(case, rec):
    """A Cylinder instance that has been used and is then moved / re-oriented / resized by assigning its fields must behave
    like a freshly built cylinder with the new fields (Cylinder is a plain mutable dataclass)."""
    from scippneutron.absorption import Material, compute_transmission_map
    from scippneutron.atoms import ScatteringParams

    axes = AXES
    a1, a2 = axes[case['axis']], axes[case['axis2']]
    unit = case['unit']
    b1, b2 = BASES['near'], BASES['far']
    q = case['qkind']
    mat = Material(
        scattering_params=ScatteringParams(isotope='X', absorption_cross_section=sc.scalar(0.5, unit='mm**2'), total_scattering_cross_section=sc.scalar(0.2, unit='mm**2')),
        effective_sample_number_density=sc.scalar(1.0, unit='1/mm**3').to(unit=f'1/{unit}**3'),
    )
    lam = sc.array(dims=['wavelength'], values=[1.0, 4.0], unit='angstrom')

    def observe(c):
        pts, w = c.quadrature(q)
        det = (c.center + sc.vector([0.3, 2.0, 1.0], unit=unit) * 10.0).copy()
        det = sc.concat([det, c.center + sc.vector([-5.0, 0.1, 0.4], unit=unit) * 10.0], 'x')
        tm = compute_transmission_map(c, mat, beam_direction=sc.vector([0.0, 0.6, 0.8]), wavelength=lam, detector_position=det, quadrature_kind=q)
        start = sc.concat([c.center, c.center_of_base, c.center + sc.vector([9.0, 0.0, 0.0], unit=unit)], 'p')
        li = c.beam_intersection(start, sc.vector([0.6, 0.0, 0.8]))
        return {'points': pts, 'weights': w, 'transmission': tm.data, 'path_lengths': li, 'volume': c.volume, 'center': c.center}

    def mk(a, b, r, h):
        return Cylinder(sc.vector(a), sc.vector(b, unit=unit), sc.scalar(r, unit=unit), sc.scalar(h, unit=unit))

    for field, new in (('center_of_base', sc.vector(b2, unit=unit)), ('symmetry_line', sc.vector(a2)), ('height', sc.scalar(0.7, unit=unit)), ('radius', sc.scalar(0.35, unit=unit))):
        c = mk(a1, b1, 0.5, 1.2)
        observe(c)  # use the instance
        setattr(c, field, new)
        rec.transitions += 2
        rec.states += 1
        got = observe(c)
        kw = {'a': a1, 'b': b1, 'r': 0.5, 'h': 1.2}
        kw[{'center_of_base': 'b', 'symmetry_line': 'a', 'height': 'h', 'radius': 'r'}[field]] = {'center_of_base': b2, 'symmetry_line': a2, 'height': 0.7, 'radius': 0.35}[field]
        want = observe(mk(kw['a'], kw['b'], kw['r'], kw['h']))
        rec.evals += 1
        ok = True
        for name in want:
            rec.validated += 1
            if not sc.identical(got[name], want[name], equal_nan=True):
                rec.viol('Cylinder.' + ('quadrature' if name in ('points', 'weights') else 'beam_intersection' if name == 'path_lengths' else 'compute_transmission_map' if name == 'transmission' else name),
                         'reused_instance_differs_from_fresh', f'after assigning {field} to a used Cylinder, {name} differs from a freshly built cylinder with the same fields', field=field, output=name)
                ok = False
        if ok:
            rec.cls('reused_instance_equals_fresh')
            rec.nontrivial += 1


def run_case(case, rec):
    k = case['kind']
    if k == 'reuse':
        _run_reuse(case, rec)
    elif k == 'share':
        _run_share(case, rec)
    elif k == 'large':
        _run_large(case, rec)
    elif k == 'rays':
        _run_rays(case, rec)
    elif k == 'quad':
        _run_quad(case, rec)
    elif k == 'trans':
        _run_trans(case, rec)
    else:
        raise ValueError(k)
