"""C06 - event-mode conversion equals dense conversion (bitwise per event) and preserves the data.

Shape P (layouts).  One case = one binned layout (dims, shape, events per bin in every
arrangement, buffer layout) x geometry source x outer bin-edge coordinate x container;
inside, every target x event-coordinate dtype is converted with the real
``scippneutron.convert`` and compared with a *dense replica built by the harness*:
the events flattened in bin order into a 1-d dense data array whose geometry coordinates
are the owning pixel's geometry repeated per event, converted by the same public call.

Oracle (per property statement):
  * per event: converted event coordinate bit-for-bit the dense result (NaN == NaN), same
    unit and dtype;
  * outer bin-edge coordinate: bit-for-bit the dense conversion of the edges with the
    per-pixel geometry;
  * weights, variances, event order, bin membership, event-level coords/masks that are
    not part of the conversion, outer masks and unrelated outer coords unchanged;
  * the input object (deep snapshot, raw buffer and begin/end indices) not modified.
"""
from __future__ import annotations

import itertools

import numpy as np
import scipp as sc

import scippneutron as scn


def _fresh_state():
    """Reset module-level state of the kernel modules to what it was right after import (mc/modstate.py; same
    effect as importlib.reload but cheap): the conversion under test and each dense reference conversion start
    from the same clean state and cannot poison each other through memo tables or "last call" slots."""
    from mc import modstate
    from scippneutron import _utils as _ut
    from scippneutron.conversion import beamline as _kb
    from scippneutron.conversion import tof as _kt

    for m in (_kt, _kb, _ut):
        modstate.reset(m)

ID = 'C06'
LEVEL = 'model_checking'
RULE = (
    'layouts: bin grids [spectrum], [tof], [spectrum,tof], [y,x] with up to 4 bins and events per bin from {0,1,3} in '
    'every arrangement (all-empty included) x buffer layout {contiguous, reversed with unreferenced gaps} x geometry '
    '{positions, precomputed} x outer bin-edge coordinate {none, same unit, other unit} x container {DataArray, Dataset}; '
    'inside each case all 6 targets (wavelength, energy, dspacing, Q, energy_transfer direct / indirect) x event '
    'coordinate dtype {float64, float32, int64} (+ float32 fixed energy for the inelastic targets). A conversion is non-trivial when at least one event exists; '
    'distinct = distinct (case, target, dtype)'
)
ASSUMPTIONS = [
    'the dense replica is converted by the same public convert() (dense correctness is C01/C05); C06 is the differential event vs dense',
    'bin membership is compared as per-bin event lists, not raw begin/end (the result buffer is compacted by scipp)',
    'event weights float64 with variances; event-level extra coord int64, event-level mask, outer masks on every dim',
]
REQUIRED_CLASSES = [
    'event_tof_in_ns', 'buffer_permuted', 'early_events_between_pixel_t0s', 'int32_event_coord', 'events_bitwise', 'all_bins_empty', 'some_bin_empty', 'nan_events', 'finite_events', 'edges_bitwise',
    'edges_other_unit', 'buffer_gappy', 'buffer_contiguous', 'dtype_float32_result', 'dtype_float64_result',
    'int_event_coord', 'geometry_positions', 'geometry_precomputed', 'container_dataset', 'container_dataarray',
    'input_unchanged', 'data_preserved', 'masks_preserved', 'grid_2d', 'grid_1d', 'per_pixel_final_energy',
    'inelastic_float32_result',
]
BOUND = {
    'quick': '1-d grids up to 3 bins (39 arrangements each for [spectrum] and [tof]); 2-d grids (1,2),(2,1) all 9 arrangements and '
             '(2,2) with counts from {0,3} (16); x 2 buffers x 2 geometries x edges x 2 containers x 6 targets x 3 dtypes',
    'thorough': '1-d grids up to 4 bins (120 arrangements each); 2-d grids (1,1),(1,2),(2,1),(2,2),(1,3),(3,1) all 156 arrangements for both '
                '[spectrum,tof] and [y,x]; same other axes',
}

TARGETS = ('wavelength', 'energy', 'dspacing', 'Q', 'energy_transfer_direct', 'energy_transfer_indirect')
EV_DTYPES = ('float64', 'float32', 'int64')
COUNTS = (0, 1, 3)
SITE = 'convert[binned]'


def _arr(shape, alphabet=COUNTS):
    n = int(np.prod(shape))
    return [list(c) for c in itertools.product(alphabet, repeat=n)]


def cases(tier):
    layouts = []
    max1d = 3 if tier == 'quick' else 4
    for n in range(1, max1d + 1):
        for c in _arr((n,)):
            layouts.append((['spectrum'], [n], c))
            layouts.append((['tof'], [n], c))
    shapes2 = [(1, 2), (2, 1), (2, 2)] if tier == 'quick' else [(1, 1), (1, 2), (2, 1), (2, 2), (1, 3), (3, 1)]
    for shp in shapes2:
        alpha = (0, 3) if (tier == 'quick' and shp == (2, 2)) else COUNTS
        for c in _arr(shp, alpha):
            layouts.append((['spectrum', 'tof'], list(shp), c))
            layouts.append((['y', 'x'], list(shp), c))
    layouts.sort(key=lambda l: (len(l[2]), sum(l[2]), l[0], l[2]))
    out = []
    for dims, shape, counts in layouts:
        for buffer in ('contiguous', 'gappy', 'permuted'):
            for geometry in ('positions', 'precomputed'):
                for edges in (('none', 'same', 'other') if 'tof' in dims else ('none',)):
                    for container in ('dataarray', 'dataset'):
                        out.append({'dims': dims, 'shape': shape, 'counts': counts, 'buffer': buffer,
                                    'geometry': geometry, 'edges': edges, 'container': container})
    return out


# ---------------------------------------------------------------------------------------
# construction of the binned input


def _event_tofs(n, pattern='default', early_value=None):
    """Distinct, positive, deterministic event times in microseconds (some before t0 of the inelastic legs).

    'default': the early events (150..) lie before the flight time t0 of *every* pixel.  'between': the early events
    (800..) lie after the smallest per-pixel t0 but before the t0 of the other pixels, and no event lies before the
    smallest t0 (the case where a global "is anything unphysical?" shortcut and the per-event rule disagree)."""
    out = []
    early, step = (150.0, 10.0) if pattern == 'default' else (early_value, 1e-3)
    for k in range(n):
        out.append(early + step * k if k % 5 == 3 else 2000.0 + 1500.25 * k)
    return out


def _pixel_dims(dims):
    return [d for d in dims if d != 'tof']


def build_input(case, ev_dtype, pattern='default', early_value=None, tof_unit='us'):
    """Return (data array, per-bin list of global event ids in row-major bin order)."""
    dims, shape, counts = case['dims'], case['shape'], case['counts']
    nb = len(counts)
    total = sum(counts)
    ids_per_bin, k = [], 0
    for c in counts:
        ids_per_bin.append(list(range(k, k + c)))
        k += c
    tofs = _event_tofs(total, pattern, early_value)
    # buffer layout: list of event ids (or None = unreferenced junk event) in storage order
    if case['buffer'] == 'contiguous':
        order = [e for b in ids_per_bin for e in b]
        begin, pos = [], 0
        for c in counts:
            begin.append(pos)
            pos += c
        end = [b + c for b, c in zip(begin, counts, strict=True)]
    elif case['buffer'] == 'permuted':
        # bins stored back to front but without any unreferenced event: the bin sizes add up to the buffer length
        # although the buffer is not in bin order (what a transposed view of a 2-d bin grid looks like)
        order, begin, end = [], [0] * nb, [0] * nb
        for b in reversed(range(nb)):
            begin[b] = len(order)
            order += ids_per_bin[b]
            end[b] = len(order)
    else:
        order, begin, end = [None], [0] * nb, [0] * nb
        for b in reversed(range(nb)):
            begin[b] = len(order)
            order += ids_per_bin[b]
            end[b] = len(order)
            order.append(None)
    nbuf = len(order)
    ev_id = np.array([(-1 if e is None else e) for e in order], dtype=np.int64)
    tof_vals = np.array([(77.0 if e is None else tofs[e]) for e in order], dtype=np.float64)
    if tof_unit == 'ns':
        tof_var = sc.array(dims=['event'], values=(np.floor(tof_vals * 1000.0) + 337).astype(ev_dtype), unit='ns', dtype=ev_dtype)
    elif ev_dtype in ('int64', 'int32'):
        tof_var = sc.array(dims=['event'], values=np.floor(tof_vals).astype(ev_dtype), unit='us', dtype=ev_dtype)
    else:
        tof_var = sc.array(dims=['event'], values=tof_vals.astype(ev_dtype), unit='us', dtype=ev_dtype)
    buf = sc.DataArray(
        sc.array(dims=['event'], values=1.0 + ev_id, variances=0.25 + 0.5 * (ev_id + 1), unit='counts'),
        coords={'tof': tof_var, 'pulse_id': sc.array(dims=['event'], values=7 * ev_id, unit=None, dtype='int64')},
        masks={'event_mask': sc.array(dims=['event'], values=(ev_id % 4 == 1))},
    )
    assert buf.sizes['event'] == nbuf
    bvar = sc.bins(
        data=buf, dim='event',
        begin=sc.array(dims=dims, values=np.array(begin, dtype=np.int64).reshape(shape), unit=None, dtype='int64'),
        end=sc.array(dims=dims, values=np.array(end, dtype=np.int64).reshape(shape), unit=None, dtype='int64'),
    )
    da = sc.DataArray(bvar)
    pdims = _pixel_dims(dims)
    pshape = [s for d, s in zip(dims, shape, strict=True) if d != 'tof']
    npix = int(np.prod(pshape)) if pshape else 1
    for name, var in geometry_coords(case['geometry'], pdims, pshape, npix).items():
        da.coords[name] = var
    da.coords['temperature'] = sc.scalar(291.5, unit='K')
    for d, s in zip(dims, shape, strict=True):
        da.masks['mask_' + d] = sc.array(dims=[d], values=[(i % 2 == 1) for i in range(s)])
        if d != 'tof':
            da.coords['label_' + d] = sc.array(dims=[d], values=[100 + 3 * i for i in range(s)], unit=None, dtype='int64')
    if case['edges'] != 'none':
        nt = shape[dims.index('tof')]
        e_us = np.array([50.0 + 9000.5 * i for i in range(nt + 1)])
        if case['edges'] == 'same':
            da.coords['tof'] = sc.array(dims=['tof'], values=e_us, unit='us')
        else:
            da.coords['tof'] = sc.array(dims=['tof'], values=e_us / 1000.0, unit='ms')
    return da, ids_per_bin


def geometry_coords(kind, pdims, pshape, npix):
    """Per-pixel geometry (all coords that may be needed by any target)."""
    idx = np.arange(npix, dtype=np.float64)

    def per_pixel(values, unit, vector=False):
        values = np.asarray(values)
        if not pdims:
            return sc.vector(values[0], unit=unit) if vector else sc.scalar(float(values[0]), unit=unit)
        if vector:
            return sc.vectors(dims=pdims, values=values.reshape([*pshape, 3]), unit=unit)
        return sc.array(dims=pdims, values=values.reshape(pshape), unit=unit)

    out = {}
    if kind == 'positions':
        out['source_position'] = sc.vector([0.0, 0.0, -10.0], unit='m')
        out['sample_position'] = sc.vector([0.0, 0.01, 0.0], unit='m')
        pos = np.stack([0.3 + 0.2 * idx, 0.1 * idx - 0.05, 1.0 + 0.05 * idx * idx], axis=-1)
        out['position'] = per_pixel(pos, 'm', vector=True)
    else:
        out['L1'] = sc.scalar(10.0, unit='m')
        out['L2'] = per_pixel(1.0 + 0.37 * idx, 'm')
        out['Ltotal'] = per_pixel(11.0 + 0.37 * idx, 'm')
        out['two_theta'] = per_pixel(0.4 + 0.21 * idx, 'rad')
    return out


def add_energy(da, target, pdims, pshape, e_dtype='float64'):
    if target == 'energy_transfer_direct':
        da.coords['incident_energy'] = sc.scalar(25.0, unit='meV', dtype=e_dtype)
    elif target == 'energy_transfer_indirect':
        if pdims:
            npix = int(np.prod(pshape))
            da.coords['final_energy'] = sc.array(dims=pdims, values=(3.0 + 1.5 * np.arange(npix)).reshape(pshape), unit='meV', dtype=e_dtype)
        else:
            da.coords['final_energy'] = sc.scalar(3.0, unit='meV', dtype=e_dtype)


def real_target(target):
    return 'energy_transfer' if target.startswith('energy_transfer') else target


# ---------------------------------------------------------------------------------------
# comparison helpers


def bit_equal(a: np.ndarray, b: np.ndarray) -> bool:
    a, b = np.asarray(a), np.asarray(b)
    if a.dtype != b.dtype or a.shape != b.shape:
        return False
    if a.dtype.kind == 'f':
        na, nb = np.isnan(a), np.isnan(b)
        if not np.array_equal(na, nb):
            return False
        a, b = np.where(na, 0, a), np.where(nb, 0, b)
    return np.array_equal(np.ascontiguousarray(a).view(np.uint8), np.ascontiguousarray(b).view(np.uint8))


def per_bin(var, dims_in_order):
    """Lists of buffer slices of a binned variable, bins in row-major order of ``dims_in_order``."""
    con = var.bins.constituents
    begin = con['begin'].transpose(dims_in_order).values.ravel()
    end = con['end'].transpose(dims_in_order).values.ravel()
    return con['data'], [(int(b), int(e)) for b, e in zip(begin, end, strict=True)]


def gather(var, pdims, pix_index):
    """Repeat the per-pixel values of ``var`` for every event (``pix_index`` = pixel of each event)."""
    if not set(var.dims) & set(pdims):
        return var
    v = var.transpose([d for d in pdims if d in var.dims])
    if list(v.dims) != list(pdims):
        raise AssertionError('geometry coord must span all pixel dims in this harness')
    if v.dtype == sc.DType.vector3:
        flat = v.values.reshape(-1, 3)
        return sc.vectors(dims=['event'], values=flat[pix_index].reshape(-1, 3), unit=v.unit)
    flat = v.values.reshape(-1)
    return sc.array(dims=['event'], values=flat[pix_index], unit=v.unit, dtype=v.dtype)


# ---------------------------------------------------------------------------------------


def run_case(case, rec):
    for target in TARGETS:
        for ev_dtype in EV_DTYPES:
            _one(case, target, ev_dtype, rec)
            if ev_dtype == 'float32' and target.startswith('energy_transfer'):
                # single precision result only when the fixed energy is single precision as well
                _one(case, target, ev_dtype, rec, e_dtype='float32')
            if target.startswith('energy_transfer') and ev_dtype == 'float64':
                _one(case, target, ev_dtype, rec, pattern='between')
            if ev_dtype == 'int64' and target in ('energy_transfer_direct', 'energy_transfer_indirect', 'wavelength'):
                # raw integer clock ticks in ns that are not whole microseconds
                _one(case, target, ev_dtype, rec, tof_unit='ns')
        if target in ('wavelength', 'dspacing', 'Q'):
            # int32 event coordinates (raw detector ticks), where scipp supports the arithmetic
            _one(case, target, 'int32', rec)


def _one(case, target, ev_dtype, rec, e_dtype='float64', pattern='default', tof_unit='us'):
    dims, shape, counts = case['dims'], case['shape'], case['counts']
    pdims = _pixel_dims(dims)
    pshape = [s for d, s in zip(dims, shape, strict=True) if d != 'tof']
    tgt = real_target(target)
    sub = {'target': target, 'event_dtype': ev_dtype, 'energy_dtype': e_dtype, 'tof_pattern': pattern}
    da, ids_per_bin = build_input(case, ev_dtype, tof_unit=tof_unit)
    if tof_unit != 'us':
        rec.cls('event_tof_in_ns')
    if pattern == 'between':
        # place the early events between the smallest and the second smallest per-pixel flight time t0 of the fixed leg
        probe = da.copy(deep=False)
        add_energy(probe, target, pdims, pshape, e_dtype)
        if 'final_energy' not in probe.coords or not pdims:
            return  # t0 is one number for the whole detector: nothing lies "between"
        geo = probe.transform_coords(['L2'], graph={**scn.conversion.graph.beamline.beamline(scatter=True)}) if 'L2' not in probe.coords else probe
        l2 = np.atleast_1d(geo.coords['L2'].to(unit='m').values).ravel()
        ef = np.atleast_1d(probe.coords['final_energy'].to(unit='meV', dtype='float64').values).ravel()
        t0 = np.sort(np.unique(np.round(l2 * 2286.27 / np.sqrt(ef), 3)))  # us; 2286.27 us/m at 1 meV (placement only)
        if len(t0) < 2:
            return
        da, ids_per_bin = build_input(case, ev_dtype, pattern, float(0.5 * (t0[0] + t0[1])))
        rec.cls('early_events_between_pixel_t0s')
    if ev_dtype == 'int32':
        rec.cls('int32_event_coord')
    add_energy(da, target, pdims, pshape, e_dtype)
    rec.states += 1

    # deep snapshot of the input, including the raw buffer (with unreferenced events) and indices
    snap = da.copy(deep=True)
    con = da.bins.constituents
    raw = {
        'begin': con['begin'].values.copy(), 'end': con['end'].values.copy(),
        'values': con['data'].values.copy(), 'variances': con['data'].variances.copy(),
        'tof': con['data'].coords['tof'].values.copy(), 'pulse_id': con['data'].coords['pulse_id'].values.copy(),
        'event_mask': con['data'].masks['event_mask'].values.copy(),
    }

    obj = da if case['container'] == 'dataarray' else sc.Dataset({'events': da})
    _fresh_state()
    res = scn.convert(obj, origin='tof', target=tgt, scatter=True)
    rec.transitions += 1
    rec.cls('container_' + case['container'])
    if case['container'] == 'dataset':
        if not isinstance(res, sc.Dataset) or 'events' not in res:
            rec.viol(SITE, 'container', f'Dataset in, {type(res).__name__} out', **sub)
            return
        res = res['events']
    if res.bins is None:
        rec.viol(SITE, 'not_binned', 'result is not binned', **sub)
        return

    # ---- dense replica ------------------------------------------------------------------
    n_events = sum(counts)
    bin_pix = []  # pixel index of each bin, row-major over dims
    for multi in itertools.product(*[range(s) for s in shape]):
        pi = 0
        for d, i, s in zip(dims, multi, shape, strict=True):
            if d != 'tof':
                pi = pi * s + i
        bin_pix.append(pi)
    pix_index = np.array([bin_pix[b] for b, ids in enumerate(ids_per_bin) for _ in ids], dtype=np.int64)
    in_buf, in_slices = per_bin(da.data, dims)
    ev_tof = np.concatenate([in_buf.coords['tof'].values[b:e] for b, e in in_slices]) if in_slices else np.zeros(0)
    dense = sc.DataArray(
        sc.zeros(dims=['event'], shape=[n_events], unit='counts'),
        coords={'tof': sc.array(dims=['event'], values=ev_tof.astype(in_buf.coords['tof'].values.dtype), unit=in_buf.coords['tof'].unit, dtype=ev_dtype)},
    )
    for name in da.coords:
        if name in ('tof', 'temperature') or name.startswith('label_'):
            continue
        dense.coords[name] = gather(da.coords[name], pdims, pix_index)
    _fresh_state()
    dense_out = scn.convert(dense, origin='tof', target=tgt, scatter=True).coords[tgt]
    rec.transitions += 1
    want = dense_out.values
    if dense_out.dims != ('event',) and dense_out.dims != (tgt,):
        raise AssertionError(f'harness: dense replica has dims {dense_out.dims}')

    # ---- result: per-bin content ----------------------------------------------------------
    out_dims = [tgt if d == 'tof' else d for d in dims]
    if set(res.dims) != set(out_dims) and set(res.dims) != set(dims):
        rec.viol(SITE, 'dims', f'input dims {dims}, result dims {res.dims}', **sub)
        return
    order = out_dims if set(res.dims) == set(out_dims) else dims
    if dict(res.sizes) != dict(zip(order, shape, strict=True)):
        rec.viol(SITE, 'shape', f'input sizes {dict(zip(dims, shape, strict=True))}, result sizes {dict(res.sizes)}', **sub)
        return
    out_buf, out_slices = per_bin(res.data, order)
    if tgt not in out_buf.coords:
        rec.viol(SITE, 'missing_event_coord', f'event coords {list(out_buf.coords)}', **sub)
        return
    got_var = out_buf.coords[tgt]
    lens_in = [e - b for b, e in in_slices]
    lens_out = [e - b for b, e in out_slices]
    rec.validated += 1
    if lens_in != lens_out:
        rec.viol(SITE, 'bin_membership', f'events per bin in {lens_in}, out {lens_out}', **sub)
        return

    def cat_out(arr):
        return np.concatenate([arr[b:e] for b, e in out_slices]) if out_slices else arr[:0]

    def cat_in(arr):
        return np.concatenate([arr[b:e] for b, e in in_slices]) if in_slices else arr[:0]

    got = cat_out(got_var.values)
    rec.observe(got.tobytes(), str(got_var.unit), str(got_var.dtype))
    rec.evals += max(1, n_events)
    if got_var.unit != dense_out.unit:
        rec.viol(SITE, 'wrong_unit', f'event coord unit {got_var.unit}, dense {dense_out.unit}', **sub)
    if got_var.dtype != dense_out.dtype:
        rec.viol(SITE, 'wrong_dtype', f'event coord dtype {got_var.dtype}, dense {dense_out.dtype}', **sub)
    elif not bit_equal(got, want):
        bad = [i for i in range(len(want)) if not bit_equal(got[i:i + 1], want[i:i + 1])]
        rec.viol(SITE, 'event_value', f'{len(bad)} of {len(want)} events differ from the dense kernel; first: event {bad[0]} got {got[bad[0]]!r} dense {want[bad[0]]!r}', **sub)
    else:
        rec.cls('events_bitwise')
        if n_events:
            rec.nontrivial += 1
            rec.cls('nan_events' if np.isnan(want.astype(np.float64)).any() else 'no_nan_events')
            if np.isfinite(want.astype(np.float64)).any():
                rec.cls('finite_events')
        rec.cls(f'dtype_{got_var.dtype}_result')
        if tgt == 'energy_transfer' and got_var.dtype == sc.DType.float32:
            rec.cls('inelastic_float32_result')
    if ev_dtype in ('int64', 'int32'):
        rec.cls('int_event_coord')
        # the dense formula for an integer time stamp is the formula for that number: the same events with their
        # (exactly representable) stamps stored as float64 must get the same values up to rounding
        dense_f = dense.copy(deep=True)
        dense_f.coords['tof'] = dense.coords['tof'].to(dtype='float64')
        _fresh_state()
        want_f = scn.convert(dense_f, origin='tof', target=tgt, scatter=True).coords[tgt].values.astype(np.float64)
        rec.transitions += 1
        g = got.astype(np.float64)
        if g.shape == want_f.shape and len(g):
            nan_g, nan_w = np.isnan(g), np.isnan(want_f)
            fixed = 0.0
            for en in ('incident_energy', 'final_energy'):
                if en in da.coords:
                    fixed = float(np.max(np.abs(da.coords[en].values)))
            fin = ~(nan_g | nan_w)
            tol = 1e-9 * (np.abs(want_f[fin]) + fixed)
            if (nan_g != nan_w).any() or (np.abs(g[fin] - want_f[fin]) > tol).any():
                i = int(np.flatnonzero((nan_g != nan_w) | ~fin | (np.abs(np.where(fin, g - want_f, 0)) > 1e-9 * (np.abs(np.where(fin, want_f, 0)) + fixed)))[0]) if (nan_g != nan_w).any() else int(np.flatnonzero(fin)[np.flatnonzero(np.abs(g[fin] - want_f[fin]) > tol)[0]])
                rec.viol(SITE, 'integer_event_value', f'event {i} with integer coordinate {ev_tof[i]!r} {in_buf.coords["tof"].unit} got {g[i]!r}, the same number stored as float64 gives {want_f[i]!r}', **sub)
            else:
                rec.cls('integer_events_equal_float_events')
        rec.validated += 1

    # ---- data preserved: weights, variances, order, membership, other event coords/masks --------
    rec.validated += 1
    ok = True
    for name, a, b in (
        ('weights', cat_out(out_buf.values), cat_in(in_buf.values)),
        ('variances', cat_out(out_buf.variances) if out_buf.variances is not None else None, cat_in(in_buf.variances)),
        ('event_coord_pulse_id', cat_out(out_buf.coords['pulse_id'].values) if 'pulse_id' in out_buf.coords else None, cat_in(in_buf.coords['pulse_id'].values)),
        ('event_mask', cat_out(out_buf.masks['event_mask'].values) if 'event_mask' in out_buf.masks else None, cat_in(in_buf.masks['event_mask'].values)),
    ):
        if a is None:
            rec.viol(SITE, 'dropped_' + name, f'{name} missing in the result', **sub)
            ok = False
        elif not bit_equal(a, b):
            rec.viol(SITE, 'changed_' + name, f'{name}: in {b.tolist()}, out {a.tolist()} (bins {lens_in})', **sub)
            ok = False
    if out_buf.unit != in_buf.unit:
        rec.viol(SITE, 'changed_weights', f'unit {in_buf.unit} -> {out_buf.unit}', **sub)
        ok = False
    if ok:
        rec.cls('data_preserved')

    # ---- outer masks and unrelated coords ----------------------------------------------------
    rename = {'tof': tgt} if order == out_dims else {}
    ok = True
    for name in da.masks:
        if name not in res.masks:
            rec.viol(SITE, 'dropped_mask', f'mask {name} missing', **sub)
            ok = False
            continue
        w = da.masks[name].rename_dims(rename) if set(da.masks[name].dims) & set(rename) else da.masks[name]
        if not sc.identical(res.masks[name], w):
            rec.viol(SITE, 'changed_mask', f'mask {name}: {res.masks[name].values.tolist()} {res.masks[name].dims} vs {w.values.tolist()} {w.dims}', **sub)
            ok = False
    if ok:
        rec.cls('masks_preserved')
    for name in da.coords:
        if name == 'temperature' or name.startswith('label_'):
            if name not in res.coords or not sc.identical(res.coords[name], da.coords[name]):
                rec.viol(SITE, 'changed_unrelated_coord', f'coord {name} changed or dropped', **sub)

    # ---- bin-edge coordinate converted with the same function ---------------------------------
    if case['edges'] != 'none':
        rec.validated += 1
        dense2 = sc.DataArray(sc.zeros(dims=dims, shape=shape, unit='counts'))
        for name in da.coords:
            if name == 'temperature' or name.startswith('label_'):
                continue
            dense2.coords[name] = da.coords[name]
        _fresh_state()
        want_edges = scn.convert(dense2, origin='tof', target=tgt, scatter=True).coords[tgt]
        rec.transitions += 1
        if tgt not in res.coords:
            rec.viol(SITE, 'edges_missing', f'outer coord {tgt} missing; coords {list(res.coords)}', **sub)
        else:
            ge = res.coords[tgt]
            if ge.unit != want_edges.unit or set(ge.dims) != set(want_edges.dims):
                rec.viol(SITE, 'edges_meta', f'edges {ge.dims} [{ge.unit}] vs dense {want_edges.dims} [{want_edges.unit}]', **sub)
            elif not bit_equal(ge.transpose(want_edges.dims).values, want_edges.values):
                rec.viol(SITE, 'edges_value', f'edges {ge.transpose(want_edges.dims).values.tolist()} vs dense {want_edges.values.tolist()}', **sub)
            else:
                rec.cls('edges_bitwise')
                rec.observe(ge.values.tobytes())
                if case['edges'] == 'other':
                    rec.cls('edges_other_unit')

    # ---- input not modified --------------------------------------------------------------------
    rec.validated += 1
    con = da.bins.constituents
    now = {
        'begin': con['begin'].values, 'end': con['end'].values,
        'values': con['data'].values, 'variances': con['data'].variances,
        'tof': con['data'].coords['tof'].values, 'pulse_id': con['data'].coords['pulse_id'].values,
        'event_mask': con['data'].masks['event_mask'].values,
    }
    changed = [k for k in raw if not bit_equal(raw[k], now[k])]
    if changed or not sc.identical(da, snap) or set(con['data'].coords) != {'tof', 'pulse_id'} or set(da.coords) != set(snap.coords):
        rec.viol(SITE, 'input_modified', f'input changed by the call: {changed or "coords/metadata"}', **sub)
    else:
        rec.cls('input_unchanged')

    # ---- classes -----------------------------------------------------------------------------------
    if n_events == 0:
        rec.cls('all_bins_empty')
    elif 0 in counts:
        rec.cls('some_bin_empty')
    rec.cls('buffer_' + case['buffer'])
    rec.cls('geometry_' + case['geometry'])
    rec.cls('grid_2d' if len(dims) == 2 else 'grid_1d')
    if target == 'energy_transfer_indirect' and pdims:
        rec.cls('per_pixel_final_energy')
