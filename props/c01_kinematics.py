"""C01 - elastic TOF kinematics equal the de Broglie / Bragg definitions.

Shape G.  One case = (kernel, unit per argument, precision mode); inside, the full
Cartesian product of the magnitude alphabets is pushed through the real kernel in four
operand layouts (0-d, 1-d, broadcast pixel x tof, per-pixel) and every element is
compared with the 50-digit definition evaluated on the float values actually passed.
Further case kinds: route agreement / round trips (differential) and graph wiring.
"""
from __future__ import annotations

import itertools
import math
from fractions import Fraction

import numpy as np
import scipp as sc
from scippneutron.conversion import tof as K
from scippneutron.conversion.graph import tof as G

from ref import hp, kin

ID = 'C01'
LEVEL = 'model_checking'
RULE = (
    'grid: every (kernel of the 9 elastic kernels, unit per argument, precision mode f64 / f32 / f32-data-with-f64-operands) '
    'x the full Cartesian product of the per-quantity SI magnitude alphabets x 4 operand layouts; each element is one '
    'configuration; a configuration is non-trivial when it is in the domain of its precision class (ref/kin.io_in_range: inputs, '
    'the input powers the definition needs and the result lie in 1e-30..1e30 in the units used for single precision; always for double) and is '
    'judged against the 50-digit definition; distinct = distinct (kernel, units, mode, layout, value tuple). Route / round-trip '
    'cases: every listed route pair x units x mode over the same magnitude products. Graph cases: every origin x node of '
    '_GRAPH_DYNAMICS_BY_ORIGIN that is an elastic kernel, and every elastic_* / kinematic sub-graph, x 2 unit sets x 2 dtypes. '
    'History cases: per (kernel, units) the module is reloaded and the grid is run in each order of precision modes (quick: 3 '
    'two-mode orders at 2 magnitudes; thorough: all permutations of all modes at the full alphabets), every element judged as in the grid.'
)
ASSUMPTIONS = [
    'h, m_n and eV->J are the float values scipp exposes, promoted exactly (ref/hp.py)',
    'references are evaluated on the float (float32) values the kernel received, not on the intended decimal number',
    'reading chosen: a call in which any floating operand is float32 is judged at the single-precision bound 1e-5, '
    'all-double calls at 1e-11 (the statement does not say which bound applies to mixed calls)',
    'single precision: configurations whose inputs, needed input powers or result (in the units used) leave 1e-30..1e30 are '
    'out of domain (counted, not judged); constants folded by the implementation are not part of the domain',
    'scattering angles within (0, pi]; float32(pi) exceeds pi by 9e-8, the reference uses the same float',
]
BOUND = {
    'quick': '9 kernels x all unit combinations x 3 precision modes x 4 layouts at the SI magnitudes {1e-9, 1e-3, 0.37, 1e3, 1e9} per '
    'quantity (+ anchors 1.8 angstrom, 1 / 25.3 meV, 1 eV, 1/angstrom) x 8 scattering angles; 9 route / round-trip families x all units x '
    '2 modes; all graph nodes and sub-graph builders x 2 unit sets x 2 dtypes',
    'thorough': 'grid: 9 kernels x wide unit alphabet (time ns/us/ms/s; length mm/m/km/angstrom/um/nm/cm; wavelength '
    'angstrom/nm/m/mm/um/pm; energy ueV/meV/eV/keV/J; Q 1/angstrom,1/nm,1/m,1/um; rad/deg) x 3 precision modes x 4 layouts x every '
    'decade 1e-9..1e9 (19 values) + 0.37 (+ anchors) per quantity x 34 scattering angles (every decade 1e-15..1e-3 above 0 and '
    'below pi, pi/2 +- 1e-9, 0.1, 1, 2, 3, pi); routes / round trips: 9 families x the same units and alphabets x 3 modes (f64, f32, '
    'f32 data with f64 operands); history: every (kernel, units) x every order of all precision modes (6 orders, 2 for one-argument '
    'kernels) after a module reload, same alphabets, vectorised layouts (1-d, 2-d / broadcast, per-pixel); graph and layout cases as quick '
    '(+ 2 more unit-dtype variants)',
}
REQUIRED_CLASSES = [
    'history_f32_then_f64', 'history_f64_then_f32', 'double_ok', 'single_ok', 'out_of_domain_single', 'layout_0d', 'layout_1d', 'layout_bcast', 'layout_perpixel', 'layout_2d',
    'route_agree', 'roundtrip_ok', 'graph_bitwise', 'subgraph_bitwise', 'unit_angstrom', 'unit_meV', 'unit_inverse_wavelength',
]

TOL = {'double': 1e-11, 'single': 1e-5}

TIME_UNITS = ('ns', 'us', 'ms', 's')
LEN_UNITS = ('mm', 'm', 'km', 'angstrom')
WAV_UNITS = ('angstrom', 'nm', 'm', 'mm')
Q_UNITS = ('1/angstrom', '1/nm', '1/m')
UNITS_OF_KIND = {'time': TIME_UNITS, 'length': LEN_UNITS, 'energy': kin.ENERGY_UNITS, 'angle': kin.ANGLE_UNITS, 'inv_length': Q_UNITS}
ARG_UNITS = {'wavelength': WAV_UNITS}  # by argument name, overrides the kind
# thorough tier: wider unit alphabets (every SI-prefixed unit between the stated ends)
UNITS_OF_KIND_WIDE = {
    'time': TIME_UNITS, 'length': ('mm', 'm', 'km', 'angstrom', 'um', 'nm', 'cm'), 'energy': kin.ENERGY_UNITS_WIDE,
    'angle': kin.ANGLE_UNITS, 'inv_length': ('1/angstrom', '1/nm', '1/m', '1/um'),
}
ARG_UNITS_WIDE = {'wavelength': ('angstrom', 'nm', 'm', 'mm', 'um', 'pm')}


def _units_for(name, kind, tier):
    if tier == 'thorough':
        return ARG_UNITS_WIDE.get(name, UNITS_OF_KIND_WIDE[kind])
    return ARG_UNITS.get(name, UNITS_OF_KIND[kind])

MAG_QUICK = ('1e-9', '1e-3', '0.37', '1e3', '1e9')
MAG_DECADES = tuple(sorted({*(f'1e{k}' for k in range(-9, 10)), '0.37'}, key=Fraction))  # every decade of the stated range
ANGLES8 = ('tiny', 'small', 'tenth', 'below_right', 'right', 'two', 'below_pi', 'pi')
ANGLE_RAD = {
    'tiny': 1e-12, 'small': 1e-6, 'tenth': 0.1, 'below_right': math.pi / 2 - 1e-9, 'right': math.pi / 2,
    'two': 2.0, 'below_pi': math.pi - 1e-9, 'pi': math.pi,
}
ANGLE_DEG = {
    'tiny': 1e-12 * 180 / math.pi, 'small': 1e-6 * 180 / math.pi, 'tenth': 0.1 * 180 / math.pi, 'below_right': 90.0 - 1e-9 * 180 / math.pi,
    'right': 90.0, 'two': 2.0 * 180 / math.pi, 'below_pi': 180.0 - 1e-9 * 180 / math.pi, 'pi': 180.0,
}
# thorough tier: every decade 1e-15 .. 1e-3 above 0 and below pi, around pi/2, and the interior (34 angles)
_D = 180 / math.pi
ANGLES_DEEP_RAD = (
    [10.0**-k for k in range(15, 2, -1)]
    + [0.1, 1.0, math.pi / 2 - 1e-9, math.pi / 2, math.pi / 2 + 1e-9, 2.0, 3.0]
    + [math.pi - 10.0**-k for k in range(3, 16)]
    + [math.pi]
)
ANGLES_DEEP_DEG = (
    [10.0**-k * _D for k in range(15, 2, -1)]
    + [0.1 * _D, _D, 90.0 - 1e-9 * _D, 90.0, 90.0 + 1e-9 * _D, 2.0 * _D, 3.0 * _D]
    + [180.0 - 10.0**-k * _D for k in range(3, 16)]
    + [180.0]
)

KERNEL_NAMES = tuple(kin.KERNELS)
FUNCS = {name: getattr(K, name) for name in KERNEL_NAMES}
SITE = {name: f'conversion.tof.{name}' for name in KERNEL_NAMES}


# ---------------------------------------------------------------------------------------
# alphabets


def _si_magnitudes(kind, tier):
    """List of SI magnitudes (mpf) for a quantity kind."""
    mags = MAG_DECADES if tier == 'thorough' else ('1e-3', '0.37') if tier == 'history' else MAG_QUICK
    out = [hp.F(Fraction(m)) for m in mags]
    if kind == 'energy':
        out += [hp.F(Fraction('25.3')) * hp.MEV, hp.MEV, hp.EV]
    return out


def _values_for(arg, kind, unit, tier):
    """Float test values of one argument expressed in ``unit``."""
    if kind == 'angle':
        if tier == 'thorough':
            return [float(x) for x in (ANGLES_DEEP_RAD if unit == 'rad' else ANGLES_DEEP_DEG)]
        names = ANGLES8
        table = ANGLE_RAD if unit == 'rad' else ANGLE_DEG
        return [float(table[n]) for n in names]
    mags = _si_magnitudes(kind, tier)
    if arg == 'wavelength':
        mags = [*mags, hp.F(Fraction('1.8e-10'))]
    if kind == 'inv_length':
        mags = [*mags, hp.F(10**10)]
    return [float(kin.from_si(kind, m, unit)) for m in mags]


def _unit_choices(kernel, tier='quick'):
    spec = kin.KERNELS[kernel]
    per_arg = [_units_for(name, kind, tier) for name, kind in spec['args']]
    names = [name for name, _ in spec['args']]
    return [dict(zip(names, combo, strict=True)) for combo in itertools.product(*per_arg)]


ROUTES = {
    # name: (start args [(name, kind)], description)
    'tof_wavelength_energy': [('tof', 'time'), ('Ltotal', 'length')],
    'tof_wavelength_dspacing': [('tof', 'time'), ('Ltotal', 'length'), ('two_theta', 'angle')],
    'energy_wavelength_dspacing': [('energy', 'energy'), ('two_theta', 'angle')],
    'tof_Q_times_d': [('tof', 'time'), ('Ltotal', 'length'), ('two_theta', 'angle')],
    'wavelength_Q_times_d': [('wavelength', 'length'), ('two_theta', 'angle')],
    'rt_wavelength_energy': [('wavelength', 'length')],
    'rt_energy_wavelength': [('energy', 'energy')],
    'rt_wavelength_Q': [('wavelength', 'length'), ('two_theta', 'angle')],
    'rt_Q_wavelength': [('Q', 'inv_length'), ('two_theta', 'angle')],
}

EXPECTED_WIRING = {
    'energy': {'dspacing': 'dspacing_from_energy', 'wavelength': 'wavelength_from_energy'},
    'tof': {'dspacing': 'dspacing_from_tof', 'energy': 'energy_from_tof', 'Q': 'Q_from_wavelength', 'wavelength': 'wavelength_from_tof'},
    'Q': {'wavelength': 'wavelength_from_Q'},
    'wavelength': {'dspacing': 'dspacing_from_wavelength', 'energy': 'energy_from_wavelength', 'Q': 'Q_from_wavelength'},
}
# documented sub-graph builders: name -> {start: nodes that must be present (besides being a subset of elastic(start))}
SUBGRAPHS = {
    'kinematic': {'tof': ['wavelength', 'energy']},
    'elastic_dspacing': {'energy': ['dspacing'], 'tof': ['dspacing'], 'wavelength': ['dspacing']},
    'elastic_energy': {'tof': ['energy'], 'wavelength': ['energy']},
    'elastic_Q': {'tof': ['Q', 'wavelength'], 'wavelength': ['Q']},
    'elastic_wavelength': {'energy': ['wavelength'], 'tof': ['wavelength'], 'Q': ['wavelength']},
}
GRAPH_UNITS = {
    'base': {'tof': 'us', 'Ltotal': 'm', 'two_theta': 'rad', 'energy': 'meV', 'wavelength': 'angstrom', 'Q': '1/angstrom'},
    'alt': {'tof': 'ms', 'Ltotal': 'mm', 'two_theta': 'deg', 'energy': 'J', 'wavelength': 'nm', 'Q': '1/nm'},
}


def cases(tier):
    out = []
    for kernel in KERNEL_NAMES:
        nargs = len(kin.KERNELS[kernel]['args'])
        modes = ('f64', 'f32', 'f32data') if nargs > 1 else ('f64', 'f32')
        for units in _unit_choices(kernel, tier):
            for mode in modes:
                out.append({'kind': 'grid', 'kernel': kernel, 'units': units, 'mode': mode, 'tier': tier})
            # whole numbers held in integer variables (counts of ns, mm, degrees ...): the same physical inputs, so the
            # same definitions, judged at the double-precision bound ('intsec': only the non-data operands are integers)
            for mode in (('int64', 'int32', 'intsec') if nargs > 1 else ('int64', 'int32')):
                out.append({'kind': 'grid', 'kernel': kernel, 'units': units, 'mode': mode, 'tier': tier})
    for route, args in ROUTES.items():
        per_arg = [_units_for(name, kind, tier) for name, kind in args]
        for combo in itertools.product(*per_arg):
            for mode in ('f64', 'f32', 'f32data') if tier == 'thorough' and len(args) > 1 else ('f64', 'f32'):
                out.append({'kind': 'route', 'route': route, 'units': dict(zip([a for a, _ in args], combo, strict=True)), 'mode': mode, 'tier': tier})
    for origin, nodes in EXPECTED_WIRING.items():
        for node in nodes:
            for uset in GRAPH_UNITS:
                for mode in ('f64', 'f32'):
                    out.append({'kind': 'graph', 'origin': origin, 'node': node, 'unit_set': uset, 'mode': mode})
    for builder, starts in SUBGRAPHS.items():
        for start in starts:
            for uset in GRAPH_UNITS:
                for mode in ('f64', 'f32'):
                    out.append({'kind': 'subgraph', 'builder': builder, 'start': start, 'unit_set': uset, 'mode': mode})
    out.append({'kind': 'graph_table'})
    # call-history dimension: the same kernel and units called in the other precision first (module state reset by
    # reloading the kernel module), so a result that depends on an earlier call - e.g. a converted constant cached at the
    # first caller's precision - is judged at its own precision bound.
    # thorough: every order of all precision modes x the wide unit alphabet x the decade magnitudes (vectorised layouts).
    for kernel in KERNEL_NAMES:
        for units in _unit_choices(kernel, tier):
            if tier == 'thorough':
                out.append({'kind': 'history', 'kernel': kernel, 'units': units, 'deep': True})
            else:
                out.append({'kind': 'history', 'kernel': kernel, 'units': units})
    return out


# ---------------------------------------------------------------------------------------
# helpers


def _np_dtype(mode, is_data):
    if mode == 'f64':
        return 'float64'
    if mode == 'f32':
        return 'float32'
    if mode == 'f32data':
        return 'float32' if is_data else 'float64'
    if mode in ('int64', 'int32'):
        return mode
    if mode == 'intsec':
        return 'float64' if is_data else 'int64'
    raise ValueError(mode)


INT_MODES = ('int64', 'int32', 'intsec')


def _precision(mode):
    return 'double' if mode == 'f64' or mode in INT_MODES else 'single'


def _int_values_for(arg, kind, unit, dtype='int64'):
    """Whole-number test values of one argument in ``unit`` that lie in the stated physical range (1e-9 .. 1e9 SI)."""
    if kind == 'angle':
        return [1.0, 2.0, 3.0] if unit == 'rad' else [1.0, 30.0, 60.0, 90.0, 120.0, 179.0, 180.0]
    f = kin.factor(kind, unit)
    lo, hi = hp.F(Fraction('1e-9')), hp.F(Fraction('1e9'))
    if kind == 'energy':  # the stated range is in SI (J); keep to energies a neutron instrument sees as well
        lo, hi = hp.F(Fraction('1e-9')) * hp.MEV, hp.F(10**6) * hp.EV
    top = np.iinfo(dtype).max
    return [float(v) for v in (1, 2, 7, 25, 1000, 10**6, 2 * 10**9, 4 * 10**9, 10**12, 10**15) if v <= top and lo <= v * f <= hi]


def _received(values, dtype):
    """The float64 view of what a variable of ``dtype`` built from ``values`` holds."""
    return np.asarray(values, dtype=dtype).astype('float64')


def _var(dims, shape, flat, unit, dtype):
    arr = np.asarray(flat, dtype=dtype).reshape(shape)
    if not dims:
        return sc.scalar(arr[()], unit=unit, dtype=dtype)
    return sc.array(dims=list(dims), values=arr, unit=unit, dtype=dtype)


class _Judge:
    """Compares kernel output elements with the cached 50-digit reference."""

    def __init__(self, rec, kernel, units, mode, cache=None):
        self.rec, self.kernel, self.units, self.mode = rec, kernel, units, mode
        self.prec = _precision(mode)
        self.tol = TOL[self.prec]
        self.names = [n for n, _ in kin.KERNELS[kernel]['args']]
        self.cache = {} if cache is None else cache  # may be shared between runs of the same (kernel, units)
        self.worst = 0.0

    def ref(self, vals):
        key = (self.prec, *vals)
        hit = self.cache.get(key)
        if hit is None:
            values = dict(zip(self.names, vals, strict=True))
            ok = True if self.prec == 'double' else kin.io_in_range(self.kernel, values, self.units)
            want = kin.reference(self.kernel, values, self.units)
            hit = (ok, want)
            self.cache[key] = hit
        return hit

    def element(self, layout, vals, got):
        rec = self.rec
        rec.states += 1
        ok, want = self.ref(vals)
        if not ok:
            rec.cls('out_of_domain_single')
            return
        rec.nontrivial += 1
        rec.evals += 1
        rec.validated += 1
        err = hp.rel_err(float(got), want)
        rec.observe(float(got))
        if err > self.worst:
            self.worst = err
        if not err < self.tol:
            kind = 'rel_error' if math.isfinite(err) else 'nonfinite'
            rec.viol(
                SITE[self.kernel], kind,
                f'{self.kernel} {dict(zip(self.names, vals, strict=True))} units {self.units} mode {self.mode} layout {layout}: got {float(got)!r}, '
                f'definition {mpf_str(want)}, relative error {err:.3e} >= {self.tol:g}',
                values=list(vals), units=self.units, mode=self.mode, layout=layout, got=float(got), rel=err,
            )
        else:
            rec.cls('double_ok' if self.prec == 'double' else 'single_ok')


def mpf_str(x):
    return hp.mpmath.nstr(x, 20)


def _check_meta(rec, kernel, units, mode, layout, res, want_dims):
    """unit / dtype / dims of one result; returns False if values cannot be judged."""
    okind, ounit = kin.out_unit(kernel, units)
    good = True
    if res.unit != sc.Unit(ounit):
        rec.viol(SITE[kernel], 'wrong_unit', f'{kernel} units {units} mode {mode} layout {layout}: result unit {res.unit!r}, documented {ounit}', units=units, mode=mode, layout=layout, got_unit=str(res.unit))
        good = False
    else:
        rec.cls({'angstrom': 'unit_angstrom', 'meV': 'unit_meV'}.get(ounit, 'unit_inverse_wavelength'))
    want_dtype = 'float64' if mode == 'f64' or mode in INT_MODES else 'float32'
    if str(res.dtype) != want_dtype:
        rec.viol(SITE[kernel], 'wrong_dtype', f'{kernel} units {units} mode {mode} layout {layout}: result dtype {res.dtype}, expected {want_dtype}', units=units, mode=mode, layout=layout, got_dtype=str(res.dtype))
    if dict(res.sizes) != dict(want_dims) or set(res.dims) != set(want_dims):
        rec.viol(SITE[kernel], 'wrong_dims', f'{kernel} layout {layout}: result sizes {dict(res.sizes)}, expected broadcast {dict(want_dims)}', units=units, mode=mode, layout=layout)
        good = False
    rec.evals += 1
    return good


# ---------------------------------------------------------------------------------------
# grid cases


def _run_grid(case, rec, layouts=('0d', '1d', '2d', 'bcast', 'perpixel'), cache=None):
    kernel, units, mode, tier = case['kernel'], case['units'], case['mode'], case['tier']
    spec = kin.KERNELS[kernel]
    fn = FUNCS[kernel]
    names = [n for n, _ in spec['args']]
    dts = [_np_dtype(mode, i == 0) for i in range(len(names))]
    alph = [_int_values_for(n, k, units[n], dts[i]) if np.dtype(dts[i]).kind == 'i' else _values_for(n, k, units[n], 'quick' if mode in INT_MODES else tier) for i, (n, k) in enumerate(spec['args'])]
    if any(len(a) == 0 for a in alph):
        rec.cls('no_whole_number_in_range')  # e.g. a wavelength counted in metres
        return
    if mode in INT_MODES:
        rec.cls('integer_operands')
    recv = [_received(a, d) for a, d in zip(alph, dts, strict=True)]  # what the kernel sees, per argument alphabet
    judge = _Judge(rec, kernel, units, mode, cache)
    idx_grid = list(itertools.product(*[range(len(a)) for a in alph]))

    def vals_at(idx):
        return [float(recv[k][i]) for k, i in enumerate(idx)]

    # layout 0d: one scalar call per configuration
    for idx in idx_grid if '0d' in layouts else ():
        kw = {n: _var((), (), [alph[k][i]], units[n], dts[k]) for k, (n, i) in enumerate(zip(names, idx, strict=True))}
        res = fn(**kw)
        rec.transitions += 1
        if _check_meta(rec, kernel, units, mode, '0d', res, {}):
            judge.element('0d', vals_at(idx), res.value)
    if '0d' in layouts:
        rec.cls('layout_0d')

    # layout 1d: zipped product along one dim
    n = len(idx_grid)
    if '1d' in layouts:
        kw = {nm: _var(('x',), (n,), [alph[k][idx[k]] for idx in idx_grid], units[nm], dts[k]) for k, nm in enumerate(names)}
        res = fn(**kw)
        rec.transitions += 1
        if _check_meta(rec, kernel, units, mode, '1d', res, {'x': n}):
            got = res.values
            for j, idx in enumerate(idx_grid):
                judge.element('1d', vals_at(idx), got[j])
        rec.cls('layout_1d')

    if len(names) == 1 and '2d' not in layouts:
        pass
    elif len(names) == 1:
        # layout 2d: (pixel, tof) array holding the alphabet and its reverse
        m = len(alph[0])
        flat = list(alph[0]) + list(reversed(alph[0]))
        res = fn(**{names[0]: _var(('pixel', 'tof'), (2, m), flat, units[names[0]], dts[0])})
        rec.transitions += 1
        if _check_meta(rec, kernel, units, mode, '2d', res, {'pixel': 2, 'tof': m}):
            got = res.transpose(['pixel', 'tof']).values
            rflat = _received(flat, dts[0])
            for p in range(2):
                for t in range(m):
                    judge.element('2d', [float(rflat[p * m + t])], got[p, t])
        rec.cls('layout_2d')
    else:
        # layout bcast: data operand along 'tof', all other operands zipped along 'pixel'
        sec_grid = list(itertools.product(*[range(len(a)) for a in alph[1:]]))
        m, p = len(alph[0]), len(sec_grid)
        kw = {names[0]: _var(('tof',), (m,), alph[0], units[names[0]], dts[0])}
        for k, nm in enumerate(names[1:], start=1):
            kw[nm] = _var(('pixel',), (p,), [alph[k][s[k - 1]] for s in sec_grid], units[nm], dts[k])
        res = fn(**kw)
        rec.transitions += 1
        if _check_meta(rec, kernel, units, mode, 'bcast', res, {'pixel': p, 'tof': m}):
            got = res.transpose(['pixel', 'tof']).values
            for pi, s in enumerate(sec_grid):
                for ti in range(m):
                    judge.element('bcast', vals_at((ti, *s)), got[pi, ti])
        rec.cls('layout_bcast')
        if 'perpixel' not in layouts:
            rec.observe(judge.worst)
            return
        # layout perpixel: dense 2-d data operand, 1-d per-pixel secondaries
        data2d = [alph[0][(ti + pi) % m] for pi in range(p) for ti in range(m)]
        kw[names[0]] = _var(('pixel', 'tof'), (p, m), data2d, units[names[0]], dts[0])
        res = fn(**kw)
        rec.transitions += 1
        if _check_meta(rec, kernel, units, mode, 'perpixel', res, {'pixel': p, 'tof': m}):
            got = res.transpose(['pixel', 'tof']).values
            for pi, s in enumerate(sec_grid):
                for ti in range(m):
                    judge.element('perpixel', vals_at(((ti + pi) % m, *s)), got[pi, ti])
        rec.cls('layout_perpixel')
    rec.observe(judge.worst)


# ---------------------------------------------------------------------------------------
# routes and round trips (differential; no hand-written expected value)


def _route_compute(route, kw):
    """Returns (a, b, kind, stages) - two Variables that must agree, or for 'const' kinds a and the constant."""
    if route == 'tof_wavelength_energy':
        lam = K.wavelength_from_tof(tof=kw['tof'], Ltotal=kw['Ltotal'])
        return K.energy_from_wavelength(wavelength=lam), K.energy_from_tof(tof=kw['tof'], Ltotal=kw['Ltotal']), [('wavelength_from_tof', kw), ('energy_from_wavelength', {'wavelength': lam}), ('energy_from_tof', kw)]
    if route == 'tof_wavelength_dspacing':
        tl = {'tof': kw['tof'], 'Ltotal': kw['Ltotal']}
        lam = K.wavelength_from_tof(**tl)
        return (
            K.dspacing_from_wavelength(wavelength=lam, two_theta=kw['two_theta']), K.dspacing_from_tof(**kw),
            [('wavelength_from_tof', tl), ('dspacing_from_wavelength', {'wavelength': lam, 'two_theta': kw['two_theta']}), ('dspacing_from_tof', kw)],
        )
    if route == 'energy_wavelength_dspacing':
        lam = K.wavelength_from_energy(energy=kw['energy'])
        return (
            K.dspacing_from_wavelength(wavelength=lam, two_theta=kw['two_theta']), K.dspacing_from_energy(**kw),
            [('wavelength_from_energy', {'energy': kw['energy']}), ('dspacing_from_wavelength', {'wavelength': lam, 'two_theta': kw['two_theta']}), ('dspacing_from_energy', kw)],
        )
    if route == 'tof_Q_times_d':
        tl = {'tof': kw['tof'], 'Ltotal': kw['Ltotal']}
        lam = K.wavelength_from_tof(**tl)
        q = K.Q_from_wavelength(wavelength=lam, two_theta=kw['two_theta'])
        d = K.dspacing_from_tof(**kw)
        return (q * d).to(unit='dimensionless'), None, [('wavelength_from_tof', tl), ('Q_from_wavelength', {'wavelength': lam, 'two_theta': kw['two_theta']}), ('dspacing_from_tof', kw)]
    if route == 'wavelength_Q_times_d':
        q = K.Q_from_wavelength(**kw)
        d = K.dspacing_from_wavelength(**kw)
        return (q * d).to(unit='dimensionless'), None, [('Q_from_wavelength', kw), ('dspacing_from_wavelength', kw)]
    if route == 'rt_wavelength_energy':
        e = K.energy_from_wavelength(**kw)
        return K.wavelength_from_energy(energy=e), kw['wavelength'], [('energy_from_wavelength', kw), ('wavelength_from_energy', {'energy': e})]
    if route == 'rt_energy_wavelength':
        lam = K.wavelength_from_energy(**kw)
        return K.energy_from_wavelength(wavelength=lam), kw['energy'], [('wavelength_from_energy', kw), ('energy_from_wavelength', {'wavelength': lam})]
    if route == 'rt_wavelength_Q':
        q = K.Q_from_wavelength(**kw)
        return K.wavelength_from_Q(Q=q, two_theta=kw['two_theta']), kw['wavelength'], [('Q_from_wavelength', kw), ('wavelength_from_Q', {'Q': q, 'two_theta': kw['two_theta']})]
    if route == 'rt_Q_wavelength':
        lam = K.wavelength_from_Q(**kw)
        return K.Q_from_wavelength(wavelength=lam, two_theta=kw['two_theta']), kw['Q'], [('wavelength_from_Q', kw), ('Q_from_wavelength', {'wavelength': lam, 'two_theta': kw['two_theta']})]
    raise ValueError(route)


def _unit_name_of(var, kernel_arg_kind):
    """Name in the ref tables of a Variable's unit (for intermediates produced by kernels)."""
    tables = {'length': kin.LENGTH, 'energy': {u: None for u in kin.ENERGY_UNITS_WIDE}, 'inv_length': kin.INV_LENGTH, 'time': kin.TIME, 'angle': {'rad': None, 'deg': None}}
    for name in tables[kernel_arg_kind]:
        if var.unit == sc.Unit(name):
            return name
    raise KeyError(f'{var.unit!r} is not a known {kernel_arg_kind} unit')


def _factor_to(var, kind, target_unit):
    """mpf factor converting var's unit to target_unit."""
    return kin.factor(kind, _unit_name_of(var, kind)) / kin.factor(kind, target_unit)


def _run_route(case, rec):
    route, units, mode, tier = case['route'], case['units'], case['mode'], case['tier']
    args = ROUTES[route]
    names = [n for n, _ in args]
    dt = 'float64' if mode == 'f64' else 'float32'  # dtype of the data operand = contract dtype of every result on the route
    prec = _precision(mode)
    tol = 4 * TOL[prec]
    alph = [_values_for(n, k, units[n], tier) for n, k in args]
    grid = list(itertools.product(*[range(len(a)) for a in alph]))
    n = len(grid)
    kw = {nm: _var(('x',), (n,), [alph[k][idx[k]] for idx in grid], units[nm], _np_dtype(mode, k == 0)) for k, nm in enumerate(names)}
    a, b, stages = _route_compute(route, kw)
    rec.transitions += len(stages)
    site = f'conversion.tof:{route}'
    # domain of every stage (single precision only), on the values each stage actually received
    in_dom = np.ones(n, dtype=bool)
    if prec == 'single':
        for kernel, skw in stages:
            sspec = kin.KERNELS[kernel]
            try:
                sunits = {nm: _unit_name_of(skw[nm], kd) for nm, kd in sspec['args']}
            except KeyError as e:
                rec.viol(site, 'wrong_unit', f'{route} units {units} mode {mode}: intermediate fed to {kernel}: {e}', units=units, mode=mode)
                return
            cols = {nm: np.broadcast_to(skw[nm].values.astype('float64'), (n,)) for nm, _ in sspec['args']}
            for j in range(n):
                if in_dom[j] and not kin.io_in_range(kernel, {nm: float(cols[nm][j]) for nm in cols}, sunits):
                    in_dom[j] = False
    if str(a.dtype) != dt:
        rec.viol(site, 'wrong_dtype', f'{route} units {units} mode {mode}: result dtype {a.dtype}, expected {dt}', units=units, mode=mode)
    av = a.values.astype('float64')
    if b is None:  # Q * d = 2 pi
        if a.unit != sc.units.one:
            rec.viol(site, 'wrong_unit', f'{route}: Q*d has unit {a.unit!r}, expected dimensionless', units=units, mode=mode)
            return
        want = [2 * hp.PI] * n
        label = 'roundtrip_ok'
    else:
        kind = {'tof_wavelength_energy': 'energy', 'rt_energy_wavelength': 'energy', 'rt_Q_wavelength': 'inv_length'}.get(route, 'length')
        try:
            f = _factor_to(b, kind, _unit_name_of(a, kind))
        except KeyError as e:
            rec.viol(site, 'wrong_unit', f'{route}: {e}', units=units, mode=mode)
            return
        bv = b.values.astype('float64')
        want = [hp.F(float(x)) * f for x in bv]
        label = 'roundtrip_ok' if route.startswith('rt_') else 'route_agree'
    worst = 0.0
    for j in range(n):
        rec.states += 1
        if not in_dom[j] or (b is not None and not math.isfinite(float(want[j]))):
            rec.cls('out_of_domain_single')
            continue
        rec.nontrivial += 1
        rec.evals += 1
        rec.validated += 1
        err = hp.rel_err(float(av[j]), want[j])
        worst = max(worst, err)
        rec.observe(float(av[j]))
        if not err < tol:
            vals = {nm: float(kw[nm].values[j]) for nm in names}
            rec.viol(
                site, 'route_disagreement' if label == 'route_agree' else 'roundtrip_error',
                f'{route} {vals} units {units} mode {mode}: {float(av[j])!r} vs {mpf_str(want[j])}, relative difference {err:.3e} >= {tol:g}',
                values=vals, units=units, mode=mode, rel=err,
            )
        else:
            rec.cls(label)
    rec.observe(worst)


# ---------------------------------------------------------------------------------------
# graph wiring


def _graph_inputs(uset, mode):
    u = GRAPH_UNITS[uset]
    dt = 'float64' if mode == 'f64' else 'float32'
    base = {  # SI-ish physical points: 3 tof x 2 pixels
        'tof': [[1.1e-3, 2.7e-3, 9.9e-3], [0.4e-3, 3.3e-3, 7.1e-3]],
        'Ltotal': [11.3, 27.9],
        'two_theta': [0.31, 2.2],
        'energy': [[1.7e-21, 4.1e-21, 9.2e-22], [3.3e-21, 0.8e-21, 6.0e-21]],
        'wavelength': [[1.1e-10, 1.8e-10, 6.2e-10], [0.7e-10, 2.9e-10, 4.4e-10]],
        'Q': [[1.1e10, 2.3e10, 0.4e10], [3.1e10, 0.9e10, 5.5e10]],
    }
    kinds = {'tof': 'time', 'Ltotal': 'length', 'two_theta': 'angle', 'energy': 'energy', 'wavelength': 'length', 'Q': 'inv_length'}
    out = {}
    for name, vals in base.items():
        arr = np.array(vals, dtype='float64')
        conv = np.vectorize(lambda x, name=name: float(kin.from_si(kinds[name], hp.F(float(x)), u[name])))(arr)
        dims = ['pixel', 'tof'] if arr.ndim == 2 else ['pixel']
        out[name] = sc.array(dims=dims, values=conv.astype(dt), unit=u[name], dtype=dt)
    return out


def _direct(kernel_name, coords):
    """Apply the documented kernel directly, deriving wavelength from tof first where needed."""
    spec = kin.KERNELS[kernel_name]
    kw = {}
    for nm, _ in spec['args']:
        if nm not in coords:
            raise KeyError(nm)
        kw[nm] = coords[nm]
    return FUNCS[kernel_name](**kw)


def _transform(origin, graph, target, inputs):
    needed = {'tof': ['tof', 'Ltotal', 'two_theta'], 'energy': ['energy', 'two_theta'], 'wavelength': ['wavelength', 'two_theta'], 'Q': ['Q', 'two_theta']}[origin]
    da = sc.DataArray(sc.ones(dims=['pixel', 'tof'], shape=[2, 3]), coords={k: inputs[k] for k in needed})
    res = da.transform_coords(target, graph=graph, keep_intermediate=True, keep_inputs=True, rename_dims=False)
    return res.coords[target]


def _expected_node(origin, node, inputs):
    coords = dict(inputs)
    if origin == 'tof' and node == 'Q':
        coords = {**coords, 'wavelength': K.wavelength_from_tof(tof=inputs['tof'], Ltotal=inputs['Ltotal'])}
    return _direct(EXPECTED_WIRING[origin][node], coords)


def _same_bits(a, b):
    return a.unit == b.unit and a.dtype == b.dtype and dict(a.sizes) == dict(b.sizes) and np.array_equal(a.transpose(list(b.dims)).values, b.values, equal_nan=True)


def _customised_node(two_theta):
    return two_theta * 0.0


def _run_graph(case, rec):
    origin, node = case['origin'], case['node']
    inputs = _graph_inputs(case['unit_set'], case['mode'])
    got = _transform(origin, G.elastic(origin), node, inputs)
    want = _expected_node(origin, node, inputs)
    rec.transitions += 1
    rec.evals += 1
    rec.validated += 1
    rec.nontrivial += 1
    rec.observe(got.values.tobytes().hex())
    # the top-level conversion takes the same route, also after a graph reported for the same arguments (which belongs
    # to the caller) has been customised
    import scippneutron as scn

    needed = {'tof': ['tof', 'Ltotal', 'two_theta'], 'energy': ['energy', 'two_theta'], 'wavelength': ['wavelength', 'two_theta'], 'Q': ['Q', 'two_theta']}[origin]
    da = sc.DataArray(sc.ones(dims=['pixel', 'tof'], shape=[2, 3]), coords={k: inputs[k] for k in needed})
    for attempt in ('first', 'after_customising_a_reported_graph'):
        rec.transitions += 1
        via = scn.convert(da, origin=origin, target=node, scatter=True).coords[node]
        rec.validated += 1
        if via.unit != want.unit or via.dtype != want.dtype or np.asarray(via.values).tobytes() != np.asarray(want.transpose(['pixel', 'tof'] if want.ndim == 2 else want.dims).values).tobytes():
            rec.viol('core.convert', 'route_differs_from_kernel', f"convert({origin} -> {node}) ({attempt}) gives {via.values.ravel()[:3]} [{via.unit}]; the kernel gives {want.values.ravel()[:3]} [{want.unit}]", origin=origin, node=node, attempt=attempt)
            break
        reported = scn.deduce_conversion_graph(da, origin=origin, target=node, scatter=True)
        for k in list(reported):
            reported[k] = _customised_node
    else:
        rec.cls('convert_route_bitwise')
    if _same_bits(got, want):
        rec.cls('graph_bitwise')
    else:
        rec.viol(
            'conversion.graph.tof.elastic', 'wiring',
            f"elastic('{origin}')['{node}'] gives {got.values.ravel()[:3]} [{got.unit}] {got.dtype}; the documented kernel {EXPECTED_WIRING[origin][node]} gives {want.values.ravel()[:3]} [{want.unit}] {want.dtype}",
            origin=origin, node=node,
        )


def _run_subgraph(case, rec):
    builder, start = case['builder'], case['start']
    inputs = _graph_inputs(case['unit_set'], case['mode'])
    graph = getattr(G, builder)(start)
    full = G.elastic(start)
    site = f'conversion.graph.tof.{builder}'
    must = SUBGRAPHS[builder][start]
    rec.transitions += 1
    missing = [n for n in must if n not in graph]
    extra = [k for k in graph if k not in full or graph[k] is not full[k]]
    if missing or extra:
        rec.viol(site, 'subgraph_nodes', f"{builder}('{start}') has nodes {sorted(map(str, graph))}: missing {missing}, not from elastic('{start}'): {extra}", builder=builder, start=start)
        return
    target = must[0]
    got = _transform(start, graph, target, inputs)
    want = _expected_node(start, target, inputs)
    rec.evals += 1
    rec.validated += 1
    rec.nontrivial += 1
    rec.observe(got.values.tobytes().hex())
    if _same_bits(got, want):
        rec.cls('subgraph_bitwise')
    else:
        rec.viol(site, 'wiring', f"{builder}('{start}') -> '{target}' differs from the documented kernel {EXPECTED_WIRING[start][target]}", builder=builder, start=start)


def _run_graph_table(case, rec):
    """Every origin / elastic-kernel node of the real table is one that the check enumerates (and vice versa)."""
    table = G._GRAPH_DYNAMICS_BY_ORIGIN
    real = {(o, n) for o, nodes in table.items() for n, f in nodes.items() if isinstance(n, str) and getattr(f, '__name__', '') in KERNEL_NAMES}
    mine = {(o, n) for o, nodes in EXPECTED_WIRING.items() for n in nodes}
    rec.evals += 1
    rec.transitions += 1
    rec.observe(sorted(real))
    # a swapped entry keeps the key set; a kernel wired under a key the docs do not list shows up here
    names_real = {(o, n) for o, nodes in table.items() for n in nodes if isinstance(n, str) and n in ('dspacing', 'energy', 'wavelength', 'Q')}
    if names_real != mine:
        rec.viol('conversion.graph.tof.elastic', 'node_set', f'elastic nodes in the table {sorted(names_real)} differ from the documented ones {sorted(mine)}')
    else:
        rec.cls('graph_nodes_complete')
    if real - mine:
        rec.viol('conversion.graph.tof.elastic', 'node_set', f'table wires elastic kernels under undocumented keys {sorted(real - mine)}')


def _run_history(case, rec):
    import importlib

    nargs = len(kin.KERNELS[case['kernel']]['args'])
    if case.get('deep'):
        # every order of all precision modes, decade magnitudes and deep angle alphabet, vectorised layouts; the 50-digit
        # references are shared between the orders (same kernel, units and values)
        modes = ('f64', 'f32', 'f32data') if nargs > 1 else ('f64', 'f32')
        cache = {}
        for order in itertools.permutations(modes):
            importlib.reload(K)
            for mode in order:
                _run_grid({'kind': 'grid', 'kernel': case['kernel'], 'units': case['units'], 'mode': mode, 'tier': 'thorough'}, rec, layouts=('1d', '2d', 'bcast', 'perpixel'), cache=cache)
            rec.cls('history_' + '_then_'.join(order[:2]))
            rec.cls('history_order_of_all_modes')
        return
    orders = [('f32', 'f64'), ('f64', 'f32')] + ([('f32data', 'f64')] if nargs > 1 else [])
    for order in orders:
        importlib.reload(K)  # fresh module-level state; function objects keep working (same module dict)
        for mode in order:
            _run_grid({'kind': 'grid', 'kernel': case['kernel'], 'units': case['units'], 'mode': mode, 'tier': 'history'}, rec)
        rec.cls('history_' + '_then_'.join(order))


def run_case(case, rec):
    kind = case['kind']
    if kind == 'history':
        _run_history(case, rec)
    elif kind == 'grid':
        _run_grid(case, rec)
    elif kind == 'route':
        _run_route(case, rec)
    elif kind == 'graph':
        _run_graph(case, rec)
    elif kind == 'subgraph':
        _run_subgraph(case, rec)
    elif kind == 'graph_table':
        _run_graph_table(case, rec)
    else:
        raise ValueError(kind)


# ---------------------------------------------------------------------------------------
# layout / reuse exploration shared by the kernel properties (props/layouts.py): every combination of operand layouts
# (0-d, 1-d over either of two dims, 2-d, 2-d transposed) must equal the element-wise 0-d calls, also after every operand
# has been overwritten in place and the kernel is called again.

from props import layouts as _layouts  # noqa: E402

_LAYOUT_SITES = ['conversion.tof.wavelength_from_tof', 'conversion.tof.dspacing_from_tof', 'conversion.tof.energy_from_tof', 'conversion.tof.energy_from_wavelength', 'conversion.tof.wavelength_from_energy', 'conversion.tof.Q_from_wavelength', 'conversion.tof.wavelength_from_Q', 'conversion.tof.dspacing_from_wavelength', 'conversion.tof.dspacing_from_energy']
_cases_main, _run_case_main = cases, run_case
RULE = RULE + ' Layout cases: every combination of operand layouts (0d / 1-d a / 1-d b / 2-d ab / 2-d stored ba) per kernel x unit-dtype variant, each followed by an in-place update of all operands and a second call.'
REQUIRED_CLASSES = [*REQUIRED_CLASSES, 'layout_ok', 'reuse_after_inplace_update_ok', 'layout_transposed_operand', 'repeat_call_identical']


def cases(tier):
    return _cases_main(tier) + _layouts.cases_for(_LAYOUT_SITES, variants=(0, 1, 2, 3, 4) if tier == 'thorough' else (0, 1, 3))


def run_case(case, rec):
    if case.get('kind') == 'layout':
        _layouts.run_layout_case(case, rec)
    else:
        _run_case_main(case, rec)


REQUIRED_CLASSES = {'quick': list(REQUIRED_CLASSES), 'thorough': [*REQUIRED_CLASSES, 'history_order_of_all_modes', 'history_f32data_then_f64', 'history_f64_then_f32data']}
