"""C07 - kernels are unit-equivariant and keep the documented dtype contract.

Shape G/T.  One case = (kernel, unit per argument[, geometry variant]); inside, the full
Cartesian grid of dtype per argument {float64, float32, int64, int32} (plus binned data
operands) is pushed through the real kernel.  Every result is converted to SI with
exact factors and compared with the 50-digit definition evaluated on the values the
kernel received; unit and dtype of the result are compared with the documented ones.
"""
from __future__ import annotations

import itertools
import math
from fractions import Fraction

import numpy as np
import scipp as sc
from scippneutron.conversion import beamline as B
from scippneutron.conversion import tof as K
from scippneutron.tof import chopper_cascade as CC

from ref import hp, kin

ID = 'C07'
LEVEL = 'model_checking'
RULE = (
    'full Cartesian grid per kernel: unit per argument (time ns/us/ms/s, length mm/m/km/angstrom, energy ueV/meV/eV/J, angle rad/deg, '
    'wavelength angstrom/nm/m, Q 1/angstrom,1/nm,1/m, gravity m/s^2,mm/s^2,km/s^2,m/ms^2) x dtype per scalar argument '
    '{float64,float32,int64,int32}; one physical base point per kernel, re-expressed exactly in every unit; integer dtypes use the '
    're-expressed value when it is an integer <= 3e9 (int64) / 3000 (int32), otherwise a small fallback integer in that unit (a '
    'different physical point, judged against the definition at that point); plus a binned (event) data operand per unit '
    'combination in float64 and float32. A configuration is non-trivial when the kernel returned and its value was judged against '
    'the 50-digit definition (or, for the non-orthogonal gravity path, against the same call in base units); distinct = distinct '
    '(kernel, units, dtypes, variant). Thorough tier: the same grid with the wide unit alphabet, repeated at every physical point of '
    'POINTS / GRAVITY_POINTS / GEOM_SCALES (point 0 = base point), plus per dtype combination one call with all points as 1-d '
    'operands, plus event data in each operand position in turn. Event-data grid (both tiers, base point): binned position sets = '
    'each operand alone and all operands together; dtype of every operand (binned or dense) ranges over {float64, float32} '
    '(thorough: + int64 one operand at a time); oracle = dtype contract + unit + 50-digit definition per event + agreement within '
    '1 ulp with the dense call on the same numbers.'
)
ASSUMPTIONS = [
    'h, m_n, eV->J as scipp exposes them (ref/hp.py); references evaluated on the values the kernel received',
    'reading chosen (accuracy): 1e-11 relative when no operand is float32, 1e-5 as soon as one floating operand is float32; '
    'angles: the same numbers as absolute bounds in rad; inelastic kernels: bound x conditioning amplifier of t - t0 '
    '(ref/kin.energy_transfer_reference), configurations with |t - t0| < 100 x bound x (t + t0) are do-not-care',
    'reading chosen (dtype): the contract pinned by the repository tests - result float32 iff the data operand (first argument; '
    'tof and the fixed energy for the inelastic kernels; wavelength for the gravity kernels) is float32, else float64; '
    'int32 operands must be accepted like int64 (until fix 34fb7b5 four energy kernels raised DTypeError for them, which an earlier version of this check had accepted as a scipp limitation); kernels that are bare scipp arithmetic on their operands (straight beams, '
    'L1/L2, total lengths, two_theta, unit vectors, propagate_times, wavelength_to_inverse_velocity) have no pinned dtype '
    'contract: their result dtype is recorded as an outcome class and the value is judged at the precision of that dtype',
    'reading chosen (units): kernels that only add/subtract two operands (straight beams, total lengths) may refuse operands of '
    'different units with scipp UnitError; every other kernel must accept every combination',
    'single precision: configurations whose inputs, needed input powers, t0 / t - t0 / energies (inelastic) or result leave '
    '1e-30..1e30 in the units used are out of domain for the value comparison (unit and dtype are still checked); constants '
    'folded by the implementation are not part of the domain',
    'non-orthogonal gravity path: judged differentially (same physical inputs in base units), its absolute correctness is C04',
]
BOUND = {
    'quick': '11 TOF kernels, 10 beamline kernels (2 gravity paths), 2 chopper-cascade kernels: all unit combinations x all dtype '
    'combinations over {float64,float32,int64} plus int32 in one argument at a time; event data per unit combination at the base point: '
    'every operand position binned (each alone and all together) x every {float64,float32} dtype combination of all operands, judged '
    'against the dtype contract, the definition and the dense call on the same numbers',
    'thorough': 'wide unit alphabet (length mm/m/km/angstrom/um/nm/cm; wavelength angstrom/nm/m/um/pm; energy ueV/meV/eV/keV/J; Q + 1/um) '
    'x the full {float64,float32,int64,int32}^n dtype grid x several physical points per kernel (5 for the elastic kernels: base, both ends '
    'of 1e-9..1e9 SI and the two crossed ends, scattering angles 1e-6 / 1 / 60 / 179 / 180 deg; 6 flights for the inelastic kernels: base, '
    'scaled 1e-6 and 1e6, 5 ueV and 5 eV neutrons, arrival before t0; 4 for gravity (0.5..2000 angstrom, scattered beam x 1/4..8, two '
    'gravity strengths), propagation and total length; positions x 2^-20, 1, 2^20 for the vector kernels) x layouts: 0-d per point, all '
    'points as one 1-d call per dtype combination, event data in every operand position (float64 / float32) at every point and, at the '
    'base point, every binned position set x every {float64,float32}^n combination + int64 in one operand at a time, broadcast and binned '
    'wavelength (incl. int64 events, int32 broadcast) for the gravity kernels',
}
REQUIRED_CLASSES = [
    'out_float64', 'out_float32', 'int_operand_ok', 'int32_ok', 'nan_expected', 'finite_inelastic',
    'out_of_domain_single', 'binned_ok', 'broadcast_ok', 'history_single_precision_first', 'history_double_precision_first', 'fine_integer_operand', 'unit_mismatch_refused', 'path_orthogonal', 'path_generic', 'fallback_int_point',
    'same_point_int', 'geom_ok', 'propagate_ok',
]

TOL = {'double': 1e-11, 'single': 1e-5}
DTYPES = ('float64', 'float32', 'int64', 'int32')
INT_LIMIT = {'int64': 3_000_000_000, 'int32': 3000}

TIME_UNITS = ('ns', 'us', 'ms', 's')
LEN_UNITS = ('mm', 'm', 'km', 'angstrom')
WAV_UNITS = ('angstrom', 'nm', 'm')
Q_UNITS = ('1/angstrom', '1/nm', '1/m')
ACC_UNITS = ('m/s^2', 'mm/s^2', 'km/s^2', 'm/ms^2')
UNITS_OF_KIND = {'time': TIME_UNITS, 'length': LEN_UNITS, 'energy': kin.ENERGY_UNITS, 'angle': kin.ANGLE_UNITS, 'inv_length': Q_UNITS, 'accel': ACC_UNITS}
ARG_UNITS = {'wavelength': WAV_UNITS}
# thorough tier: wider alphabets
UNITS_OF_KIND_WIDE = {
    'time': TIME_UNITS, 'length': ('mm', 'm', 'km', 'angstrom', 'um', 'nm', 'cm'), 'energy': kin.ENERGY_UNITS_WIDE, 'angle': kin.ANGLE_UNITS,
    'inv_length': ('1/angstrom', '1/nm', '1/m', '1/um'), 'accel': ACC_UNITS,
}
ARG_UNITS_WIDE = {'wavelength': ('angstrom', 'nm', 'm', 'um', 'pm')}

RATIONAL = {
    'time': kin.TIME, 'length': kin.LENGTH, 'inv_length': kin.INV_LENGTH, 'accel': kin.ACCEL,
    'energy': {'ueV': Fraction(1, 10**6), 'meV': Fraction(1, 1000), 'eV': Fraction(1), 'keV': Fraction(1000)},
    'angle': {'deg': Fraction(1)},
}

INELASTIC = {
    'energy_transfer_direct_from_tof': ('direct', 'incident_energy'),
    'energy_transfer_indirect_from_tof': ('indirect', 'final_energy'),
}
TOF_KERNELS = {name: {'args': spec['args'], 'data': [spec['args'][0][0]]} for name, spec in kin.KERNELS.items()}
for _name, (_mode, _en) in INELASTIC.items():
    TOF_KERNELS[_name] = {'args': [('tof', 'time'), ('L1', 'length'), ('L2', 'length'), (_en, 'energy')], 'data': ['tof', _en]}

BASE = {
    'tof': (Fraction(2), 'ms'), 'Ltotal': (Fraction(3), 'm'), 'two_theta': (Fraction(60), 'deg'), 'energy': (Fraction(5), 'meV'),
    'wavelength': (Fraction(2), 'angstrom'), 'Q': (Fraction(2), '1/angstrom'), 'L1': (Fraction(3), 'm'), 'L2': (Fraction(1), 'm'),
    'incident_energy': (Fraction(5), 'meV'), 'final_energy': (Fraction(5), 'meV'), 'time': (Fraction(2), 'ms'), 'distance': (Fraction(3), 'm'),
}
BASE_OVERRIDE = {(k, 'tof'): (Fraction(8), 'ms') for k in INELASTIC}
FALLBACK_INT = {'two_theta': 1}


def _pt(**kw):
    return {k: (Fraction(v[0]), v[1]) for k, v in kw.items()}


# Physical points per kernel.  Point 0 is the base point (the only one of the quick tier); the others sit near both ends of
# the stated ranges (1e-9 .. 1e9 SI, angles near 0 and pi) and are chosen so that several unit choices stay integer-valued.
_TL = [
    _pt(tof=(2, 'ms'), Ltotal=(3, 'm')), _pt(tof=(2, 'ns'), Ltotal=(3, 'nm')), _pt(tof=(2000000, 's'), Ltotal=(3000, 'km')),
    _pt(tof=(2, 'ns'), Ltotal=(3000, 'km')), _pt(tof=(2000000, 's'), Ltotal=(3, 'nm')),
]
_TT = [(60, 'deg'), (Fraction(1, 10**6), 'deg'), (180, 'deg'), (1, 'deg'), (179, 'deg')]
_WL = [(2, 'angstrom'), (2, 'nm'), (2, 'mm'), (2 * 10**9, 'm'), (2, 'um')]
_EN = [(5, 'meV'), (5, 'ueV'), (5, 'keV'), (2, 'J'), (Fraction(1, 10**9), 'J')]
_QS = [(2, '1/angstrom'), (2, '1/m'), (2000, '1/nm'), (2, '1/km'), (2, '1/um')]
_INEL = [  # (tof, L1, L2, fixed energy): same flight scaled in length/time, colder / hotter neutrons, and an unphysical early arrival
    ((8, 'ms'), (3, 'm'), (1, 'm'), (5, 'meV')), ((8, 'ns'), (3, 'um'), (1, 'um'), (5, 'meV')), ((8000, 's'), (3000, 'km'), (1000, 'km'), (5, 'meV')),
    ((250, 'ms'), (3, 'm'), (1, 'm'), (5, 'ueV')), ((250, 'us'), (3, 'm'), (1, 'm'), (5, 'eV')), ((1, 'ms'), (3, 'm'), (1, 'm'), (5, 'meV')),
]
POINTS = {
    'wavelength_from_tof': _TL,
    'energy_from_tof': _TL,
    'dspacing_from_tof': [{**p, **_pt(two_theta=t)} for p, t in zip(_TL, _TT, strict=True)],
    'energy_from_wavelength': [_pt(wavelength=w) for w in _WL[:4]],
    'wavelength_from_energy': [_pt(energy=e) for e in _EN],
    'Q_from_wavelength': [_pt(wavelength=w, two_theta=t) for w, t in zip(_WL, _TT, strict=True)],
    'dspacing_from_wavelength': [_pt(wavelength=w, two_theta=t) for w, t in zip(_WL, _TT, strict=True)],
    'wavelength_from_Q': [_pt(Q=q, two_theta=t) for q, t in zip(_QS, _TT, strict=True)],
    'dspacing_from_energy': [_pt(energy=e, two_theta=t) for e, t in zip(_EN, _TT, strict=True)],
    'energy_transfer_direct_from_tof': [_pt(tof=a, L1=b, L2=c, incident_energy=d) for a, b, c, d in _INEL],
    'energy_transfer_indirect_from_tof': [_pt(tof=a, L1=b, L2=c, final_energy=d) for a, b, c, d in _INEL],
    'total_beam_length': [_pt(L1=(3, 'm'), L2=(1, 'm')), _pt(L1=(3, 'nm'), L2=(1, 'nm')), _pt(L1=(3000, 'km'), L2=(1000, 'km')), _pt(L1=(3, 'nm'), L2=(1000, 'km'))],
    # flight time comparable to the start time in every point
    'propagate_times': [
        _pt(time=(2, 'ms'), wavelength=(2, 'angstrom'), distance=(3, 'm')), _pt(time=(2, 'ns'), wavelength=(2, 'angstrom'), distance=(3, 'um')),
        _pt(time=(2000000, 's'), wavelength=(2, 'angstrom'), distance=(3000000, 'km')), _pt(time=(2, 's'), wavelength=(2000, 'angstrom'), distance=(3, 'm')),
    ],
    'wavelength_to_inverse_velocity': [_pt(wavelength=w) for w in [(2, 'angstrom'), (2, 'pm'), (2, 'um'), (2, 'm')]],
}
for _k, _pts in POINTS.items():  # point 0 must be the historical base point
    for _a, _v in _pts[0].items():
        assert _v == BASE_OVERRIDE.get((_k, _a), BASE[_a]), (_k, _a)
# gravity kernels: (wavelength, exact power-of-two scale of the scattered beam, gravity vector)
GRAVITY_POINTS = [
    {'wavelength': (Fraction(2), 'angstrom'), 'scale': 1.0, 'gvec': 'gravity'},
    {'wavelength': (Fraction(20), 'angstrom'), 'scale': 8.0, 'gvec': 'gravity'},
    {'wavelength': (Fraction(1, 2), 'angstrom'), 'scale': 0.25, 'gvec': 'gravity_moon'},
    {'wavelength': (Fraction(2000), 'angstrom'), 'scale': 1.0, 'gvec': 'gravity'},
]
GEOM_SCALES = (1.0, 2.0**-20, 2.0**20)


def _near_t0_points(kernel):
    """Base flight with the arrival a fraction of a microsecond after t0 of the fixed-energy leg (whole ns, exact).

    The same instant is then expressed in ns .. s by the unit grid: whether it is physical may not depend on the unit."""
    mode, ename = INELASTIC[kernel]
    base = POINTS[kernel][0]
    si = {a: kin.to_si(k, base[a][0], base[a][1]) for a, k in (('tof', 'time'), ('L1', 'length'), ('L2', 'length'), (ename, 'energy'))}
    fn = kin.energy_transfer_direct if mode == 'direct' else kin.energy_transfer_indirect
    t0 = fn(si['tof'], si['L1'], si['L2'], si[ename])[2]
    t0_ns = int(hp.mpmath.ceil(t0 * 10**9))
    return [{**base, 'tof': (Fraction(t0_ns + extra), 'ns')} for extra in (300, 900, 2, -300)]


def points_of(kernel, tier):
    pts = POINTS[kernel]
    if kernel in INELASTIC:
        near = _near_t0_points(kernel)
        return pts + near if tier == 'thorough' else pts[:1] + near[:1]
    return pts if tier == 'thorough' else pts[:1]

# geometry base point (metres, m/s^2), decimal strings -> exact Fractions
VEC = {
    'source_position': ('0.1', '-0.2', '-11.3'), 'sample_position': ('0.02', '0.01', '0.3'), 'position': ('1.8', '2.5', '3.9'),
    'incident_orth': ('0', '0', '11.6'), 'incident_tilt': ('0', '0.3', '11.6'), 'scattered_beam': ('1.8', '2.5', '3.6'),
    'gravity': ('0', '-9.81', '0'), 'gravity_moon': ('0', '-1.62', '0'),
}


# ---------------------------------------------------------------------------------------
# value construction


def express(kind, base, unit):
    """(exact Fraction or None, float) of the base point expressed in ``unit``."""
    val, bunit = base
    tab = RATIONAL[kind]
    if unit in tab and bunit in tab:
        q = val * tab[bunit] / tab[unit]
        return q, float(q)
    si = kin.to_si(kind, val, bunit)
    return None, float(kin.from_si(kind, si, unit))


def arg_value(kernel, arg, kind, unit, dtype, point=None):
    """(python value to build the scalar from, 'same' | 'fallback')."""
    base = point[arg] if point is not None else BASE_OVERRIDE.get((kernel, arg), BASE[arg])
    q, f = express(kind, base, unit)
    if dtype.startswith('float'):
        return f, 'same'
    if q is not None and q.denominator == 1 and 1 <= abs(q) <= INT_LIMIT[dtype]:
        return int(q), 'same'
    return FALLBACK_INT.get(arg, 2), 'fallback'


def scalar(value, unit, dtype):
    return sc.scalar(np.asarray(value, dtype=dtype)[()], unit=unit, dtype=dtype)


def received(value, dtype) -> float:
    return float(np.asarray(value, dtype=dtype).astype('float64'))


def vector(name, unit, kind='length', scale=1.0):
    """scale: exact power of two applied to the base point."""
    tab = RATIONAL[kind]
    comps = [float(Fraction(c) * Fraction(scale) / tab[unit]) for c in VEC[name]]
    return sc.vector(comps, unit=unit), comps


def si_vec(comps, unit, kind='length'):
    f = hp.F(RATIONAL[kind][unit])
    return [hp.F(c) * f for c in comps]


def precision(dtypes):
    return 'single' if any(d == 'float32' for d in dtypes) else 'double'


def dtype_grid(n, tier):
    if tier == 'thorough':
        return list(itertools.product(DTYPES, repeat=n))
    out = list(itertools.product(DTYPES[:3], repeat=n))
    for k in range(n):
        combo = ['float64'] * n
        combo[k] = 'int32'
        out.append(tuple(combo))
    if n > 1:
        out.append(('int32',) * n)
    return out


# ---------------------------------------------------------------------------------------
# enumeration


def _unit_choices(args, tier='quick'):
    if tier == 'thorough':
        per_arg = [ARG_UNITS_WIDE.get(name, UNITS_OF_KIND_WIDE[kind]) for name, kind in args]
    else:
        per_arg = [ARG_UNITS.get(name, UNITS_OF_KIND[kind]) for name, kind in args]
    names = [name for name, _ in args]
    return [dict(zip(names, combo, strict=True)) for combo in itertools.product(*per_arg)]


GEOM_KERNELS = {
    # name: unit-carrying arguments [(name, kind)]
    'L1': [('incident_beam', 'length')],
    'L2': [('scattered_beam', 'length')],
    'straight_incident_beam': [('source_position', 'length'), ('sample_position', 'length')],
    'straight_scattered_beam': [('position', 'length'), ('sample_position', 'length')],
    'total_beam_length': [('L1', 'length'), ('L2', 'length')],
    'total_straight_beam_length_no_scatter': [('source_position', 'length'), ('position', 'length')],
    'two_theta': [('incident_beam', 'length'), ('scattered_beam', 'length')],
    'beam_aligned_unit_vectors': [('incident_beam', 'length'), ('gravity', 'accel')],
}
GRAVITY_ARGS = [('incident_beam', 'length'), ('scattered_beam', 'length'), ('wavelength', 'length'), ('gravity', 'accel')]
CHOPPER_KERNELS = {
    'propagate_times': [('time', 'time'), ('wavelength', 'length'), ('distance', 'length')],
    'wavelength_to_inverse_velocity': [('wavelength', 'length')],
}


def cases(tier):
    out = []
    for kernel, spec in TOF_KERNELS.items():
        for units in _unit_choices(spec['args'], tier):
            out.append({'family': 'tof', 'kernel': kernel, 'units': units, 'tier': tier})
    for kernel, args in GEOM_KERNELS.items():
        for units in _unit_choices(args, tier):
            out.append({'family': 'geom', 'kernel': kernel, 'units': units, 'tier': tier})
    for units in _unit_choices(GRAVITY_ARGS, tier):
        out.append({'family': 'gravity', 'kernel': 'scattering_angles_with_gravity', 'variant': 'orth', 'units': units, 'tier': tier})
        out.append({'family': 'gravity', 'kernel': 'scattering_angles_with_gravity', 'variant': 'tilt', 'units': units, 'tier': tier})
        out.append({'family': 'gravity', 'kernel': 'scattering_angle_in_yz_plane', 'variant': 'orth', 'units': units, 'tier': tier})
    for kernel, args in CHOPPER_KERNELS.items():
        for units in _unit_choices(args, tier):
            out.append({'family': 'chopper', 'kernel': kernel, 'units': units, 'tier': tier})
    return out


# ---------------------------------------------------------------------------------------
# TOF kernels


def _expected_tof_dtype(kernel, dtypes_by_arg):
    data = TOF_KERNELS[kernel]['data']
    return 'float32' if all(dtypes_by_arg[a] == 'float32' for a in data) else 'float64'


def _tof_out_unit(kernel, units):
    if kernel in INELASTIC:
        return units[INELASTIC[kernel][1]]
    return kin.out_unit(kernel, units)[1]


_REF_CACHE = {}  # (kernel, units, values[, 'dom']) -> 50-digit reference; pure function of its key, bounded per case


def _cached(key, fn):
    hit = _REF_CACHE.get(key)
    if hit is None:
        if len(_REF_CACHE) > 20000:
            _REF_CACHE.clear()
        hit = _REF_CACHE[key] = (fn(),)
    return hit[0]


def _judge_tof_value(rec, site, kernel, vals, units, prec, got, label, sub):
    """Compare one float result with the definition.  Returns nothing; records classes / violations."""
    tol = TOL[prec]
    key = (kernel, tuple(sorted(units.items())), tuple(sorted(vals.items())))
    if kernel in INELASTIC:
        mode = INELASTIC[kernel][0]
        if prec == 'single' and not _cached((*key, 'dom'), lambda: kin.energy_transfer_io_in_range(mode, vals, units)):
            rec.cls('out_of_domain_single')
            return
        ref = _cached(key, lambda: kin.energy_transfer_reference(mode, vals, units))
        if ref['margin'] < 100 * tol:
            rec.cls('boundary_dont_care')
            return
        rec.nontrivial += 1
        rec.validated += 1
        if ref['value'] is None:
            if math.isnan(got):
                rec.cls('nan_expected')
            else:
                rec.viol(site, 'not_nan', f'{label}: t < t0 (unphysical) but result is {got!r}, documented NaN', **sub)
            return
        bound = tol * float(ref['amp'])
        if math.isfinite(got) and abs(hp.mpf(got) - ref['value']) <= bound:
            rec.cls('finite_inelastic')
        else:
            rec.viol(site, 'abs_error', f'{label}: got {got!r}, definition {hp.mpmath.nstr(ref["value"], 17)}, |difference| > {bound:.3e} (= {tol:g} x conditioning)', got=got, **sub)
        return
    if prec == 'single' and not _cached((*key, 'dom'), lambda: kin.io_in_range(kernel, vals, units)):
        rec.cls('out_of_domain_single')
        return
    want = _cached(key, lambda: kin.reference(kernel, vals, units))
    rec.nontrivial += 1
    rec.validated += 1
    err = hp.rel_err(got, want)
    if not err < tol:
        rec.viol(site, 'rel_error' if math.isfinite(err) else 'nonfinite', f'{label}: got {got!r}, definition {hp.mpmath.nstr(want, 17)}, relative error {err:.3e} >= {tol:g}', got=got, rel=err, **sub)
    else:
        rec.cls('value_ok')


def _check_tof_meta(rec, site, kernel, label, sub, res, out_unit, dmap):
    """unit and dtype contract of one (dense) result; False when the value cannot be judged."""
    if res.unit != out_unit:
        rec.viol(site, 'wrong_unit', f'{label}: result unit {res.unit!r}, documented {out_unit!r}', got_unit=str(res.unit), **sub)
        return False
    want_dt = _expected_tof_dtype(kernel, dmap)
    if str(res.dtype) != want_dt:
        rec.viol(site, 'wrong_dtype', f'{label}: result dtype {res.dtype}, contract {want_dt}', got_dtype=str(res.dtype), **sub)
    else:
        rec.cls('out_' + want_dt)
    return True


def _run_tof(case, rec):
    kernel, units, tier = case['kernel'], case['units'], case['tier']
    spec = TOF_KERNELS[kernel]
    fn = getattr(K, kernel)
    site = f'conversion.tof.{kernel}'
    names = [a for a, _ in spec['args']]
    kinds = dict(spec['args'])
    out_unit = sc.Unit(_tof_out_unit(kernel, units))
    points = points_of(kernel, tier)
    # call-history dimension: fresh module state (reload), then the dtype grid in its natural order (double first) for
    # half of the unit combinations and single precision first for the other half, so that a result depending on which
    # precision was converted first for a unit (e.g. a memoised converted constant) is judged in both orders
    import importlib
    import zlib

    importlib.reload(K)
    fn = getattr(K, kernel)
    grid = list(dtype_grid(len(names), tier))
    if zlib.crc32(repr(sorted(units.items())).encode()) % 2:
        grid.sort(key=lambda dts: 0 if dts[0] == 'float32' else 1)
        rec.cls('history_single_precision_first')
    else:
        rec.cls('history_double_precision_first')
    for dts in grid:
        dmap = dict(zip(names, dts, strict=True))
        has_i32 = 'int32' in dts
        has_int = any(d.startswith('int') for d in dts)
        per_point = []
        for ip, point in enumerate(points):
            built = {a: arg_value(kernel, a, kinds[a], units[a], dmap[a], point) for a in names}
            kw = {a: scalar(built[a][0], units[a], dmap[a]) for a in names}
            vals = {a: received(built[a][0], dmap[a]) for a in names}
            per_point.append((built, vals))
            sub = {'units': units, 'dtypes': dmap} if ip == 0 else {'units': units, 'dtypes': dmap, 'point': ip}
            label = f'{kernel} values {vals} units {units} dtypes {dmap}'
            rec.states += 1
            rec.transitions += 1
            try:
                res = fn(**kw)
            except sc.DTypeError as e:
                rec.viol(site, 'raises_dtype_error', f'{label}: {e}', **sub)
                continue
            except sc.UnitError as e:
                rec.viol(site, 'raises_unit_error', f'{label}: {e}', **sub)
                continue
            rec.evals += 1
            rec.observe(res.value)
            if not _check_tof_meta(rec, site, kernel, label, sub, res, out_unit, dmap):
                continue
            if res.dims != ():
                rec.viol(site, 'wrong_dims', f'{label}: scalar operands gave dims {res.dims}', **sub)
                continue
            _judge_tof_value(rec, site, kernel, vals, units, precision(dts), float(res.value), label, sub)
            if has_i32:
                rec.cls('int32_ok')
            if has_int:
                rec.cls('int_operand_ok')
                rec.cls('fallback_int_point' if any(built[a][1] == 'fallback' for a in names) else 'same_point_int')
            if ip:
                rec.cls('extra_point')
        if len(points) > 1:
            # all points at once: every operand a 1-d array over the points (same dtype combination)
            kw = {a: sc.array(dims=['p'], values=np.asarray([b[a][0] for b, _ in per_point], dtype=dmap[a]), unit=units[a], dtype=dmap[a]) for a in names}
            sub = {'units': units, 'dtypes': dmap, 'layout': 'points_1d'}
            label = f'{kernel} all {len(points)} points as 1-d operands units {units} dtypes {dmap}'
            rec.states += 1
            rec.transitions += 1
            try:
                res = fn(**kw)
            except sc.DTypeError as e:
                rec.viol(site, 'raises_dtype_error', f'{label}: {e}', **sub)
                continue
            except sc.UnitError as e:
                rec.viol(site, 'raises_unit_error', f'{label}: {e}', **sub)
                continue
            rec.evals += 1
            if not _check_tof_meta(rec, site, kernel, label, sub, res, out_unit, dmap):
                continue
            if dict(res.sizes) != {'p': len(points)}:
                rec.viol(site, 'wrong_dims', f'{label}: result sizes {dict(res.sizes)}', **sub)
                continue
            got = res.values.astype('float64')
            rec.observe(got.tobytes().hex())
            for ip, (_b, vals) in enumerate(per_point):
                _judge_tof_value(rec, site, kernel, vals, units, precision(dts), float(got[ip]), f'{label} element {ip} {vals}', {**sub, 'point': ip})
            rec.cls('points_1d_ok')
    # integer operands that are not whole numbers in any coarser unit (e.g. 2000567 ns, 3001 mm): a kernel that converts
    # the operand (instead of the constant) to another unit in integer arithmetic rounds them
    for a in names:
        if kinds[a] not in ('time', 'length'):
            continue
        v, _how = arg_value(kernel, a, kinds[a], units[a], 'int64')
        v2 = int(v) + (567 if abs(v) >= 10**5 else 1)
        dmap = {n: 'float64' for n in names}
        dmap[a] = 'int64'
        built = {n: (v2 if n == a else arg_value(kernel, n, kinds[n], units[n], 'float64')[0]) for n in names}
        kw = {n: scalar(built[n], units[n], dmap[n]) for n in names}
        vals = {n: received(built[n], dmap[n]) for n in names}
        sub = {'units': units, 'dtypes': dmap, 'fine_integer': a}
        label = f'{kernel} values {vals} units {units} dtypes {dmap} (fine-grained integer {a})'
        rec.states += 1
        rec.transitions += 1
        try:
            res = fn(**kw)
        except (sc.DTypeError, sc.UnitError) as e:
            rec.viol(site, 'raises_for_fine_integer', f'{label}: {type(e).__name__}: {e}', **sub)
            continue
        rec.evals += 1
        if res.unit != out_unit:
            rec.viol(site, 'wrong_unit', f'{label}: result unit {res.unit!r}, documented {out_unit!r}', got_unit=str(res.unit), **sub)
            continue
        _judge_tof_value(rec, site, kernel, vals, units, precision(tuple(dmap[n] for n in names)), float(res.value), label, sub)
        rec.cls('fine_integer_operand')
    for ip, point in enumerate(points):
        if ip == 0:
            _run_tof_binned_grid(case, rec, point)  # every binned position set x every dtype combination, base point
            continue
        for pos in range(len(names) if tier == 'thorough' else 1):
            _run_tof_binned(case, rec, pos, ip, point)


def _binned(values, unit, dtype):
    """3 events in 2 bins (2 + 1) along 'pixel'."""
    table = sc.DataArray(sc.ones(dims=['event'], shape=[3]), coords={'x': sc.array(dims=['event'], values=values, unit=unit, dtype=dtype)})
    return sc.bins(begin=sc.array(dims=['pixel'], values=[0, 2], unit=None), dim='event', data=table).bins.coords['x']


def _binned_sets(n):
    """Operand position sets that hold event data: each position alone, and all together."""
    sets = [(k,) for k in range(n)]
    if n > 1:
        sets.append(tuple(range(n)))
    return sets


def _binned_dtype_grid(n, tier):
    """Every {float64, float32} combination; thorough adds int64 in one operand at a time."""
    out = list(itertools.product(('float64', 'float32'), repeat=n))
    if tier == 'thorough':
        for k in range(n):
            combo = ['float64'] * n
            combo[k] = 'int64'
            out.append(tuple(combo))
    return out


def _same_to_one_ulp(a, b):
    """Element-wise: identical, both NaN, or within one unit in the last place of the (common) dtype."""
    with np.errstate(invalid='ignore', over='ignore'):
        return bool(np.all((a == b) | (np.isnan(a) & np.isnan(b)) | (np.abs(a - b) <= np.spacing(np.maximum(np.abs(a), np.abs(b))))))


def _run_tof_binned_grid(case, rec, point):
    """Event data in every operand position (one at a time and all together) x every dtype combination.

    Binned operands hold 3 events in 2 bins (2 + 1); dense operands hold one value per bin (fixed energies: 0-d).
    Oracle: unit and dtype contract of the events, the 50-digit definition per event, and equality (<= 1 ulp of the
    result dtype) with the same kernel called on the same numbers as dense 1-d arrays over the events.
    """
    kernel, units, tier = case['kernel'], case['units'], case['tier']
    spec = TOF_KERNELS[kernel]
    fn = getattr(K, kernel)
    site = f'conversion.tof.{kernel}'
    names = [a for a, _ in spec['args']]
    kinds = dict(spec['args'])
    out_unit = sc.Unit(_tof_out_unit(kernel, units))
    n = len(names)
    ev_scales = ((1.0, 1.25, 0.75), (1.5, 1.0, 1.25), (0.75, 1.5, 1.0), (1.25, 0.75, 1.5))
    bin_scales = ((1.0, 1.5), (1.25, 1.0), (1.0, 0.75), (1.5, 1.25))
    event_bin = (0, 0, 1)
    for bset, dts in itertools.product(_binned_sets(n), _binned_dtype_grid(n, tier)):
        dmap = dict(zip(names, dts, strict=True))
        kw, dense_kw, per_event = {}, {}, {}
        for k, a in enumerate(names):
            dt = dmap[a]
            base = arg_value(kernel, a, kinds[a], units[a], dt, point)[0]
            if k in bset:
                vals = [base + j for j in range(3)] if dt.startswith('int') else [base * sc_ for sc_ in ev_scales[k]]
                arr = np.asarray(vals, dtype=dt)
                kw[a] = _binned(arr, units[a], dt)
            elif kinds[a] == 'energy':
                arr = np.asarray([base] * 3, dtype=dt)  # fixed energies: 0-d in practice
                kw[a] = scalar(base, units[a], dt)
            else:
                pb = np.asarray([base + j for j in range(2)] if dt.startswith('int') else [base * sc_ for sc_ in bin_scales[k]], dtype=dt)
                kw[a] = sc.array(dims=['pixel'], values=pb, unit=units[a], dtype=dt)
                arr = pb[list(event_bin)]
            per_event[a] = arr
            dense_kw[a] = sc.array(dims=['event'], values=arr, unit=units[a], dtype=dt)
        sub = {'units': units, 'dtypes': dmap, 'layout': 'binned_grid', 'binned_operands': [names[k] for k in bset]}
        label = f'{kernel} event data in {[names[k] for k in bset]} units {units} dtypes {dmap}'
        rec.states += 1
        rec.transitions += 2
        try:
            dense = fn(**dense_kw)
        except (sc.DTypeError, sc.UnitError) as e:
            dense = e
        try:
            res = fn(**kw)
        except (sc.DTypeError, sc.UnitError, sc.BinnedDataError, sc.DimensionError, sc.VariableError) as e:
            if isinstance(dense, Exception) and type(dense) is type(e):
                rec.cls('binned_refused_like_dense')
            elif 'int64' in dts and isinstance(e, sc.DTypeError):
                rec.cls('binned_int64_unsupported')  # "int64 where scipp supports it"
            else:
                rec.viol(site, 'raises_for_binned', f'{label}: {type(e).__name__}: {e} (the dense call on the same numbers works)', **sub)
            continue
        if isinstance(dense, Exception):
            rec.viol(site, 'raises_for_dense', f'{label}: the dense call raises {type(dense).__name__}: {dense}, the binned call works', **sub)
            continue
        if res.bins is None:
            rec.viol(site, 'not_binned', f'{label}: result is not binned', **sub)
            continue
        content = res.bins.constituents['data']
        rec.evals += 1
        if content.unit != out_unit:
            rec.viol(site, 'wrong_unit', f'{label}: event unit {content.unit!r}, documented {out_unit!r}', got_unit=str(content.unit), **sub)
            continue
        want_dt = _expected_tof_dtype(kernel, dmap)
        ok = True
        if str(content.dtype) != want_dt:
            rec.viol(site, 'wrong_dtype', f'{label}: event dtype {content.dtype}, contract {want_dt} (the dense call gives {dense.dtype})', got_dtype=str(content.dtype), **sub)
            ok = False
        if content.sizes != {'event': 3} or dict(res.sizes) != {'pixel': 2}:
            rec.viol(site, 'wrong_dims', f'{label}: result sizes {dict(res.sizes)} / events {dict(content.sizes)}', **sub)
            continue
        rec.observe(content.values.tobytes().hex())
        # differential: same numbers as dense arrays
        rec.validated += 1
        if content.dtype != dense.dtype or content.unit != dense.unit:
            rec.viol(site, 'binned_differs_from_dense', f'{label}: events are {content.dtype} [{content.unit}], the dense call on the same numbers gives {dense.dtype} [{dense.unit}]', **sub)
            ok = False
        elif not _same_to_one_ulp(content.values, dense.values):
            rec.viol(site, 'binned_differs_from_dense', f'{label}: events {content.values.tolist()}, dense call on the same numbers {dense.values.tolist()}', **sub)
            ok = False
        got = content.values.astype('float64')
        for j in range(3):
            vals = {a: float(np.asarray(per_event[a][j]).astype('float64')) for a in names}
            _judge_tof_value(rec, site, kernel, vals, units, precision(dts), float(got[j]), f'{label} event {j}', {**sub, 'event': j})
        if ok:
            rec.cls('binned_ok' if bset == (0,) else 'binned_secondary_ok')
            rec.cls('binned_equals_dense')
            if len(bset) > 1:
                rec.cls('binned_all_operands')
            if 0 not in bset and dmap[names[0]] == 'float32' and any(dmap[names[k]] == 'float64' for k in bset):
                rec.cls('binned_f64_secondary_with_f32_data')
            if 0 not in bset and dmap[names[0]] == 'float64' and any(dmap[names[k]] == 'float32' for k in bset):
                rec.cls('binned_f32_secondary_with_f64_data')
            if 'int64' in dts:
                rec.cls('binned_int64_ok')


def _run_tof_binned(case, rec, pos=0, ip=0, point=None):
    """Operand ``pos`` as event data (2 bins, 3 events), every other operand one value per bin (fixed energies: 0-d)."""
    kernel, units = case['kernel'], case['units']
    spec = TOF_KERNELS[kernel]
    fn = getattr(K, kernel)
    site = f'conversion.tof.{kernel}'
    names = [a for a, _ in spec['args']]
    kinds = dict(spec['args'])
    out_unit = sc.Unit(_tof_out_unit(kernel, units))
    scale_ev = (1.0, 1.25, 0.75)
    scale_bin = (1.0, 1.5)
    bname = names[pos]
    for dt in ('float64', 'float32'):
        dmap = {a: (dt if a == bname else 'float64') for a in names}
        if kernel in INELASTIC and pos == 0:
            dmap[INELASTIC[kernel][1]] = dt
        base = {a: arg_value(kernel, a, kinds[a], units[a], dmap[a], point)[0] for a in names}
        ev = np.asarray([base[bname] * s for s in scale_ev], dtype=dt)
        kw = {bname: _binned(ev, units[bname], dt)}
        per_bin = {}
        for a in names:
            if a == bname:
                continue
            if kinds[a] == 'energy':
                per_bin[a] = np.asarray([base[a], base[a]], dtype=dmap[a])  # fixed energies: scalar in practice
                kw[a] = scalar(base[a], units[a], dmap[a])
            else:
                per_bin[a] = np.asarray([base[a] * s for s in scale_bin], dtype=dmap[a])
                kw[a] = sc.array(dims=['pixel'], values=per_bin[a], unit=units[a], dtype=dmap[a])
        sub = {'units': units, 'dtypes': dmap, 'layout': 'binned'}
        if pos:
            sub['binned_operand'] = bname
        if ip:
            sub['point'] = ip
        label = f'{kernel} binned {"data operand" if pos == 0 else bname} units {units} dtypes {dmap}' + (f' point {ip}' if ip else '')
        rec.states += 1
        rec.transitions += 1
        try:
            res = fn(**kw)
        except sc.UnitError as e:
            rec.viol(site, 'raises_unit_error', f'{label}: {e}', **sub)
            continue
        except (sc.DTypeError, sc.BinnedDataError, sc.DimensionError, sc.VariableError, TypeError, ValueError, RuntimeError) as e:
            if pos == 0:
                raise
            rec.cls('binned_position_refused')  # event data in a non-data operand is not a documented use
            rec.observe(type(e).__name__)
            continue
        if res.bins is None:
            rec.viol(site, 'not_binned', f'{label}: result is not binned', **sub)
            continue
        content = res.bins.constituents['data']
        rec.evals += 1
        if content.unit != out_unit:
            rec.viol(site, 'wrong_unit', f'{label}: event unit {content.unit!r}, documented {out_unit!r}', got_unit=str(content.unit), **sub)
            continue
        want_dt = _expected_tof_dtype(kernel, dmap)
        if str(content.dtype) != want_dt:
            rec.viol(site, 'wrong_dtype', f'{label}: event dtype {content.dtype}, contract {want_dt}', got_dtype=str(content.dtype), **sub)
        got = content.values.astype('float64')
        if got.shape != (3,):
            rec.viol(site, 'wrong_dims', f'{label}: {got.shape} events, expected 3', **sub)
            continue
        rec.observe(got.tobytes().hex())
        evr = ev.astype('float64')
        for j in range(3):
            b = 0 if j < 2 else 1
            vals = {bname: float(evr[j])}
            for a in per_bin:
                vals[a] = float(per_bin[a].astype('float64')[b])
            _judge_tof_value(rec, site, kernel, vals, units, precision(dmap.values()), float(got[j]), f'{label} event {j}', {**sub, 'event': j})
        rec.cls('binned_ok' if pos == 0 else 'binned_secondary_ok')


# ---------------------------------------------------------------------------------------
# geometry kernels


def _length_unit_name(unit):
    for name in kin.LENGTH:
        if unit == sc.Unit(name):
            return name
    return None


def _vec_close(rec, site, label, got_comps, got_unit_factor, want_si, tol, sub, scale=None):
    """|got - want| <= tol * scale componentwise (SI)."""
    scale = scale if scale is not None else max(abs(x) for x in want_si)
    for g, w in zip(got_comps, want_si, strict=True):
        if not abs(hp.F(float(g)) * got_unit_factor - w) <= tol * scale:
            rec.viol(site, 'abs_error', f'{label}: got {list(map(float, got_comps))} (x{float(got_unit_factor):g} SI), definition {[float(x) for x in want_si]}', **sub)
            return False
    return True


def _run_geom(case, rec):
    kernel, tier = case['kernel'], case['tier']
    if kernel == 'total_beam_length':
        return _run_total_beam_length(case, rec)
    for scale in GEOM_SCALES if tier == 'thorough' else GEOM_SCALES[:1]:
        _run_geom_scaled(case, rec, scale)


def _run_geom_scaled(case, rec, scale):
    kernel, units = case['kernel'], case['units']
    site = f'conversion.beamline.{kernel}'
    fn = getattr(B, kernel)
    sub = {'units': units} if scale == 1.0 else {'units': units, 'scale': scale}
    label = f'{kernel} units {units}' + ('' if scale == 1.0 else f' positions x {scale:g}')
    tol = TOL['double']
    rec.states += 1
    rec.transitions += 1
    additive = kernel in ('straight_incident_beam', 'straight_scattered_beam', 'total_straight_beam_length_no_scatter')
    vecname = {'incident_beam': 'incident_tilt', 'gravity': 'gravity'}
    kw, si = {}, {}
    for arg, kind in GEOM_KERNELS[kernel]:
        v, comps = vector(vecname.get(arg, arg), units[arg], kind, scale if kind == 'length' else 1.0)
        kw[arg] = v
        si[arg] = si_vec(comps, units[arg], kind)
    if scale != 1.0:
        rec.cls('geom_scaled_point')
    try:
        res = fn(**kw)
    except sc.UnitError as e:
        if additive and len(set(units.values())) > 1:
            rec.cls('unit_mismatch_refused')
        else:
            rec.viol(site, 'raises_unit_error', f'{label}: {e}', **sub)
        return
    rec.evals += 1
    rec.nontrivial += 1
    rec.validated += 1
    if kernel in ('L1', 'L2', 'total_straight_beam_length_no_scatter'):
        if kernel == 'total_straight_beam_length_no_scatter':
            want = hp.norm(hp.sub(si['position'], si['source_position']))
        else:
            want = hp.norm(next(iter(si.values())))
        uname = _length_unit_name(res.unit)
        if uname is None or uname not in set(units.values()):
            rec.viol(site, 'wrong_unit', f'{label}: result unit {res.unit!r} is not the length unit of the input', got_unit=str(res.unit), **sub)
            return
        rec.observe(res.value)
        err = hp.rel_err(float(res.value), want / hp.F(kin.LENGTH[uname]))
        if not err < tol:
            rec.viol(site, 'rel_error', f'{label}: got {res.value!r} {uname}, definition {hp.mpmath.nstr(want, 17)} m, relative error {err:.3e}', **sub)
        else:
            rec.cls('geom_ok')
        rec.cls('geom_dtype_' + str(res.dtype))
    elif kernel in ('straight_incident_beam', 'straight_scattered_beam'):
        a, b = [n for n, _ in GEOM_KERNELS[kernel]]
        want = hp.sub(si[b], si[a]) if kernel == 'straight_incident_beam' else hp.sub(si[a], si[b])
        uname = _length_unit_name(res.unit)
        if uname is None or uname not in set(units.values()):
            rec.viol(site, 'wrong_unit', f'{label}: result unit {res.unit!r} is not the length unit of the inputs', got_unit=str(res.unit), **sub)
            return
        rec.observe(list(res.value))
        scale = max(max(abs(x) for x in si[a]), max(abs(x) for x in si[b]))
        if _vec_close(rec, site, label, res.value, hp.F(kin.LENGTH[uname]), want, tol, sub, scale=scale):
            rec.cls('geom_ok')
    elif kernel == 'two_theta':
        want = hp.angle_between(si['incident_beam'], si['scattered_beam'])
        if res.unit != sc.units.rad:
            rec.viol(site, 'wrong_unit', f'{label}: result unit {res.unit!r}, documented rad', got_unit=str(res.unit), **sub)
            return
        rec.observe(res.value)
        if not abs(hp.F(float(res.value)) - want) <= tol:
            rec.viol(site, 'abs_error', f'{label}: got {res.value!r} rad, definition {hp.mpmath.nstr(want, 17)}', **sub)
        else:
            rec.cls('geom_ok')
        rec.cls('geom_dtype_' + str(res.dtype))
    elif kernel == 'beam_aligned_unit_vectors':
        ex, ey, ez = kin.beam_aligned_unit_vectors(si['incident_beam'], si['gravity'])
        good = True
        for key, want in (('beam_aligned_unit_x', ex), ('beam_aligned_unit_y', ey), ('beam_aligned_unit_z', ez)):
            v = res[key]
            if v.unit != sc.units.one:
                rec.viol(site, 'wrong_unit', f'{label}: {key} has unit {v.unit!r}, expected dimensionless', got_unit=str(v.unit), **sub)
                good = False
                continue
            rec.observe(list(v.value))
            good &= _vec_close(rec, site, f'{label} {key}', v.value, hp.mpf(1), want, tol, sub, scale=hp.mpf(1))
        if good:
            rec.cls('geom_ok')
    else:
        raise ValueError(kernel)


def _run_total_beam_length(case, rec):
    units, tier = case['units'], case['tier']
    site = 'conversion.beamline.total_beam_length'
    for point, dts in itertools.product(points_of('total_beam_length', tier), dtype_grid(2, tier)):
        dmap = dict(zip(('L1', 'L2'), dts, strict=True))
        built = {a: arg_value('total_beam_length', a, 'length', units[a], dmap[a], point) for a in dmap}
        kw = {a: scalar(built[a][0], units[a], dmap[a]) for a in dmap}
        vals = {a: received(built[a][0], dmap[a]) for a in dmap}
        sub = {'units': units, 'dtypes': dmap}
        label = f'total_beam_length values {vals} units {units} dtypes {dmap}'
        rec.states += 1
        rec.transitions += 1
        try:
            res = B.total_beam_length(**kw)
        except sc.UnitError as e:
            if units['L1'] != units['L2']:
                rec.cls('unit_mismatch_refused')
            else:
                rec.viol(site, 'raises_unit_error', f'{label}: {e}', **sub)
            continue
        except sc.DTypeError as e:
            rec.viol(site, 'raises_dtype_error', f'{label}: {e}', **sub)
            continue
        rec.evals += 1
        uname = _length_unit_name(res.unit)
        if uname is None or uname not in set(units.values()):
            rec.viol(site, 'wrong_unit', f'{label}: result unit {res.unit!r} is not a unit of the inputs', got_unit=str(res.unit), **sub)
            continue
        want = (kin.to_si('length', vals['L1'], units['L1']) + kin.to_si('length', vals['L2'], units['L2'])) / hp.F(kin.LENGTH[uname])
        rec.nontrivial += 1
        rec.validated += 1
        rec.observe(res.value)
        tol = TOL['single' if str(res.dtype) == 'float32' or 'float32' in dts else 'double']
        err = hp.rel_err(float(res.value), want)
        if not err < tol:
            rec.viol(site, 'rel_error', f'{label}: got {res.value!r} {uname}, definition {hp.mpmath.nstr(want, 17)}', **sub)
        else:
            rec.cls('geom_ok')
        rec.cls('sum_dtype_' + str(res.dtype))


# ---------------------------------------------------------------------------------------
# gravity kernels


BASE_GRAVITY_UNITS = {'incident_beam': 'm', 'scattered_beam': 'm', 'wavelength': 'angstrom', 'gravity': 'm/s^2'}


def _gravity_call(kernel, variant, units, wl_value, wl_dtype, binned=False, bcast=False, sca_scale=1.0, gvec='gravity'):
    inc, inc_c = vector('incident_orth' if variant == 'orth' else 'incident_tilt', units['incident_beam'])
    sca, sca_c = vector('scattered_beam', units['scattered_beam'])
    g, g_c = vector(gvec, units['gravity'], 'accel')
    sca = sca * sca_scale  # power of two: exact
    sca_si = [[c * hp.F(sca_scale) for c in si_vec(sca_c, units['scattered_beam'])]]
    if binned:
        ev = np.asarray([wl_value, wl_value * 1.5, wl_value * 2.5], dtype=wl_dtype)
        table = sc.DataArray(sc.ones(dims=['event'], shape=[3]), coords={'x': sc.array(dims=['event'], values=ev, unit=units['wavelength'], dtype=wl_dtype)})
        wl = sc.bins(begin=sc.array(dims=['pixel'], values=[0, 2], unit=None), dim='event', data=table).bins.coords['x']
        wl_recv = ev.astype('float64')
    elif bcast:
        # wavelength on its own dim, scattered beam per pixel: the result broadcasts over both
        ev = np.asarray([wl_value, wl_value * 1.5, wl_value * 2.5], dtype=wl_dtype)
        wl = sc.array(dims=['wavelength'], values=ev, unit=units['wavelength'], dtype=wl_dtype)
        wl_recv = ev.astype('float64')
        sca = sc.concat([sca, sca * 2.0], 'pixel')
        sca_si = [sca_si[0], [c * 2 for c in sca_si[0]]]
    else:
        wl = scalar(wl_value, units['wavelength'], wl_dtype)
        wl_recv = np.asarray([received(wl_value, wl_dtype)])
    res = getattr(B, kernel)(incident_beam=inc, scattered_beam=sca, wavelength=wl, gravity=g)
    si = {
        'incident_beam': si_vec(inc_c, units['incident_beam']), 'scattered_beam': sca_si[0], 'scattered_beams': sca_si,
        'gravity': si_vec(g_c, units['gravity'], 'accel'), 'wavelength': [kin.to_si('length', float(x), units['wavelength']) for x in wl_recv],
    }
    return res, si


def _gravity_outputs(kernel, res):
    """{name: Variable} of the angle outputs."""
    return {'gamma': res} if kernel == 'scattering_angle_in_yz_plane' else {'two_theta': res['two_theta'], 'phi': res['phi']}


def _flat_values(var):
    if var.bins is not None:
        return var.bins.constituents['data']
    return var


def _run_gravity(case, rec):
    kernel, variant, units, tier = case['kernel'], case['variant'], case['units'], case['tier']
    site = f'conversion.beamline.{kernel}'
    configs = [(dt, 'scalar') for dt in DTYPES] + [('float64', 'binned'), ('float32', 'binned')] + [(dt, 'bcast') for dt in ('float64', 'float32', 'int64')]
    if tier == 'thorough':
        configs += [('int64', 'binned'), ('int32', 'bcast')]
    base_cache = {}
    gpoints = GRAVITY_POINTS if tier == 'thorough' else GRAVITY_POINTS[:1]
    for (ip, gp), (dt, layout) in itertools.product(enumerate(gpoints), configs):
        binned, bcast = layout == 'binned', layout == 'bcast'
        value, how = arg_value(kernel, 'wavelength', 'length', units['wavelength'], dt, gp)
        sub = {'units': units, 'wavelength_dtype': dt, 'variant': variant, 'binned': binned, 'layout': layout}
        label = f'{kernel} ({variant}) units {units} wavelength dtype {dt} layout {layout}'
        if ip:
            sub['point'] = ip
            label += f' point {ip} (scattered beam x {gp["scale"]:g}, {gp["gvec"]})'
            rec.cls('extra_point')
        rec.states += 1
        rec.transitions += 1
        try:
            res, si = _gravity_call(kernel, variant, units, value, dt, binned, bcast, sca_scale=gp['scale'], gvec=gp['gvec'])
        except sc.DTypeError as e:
            rec.viol(site, 'int64_wavelength_rejected', f'{label}: DTypeError: {e}', **sub)
            continue
        except sc.UnitError as e:
            rec.viol(site, 'raises_unit_error', f'{label}: {e}', **sub)
            continue
        rec.evals += 1
        want_dt = 'float32' if dt == 'float32' else 'float64'
        prec = 'single' if dt == 'float32' else 'double'
        tol = TOL[prec]
        outs = _gravity_outputs(kernel, res)
        # expected angles per (pixel, wavelength) element, pixel-major
        want = []
        for ipix, beam in enumerate(si['scattered_beams']):
            if variant == 'orth':
                for lam in si['wavelength']:
                    tt, phi, gamma = kin.gravity_angles_orthogonal(si['incident_beam'], beam, lam, si['gravity'])
                    want.append({'two_theta': tt, 'phi': phi, 'gamma': gamma})
            else:
                # differential: same physical inputs, base units, float64 (values the kernel received, re-expressed)
                for lam in si['wavelength']:
                    lb = float(kin.from_si('length', lam, 'angstrom'))
                    key = (lb, ipix, ip)
                    if key not in base_cache:
                        rb, _ = _gravity_call(kernel, variant, BASE_GRAVITY_UNITS, lb, 'float64', sca_scale=gp['scale'] * 2.0**ipix, gvec=gp['gvec'])
                        rec.transitions += 1
                        base_cache[key] = {k: hp.F(float(v.value)) for k, v in _gravity_outputs(kernel, rb).items()}
                    want.append(base_cache[key])
        rec.cls('path_orthogonal' if variant == 'orth' else 'path_generic')
        ok = True
        for name, var in outs.items():
            if (var.bins is not None) != binned:
                rec.viol(site, 'not_binned', f'{label}: {name} binned={var.bins is not None}, expected {binned}', **sub)
                ok = False
                continue
            content = _flat_values(var)
            if content.unit != sc.units.rad:
                rec.viol(site, 'wrong_unit', f'{label}: {name} has unit {content.unit!r}, documented rad', got_unit=str(content.unit), **sub)
                ok = False
                continue
            if str(content.dtype) != want_dt:
                rec.viol(site, 'wrong_dtype', f'{label}: {name} has dtype {content.dtype}, contract {want_dt} (wavelength dtype class)', got_dtype=str(content.dtype), **sub)
                ok = False
            if bcast:
                if set(content.dims) != {'pixel', 'wavelength'}:
                    rec.viol(site, 'wrong_dims', f'{label}: {name} has dims {content.dims}, expected pixel x wavelength', **sub)
                    ok = False
                    continue
                content = content.transpose(['pixel', 'wavelength']).copy()
            got = np.atleast_1d(content.values).astype('float64').ravel()
            rec.observe(got.tobytes().hex())
            if len(got) != len(want):
                rec.viol(site, 'wrong_shape', f'{label}: {name} has {len(got)} elements, expected {len(want)}', **sub)
                ok = False
                continue
            for j, w in enumerate(want):
                rec.validated += 1
                if not abs(hp.F(float(got[j])) - w[name]) <= tol:
                    rec.viol(site, 'abs_error', f'{label}: {name}[{j}] = {float(got[j])!r} rad, expected {hp.mpmath.nstr(w[name], 17)} ({"definition" if variant == "orth" else "same call in base units"}), tolerance {tol:g}', output=name, **sub)
                    ok = False
        if ok:
            rec.nontrivial += 1
            rec.cls('out_' + want_dt)
            if binned:
                rec.cls('binned_ok')
            if bcast:
                rec.cls('broadcast_ok')
            if dt.startswith('int'):
                rec.cls('int_operand_ok')
                rec.cls('int32_ok' if dt == 'int32' else 'int64_ok')
                rec.cls('fallback_int_point' if how == 'fallback' else 'same_point_int')


# ---------------------------------------------------------------------------------------
# chopper cascade kernels


def _run_chopper(case, rec):
    kernel, units, tier = case['kernel'], case['units'], case['tier']
    site = f'tof.chopper_cascade.{kernel}'
    args = CHOPPER_KERNELS[kernel]
    names = [a for a, _ in args]
    kinds = dict(args)
    fn = getattr(CC, kernel)
    for point, dts in itertools.product(points_of(kernel, tier), dtype_grid(len(names), tier)):
        dmap = dict(zip(names, dts, strict=True))
        built = {a: arg_value(kernel, a, kinds[a], units[a], dmap[a], point) for a in names}
        vals = {a: received(built[a][0], dmap[a]) for a in names}
        pos = [scalar(built[a][0], units[a], dmap[a]) for a in names]
        sub = {'units': units, 'dtypes': dmap}
        label = f'{kernel} values {vals} units {units} dtypes {dmap}'
        rec.states += 1
        rec.transitions += 1
        try:
            res = fn(*pos)
        except sc.DTypeError as e:
            rec.viol(site, 'raises_dtype_error', f'{label}: {e}', **sub)
            continue
        except sc.UnitError as e:
            rec.viol(site, 'raises_unit_error', f'{label}: {e}', **sub)
            continue
        rec.evals += 1
        rec.observe(res.value)
        lam = kin.to_si('length', vals['wavelength'], units['wavelength'])
        if kernel == 'propagate_times':
            want_unit = sc.Unit(units['time'])
            want = kin.propagate_time(kin.to_si('time', vals['time'], units['time']), lam, kin.to_si('length', vals['distance'], units['distance'])) / hp.F(kin.TIME[units['time']])
        else:
            want_unit = sc.Unit('s/m')
            want = kin.inverse_velocity(lam)
        if res.unit != want_unit:
            rec.viol(site, 'wrong_unit', f'{label}: result unit {res.unit!r}, expected {want_unit!r}', got_unit=str(res.unit), **sub)
            continue
        if str(res.dtype) not in ('float64', 'float32'):
            rec.viol(site, 'wrong_dtype', f'{label}: result dtype {res.dtype} is not a floating type', got_dtype=str(res.dtype), **sub)
            continue
        rec.cls('chopper_dtype_' + str(res.dtype) + ('_from_f32' if dts[0] == 'float32' else ''))
        rec.nontrivial += 1
        rec.validated += 1
        tol = TOL[precision([*dts, str(res.dtype)])]
        err = hp.rel_err(float(res.value), want)
        if not err < tol:
            rec.viol(site, 'rel_error', f'{label}: got {res.value!r}, definition {hp.mpmath.nstr(want, 17)}, relative error {err:.3e} >= {tol:g}', rel=err, **sub)
        else:
            rec.cls('propagate_ok')
        if any(d.startswith('int') for d in dts):
            rec.cls('int_operand_ok')
            if 'int32' in dts:
                rec.cls('int32_ok')


def run_case(case, rec):
    fam = case['family']
    if fam == 'tof':
        _run_tof(case, rec)
    elif fam == 'geom':
        _run_geom(case, rec)
    elif fam == 'gravity':
        _run_gravity(case, rec)
    elif fam == 'chopper':
        _run_chopper(case, rec)
    else:
        raise ValueError(fam)


# ---------------------------------------------------------------------------------------
# layout / reuse exploration shared by the kernel properties (props/layouts.py): every combination of operand layouts
# (0-d, 1-d over either of two dims, 2-d, 2-d transposed) must equal the element-wise 0-d calls, also after every operand
# has been overwritten in place and the kernel is called again.

from props import layouts as _layouts  # noqa: E402

_LAYOUT_SITES = ['tof.chopper_cascade.propagate_times', 'tof.chopper_cascade.wavelength_to_inverse_velocity', 'conversion.tof.time_at_sample_from_tof',
                 'conversion.beamline.scattering_angles_with_gravity/orthogonal', 'conversion.beamline.scattering_angles_with_gravity/generic', 'conversion.beamline.scattering_angle_in_yz_plane']
_cases_main, _run_case_main = cases, run_case
RULE = RULE + ' Layout cases: every combination of operand layouts (0d / 1-d a / 1-d b / 2-d ab / 2-d stored ba) per kernel x unit-dtype variant, each followed by an in-place update of all operands and a second call.'
REQUIRED_CLASSES = [*REQUIRED_CLASSES, 'layout_ok', 'reuse_after_inplace_update_ok', 'layout_transposed_operand', 'repeat_call_identical',
                    'binned_secondary_ok', 'binned_equals_dense', 'binned_all_operands', 'binned_f64_secondary_with_f32_data', 'binned_f32_secondary_with_f64_data']


def cases(tier):
    return _cases_main(tier) + _layouts.cases_for(_LAYOUT_SITES, variants=(0, 1, 2, 3, 4) if tier == 'thorough' else (0, 1, 3, 4))


def run_case(case, rec):
    if case.get('kind') == 'layout':
        _layouts.run_layout_case(case, rec)
    else:
        _run_case_main(case, rec)


REQUIRED_CLASSES = {
    'quick': list(REQUIRED_CLASSES),
    'thorough': [*REQUIRED_CLASSES, 'extra_point', 'points_1d_ok', 'geom_scaled_point', 'int64_ok', 'binned_int64_ok'],
}
