"""Layout and reuse exploration shared by the kernel properties (C01 C03 C04 C05 C07 C08).

For one kernel, enumerate **every combination of operand layouts** over a 2 x 3 index grid

    '0d'  scalar            'a'  1-d over dim a (2)        'b'  1-d over dim b (3)
    'ab'  2-d (a, b)        'ba' 2-d stored as (b, a), i.e. transposed memory order

and require *array semantics = element-wise scalar semantics*: every element of the array
result equals the result of the same kernel called with the 0-d operands of that grid
point (differential oracle, no hand-written expected value; the 0-d call itself is judged
against the reference models by the property's main grid).  Also checked: result dims =
union of operand dims, result dtype = dtype of the scalar result, no exception for any
layout combination.

Reuse (history): call, overwrite every operand **in place** with other values, call
again; the second result must be the element-wise scalar result for the *new* values
(a memo keyed by buffer identity, or an operand corrupted by the first call, shows here).

Harness side only; the kernels and argument alphabets come from props/c09_registry.py.
"""
from __future__ import annotations

import itertools

import numpy as np
import scipp as sc

from props import c09_registry as reg

NA, NB = 2, 3
LAYOUTS = ('0d', 'a', 'b', 'ab', 'ba')
_DIMS = {'0d': (), 'a': ('a',), 'b': ('b',), 'ab': ('a', 'b'), 'ba': ('a', 'b')}


def _scalar_value(spec, i, j, gen, variant):
    """0-d operand of grid point (i, j) for generation ``gen`` (0 = first call, 1 = after the in-place update)."""
    near_equal = variant >= 100  # elements that differ by a few parts per million only ("looks uniform" shortcuts)
    variant = variant % 100
    f = (1.0 + 3e-6 * i - 2e-6 * j + 0.4 * gen) if near_equal else (1.0 + 0.173 * i + 0.0391 * j + 0.4 * gen)
    if isinstance(spec, reg.A):
        base, bunit, variants = reg.KINDS[spec.kind]
        unit, dtype = variants[variant % len(variants)]
        return sc.scalar(base * spec.scale * f, unit=bunit).to(unit=unit).astype(dtype)
    if isinstance(spec, reg.Vv):
        unit = reg.VEC_UNITS[spec.kind][variant % len(reg.VEC_UNITS[spec.kind])]
        base = reg.VEC_BASE[spec.kind]
        v = np.asarray(spec.values, dtype=float)
        # perturb direction and length, keep it away from degenerate configurations
        if spec.kind == 'vacc':
            w = v * f  # gravity keeps its direction (the reflectometry kernel demands gravity perpendicular to the beam)
        else:
            # generation 1 also changes the direction (a yaw about the vertical: stays perpendicular to gravity along y)
            w = v * f + np.array([0.013 * i + 0.05 * gen, -0.021 * j, 0.0]) * (np.linalg.norm(v) + 1.0) * (1e-5 if near_equal else 1.0)
        return sc.vector(w, unit=base).to(unit=unit)
    if isinstance(spec, reg.Const):
        return spec.make2() if (gen == 1 and spec.make2 is not None) else spec.make()
    raise TypeError(spec)


def _assemble(spec, layout, gen, variant):
    if isinstance(spec, reg.Const) or layout == '0d':
        return _scalar_value(spec, 0, 0, gen, variant)
    if layout == 'a':
        return sc.concat([_scalar_value(spec, i, 0, gen, variant) for i in range(NA)], 'a')
    if layout == 'b':
        return sc.concat([_scalar_value(spec, 0, j, gen, variant) for j in range(NB)], 'b')
    rows = [sc.concat([_scalar_value(spec, i, j, gen, variant) for j in range(NB)], 'b') for i in range(NA)]
    ab = sc.concat(rows, 'a')
    if layout == 'ab':
        return ab
    return ab.transpose(['b', 'a']).copy()  # same labelled content, transposed memory order


def _index_of(layout, i, j):
    return (i if 'a' in _DIMS[layout] else 0, j if 'b' in _DIMS[layout] else 0)


def _outputs(res):
    """{name: Variable} for Variable or dict results."""
    if isinstance(res, dict):
        return dict(res)
    return {'': res}


def _close(a, b, rtol):
    a = np.asarray(a, dtype='float64')
    b = np.asarray(b, dtype='float64')
    if a.shape != b.shape:
        return False
    with np.errstate(invalid='ignore'):
        ok = (a == b) | (np.abs(a - b) <= rtol * np.maximum(np.abs(a), np.abs(b))) | (np.isnan(a) & np.isnan(b))
    return bool(np.all(ok))


# per-kernel restrictions of the layout product, each with its reason
OPTIONS = {
    # documented precondition: "Qx, Qy, Qz must have the same sizes" (dim order may differ)
    'conversion.tof.Q_vec_from_Q_elements': {'same_dims': True},
    # gravity and the incident beam are one vector each for the whole beamline (C04 varies their magnitude and direction,
    # not their shape; the kernels add per-detector terms in place and do not promise to broadcast these two)
    'conversion.beamline.scattering_angles_with_gravity/orthogonal': {'fixed': {'gravity': '0d', 'incident_beam': '0d'}},
    'conversion.beamline.scattering_angles_with_gravity/generic': {'fixed': {'gravity': '0d', 'incident_beam': '0d'}},
    'conversion.beamline.scattering_angle_in_yz_plane': {'fixed': {'gravity': '0d', 'incident_beam': '0d'}},
    'conversion.beamline.beam_aligned_unit_vectors': {'fixed': {'gravity': '0d'}},
}
# sites of the registry that hold fixed array operands (built for C09's aliasing alphabet) are not layout-explored
SKIP = tuple(k for k in reg.KERNELS if k.endswith('hkl_elements_from_hkl_vec'))


def layout_combos(site):
    _, spec = reg.KERNELS[site]
    opt = OPTIONS.get(site, {})
    fixed = opt.get('fixed', {})
    names = [n for n, s in spec.items() if not isinstance(s, reg.Const) and n not in fixed]
    out = []
    for combo in itertools.product(LAYOUTS, repeat=len(names)):
        c = dict(zip(names, combo, strict=True))
        if opt.get('same_dims') and len({frozenset(_DIMS[v]) for v in c.values()}) != 1:
            continue
        c.update(fixed)
        out.append(c)
    return out


def check_combo(rec, site_key, combo, variant=0, label=None, reuse=True):
    """One layout combination of one kernel: array call vs scalar calls, then the same after an in-place update."""
    fn, spec = reg.KERNELS[site_key]
    site = label or site_key.split('/')[0]
    names = list(spec)
    lay = {n: combo.get(n, '0d') for n in names}
    sub = {'layouts': dict(lay), 'variant': variant}
    want_dims = set()
    for n in names:
        if not isinstance(spec[n], reg.Const):
            want_dims |= set(_DIMS[lay[n]])
    args = {n: _assemble(spec[n], lay[n], 0, variant) for n in names}
    # registry sites with fixed array operands (e.g. exactly unit-length beams): only the repeat-call check applies
    const_arrays = any(isinstance(spec[n], reg.Const) and getattr(args[n], 'ndim', 0) > 0 for n in names)
    scalar_cache = {}

    def scalar_result(i, j, gen):
        key = (tuple(_index_of(lay[n], i, j) for n in names), gen)
        if key not in scalar_cache:
            sargs = {n: _scalar_value(spec[n], *_index_of(lay[n], i, j), gen, variant) for n in names}
            rec.transitions += 1
            scalar_cache[key] = _outputs(fn(**sargs))
        return scalar_cache[key]

    # All 0-d reference calls (both generations) are made *before* the array calls, with fresh operand objects, so
    # that between the first array call, the in-place update and the second array call no other call intervenes.
    gens = (0, 1) if reuse else (0,)
    try:
        for gen in gens:
            for i in range(NA if 'a' in want_dims else 1):
                for j in range(NB if 'b' in want_dims else 1):
                    scalar_result(i, j, gen)
    except (sc.UnitError, sc.DTypeError):
        pass  # judged below against the array call (both must refuse)
    for gen in gens:
        if gen == 1:
            # overwrite every operand in place with the generation-1 values (same buffers, same objects)
            for n in names:
                if isinstance(spec[n], reg.Const):
                    if spec[n].make2 is not None:
                        args[n].values = spec[n].make2().values  # e.g. the goniometer moved: same variable, new matrix
                    continue
                new = _assemble(spec[n], lay[n], 1, variant)
                args[n].values = new.values
        rec.states += 1
        rec.transitions += 1
        kind_suffix = '' if gen == 0 else '_after_inplace_update'
        try:
            res = _outputs(fn(**args))
        except (sc.UnitError, sc.DTypeError) as e:
            # unit / dtype refusals do not depend on the layout: the 0-d call must refuse too
            try:
                scalar_result(0, 0, gen)
            except type(e):
                rec.cls('layout_refused_like_scalar')
                return
            rec.viol(site, 'raises_for_layout' + kind_suffix, f'{type(e).__name__}: {e} (the 0-d call works)', **sub)
            return
        except sc.DimensionError as e:
            rec.viol(site, 'raises_for_layout' + kind_suffix, f'DimensionError: {e}', **sub)
            return
        rec.evals += 1
        ok = True
        if gen == 0:
            # calling again with the very same operand objects must give the very same answer (a first call that
            # corrupts an operand it aliases, or keeps state, shows here)
            rec.transitions += 1
            try:
                again = _outputs(fn(**args))
                same = all(sc.identical(again[k], res[k], equal_nan=True) for k in res)
            except Exception as e:  # noqa: BLE001
                same = False
                again = repr(e)
            if not same:
                rec.viol(site, 'second_call_with_same_operands_differs', f'second identical call gives a different result ({str(again)[:160]})', **sub)
                ok = False
            else:
                rec.cls('repeat_call_identical')
        if const_arrays:
            continue
        for oname, var in res.items():
            single_output = len(res) == 1
            if (set(var.dims) != want_dims) if single_output else not (set(var.dims) <= want_dims):
                # (one of several outputs may depend on a subset of the operands, e.g. the unit vector along gravity)
                rec.viol(site, 'layout_dims' + kind_suffix, f'output {oname!r} has dims {var.dims}, operands span {sorted(want_dims)}', output=oname, **sub)
                ok = False
                continue
            order = [d for d in ('a', 'b') if d in var.dims]
            arr = var.transpose(order).values if order else var.values
            ref0 = scalar_result(0, 0, gen)[oname]
            if var.dtype != ref0.dtype:
                rec.viol(site, 'layout_dtype' + kind_suffix, f'output {oname!r} has dtype {var.dtype}, the 0-d call gives {ref0.dtype}', output=oname, **sub)
                ok = False
            if var.unit != ref0.unit:
                rec.viol(site, 'layout_unit' + kind_suffix, f'output {oname!r} has unit {var.unit}, the 0-d call gives {ref0.unit}', output=oname, **sub)
                ok = False
                continue
            rtol = 1e-6 if ref0.dtype == sc.DType.float32 else 1e-14
            for i in range(NA if 'a' in var.dims else 1):
                for j in range(NB if 'b' in var.dims else 1):
                    idx = tuple(k for k, d in ((i, 'a'), (j, 'b')) if d in var.dims)
                    got = arr[idx] if idx else arr
                    want = scalar_result(i, j, gen)[oname].values
                    rec.validated += 1
                    if not _close(got, want, rtol):
                        rec.viol(site, 'layout_element_differs_from_scalar_call' + kind_suffix,
                                 f'output {oname!r} element {idx}: array call gives {np.asarray(got).tolist()}, 0-d call with the same operands gives {np.asarray(want).tolist()}', output=oname, index=list(idx), **sub)
                        ok = False
                        break
                if not ok:
                    break
            rec.observe(np.asarray(arr, dtype='float64').tobytes()[:256])
        if ok:
            rec.cls('layout_ok' if gen == 0 else 'reuse_after_inplace_update_ok')
            rec.nontrivial += 1
    if variant >= 100:
        rec.cls('layout_nearly_equal_elements')
    if len(want_dims) == 2 and any(lay[n] == 'ba' for n in names):
        rec.cls('layout_transposed_operand')
    if any(set(_DIMS[lay[n]]) == {'a'} for n in names) and any(set(_DIMS[lay[m]]) == {'b'} for m in names):
        rec.cls('layout_outer_product')


BIG_SIZES = (65536 + 3, (1 << 20) + 17)  # just above two sizes at which implementations like to switch strategy


def check_big(rec, site_key, variant=0, label=None):
    """Size equivariance: one call on a long 1-d data operand equals the same call on its slices (bitwise)."""
    fn, spec = reg.KERNELS[site_key]
    site = label or site_key.split('/')[0]
    names = list(spec)
    if not any(isinstance(spec[n], reg.A | reg.Vv) for n in names):
        return
    base = {n: _scalar_value(spec[n], 0, 0, 0, variant) for n in names}
    fixed = OPTIONS.get(site_key, {}).get('fixed', {})
    array_args = [n for n in names if isinstance(spec[n], reg.A | reg.Vv) and n not in fixed]
    # which operands are long: each array operand alone (the others 0-d), and all of them together
    choices = [array_args] if OPTIONS.get(site_key, {}).get('same_dims') else [[n] for n in array_args] + ([array_args] if len(array_args) > 1 else [])
    for size, long_names in [(size, ln) for size in BIG_SIZES for ln in choices]:
        ramp = sc.linspace('x', 0.05, 3.0, size, unit='dimensionless', dtype='float64')
        data_arg = '+'.join(long_names)
        bigs = {}
        for n in long_names:
            if isinstance(spec[n], reg.Vv):
                # long array of vectors: lengths follow the ramp, directions swing in the horizontal plane (the vertical
                # component keeps its sign and share, as for the small layouts)
                v0 = np.asarray(base[n].value, dtype='float64')
                k = np.arange(size, dtype='float64')
                w = v0[None, :] * ramp.values[:, None]
                if spec[n].kind != 'vacc':
                    w = w + np.stack([0.2 * np.sin(0.001 * k), np.zeros(size), 0.1 * np.cos(0.0007 * k)], axis=1) * (np.linalg.norm(v0) + 1.0) * ramp.values[:, None]
                bigs[n] = sc.vectors(dims=['x'], values=w, unit=base[n].unit)
            else:
                bigs[n] = (ramp * base[n].astype('float64')).astype(base[n].dtype)
        args = dict(base)
        args.update(bigs)
        sub = {'size': size, 'variant': variant, 'data_operand': data_arg}
        rec.states += 1
        rec.transitions += 1
        try:
            res = _outputs(fn(**args))
        except (sc.UnitError, sc.DTypeError):
            rec.cls('layout_refused_like_scalar')
            continue
        step = 50_000
        for oname, var in res.items():
            parts = []
            for lo in range(0, size, step):
                a2 = dict(base)
                for n in long_names:
                    a2[n] = bigs[n]['x', lo : lo + step].copy()
                rec.transitions += 1
                parts.append(_outputs(fn(**a2))[oname])
            ref = sc.concat(parts, 'x') if parts[0].ndim else None
            rec.validated += 1
            if ref is None or var.dims != ref.dims:
                continue  # output does not depend on the data operand
            if not sc.identical(var, ref, equal_nan=True):
                v, r = np.asarray(var.values), np.asarray(ref.values)
                with np.errstate(invalid='ignore'):
                    bad = np.flatnonzero(~((v == r) | (np.isnan(v) & np.isnan(r))).reshape(len(v), -1).all(axis=1))
                k = int(bad[0]) if len(bad) else -1
                rec.viol(site, 'long_array_differs_from_its_slices', f'{size} elements: output {oname!r} differs from the same call on slices of {step} at {len(bad)} positions, first index {k}: {v[k].tolist() if k >= 0 else None} vs {r[k].tolist() if k >= 0 else None}', output=oname, **sub)
                return
        rec.cls('long_array_equals_slices')
        rec.nontrivial += 1


def cases_for(sites, variants=(0,), chunk=25):
    """Case dicts {'kind': 'layout', 'site', 'combos', 'variant'} for the given registry keys."""
    out = []
    for site in sites:
        combos = layout_combos(site)
        for v in variants:
            for k in range(0, len(combos), chunk):
                out.append({'kind': 'layout', 'site': site, 'combos': combos[k : k + chunk], 'variant': v})
        # nearly equal elements (base variant only), for combinations in which some operand is an array
        combos_arr = [c for c in combos if any(v != '0d' for v in c.values())]
        for k in range(0, len(combos_arr), chunk):
            out.append({'kind': 'layout', 'site': site, 'combos': combos_arr[k : k + chunk], 'variant': 100 + variants[0]})
        if site not in SKIP and not site.startswith('conversion.beamline.two_theta/unit'):
            for v in variants[:2]:
                out.append({'kind': 'layout', 'site': site, 'combos': [], 'variant': v, 'big': True})
    return out


def run_layout_case(case, rec):
    for combo in case['combos']:
        check_combo(rec, case['site'], combo, case.get('variant', 0))
    if case.get('big'):
        check_big(rec, case['site'], case.get('variant', 0))
