"""C04 - gravity-corrected angles follow the documented construction on every code path.

Shape G.  One case = (frame, |b1| and its unit, unit of b2, tilt of b1 out of the
horizontal, |g| and its unit, L2); inside: 14 detector directions x 6 wavelengths through
4 wavelength layouts (0-d, dense 1-d, dense 2-d, binned) x 2 wavelength dtypes, for
``scattering_angles_with_gravity`` and ``scattering_angle_in_yz_plane``, plus the same
configuration at tilt 0 (continuity baseline) and the gravity-free kernel (limits).
Oracle: ref/gravity.py = the construction written in the docstrings, at 50 digits, on
the float values handed over.
"""
from __future__ import annotations

import math

import numpy as np
import scipp as sc
from scippneutron.conversion import beamline as bl

from props import geom_common as gc
from ref import geom, gravity as gr, hp

ID = 'C04'
LEVEL = 'model_checking'
RULE = (
    'full product of frame {lab, cube-rotated, generic-rotated, lab turned by pi about y (beam along -z), lab turned by pi about x (gravity +y)} x (|b1|, unit) x unit of b2 x tilt alphabet '
    '(s = |b1| sin(tau) in {0, 1e-12, 0.9e-10, 1.1e-10, 1e-9, 1e-6, 1e-3} length units of b1 and tau in {0.3, 1} rad, both signs) '
    'x |g| x unit of g x L2; inside each case 14 detector directions x 6 wavelengths x 4 layouts x 2 dtypes x 2 functions; '
    'a configuration is non-trivial when the documented drop delta changes 2theta by more than 1e-9 rad '
    '(so sign and size of the correction are visible); distinct = distinct (case, detector, wavelength) triples'
)
ASSUMPTIONS = [
    'h and m_n as exposed by scipp.constants',
    "L2' ~ L2 as documented (the approximation is part of the documented construction)",
    'below the 1e-10 dispatch threshold the documented "equivalent" in-plane formula may be used: tolerance there is '
    '1e-12 + 1.01*tilt (angle triangle inequality), above it 1e-12 rad (float64) / 2e-6 rad (float32 wavelength)',
    'phi and the reflectometry angle carry a conditioning term 8 eps (L2+delta)/rho; rho = 0 (or below 1e-25 L2 for float32, '
    'where delta underflows) is "ill defined" and not judged',
    'configurations whose |g.b1|/|g| lies within 5% of 1e-10 length units are "do not care" for the expected path',
    'wavelength unit angstrom only; wavelength values are float32-representable so one reference serves both dtypes',
    'violation kinds: a 2theta that fails the documented construction but equals angle(b1, b2 - delta e_y) to the same tolerance is '
    'labelled ..._uses_lowered_beam_... / discontinuous_in_tilt_lowered_beam (one recognisable wrong construction); every other '
    'failure keeps the generic kind, so the two can be told apart; one violation per (site, kind) per case, worst offender kept',
]
BOUND = {
    'quick': '2 exact half turns of the lab frame (beam along -z; gravity -y / +y) x 17 tilts + 3 frames x {(1 m, b2 in mm), (10 mm, b2 in m)} x 17 tilts x |g| in {1e-30, 9.81, 100} x one L2 of {0.1, 5, 100} m each; 14 detectors x 6 wavelengths',
    'thorough': '5 frames (lab, cube, generic, two half turns of the lab frame) x |b1| {1, 10} x units {m, mm}^2 x 23 tilts (s in {0, 1e-12, 0.9e-10, 1.1e-10, 1e-9, 1e-8, 1e-6, 1e-4, 1e-3}, tau in '
                '{0.3, 1, 1.5} rad, both signs) x |g| {1e-30, 1e-11, 1, 9.81, 100} x {m/s^2, mm/s^2} x L2 {0.1, 5, 100} m; inside 20 detector '
                'directions (incl. nearly forward / backward / sideways) x 9 wavelengths {0, 1e-3, 0.1, 1, 1.8, 6, 20, 50, 100} angstrom x 4 layouts x '
                '{float64, float32} + int64 wavelengths (dense 1-d and binned)',
}
REQUIRED_CLASSES = [
    'generic_path', 'orthogonal_path', 'tilt_just_below_threshold', 'tilt_just_above_threshold',
    'correction_visible', 'correction_negligible', 'layout_scalar', 'layout_dense1d', 'layout_dense2d', 'layout_binned',
    'dtype_float64', 'dtype_float32', 'empty_bin', 'phi_ill_defined', 'phi_judged', 'yz_raises_ValueError', 'yz_value_judged',
    'continuity_judged', 'limit_judged', 'above_horizontal_judged', 'frame_lab', 'frame_cube', 'frame_generic', 'frame_lab_reversed', 'frame_lab_upside_down', 'mixed_incident_array',
]

SITE = 'conversion.beamline.scattering_angles_with_gravity'
SITE_YZ = 'conversion.beamline.scattering_angle_in_yz_plane'

S_TILTS = (0.0, 1e-12, 0.9e-10, 1.1e-10, 1e-9, 1e-6, 1e-3)
TAU_TILTS = (0.3, 1.0)
G_MAGS = (9.81, 1e-30, 100.0, 1e-11, 1.0)
L2S = (5.0, 0.1, 100.0)
LAMBDAS_QUICK = tuple(float(np.float32(x)) for x in (0.0, 1e-3, 1.8, 6.0, 20.0, 100.0))
# thorough tier: every decade 1e-3..100 angstrom (0.01 left to C08), 50, and six integer values for the int64 runs
LAMBDAS_DEEP = (*LAMBDAS_QUICK, *(float(np.float32(x)) for x in (0.1, 1.0, 50.0)))
LAMBDAS = LAMBDAS_QUICK  # rebound per case by run_case (quick / deep alphabet)
_D = [
    (0, 1, 0), (0, -1, 0), (1, 0, 0), (-1, 0, 0), (0, 0, 1), (0, 0, -1), (0, 1, 1), (0, -1, 1),
    (1, 0, 1), (-1, 0, -1), (1, 1, 1), (-1, 1, -1), (1, -1, 1), (0.3, 0.2, 0.9),
]
DETS_QUICK = [gc.unit_dir(tuple(float(c) for c in d)) for d in _D]
# thorough tier: nearly forward / backward / sideways detectors (phi and gamma ill-conditioned or nearly so) and two generic ones
_D_DEEP = [(1e-3, 1e-3, 1), (0, 1e-6, 1), (0, -1e-3, -1), (1, 1e-3, 0), (-0.6, 0.64, 0.48), (0.5, -0.5, -0.7071)]
DETS_DEEP = [*DETS_QUICK, *(gc.unit_dir(tuple(float(c) for c in d)) for d in _D_DEEP)]
DETS = DETS_QUICK  # rebound per case by run_case
S_TILTS_DEEP = (*S_TILTS, 1e-8, 1e-4)
TAU_TILTS_DEEP = (*TAU_TILTS, 1.5)
LEN_F = {'m': 1.0, 'mm': 1000.0}
CUBE_FRAME = ((1, 1), (2, 1), (0, 1))  # (x, y, z) -> (y, z, x), exact
# exact half turns of the lab frame (round 6): about y (gravity still -y, horizontal beam along -z) and about x (gravity +y, beam along -z)
HALF_TURN_FRAMES = {3: ((0, -1), (1, 1), (2, -1)), 4: ((0, 1), (1, -1), (2, -1))}
FRAME_CLS = ('frame_lab', 'frame_cube', 'frame_generic', 'frame_lab_reversed', 'frame_lab_upside_down')
BASE_TOL = {'float64': 1e-12, 'float32': 2e-6, 'int64': 1e-12}
EPS = {'float64': 2.0**-52, 'float32': 2.0**-23, 'int64': 2.0**-52}
# below this fraction of L2 a length is lost to underflow of intermediate products (only reached with |g| = 1e-30)
FLOOR = {'float64': 1e-250, 'float32': 1e-25, 'int64': 1e-250}


# per-element incident beams with mixed tilts in one array (positive = pointing upwards, against gravity); assigned
# cyclically to the elements of the incident-beam array.  The dispatch / refusal must look at every element:
# "horizontal + up" has max(g.b1) = 0, "horizontal + down" has min(g.b1) = 0, "below + up" hides the tilt behind a
# sub-threshold element of the other sign.
TILT_PATTERNS = [
    ('all horizontal', [{'s': 0.0}, {'s': 0.0}, {'s': 0.0}]),
    ('horizontal + up', [{'s': 0.0}, {'s': 1e-6}, {'s': 1e-3}]),
    ('horizontal + down', [{'s': 0.0}, {'s': -1e-6}, {'s': -1e-3}]),
    ('up + down', [{'s': 1e-3}, {'s': -1e-6}, {'tau': 0.3}]),
    ('all below threshold, both signs', [{'s': 0.9e-10}, {'s': -0.9e-10}, {'s': 1e-12}]),
    ('below threshold (down) + strongly up', [{'s': -0.9e-10}, {'s': 0.9e-10}, {'tau': 0.3}]),
    ('below threshold (up) + strongly down', [{'s': 0.9e-10}, {'tau': -1.0}, {'s': 0.0}]),
    ('up + horizontal last', [{'tau': 0.2}, {'s': 1e-6}, {'s': 0.0}]),
    ('just above threshold (up) + horizontal', [{'s': 1.1e-10}, {'s': 0.0}, {'s': 0.0}]),
    ('just above threshold (down) + horizontal', [{'s': -1.1e-10}, {'s': 0.0}, {'s': 0.0}]),
    ('all up', [{'s': 1e-9}, {'s': 1e-6}, {'tau': 1.0}]),
    ('all down', [{'s': -1e-9}, {'s': -1e-6}, {'tau': -0.3}]),
]
# incident_beam: one per detector pixel / one per event (the wavelength dimension) / one per (pixel, event), stored either way
INCIDENT_LAYOUTS = ('det', 'event', 'both', 'both_transposed')
TILTMIX_DETS = (0, 3, 6, 10, 13)
TILTMIX_LAMS = (2, 3, 4)  # indices into LAMBDAS: 1.8, 6, 20 angstrom


def _tilts(deep=False):
    out = [{'s': 0.0}]
    for s in (S_TILTS_DEEP if deep else S_TILTS)[1:]:
        out += [{'s': s}, {'s': -s}]
    for t in TAU_TILTS_DEEP if deep else TAU_TILTS:
        out += [{'tau': t}, {'tau': -t}]
    return out


def cases(tier):
    out = []
    if tier == 'quick':
        for frame in range(3):
            for L, u1, u2 in ((1.0, 'm', 'mm'), (10.0, 'mm', 'm')):
                for gi, g in enumerate(G_MAGS[:3]):
                    for tilt in _tilts():
                        out.append({'kind': 'angles', 'frame': frame, 'L': L, 'u1': u1, 'u2': u2, 'tilt': tilt, 'g': g,
                                    'gu': 'm/s^2' if (gi + frame) % 2 == 0 else 'mm/s^2', 'L2': L2S[(frame + gi) % 3]})
        for frame in (3, 4):
            for tilt in _tilts():
                out.append({'kind': 'angles', 'frame': frame, 'L': 1.0 if frame == 3 else 25.0, 'u1': 'm', 'u2': 'm', 'tilt': tilt, 'g': 9.81, 'gu': 'm/s^2', 'L2': 5.0})
        for frame in range(3):
            out.append({'kind': 'mixed', 'frame': frame, 'L': 1.0, 'u1': 'm', 'u2': 'm', 'g': 9.81, 'gu': 'm/s^2', 'L2': 5.0})
        for frame in range(3):
            for L, u1 in ((1.0, 'm'), (10.0, 'mm')):
                for pat in range(len(TILT_PATTERNS)):
                    for layout in INCIDENT_LAYOUTS:
                        out.append({'kind': 'tiltmix', 'frame': frame, 'L': L, 'u1': u1, 'u2': 'm', 'g': 9.81, 'gu': 'm/s^2', 'L2': 5.0, 'pattern': pat, 'layout': layout})
        return out + _binrep_cases()
    for frame in range(5):
        for L in (1.0, 10.0):
            for u1 in ('m', 'mm'):
                for u2 in ('m', 'mm'):
                    for g in G_MAGS:
                        for gu in ('m/s^2', 'mm/s^2'):
                            for L2 in L2S:
                                for tilt in _tilts(deep=True):
                                    out.append({'kind': 'angles', 'deep': True, 'frame': frame, 'L': L, 'u1': u1, 'u2': u2, 'tilt': tilt, 'g': g, 'gu': gu, 'L2': L2})
    for frame in range(3):
        for u1 in ('m', 'mm'):
            for g in (9.81, 1e-30):
                for L2 in L2S:
                    out.append({'kind': 'mixed', 'deep': True, 'frame': frame, 'L': 1.0, 'u1': u1, 'u2': 'm', 'g': g, 'gu': 'm/s^2', 'L2': L2})
    for frame in range(3):
        for L, u1 in ((1.0, 'm'), (10.0, 'mm'), (10.0, 'm')):
            for u2 in ('m', 'mm'):
                for g, gu in ((9.81, 'm/s^2'), (100.0, 'mm/s^2'), (1e-30, 'm/s^2')):
                    for L2 in L2S:
                        for pat in range(len(TILT_PATTERNS)):
                            for layout in INCIDENT_LAYOUTS:
                                out.append({'kind': 'tiltmix', 'frame': frame, 'L': L, 'u1': u1, 'u2': u2, 'g': g, 'gu': gu, 'L2': L2, 'pattern': pat, 'layout': layout})
    return out + _binrep_cases()


# ---------------------------------------------------------------------------------------


def _to_frame(frame, v):
    if frame == 0:
        return [float(x) for x in v]
    if frame == 1:
        return [float(x) for x in geom.apply_cube(CUBE_FRAME, list(v))]
    if frame in HALF_TURN_FRAMES:
        return [float(x) + 0.0 for x in geom.apply_cube(HALF_TURN_FRAMES[frame], list(v))]  # + 0.0: no negative zeros
    return [float(x) for x in gc.GENERIC[0] @ np.asarray(v, dtype=float)]


def _incident(L, tilt):
    if 's' in tilt:
        s = tilt['s']
        return (0.0, s, math.sqrt(L * L - s * s))
    t = tilt['tau']
    return (0.0, L * math.sin(t), L * math.cos(t))


def _si(v, unit):
    f = hp.F(hp.LENGTH[unit])
    return [hp.mpf(x) * f for x in v]


Worst = gc.Worst


def _lam_idx(dtype):
    """Indices of the wavelength alphabet used with this dtype (int64: the integer-valued ones)."""
    if dtype == 'int64':
        return [i for i, x in enumerate(LAMBDAS) if float(x).is_integer()]
    return list(range(len(LAMBDAS)))


def _wavelength(layout, dtype, ndet):
    """Returns (variable, per-bin event counts or None)."""
    lam = np.asarray([LAMBDAS[i] for i in _lam_idx(dtype)], dtype=dtype)
    if layout == 'dense1d':
        return sc.array(dims=['wavelength'], values=lam, unit='angstrom', dtype=dtype), None
    if layout == 'dense2d':
        return sc.array(dims=['det', 'wavelength'], values=np.tile(lam, (ndet, 1)), unit='angstrom', dtype=dtype), None
    if layout == 'binned':
        counts = [len(lam) - (k % (len(lam) + 1)) for k in range(ndet)]  # n, n-1, ..., 1, 0, n, ...
        flat = np.concatenate([lam[:c] for c in counts]) if sum(counts) else lam[:0]
        begin = np.cumsum([0, *counts[:-1]])
        data = sc.array(dims=['event'], values=flat, unit='angstrom', dtype=dtype)
        var = sc.bins(dim='event', data=data, begin=sc.array(dims=['det'], values=begin, unit=None, dtype='int64'),
                      end=sc.array(dims=['det'], values=begin + np.asarray(counts), unit=None, dtype='int64'))
        return var, counts
    raise ValueError(layout)


def _extract(res, layout, counts, nlam, ndet, idx=None):
    """-> dict (i, k) -> float value for every element present; idx maps the position in the wavelength array to the
    index i in LAMBDAS (default: identity)."""
    idx = list(range(nlam)) if idx is None else idx
    out = {}
    if layout == 'binned':
        flat = res.bins.constituents['data'].values
        pos = 0
        for k in range(ndet):
            for i in range(counts[k]):
                out[(idx[i], k)] = float(flat[pos])
                pos += 1
        return out
    vals = res.transpose(['wavelength', 'det']).values
    for i in range(len(idx)):
        for k in range(ndet):
            out[(idx[i], k)] = float(vals[i][k])
    return out


def _elem_unit(v):
    return v.bins.unit if v.bins is not None else v.unit


def _references(b1, u1, b2s, u2, gvec, gu):
    """refs[(i,k)] for every wavelength x detector; b1 may be one vector or one per detector."""
    g_si = [hp.mpf(x) * hp.F(gr.ACCEL[gu]) for x in gvec]
    per_det = isinstance(b1[0], list | tuple)
    refs = {}
    for k, b2 in enumerate(b2s):
        b1_si = _si(b1[k] if per_det else b1, u1)
        b2_si = _si(b2, u2)
        for i, lam in enumerate(LAMBDAS):
            refs[(i, k)] = gr.angles(b1_si, b2_si, hp.mpf(lam) * hp.ANGSTROM, g_si)
    return refs


def _path(refs, u1, rec):
    """Expected dispatch from the 50-digit |g.b1|/|g| in the length unit of b1: 'generic' / 'orthogonal' / None."""
    f = hp.F(hp.LENGTH[u1])
    devs = {abs(r['g_dot_b1_over_g']) / f for r in refs.values()}
    hi = max(devs)
    if hi > hp.mpf('1.05e-10'):
        return 'generic'
    if hi < hp.mpf('0.95e-10'):
        return 'orthogonal'
    rec.cls('near_threshold_dont_care')
    return None


def _judge_angles(rec, W, got_tt, got_phi, refs, path, dtype, label, case_sub):
    base = BASE_TOL[dtype]
    eps = EPS[dtype]
    for key, r in refs.items():
        if key not in got_tt:
            continue
        i, k = key
        sub = dict(case_sub, lam=LAMBDAS[i], det=k, path=path, layout=label, dtype=dtype)
        rec.evals += 2
        rec.validated += 2
        g2, gp = got_tt[key], got_phi[key]
        rec.observe(g2, gp)
        tol = base + (1.01 * float(r['tilt']) if path == 'orthogonal' else 0.0)
        if not math.isfinite(g2) or abs(hp.mpf(g2) - r['two_theta']) > tol:
            err = float(abs(hp.mpf(g2) - r['two_theta'])) if math.isfinite(g2) else float('inf')
            # label the one recognisable wrong construction (beam moved along gravity instead of against it)
            lowered = math.isfinite(g2) and abs(hp.mpf(g2) - r['two_theta_lowered']) <= tol
            W.add(SITE, f'two_theta_uses_lowered_beam_{path}_path' if lowered else f'two_theta_mismatch_{path}_path', err / tol,
                  f'2theta={g2!r}, documented construction {float(r["two_theta"])!r} (gravity-free {float(r["two_theta_free"])!r}); '
                  f'|diff|={err:.3e} > tol {tol:.2e}', **sub)
        rho = r['rho']
        scale = r['L2'] + r['delta']  # b2.e_x, b2.e_y carry an absolute error of eps |b2|
        if rho <= FLOOR[dtype] * r['L2'] or 8 * eps * scale / rho > 0.05:
            rec.cls('phi_ill_defined')
        else:
            rec.cls('phi_judged')
            tolp = base + float(8 * eps * scale / rho)
            if not math.isfinite(gp) or gr.wrap_diff(gp, r['phi']) > tolp:
                err = float(gr.wrap_diff(gp, r['phi'])) if math.isfinite(gp) else float('inf')
                W.add(SITE, f'phi_mismatch_{path}_path', err / tolp,
                      f'phi={gp!r}, documented atan2(y_d+delta, x_d)={float(r["phi"])!r}; |diff|={err:.3e} > tol {tolp:.2e}', **sub)


def _judge_yz(rec, W, got, refs, dtype, label, case_sub):
    base = BASE_TOL[dtype]
    eps = EPS[dtype]
    for key, r in refs.items():
        if key not in got:
            continue
        i, k = key
        sub = dict(case_sub, lam=LAMBDAS[i], det=k, layout=label, dtype=dtype)
        h = hp.mpmath.sqrt(r['y_raised'] ** 2 + r['z_d'] ** 2)
        scale = r['L2'] + r['delta']
        if h <= FLOOR[dtype] * r['L2'] or 8 * eps * scale / h > 0.05:
            rec.cls('yz_ill_defined')
            continue
        rec.cls('yz_value_judged')
        rec.evals += 1
        rec.validated += 1
        g = got[key]
        rec.observe(g)
        tol = base + float(8 * eps * scale / h)
        if not math.isfinite(g) or abs(hp.mpf(g) - r['gamma']) > tol:
            err = float(abs(hp.mpf(g) - r['gamma'])) if math.isfinite(g) else float('inf')
            W.add(SITE_YZ, 'gamma_mismatch', err / tol, f'gamma={g!r}, documented atan2(|y_d+delta|, z_d)={float(r["gamma"])!r}; |diff|={err:.3e} > tol {tol:.2e}', **sub)


def _call_angles(b1v, b2v, lamv, gv):
    res = bl.scattering_angles_with_gravity(incident_beam=b1v, scattered_beam=b2v, wavelength=lamv, gravity=gv)
    return res['two_theta'], res['phi']


def run_case(case, rec):
    global LAMBDAS, DETS  # noqa: PLW0603 - the alphabet of the tier this case belongs to; set before anything else runs
    LAMBDAS, DETS = (LAMBDAS_DEEP, DETS_DEEP) if case.get('deep') else (LAMBDAS_QUICK, DETS_QUICK)
    if case['kind'] == 'mixed':
        return _run_mixed(case, rec)
    if case['kind'] == 'tiltmix':
        return _run_tiltmix(case, rec)
    if case['kind'] == 'binrep':
        return _run_binrep(case, rec)
    frame, L, u1, u2, L2 = case['frame'], case['L'], case['u1'], case['u2'], case['L2']
    rec.cls(FRAME_CLS[frame])
    b1 = _to_frame(frame, _incident(L, case['tilt']))
    b1_flat = _to_frame(frame, (0.0, 0.0, L))
    gvec = _to_frame(frame, (0.0, -case['g'], 0.0))
    b2s = [_to_frame(frame, [c * L2 * LEN_F[u2] for c in d]) for d in DETS]
    nd, nl = len(b2s), len(LAMBDAS)
    case_sub = {'b1': b1, 'gravity': gvec}
    W = Worst()

    refs = _references(b1, u1, b2s, u2, gvec, case['gu'])
    path = _path(refs, u1, rec)
    tilt_s = case['tilt'].get('s')
    if path:
        rec.cls(path + '_path')
    if tilt_s is not None and abs(tilt_s) == 0.9e-10 and path == 'orthogonal':
        rec.cls('tilt_just_below_threshold')
    if tilt_s is not None and abs(tilt_s) == 1.1e-10 and path == 'generic':
        rec.cls('tilt_just_above_threshold')
    for key, r in refs.items():
        rec.states += 1
        if abs(r['two_theta'] - r['two_theta_free']) > 1e-9:
            rec.nontrivial += 1
            rec.cls('correction_visible')
        else:
            rec.cls('correction_negligible')

    b1v, gv = gc.vec(b1, u1), gc.vec(gvec, case['gu'])
    b2v = gc.vecs(b2s, u2, dim='det')
    results64 = None
    for dtype in ('float64', 'float32', 'int64') if case.get('deep') else ('float64', 'float32'):
        idx = _lam_idx(dtype)
        for layout in ('scalar', 'dense1d', 'dense2d', 'binned'):
            if dtype == 'int64' and layout in ('scalar', 'dense2d'):
                continue
            rec.cls('layout_' + layout)
            rec.cls('dtype_' + dtype)
            if layout == 'scalar':
                # 0-d operands: detector #10 (1,1,1) with 1.8 angstrom and detector #6 with 6 angstrom
                got_tt, got_phi, got_yz, raised = {}, {}, {}, None
                for (i, k) in ((2, 10), (3, 6), (5, 0)):
                    lamv = sc.scalar(LAMBDAS[i], unit='angstrom', dtype=dtype)
                    tt, ph = _call_angles(b1v, gc.vec(b2s[k], u2), lamv, gv)
                    rec.transitions += 2
                    _check_units(rec, tt, ph)
                    got_tt[(i, k)], got_phi[(i, k)] = float(tt.value), float(ph.value)
                    try:
                        yz = bl.scattering_angle_in_yz_plane(incident_beam=b1v, scattered_beam=gc.vec(b2s[k], u2), wavelength=lamv, gravity=gv)
                        got_yz[(i, k)] = float(yz.value)
                        raised = False if raised is None else raised
                    except ValueError:
                        raised = True
                counts = None
            else:
                lamv, counts = _wavelength(layout, dtype, nd)
                if counts is not None and 0 in counts:
                    rec.cls('empty_bin')
                tt, ph = _call_angles(b1v, b2v, lamv, gv)
                rec.transitions += 2
                _check_units(rec, tt, ph)
                got_tt = _extract(tt, layout, counts, nl, nd, idx)
                got_phi = _extract(ph, layout, counts, nl, nd, idx)
                try:
                    yz = bl.scattering_angle_in_yz_plane(incident_beam=b1v, scattered_beam=b2v, wavelength=lamv, gravity=gv)
                    got_yz = _extract(yz, layout, counts, nl, nd, idx)
                    raised = False
                    if _elem_unit(yz) != sc.Unit('rad'):
                        W.add(SITE_YZ, 'wrong_unit', 1.0, f'unit {_elem_unit(yz)}')
                except ValueError:
                    raised = True
                    got_yz = {}
            if path is not None:
                _judge_angles(rec, W, got_tt, got_phi, refs, path, dtype, layout, case_sub)
                # reflectometry variant: refuses iff clearly not perpendicular
                rec.evals += 1
                if path == 'generic':
                    if raised:
                        rec.cls('yz_raises_ValueError')
                    else:
                        W.add(SITE_YZ, 'accepts_non_perpendicular_beam', 1.0,
                              f'|g.b1|/|g| = {float(max(abs(r["g_dot_b1_over_g"]) for r in refs.values())):.3e} m but no ValueError', layout=layout, dtype=dtype, **case_sub)
                else:
                    if raised:
                        W.add(SITE_YZ, 'refuses_perpendicular_beam', 1.0, 'ValueError for a beam within 1e-10 of perpendicular', layout=layout, dtype=dtype, **case_sub)
                    else:
                        _judge_yz(rec, W, got_yz, refs, dtype, layout, case_sub)
            if dtype == 'float64' and layout == 'dense1d':
                results64 = (got_tt, got_phi)

    got_tt, got_phi = results64
    # limits: lambda -> 0 or g -> 0 gives the gravity-free kernel
    free = bl.two_theta(incident_beam=b1v, scattered_beam=b2v).values
    rec.transitions += 1
    for key, r in refs.items():
        i, k = key
        if r['delta'] <= hp.mpf('1e-14') * r['L2']:
            rec.cls('limit_judged')
            rec.evals += 1
            tol = 2e-12 + (1.01 * float(r['tilt']) if path == 'orthogonal' else 0.0)
            if path is not None and abs(got_tt[key] - float(free[k])) > tol:
                W.add(SITE, 'limit_not_gravity_free', abs(got_tt[key] - float(free[k])) / tol,
                      f'delta/L2={float(r["delta"] / r["L2"]):.1e} but 2theta={got_tt[key]!r} vs two_theta kernel {float(free[k])!r}', lam=LAMBDAS[i], det=k, **case_sub)
    # detectors above a horizontal beam: larger than the gravity-free angle
    if path == 'orthogonal':
        for key, r in refs.items():
            i, k = key
            if r['y_d'] > 0 and r['z_d'] > 0 and r['two_theta'] - r['two_theta_free'] > 1e-9:
                rec.cls('above_horizontal_judged')
                rec.evals += 1
                if not got_tt[key] > float(free[k]):
                    W.add(SITE, 'not_larger_above_horizontal_beam', 1.0,
                          f'detector above the beam: 2theta with gravity {got_tt[key]!r} <= gravity-free {float(free[k])!r}', lam=LAMBDAS[i], det=k, **case_sub)
    # continuity in the tilt: b2 + delta e_y does not depend on b1, so the documented 2theta is 1-Lipschitz in the
    # direction of b1, and phi does not change for a tilt inside the plane spanned by g and b1.
    small = ('s' in case['tilt'] and case['tilt']['s'] != 0.0) or False
    if small:
        tt0, ph0 = _call_angles(gc.vec(b1_flat, u1), b2v, _wavelength('dense1d', 'float64', nd)[0], gv)
        rec.transitions += 2
        tt0 = _extract(tt0, 'dense1d', None, nl, nd)
        ph0 = _extract(ph0, 'dense1d', None, nl, nd)
        turn = float(geom.two_theta(b1, b1_flat))
        for key, r in refs.items():
            i, k = key
            rec.cls('continuity_judged')
            rec.evals += 1
            tol = 1.01 * turn + 2e-12
            d = abs(got_tt[key] - tt0[key])
            if d > tol:
                lowered = abs(hp.mpf(got_tt[key]) - r['two_theta_lowered']) <= 1e-12
                W.add(SITE, 'discontinuous_in_tilt_lowered_beam' if lowered else 'discontinuous_in_tilt', d / tol,
                      f'tilting b1 by {turn:.3e} rad changes 2theta by {d:.3e} rad ({tt0[key]!r} at tilt 0 -> {got_tt[key]!r}); '
                      f'documented construction allows at most the tilt itself', lam=LAMBDAS[i], det=k, tilt_rad=turn, **case_sub)
    W.emit(rec)


def _check_units(rec, tt, ph):
    if _elem_unit(tt) != sc.Unit('rad') or _elem_unit(ph) != sc.Unit('rad'):
        rec.viol(SITE, 'wrong_unit', f'units {_elem_unit(tt)}, {_elem_unit(ph)}; expected rad')


def _run_mixed(case, rec):
    """Per-detector incident beams with different tilts in one call (dispatch uses any())."""
    frame, L, u1, u2, L2 = case['frame'], case['L'], case['u1'], case['u2'], case['L2']
    rec.cls(FRAME_CLS[frame])
    rec.cls('mixed_incident_array')
    tilts = [{'s': 0.0}, {'s': 1e-6}, {'s': -1e-3}, {'tau': 0.3}, {'s': 0.0}, {'s': 1e-12}, {'tau': -1.0}]
    b2s = [_to_frame(frame, [c * L2 * LEN_F[u2] for c in d]) for d in DETS]
    b1s = [_to_frame(frame, _incident(L, tilts[k % len(tilts)])) for k in range(len(b2s))]
    gvec = _to_frame(frame, (0.0, -case['g'], 0.0))
    W = Worst()
    refs = _references(b1s, u1, b2s, u2, gvec, case['gu'])
    path = _path(refs, u1, rec)
    rec.cls(path + '_path')
    for r in refs.values():
        rec.states += 1
        if abs(r['two_theta'] - r['two_theta_free']) > 1e-9:
            rec.nontrivial += 1
    b1v, b2v, gv = gc.vecs(b1s, u1, dim='det'), gc.vecs(b2s, u2, dim='det'), gc.vec(gvec, case['gu'])
    for dtype in ('float64', 'float32'):
        for layout in ('dense1d', 'dense2d', 'binned'):
            lamv, counts = _wavelength(layout, dtype, len(b2s))
            tt, ph = _call_angles(b1v, b2v, lamv, gv)
            rec.transitions += 2
            _check_units(rec, tt, ph)
            _judge_angles(rec, W, _extract(tt, layout, counts, len(LAMBDAS), len(b2s)), _extract(ph, layout, counts, len(LAMBDAS), len(b2s)),
                          refs, path, dtype, 'mixed_' + layout, {'b1': 'per-detector tilts', 'gravity': gvec})
    W.emit(rec)


# ---------------------------------------------------------------------------------------
# binned-representation family: the same event lists handed over in every way scipp can store them

BR_SIZES = ((0, 1, 3), (2, 1, 4))  # events per pixel of a (row, col) = 2 x 3 detector: empty, single, several
BR_EVENTS = (1.8, 6.0, 20.0, 0.5, 4.0, 2.5, 9.0, 12.0, 1.0, 3.3, 7.7)  # angstrom, in pixel order
BR_REPRESENTATIONS = (
    'fresh_2d', 'fresh_1d', 'transposed_view', 'transposed_both', 'reversed_buffer_2d', 'reversed_buffer_with_gaps_1d',
    'slice_row', 'slice_col_range', 'slice_pixel_range', 'slice_of_reversed',
)
BR_TILTS = ({'s': 0.0}, {'tau': 0.02}, {'tau': -0.3}, {'s': 0.9e-10})


def _binrep_cases():
    return [{'kind': 'binrep', 'frame': frame, 'tilt': tilt, 'rep': rep, 'copy': cp}
            for frame in (0, 2) for tilt in BR_TILTS for rep in BR_REPRESENTATIONS for cp in (False, True)]


def _br_build(rep, frame):
    """-> (wavelength variable, scattered_beam variable, {index dict (as tuple of (dim, i)) : (events, b2)}, parent buffer or None)."""
    nrow, ncol = len(BR_SIZES), len(BR_SIZES[0])
    sizes = [n for row in BR_SIZES for n in row]
    ev = {}
    pos = 0
    for r in range(nrow):
        for c in range(ncol):
            n = BR_SIZES[r][c]
            ev[(r, c)] = list(BR_EVENTS[pos:pos + n])
            pos += n
    b2 = {(r, c): _to_frame(frame, (-0.6 + 0.6 * c, -0.5 + 1.2 * r, 4.0 + 0.1 * (r * ncol + c))) for r in range(nrow) for c in range(ncol)}
    reverse = rep in ('reversed_buffer_2d', 'reversed_buffer_with_gaps_1d', 'slice_of_reversed')
    gaps = rep in ('reversed_buffer_with_gaps_1d', 'slice_of_reversed')
    order = list(range(len(sizes)))
    buf, begin, end = [], [0] * len(sizes), [0] * len(sizes)
    for n_, flat in enumerate(reversed(order) if reverse else order):
        if gaps:
            buf += [99.0 + n_]  # an event no bin refers to
        r, c = divmod(flat, ncol)
        begin[flat] = len(buf)
        buf += ev[(r, c)]
        end[flat] = len(buf)
    if gaps:
        buf += [77.0]
    data = sc.array(dims=['event'], values=np.asarray(buf, dtype=float), unit='angstrom')
    one_d = rep in ('fresh_1d', 'reversed_buffer_with_gaps_1d', 'slice_pixel_range', 'slice_of_reversed')
    if one_d:
        dims, shape = ['pixel'], [len(sizes)]
    else:
        dims, shape = ['row', 'col'], [nrow, ncol]
    wl = sc.bins(dim='event', data=data,
                 begin=sc.array(dims=dims, values=np.asarray(begin).reshape(shape), unit=None, dtype='int64'),
                 end=sc.array(dims=dims, values=np.asarray(end).reshape(shape), unit=None, dtype='int64'))
    if one_d:
        b2v = sc.vectors(dims=['pixel'], values=np.asarray([b2[divmod(f, ncol)] for f in order]), unit='m')
        index = {(('pixel', f),): (ev[divmod(f, ncol)], b2[divmod(f, ncol)]) for f in order}
    else:
        b2v = sc.vectors(dims=['row', 'col'], values=np.asarray([[b2[(r, c)] for c in range(ncol)] for r in range(nrow)]), unit='m')
        index = {(('row', r), ('col', c)): (ev[(r, c)], b2[(r, c)]) for r in range(nrow) for c in range(ncol)}
    if rep == 'transposed_view':
        wl = wl.transpose(['col', 'row'])
    elif rep == 'transposed_both':
        wl = wl.transpose(['col', 'row'])
        b2v = b2v.transpose(['col', 'row'])
    elif rep == 'slice_row':
        wl, b2v = wl['row', 1], b2v['row', 1]
        index = {(('col', c),): (ev[(1, c)], b2[(1, c)]) for c in range(ncol)}
    elif rep == 'slice_col_range':
        wl, b2v = wl['col', 1:3], b2v['col', 1:3]
        index = {(('row', r), ('col', c - 1)): (ev[(r, c)], b2[(r, c)]) for r in range(nrow) for c in (1, 2)}
    elif rep in ('slice_pixel_range', 'slice_of_reversed'):
        wl, b2v = wl['pixel', 2:5], b2v['pixel', 2:5]
        index = {(('pixel', f - 2),): (ev[divmod(f, ncol)], b2[divmod(f, ncol)]) for f in (2, 3, 4)}
    return wl, b2v, index, data


def _br_events(var, idx):
    sel = var
    for dim, i in idx:
        sel = sel[dim, i]
    return [float(x) for x in sel.values.values]


def _run_binrep(case, rec):
    """Binned wavelength in every storage representation; oracle: the dense call per pixel on that pixel's events."""
    frame, rep, cp = case['frame'], case['rep'], case['copy']
    rec.cls(FRAME_CLS[frame])
    rec.cls('binrep_' + rep + ('_copy' if cp else ''))
    wl, b2v, index, parent = _br_build(rep, frame)
    if cp:
        wl = wl.copy()
    b1 = _to_frame(frame, _incident(12.0, case['tilt']))
    gvec = _to_frame(frame, (0.0, -9.81, 0.0))
    b1v, gv = gc.vec(b1, 'm'), gc.vec(gvec, 'm/s^2')
    dev = abs(float(np.dot(gvec, b1))) / 9.81
    path = 'generic' if dev > 1.05e-10 else 'orthogonal'
    rec.cls('binrep_' + path + '_path')
    W = Worst()
    sub = {'representation': rep + ('.copy()' if cp else ''), 'path': path}
    before = {'wavelength': wl.copy(), 'scattered_beam': b2v.copy(), 'incident_beam': b1v.copy(), 'gravity': gv.copy(), 'buffer': parent.values.copy()}

    def unchanged(site):
        rec.evals += 1
        ok = (sc.identical(wl, before['wavelength']) and sc.identical(b2v, before['scattered_beam']) and sc.identical(b1v, before['incident_beam'])
              and sc.identical(gv, before['gravity']) and (cp or np.array_equal(parent.values, before['buffer'])))
        if not ok:
            W.add(site, 'modifies_input', 1.0, f'an operand (or the event buffer behind the view) changed during the call ({rep})', **sub)

    def compare(site, name, got_var, dense_fn):
        for idx, (events, b2) in index.items():
            rec.states += 1
            try:
                got = _br_events(got_var, idx)
            except Exception as e:  # noqa: BLE001 - result not indexable like the input
                W.add(site, 'binned_result_layout', 1.0, f'{name}: cannot read bin {dict(idx)} of the result: {type(e).__name__}: {e}', **sub)
                return
            if len(got) != len(events):
                W.add(site, 'binned_result_layout', 1.0, f'{name}: bin {dict(idx)} holds {len(got)} results for {len(events)} events', **sub)
                continue
            if not events:
                rec.cls('binrep_empty_bin')
                continue
            rec.cls('binrep_single_event_bin' if len(events) == 1 else 'binrep_multi_event_bin')
            want = dense_fn(sc.array(dims=['wavelength'], values=events, unit='angstrom'), gc.vec(b2, 'm'))
            rec.transitions += 1
            for j, (g, w) in enumerate(zip(got, [float(x) for x in want.values], strict=True)):
                rec.evals += 1
                rec.validated += 1
                rec.nontrivial += 1
                rec.observe(g)
                if g == w:
                    rec.cls('binrep_event_bitwise_dense')
                elif not abs(g - w) <= 1e-15:
                    W.add(site, 'event_differs_from_dense_call', abs(g - w) / 1e-15 if math.isfinite(g) else float('inf'),
                          f'{name} of event #{j} (lambda={events[j]} angstrom) in bin {dict(idx)}: binned call gives {g!r}, the dense call on that event with that pixel gives {w!r}',
                          bin=[list(x) for x in idx], event=j, lam=events[j], **sub)

    # scattering_angles_with_gravity
    try:
        res = bl.scattering_angles_with_gravity(incident_beam=b1v, scattered_beam=b2v, wavelength=wl, gravity=gv)
    except Exception as e:  # noqa: BLE001 - every representation of the same events must be accepted
        W.add(SITE, 'raises_for_binned_representation', 1.0, f'{type(e).__name__}: {e}', **sub)
        res = None
    rec.transitions += 1
    unchanged(SITE)
    if res is not None:
        for name in ('two_theta', 'phi'):
            compare(SITE, name, res[name], lambda lam, b2, name=name: bl.scattering_angles_with_gravity(incident_beam=b1v, scattered_beam=b2, wavelength=lam, gravity=gv)[name])
    # reflectometry variant: the same, or a refusal for every representation
    try:
        yz = bl.scattering_angle_in_yz_plane(incident_beam=b1v, scattered_beam=b2v, wavelength=wl, gravity=gv)
        raised = None
    except ValueError:
        raised, yz = 'ValueError', None
    except Exception as e:  # noqa: BLE001
        raised, yz = f'{type(e).__name__}: {e}', None
    rec.transitions += 1
    unchanged(SITE_YZ)
    if path == 'generic':
        if raised == 'ValueError':
            rec.cls('binrep_yz_refused')
        elif raised is None:
            W.add(SITE_YZ, 'accepts_non_perpendicular_beam', 1.0, 'no ValueError for a tilted beam with binned wavelength', **sub)
        else:
            W.add(SITE_YZ, 'raises_for_binned_representation', 1.0, raised, **sub)
    elif raised is not None:
        W.add(SITE_YZ, 'raises_for_binned_representation', 1.0, raised, **sub)
    else:
        rec.cls('binrep_yz_judged')
        compare(SITE_YZ, 'gamma', yz, lambda lam, b2: bl.scattering_angle_in_yz_plane(incident_beam=b1v, scattered_beam=b2, wavelength=lam, gravity=gv))
    W.emit(rec)


def _run_tiltmix(case, rec):
    """Arrays of incident beams whose elements mix horizontal, slightly and strongly tilted beams of either sign.

    Oracle: the documented construction per element (ref/gravity), the path every element must take (generic as soon as ANY
    element is clearly tilted), the element-wise 0-d calls, and for the reflectometry variant: refuse iff any 0-d call refuses.
    """
    frame, L, u1, u2, L2 = case['frame'], case['L'], case['u1'], case['u2'], case['L2']
    name, pattern = TILT_PATTERNS[case['pattern']]
    layout = case['layout']
    rec.cls(FRAME_CLS[frame])
    rec.cls('tiltmix_layout_' + layout)
    dets, lams = list(TILTMIX_DETS), list(TILTMIX_LAMS)
    b2s = {k: _to_frame(frame, [c * L2 * LEN_F[u2] for c in DETS[k]]) for k in dets}
    gvec = _to_frame(frame, (0.0, -case['g'], 0.0))
    g_si = [hp.mpf(x) * hp.F(gr.ACCEL[case['gu']]) for x in gvec]

    def tilt_of(pi, pk):  # position of the event / the detector in the arrays
        if layout == 'det':
            n = pk
        elif layout == 'event':
            n = pi
        else:
            n = pk * len(lams) + pi + pk  # every row starts at another phase of the pattern
        return pattern[n % len(pattern)]

    b1 = {(i, k): _to_frame(frame, _incident(L, tilt_of(pi, pk))) for pi, i in enumerate(lams) for pk, k in enumerate(dets)}
    refs = {key: gr.angles(_si(b1[key], u1), _si(b2s[key[1]], u2), hp.mpf(LAMBDAS[key[0]]) * hp.ANGSTROM, g_si) for key in b1}
    path = _path(refs, u1, rec)
    if path is None:
        return
    rec.cls('tiltmix_' + path + '_path')
    f1 = hp.F(hp.LENGTH[u1])
    above = {key: abs(r['g_dot_b1_over_g']) / f1 > hp.mpf('1.05e-10') for key, r in refs.items()}
    if any(above.values()) and not all(above.values()):
        rec.cls('tiltmix_some_elements_above_some_below')
    signs = {(-1 if r['g_dot_b1_over_g'] < 0 else 1) for key, r in refs.items() if above[key]}
    if len(signs) == 1 and not all(above.values()):
        rec.cls('tiltmix_one_sided_tilts_with_horizontal' + ('_up' if signs == {-1} else '_down'))
    for r in refs.values():
        rec.states += 1
        if abs(r['two_theta'] - r['two_theta_free']) > 1e-9:
            rec.nontrivial += 1

    if layout == 'det':
        b1v = gc.vecs([b1[(lams[0], k)] for k in dets], u1, dim='det')
    elif layout == 'event':
        b1v = gc.vecs([b1[(i, dets[0])] for i in lams], u1, dim='wavelength')
    else:
        grid = np.asarray([[b1[(i, k)] for i in lams] for k in dets], dtype=float)  # (det, wavelength, 3)
        b1v = sc.vectors(dims=['det', 'wavelength'], values=grid, unit=u1)
        if layout == 'both_transposed':
            b1v = b1v.transpose(['wavelength', 'det']).copy()
    b2v = gc.vecs([b2s[k] for k in dets], u2, dim='det')
    lamv = sc.array(dims=['wavelength'], values=[LAMBDAS[i] for i in lams], unit='angstrom')
    gv = gc.vec(gvec, case['gu'])
    W = Worst()
    case_sub = {'pattern': name, 'incident_layout': layout, 'gravity': gvec}

    def table(var):
        vals = var.transpose(['wavelength', 'det']).values
        return {(i, k): float(vals[pi][pk]) for pi, i in enumerate(lams) for pk, k in enumerate(dets)}

    tt, ph = _call_angles(b1v, b2v, lamv, gv)
    rec.transitions += 2
    _check_units(rec, tt, ph)
    got_tt, got_phi = table(tt), table(ph)
    _judge_angles(rec, W, got_tt, got_phi, refs, path, 'float64', 'tiltmix_' + layout, case_sub)

    # element-wise 0-d calls
    yz_scalar, any_refused = {}, False
    for (i, k), b in b1.items():
        bv, b2k, lam0 = gc.vec(b, u1), gc.vec(b2s[k], u2), sc.scalar(LAMBDAS[i], unit='angstrom')
        t0, p0 = _call_angles(bv, b2k, lam0, gv)
        rec.transitions += 2
        rec.evals += 1
        r = refs[(i, k)]
        own_orthogonal = abs(r['g_dot_b1_over_g']) / f1 < hp.mpf('0.95e-10')
        tol = 2e-12 + (1.01 * float(r['tilt']) if own_orthogonal else 0.0)
        d = abs(got_tt[(i, k)] - float(t0.value))
        if d > tol:
            W.add(SITE, 'array_differs_from_elementwise_call', d / tol,
                  f'incident_beam array ({name}, layout {layout}): 2theta element {got_tt[(i, k)]!r} but the 0-d call for that element gives {float(t0.value)!r}',
                  lam=LAMBDAS[i], det=k, **case_sub)
        try:
            yz_scalar[(i, k)] = float(bl.scattering_angle_in_yz_plane(incident_beam=bv, scattered_beam=b2k, wavelength=lam0, gravity=gv).value)
        except ValueError:
            any_refused = True
    # reflectometry variant on the array: refuses iff any element is refused
    rec.evals += 1
    try:
        yz = bl.scattering_angle_in_yz_plane(incident_beam=b1v, scattered_beam=b2v, wavelength=lamv, gravity=gv)
        raised = False
    except ValueError:
        raised = True
    rec.transitions += 1
    expect_refusal = path == 'generic'
    if any_refused != expect_refusal:
        W.add(SITE_YZ, 'elementwise_refusal_vs_threshold', 1.0, f'0-d calls refused={any_refused} but 50-digit |g.b1|/|g| says {expect_refusal}', **case_sub)
    if expect_refusal and not raised:
        W.add(SITE_YZ, 'accepts_non_perpendicular_beam', 1.0,
              f'incident_beam array ({name}, layout {layout}) contains beams that are not perpendicular to gravity (the 0-d call refuses them) but the array call returns', **case_sub)
    elif not expect_refusal and raised:
        W.add(SITE_YZ, 'refuses_perpendicular_beam', 1.0, f'incident_beam array ({name}, layout {layout}): every element is within 1e-10 of perpendicular but the array call raises', **case_sub)
    elif raised:
        rec.cls('tiltmix_yz_refused')
    else:
        rec.cls('tiltmix_yz_accepted')
        got_yz = table(yz)
        _judge_yz(rec, W, got_yz, refs, 'float64', 'tiltmix_' + layout, case_sub)
        for key, v in yz_scalar.items():
            if abs(got_yz[key] - v) > 2e-12:
                W.add(SITE_YZ, 'array_differs_from_elementwise_call', abs(got_yz[key] - v) / 2e-12,
                      f'gamma element {got_yz[key]!r} but the 0-d call gives {v!r}', lam=LAMBDAS[key[0]], det=key[1], **case_sub)
    W.emit(rec)


# ---------------------------------------------------------------------------------------
# layout / reuse exploration shared by the kernel properties (props/layouts.py): every combination of operand layouts
# (0-d, 1-d over either of two dims, 2-d, 2-d transposed) must equal the element-wise 0-d calls, also after every operand
# has been overwritten in place and the kernel is called again.

from props import layouts as _layouts  # noqa: E402

_LAYOUT_SITES = ['conversion.beamline.scattering_angles_with_gravity/orthogonal', 'conversion.beamline.scattering_angles_with_gravity/generic', 'conversion.beamline.scattering_angle_in_yz_plane', 'conversion.beamline.beam_aligned_unit_vectors']
_cases_main, _run_case_main = cases, run_case
RULE = RULE + ' Layout cases: every combination of operand layouts (0d / 1-d a / 1-d b / 2-d ab / 2-d stored ba) per kernel x unit-dtype variant, each followed by an in-place update of all operands and a second call.'
REQUIRED_CLASSES = [*REQUIRED_CLASSES, 'layout_ok', 'reuse_after_inplace_update_ok', 'layout_transposed_operand', 'repeat_call_identical']


def cases(tier):
    return _cases_main(tier) + _layouts.cases_for(_LAYOUT_SITES, variants=(0, 1, 2, 3, 4) if tier == 'thorough' else (0, 1, 3, 4))


def run_case(case, rec):
    if case.get('kind') == 'layout':
        _layouts.run_layout_case(case, rec)
    else:
        _run_case_main(case, rec)


RULE = RULE + (' Thorough tier: 23 tilts, 20 detector directions, 9 wavelengths (see BOUND) and int64 wavelengths at the integer-valued '
               'wavelengths {0, 1, 6, 20, 50, 100} angstrom.')
_TILTMIX_CLASSES = [
    'tiltmix_layout_det', 'tiltmix_layout_event', 'tiltmix_layout_both', 'tiltmix_layout_both_transposed', 'tiltmix_generic_path',
    'tiltmix_orthogonal_path', 'tiltmix_some_elements_above_some_below', 'tiltmix_one_sided_tilts_with_horizontal_up',
    'tiltmix_one_sided_tilts_with_horizontal_down', 'tiltmix_yz_refused', 'tiltmix_yz_accepted',
]
RULE = RULE + (' Tilt-mix cases: incident_beam arrays (per pixel / per event / per pixel and event, either storage order) whose elements follow '
               'each of %d tilt patterns (all horizontal, horizontal + up, horizontal + down, up + down, sub-threshold of either sign with '
               'and without a strongly tilted element, just above threshold + horizontal, all up, all down) x frame x (|b1|, unit); oracle per '
               'element = documented construction + the element-wise 0-d call; the reflectometry variant must refuse iff a 0-d call refuses.'
               % len(TILT_PATTERNS))
_BINREP_CLASSES = [
    *('binrep_' + r + c for r in BR_REPRESENTATIONS for c in ('', '_copy')), 'binrep_generic_path', 'binrep_orthogonal_path', 'binrep_empty_bin',
    'binrep_single_event_bin', 'binrep_multi_event_bin', 'binrep_event_bitwise_dense', 'binrep_yz_refused', 'binrep_yz_judged',
]
RULE = RULE + (' Binned-representation cases (both tiers): the event lists of a 2 x 3 detector (0, 1, 3, 2, 1, 4 events) handed over as %d representations '
               '(fresh 2-d / 1-d, transposed view with and without transposed beams, bins stored back-to-front in the buffer, with unreferenced events between '
               'bins, slice of a row, range slices, slice of the reversed buffer) each as view and as .copy(), x 4 tilts (both code paths) x 2 frames, for both '
               'kernels; oracle: every event equals the dense call on that event with its pixel (bitwise or 1e-15), no operand or parent buffer modified, '
               'the reflectometry variant refuses tilted beams in every representation.' % len(BR_REPRESENTATIONS))
BOUND = {k: v + '; binned representations: %d representations x {view, copy} x 4 tilts x 2 frames' % len(BR_REPRESENTATIONS) for k, v in BOUND.items()}
REQUIRED_CLASSES = {'quick': [*REQUIRED_CLASSES, *_TILTMIX_CLASSES, *_BINREP_CLASSES], 'thorough': [*REQUIRED_CLASSES, 'dtype_int64', *_TILTMIX_CLASSES, *_BINREP_CLASSES]}
