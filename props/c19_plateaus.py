"""C19 - plateau finding, collapsing and in-phase filtering return exactly the defined selections.

Shape P: *all* short series over a six-letter step alphabet placed around the tolerance
(every step sequence, every position of a longer coordinate step, every min_n_points,
three coordinate dtypes), a few long series with planted plateaus, and a table of
frequencies around integer multiples / divisors of the reference.
Oracle: ref/series.py (lists + Fractions).
"""
from __future__ import annotations

import itertools

import numpy as np
import scipp as sc
from scippneutron.chopper import filtering as _filtering
from scippneutron.chopper.filtering import collapse_plateaus, filter_in_phase, find_plateaus

from fractions import Fraction

from mc import modstate
from ref import series

modstate.snapshot(_filtering)  # module state right after import, before the harness touches anything

ID = 'C19'
LEVEL = 'model_checking'
RULE = (
    'short: every series of n points whose successive value steps are drawn from {0, +atol, -atol, +atol(1+2^-20), '
    '-atol(1+2^-20), +8 atol} (all 6^(n-1) step sequences), coordinate steps 1 everywhere or 2 at exactly one position '
    '(n variants), min_n_points = 1..n, coordinate dtype float64 / int64 / datetime64[s]; values are dyadic so every slope '
    'and the comparison with atol are exact in float64. long: 5 constructed 500-point series x 3 dtypes x 9 min_n_points. '
    'in-phase: 4 references x 2 rtol x 23 ratios x 9 deviations as one array and as single-element arrays, plus integer '
    'dtype tables. shift: every 2..4-point series (float data with dyadic steps / int64 data with steps {0, +-2, +-3, 16}, atol 2) '
    'with the int64 coordinate, the int64 data or both shifted by 0, +-2^31, +-(2^53+1), +-1.7e18, and datetime64[ns] stamps '
    'every 100/200 ns at 1970 and around 2026-01-01 +- the same offsets; reference on exact Python ints, and the plateaus '
    'must equal those of the unshifted signal. history: 11 coordinate/data/tolerance unit configurations (float s/ms/us/ns, '
    'int64 ms, datetime64 ns/ms/us, data Hz/kHz, atol Hz/s, kHz/s, Hz/ms; decisions a factor 4 from the tolerance, '
    'reference in exact SI rationals), each alone and every ordered pair (thorough: triple) run in one process after a '
    'module-state reset, each call (find_plateaus incl. the drift guard + collapse_plateaus) compared with the reference '
    'and with the same call in a fresh module state. '
    'A find_plateaus call is non-trivial when it returns; distinct = distinct (series, min_n_points, dtype)'
)
ASSUMPTIONS = [
    'scipp (binning, slicing, comparison) and numpy are the trusted base',
    'slope exactly equal to atol counts as within the tolerance (|slope| <= atol), as in the code and DESIGN C19',
    'a RuntimeError from the total-drift guard is counted and not judged (the property constrains only calls that return)',
    'uuid.uuid4 inside chopper.filtering is replaced by a fixed label during the short-series enumeration (scipp allows only '
    '2^16 distinct dimension labels per process and find_plateaus consumes one per call); long series use the real uuid',
    'in-phase: judged only where the reference-relative and the target-relative reading of "relative tolerance" agree with '
    'a margin of 9/8; |f/ref| and |ref/f| below 1/(2 rtol)',
    'collapse: only containment of the points in [lo, hi) and the mean are demanded, not tightness of the interval',
    'shift / history: a guard RuntimeError that appears or disappears with the offset / history is counted, not judged; '
    'module state of chopper.filtering is reset with mc/modstate.py before and after every history',
]
BOUND = {
    'quick': 'all series of 2..5 points (7 464 series x 3 coordinate dtypes, 109 656 find_plateaus calls incl. all min_n_points); long series; in-phase tables; '
             'shift: 4 modes x 7 offsets x all series of 2..4 points (4-point: uniform coordinate steps only); history: 11 unit configurations, all 121 ordered pairs',
    'thorough': 'all series of 2..6 points: 6-point series with every position of the long coordinate step for float64, positions none / third for int64 and datetime64; same long series and tables; '
                'shift with every position of the long coordinate step; history: all 1 331 ordered triples',
}
REQUIRED_CLASSES = [
    'returned', 'guard_fired', 'plateaus_0', 'plateaus_1', 'plateaus_2', 'plateaus_3plus', 'size_filter_dropped_run',
    'step_at_tolerance_inside', 'step_just_above_splits', 'long_dx_rescues_step', 'dtype_float64', 'dtype_int64',
    'dtype_datetime64', 'collapse_ok', 'collapse_empty', 'min_n_as_variable', 'long_series', 'real_uuid_label',
    'inphase_keep', 'inphase_drop', 'inphase_dontcare', 'inphase_empty_result', 'inphase_all_kept', 'inphase_int_dtype',
    'shift_mode_int_coord', 'shift_mode_int_data', 'shift_mode_int_both', 'shift_mode_datetime_ns', 'shift_invariant',
    'offset_above_2_53', 'offset_negative', 'history_len_1', 'history_len_2', 'history_independent',
    'history_same_atol_unit_other_slope_unit',
    'inphase_negative', 'inphase_zero', 'coord_first_step_equals_mean_step', 'coord_all_positive', 'coord_all_negative', 'coord_reaches_or_crosses_zero',
]
CHUNK = 4


class _FixedUuid:
    """Stand-in for the ``uuid`` module inside chopper.filtering during the short-series enumeration.

    find_plateaus names a temporary coordinate / dimension ``str(uuid.uuid4())``.  scipp keeps every dimension label
    ever used in a process-wide table of 2^16 entries, so the 64 536th call of find_plateaus in one process raises
    ``RuntimeError: Exceeded maximum number of different dimension labels`` (reproduced outside the harness; reported
    separately, it is not part of this property).  The label is never visible in the result (DESIGN section 4), so the
    harness owns this source of nondeterminism from outside, like the clock of C12: one fixed label for the bulk
    enumeration; the long-series cases run with the real ``uuid``.
    """

    @staticmethod
    def uuid4():
        return 'verif-c19-group-5f1c0a52'


_REAL_UUID = _filtering.uuid

ATOL = 0.125  # Hz/s, dyadic
JUST = ATOL * (1 + 2.0**-20)  # exactly representable
STEPS = (0.0, ATOL, -ATOL, JUST, -JUST, 8 * ATOL)
DTYPES = ('float64', 'int64', 'datetime64')
Y0 = 14.0
X0 = 3
EPS = 2.0**-52

REFS = (14.0, -14.0, 4.0, 1.2)
RTOLS = (1e-3, 1e-6)
RATIOS = [(0, 1), (1, 4), (1, 3), (1, 2), (1, 1), (2, 1), (3, 1), (16, 1), (3, 2), (2, 3), (5, 2), (103, 10)]


def cases(tier):
    out = []
    nmax = 5 if tier == 'quick' else 6
    for n in range(2, nmax + 1):
        for dt in DTYPES:
            for dxpos in range(-1, n - 1):
                if n <= 3:
                    out.append({'kind': 'short', 'n': n, 'dtype': dt, 'dxpos': dxpos, 'head': []})
                elif n <= 5:
                    for h in range(6):
                        out.append({'kind': 'short', 'n': n, 'dtype': dt, 'dxpos': dxpos, 'head': [h]})
                else:
                    if dt != 'float64' and dxpos not in (-1, 2):
                        continue  # 6 points: the other positions of the long coordinate step only for float64
                    for h in itertools.product(range(6), repeat=2):
                        out.append({'kind': 'short', 'n': n, 'dtype': dt, 'dxpos': dxpos, 'head': list(h)})
    # coordinate steps with two different long steps whose mean equals the first step (a "looks regularly sampled"
    # shortcut that only compares the first step with the mean step takes these for uniform)
    for dxs in ([2, 1, 3], [2, 3, 1], [2, 1, 3, 2], [2, 2, 1, 3], [3, 1, 5, 3]):
        n = len(dxs) + 1
        for dt in DTYPES:
            if n <= 4:
                out.append({'kind': 'short', 'n': n, 'dtype': dt, 'dxpos': -1, 'dxs': dxs, 'head': []})
            else:
                for h in range(6):
                    out.append({'kind': 'short', 'n': n, 'dtype': dt, 'dxpos': -1, 'dxs': dxs, 'head': [h]})
    # coordinate origin: all-positive (default 3), ending at / crossing zero, all-negative (time relative to a trigger)
    base = [c for c in out if c['kind'] == 'short' and (c['n'] <= 4 or tier == 'thorough') and c['n'] <= 5]
    for c in base:
        for x0 in (-2, -(c['n'] + 4)):
            out.append({**c, 'x0': x0})
    # integer / datetime coordinates and integer data far from zero: the same signals shifted by large offsets
    for mode in SHIFT_MODES:
        for n in (2, 3, 4):
            for dxpos in range(-1, n - 1):
                if n == 4 and dxpos != -1 and tier == 'quick':
                    continue
                if n < 4:
                    out.append({'kind': 'shift', 'mode': mode, 'n': n, 'dxpos': dxpos, 'head': []})
                else:
                    for h in range(6):
                        out.append({'kind': 'shift', 'mode': mode, 'n': n, 'dxpos': dxpos, 'head': [h]})
    # unit combinations of coordinate / data / tolerance, alone and as call histories in one process
    nu = len(UNIT_CONFIGS)
    for i in range(nu):
        out.append({'kind': 'history', 'seq': [i]})
    for seq in itertools.product(range(nu), repeat=2):
        out.append({'kind': 'history', 'seq': list(seq)})
    if tier == 'thorough':
        for seq in itertools.product(range(nu), repeat=3):
            out.append({'kind': 'history', 'seq': list(seq)})
    for name in ('alternating', 'barely_split', 'drift', 'variances', 'staircase'):
        for dt in DTYPES:
            out.append({'kind': 'long', 'series': name, 'dtype': dt})
    for ref in REFS:
        for rtol in RTOLS:
            out.append({'kind': 'inphase', 'ref': ref, 'rtol': rtol})
    for ref in (4, -4, 14):
        out.append({'kind': 'inphase_int', 'ref': ref})
    return out


# ---------------------------------------------------------------------------------------
# plateaus


def make_coord(xs, dtype):
    if dtype == 'float64':
        return sc.array(dims=['time'], values=np.asarray(xs, dtype='float64'), unit='s')
    if dtype == 'int64':
        return sc.array(dims=['time'], values=np.asarray(xs, dtype='int64'), unit='s')
    return sc.epoch(unit='s') + sc.array(dims=['time'], values=np.asarray(xs, dtype='int64'), unit='s')


def make_da(xs, ys, dtype, variances=None):
    return sc.DataArray(
        sc.array(dims=['time'], values=np.asarray(ys, dtype='float64'), variances=variances, unit='Hz'),
        coords={'time': make_coord(xs, dtype), 'idx': sc.arange('time', len(xs), unit=None)},
    )


def coord_ints(var):
    """Coordinate values as Python numbers (datetime -> seconds since epoch)."""
    v = var.values
    if var.dtype == sc.DType.datetime64:
        return v.astype('int64')
    return v


_ATOL = {}


def judge_find(rec, da, xs, ys, atol_value, min_n, model_runs, *, sub, min_n_arg=None, site='find_plateaus', atol_unit='Hz/s', out=None):
    """One find_plateaus call + collapse, judged against the model.  Returns 'returned' | 'guard'.

    ``out`` (a dict) receives what was observed: 'outcome', 'members' (point indices per plateau), 'collapsed'.
    """
    rec.transitions += 1
    if out is not None:
        out.update(outcome='guard', members=None, collapsed=None)
    # one tolerance Variable per (value, unit), reused by every call of this worker (as a caller would); by default given
    # in exactly the unit of the slope so that an internal `to(unit=..., copy=False)` is the identity
    atol = _ATOL.get((atol_value, atol_unit))
    if atol is None:
        atol = _ATOL[(atol_value, atol_unit)] = sc.scalar(atol_value, unit=atol_unit)
    try:
        p = find_plateaus(da, atol=atol, min_n_points=min_n if min_n_arg is None else min_n_arg)
    except RuntimeError as e:
        if 'exceed the tolerance' not in str(e):
            raise
        p = None
    finally:
        if atol.value != atol_value or atol.unit != sc.Unit(atol_unit):
            rec.viol(site, 'tolerance_argument_modified', f'the caller\'s atol was {atol_value} {atol_unit} before the call and is {atol.value} {atol.unit} after it', **sub)
            _ATOL[(atol_value, atol_unit)] = sc.scalar(atol_value, unit=atol_unit)
    if p is None:
        rec.cls('guard_fired')
        rec.observe('guard')
        return 'guard'
    rec.cls('returned')
    rec.evals += 1
    rec.nontrivial += 1
    want = [(a, b) for a, b in model_runs if b - a >= min_n]
    if len(want) < len(model_runs):
        rec.cls('size_filter_dropped_run')
    rec.cls('plateaus_%s' % (len(want) if len(want) < 3 else '3plus'))
    ok = True
    if p.dims != ('plateau',) or p.bins is None:
        rec.viol(site, 'result_structure', f'dims {p.dims}, binned {p.bins is not None}', **sub)
        return 'returned'
    cons = p.bins.constituents
    begin, end, buf = cons['begin'].values, cons['end'].values, cons['data']
    got = []
    bidx = buf.coords['idx'].values
    for b0, b1 in zip(begin, end, strict=True):
        got.append([int(i) for i in bidx[b0:b1]])
    rec.observe(got)
    if out is not None:
        out.update(outcome='returned', members=got)
    want_members = [list(range(a, b)) for a, b in want]
    if got != want_members:
        kind = 'wrong_plateaus'
        flat = [i for g in got for i in g]
        if any(len(g) < min_n for g in got):
            kind = 'short_plateau_returned'
        elif len(set(flat)) != len(flat):
            kind = 'overlapping_plateaus'
        elif sorted(flat) != flat or any(g != list(range(g[0], g[0] + len(g))) for g in got if g):
            kind = 'not_consecutive_in_order'
        elif len(got) < len(want_members) and all(g in want_members for g in got):
            kind = 'plateau_missing'
        elif any(g not in want_members for g in got):
            kind = 'not_maximal_or_exceeds_tolerance'
        rec.viol(site, kind, f'plateaus (point indices) {got}, model {want_members}', **sub)
        return 'returned'
    # contents: values, variances, coordinates and units are those of the input slice
    if buf.unit != da.unit or buf.coords['time'].unit != da.coords['time'].unit or buf.coords['time'].dtype != da.coords['time'].dtype:
        rec.viol(site, 'unit_or_dtype_changed', f'{buf.unit} {buf.coords["time"].unit} {buf.coords["time"].dtype}', **sub)
        ok = False
    yv, xv = np.asarray(ys, dtype=da.values.dtype), coord_ints(da.coords['time'])
    bx = coord_ints(buf.coords['time'])
    for (a, b), b0, b1 in zip(want, begin, end, strict=True):
        if buf.values[b0:b1].tobytes() != yv[a:b].tobytes() or bx[b0:b1].tobytes() != xv[a:b].tobytes():
            rec.viol(site, 'points_changed', f'plateau {a}:{b} holds values {buf.values[b0:b1]} coords {bx[b0:b1]}', **sub)
            ok = False
            break
        if da.variances is not None and (buf.variances is None or buf.variances[b0:b1].tobytes() != da.variances[a:b].tobytes()):
            rec.viol(site, 'points_changed', f'plateau {a}:{b} variances differ', **sub)
            ok = False
            break
    rec.validated += 1
    # collapse --------------------------------------------------------------------------
    rec.transitions += 1
    col = collapse_plateaus(p, coord='time')
    rec.evals += 1
    if not want:
        rec.cls('collapse_empty')
        return 'returned'
    model = series.collapse(xs, ys, want)
    if col.dims != ('plateau',) or col.shape != (len(want),) or col.bins is not None:
        rec.viol('collapse_plateaus', 'result_structure', f'dims {col.dims} shape {col.shape}', **sub)
        return 'returned'
    tc = col.coords['time']
    if set(tc.dims) != {'plateau', 'time'} or tc.sizes['time'] != 2 or tc.unit != da.coords['time'].unit:
        rec.viol('collapse_plateaus', 'interval_structure', f'coord dims {tc.dims} sizes {dict(tc.sizes)} unit {tc.unit}', **sub)
        return 'returned'
    edges = coord_ints(tc.transpose(['plateau', 'time']).copy())
    rec.observe(col.values.tobytes(), np.asarray(edges).tobytes())
    if out is not None:
        out['collapsed'] = (col.values.tobytes(), np.asarray(edges).tobytes())
    tight = True
    for i, m in enumerate(model):
        lo, hi = series.frac(edges[i][0]), series.frac(edges[i][1])
        if not (lo <= m['min'] and m['max'] < hi):
            rec.viol('collapse_plateaus', 'interval_excludes_point',
                     f'plateau {want[i]}: interval [{edges[i][0]}, {edges[i][1]}) vs points {float(m["min"])}..{float(m["max"])}', plateau=i, **sub)
            ok = False
        if lo != m['min']:
            tight = False
        tol = (m['n'] + 2) * EPS * m['absmax']
        if abs(series.frac(col.values[i]) - m['mean']) > tol:
            rec.viol('collapse_plateaus', 'mean', f'plateau {want[i]}: mean {col.values[i]!r}, exact {float(m["mean"])!r}', plateau=i, **sub)
            ok = False
    if col.unit != da.unit:
        rec.viol('collapse_plateaus', 'unit', f'{col.unit}', **sub)
        ok = False
    rec.validated += 1
    if ok:
        rec.cls('collapse_ok')
    if tight:
        rec.cls('collapse_lower_edge_tight')
    return 'returned'


def run_short(case, rec):
    n, dt, dxpos, head = case['n'], case['dtype'], case['dxpos'], case['head']
    rec.cls('dtype_' + dt)
    dxs = case.get('dxs') or [2 if i == dxpos else 1 for i in range(n - 1)]
    if case.get('dxs'):
        rec.cls('coord_first_step_equals_mean_step')
    xs = [case.get('x0', X0)]
    for d in dxs:
        xs.append(xs[-1] + d)
    rec.cls('coord_all_positive' if xs[0] > 0 else 'coord_all_negative' if xs[-1] < 0 else 'coord_reaches_or_crosses_zero')
    coord = make_coord(xs, dt)
    idx = sc.arange('time', n, unit=None)
    for tail in itertools.product(range(6), repeat=n - 1 - len(head)):
        codes = [*head, *tail]
        ys = [Y0]
        for c in codes:
            ys.append(ys[-1] + STEPS[c])
        da = sc.DataArray(sc.array(dims=['time'], values=np.asarray(ys), unit='Hz'), coords={'time': coord, 'idx': idx})
        runs = series.maximal_runs(xs, ys, ATOL)
        rec.states += 1
        # which decision points does this series exercise?
        for i, c in enumerate(codes):
            inside = any(a <= i and i + 1 < b for a, b in runs)
            if c in (1, 2) and dxs[i] == 1 and inside:
                rec.cls('step_at_tolerance_inside')
            if c in (3, 4) and dxs[i] == 1 and not inside:
                rec.cls('step_just_above_splits')
            if c in (3, 4) and dxs[i] == 2 and inside:
                rec.cls('long_dx_rescues_step')
        for m in range(1, n + 1):
            sub = {'steps': codes, 'min_n_points': m}
            judge_find(rec, da, xs, ys, ATOL, m, runs, sub=sub)
            if n <= 3:
                rec.cls('min_n_as_variable')
                judge_find(rec, da, xs, ys, ATOL, m, runs, sub={**sub, 'min_n_as': 'variable'}, min_n_arg=sc.index(m))


def long_series(name):
    """(xs, ys, atol, variances) - deterministic constructions, 500 points."""
    n = 500
    xs = [X0]
    for i in range(n - 1):
        xs.append(xs[-1] + (2 if i % 3 == 1 else 1))
    lengths = [1, 2, 3, 5, 40, 1, 100, 7, 341]
    assert sum(lengths) == n  # noqa: S101
    ys = []
    variances = None
    if name in ('alternating', 'variances'):
        # inside a segment the value alternates by exactly +-atol (coordinate step 1: slope == atol); between
        # segments it jumps by 8 atol, alternately up and down
        atol = 0.375
        y = Y0
        for k, ln in enumerate(lengths):
            if k:
                y += 8 * atol if k % 2 else -8 * atol
            base = y
            for j in range(ln):
                ys.append(base + (atol if j % 2 else 0.0))
            y = ys[-1]
        if name == 'variances':
            variances = np.asarray([0.5 + (i % 7) for i in range(n)], dtype='float64')
    elif name == 'barely_split':
        # constant segments separated by steps that exceed the tolerance by 2^-20 (coordinate step 1 or 2 -> the
        # latter does not split)
        atol = ATOL
        y = Y0
        for k, ln in enumerate(lengths):
            if k:
                y += JUST if k % 2 else -JUST
            ys.extend([y] * ln)
    elif name == 'drift':
        # 100 points drifting by atol/2 per point (guard must be allowed to fire), then constant
        atol = ATOL
        y = Y0
        for i in range(n):
            ys.append(y)
            if i < 100:
                y += atol / 2
    elif name == 'staircase':
        # plateaus of length 1..31 separated by single steep points
        atol = ATOL
        y, k = Y0, 1
        while len(ys) < n:
            ys.extend([y] * k)
            y += 8 * atol
            ys.append(y + 0.5)
            y -= 3 * atol
            k += 1
        ys = ys[:n]
    else:
        raise ValueError(name)
    return xs, ys, atol, variances


def run_long(case, rec):
    xs, ys, atol, variances = long_series(case['series'])
    dt = case['dtype']
    rec.cls('dtype_' + dt)
    rec.cls('long_series')
    if _filtering.uuid is _REAL_UUID:
        rec.cls('real_uuid_label')
    da = make_da(xs, ys, dt, variances)
    runs = series.maximal_runs(xs, ys, atol)
    for m in (1, 2, 3, 5, 8, 41, 100, 342, 500):
        rec.states += 1
        judge_find(rec, da, xs, ys, atol, m, runs, sub={'min_n_points': m})


# ---------------------------------------------------------------------------------------
# shift invariance: integer / datetime coordinates and integer data at large magnitudes

EPOCH_2026_NS = 1767225600 * 10**9  # 2026-01-01T00:00:00 in ns since 1970 (about 1.77e18, float64 spacing 256)
OFFSETS = (0, 2**31, 2**53 + 1, 17 * 10**17, -(2**31), -(2**53 + 1), -17 * 10**17)
SHIFT_MODES = ('int_coord', 'int_data', 'int_both', 'datetime_ns')
INT_ATOL = 2.0
INT_STEPS = (0, 2, -2, 3, -3, 16)  # integer data: at the tolerance, just above it (3/1 > 2 but 3/2 < 2), far above


def shift_series(mode, n, dxs, codes, offset):
    """(da, xs, ys, atol_value, atol_unit): exact Python ints / dyadic floats; all differences exactly representable."""
    idx = sc.arange('time', n, unit=None)
    if mode == 'datetime_ns':
        # time stamps in ns sampled every 100 / 200 ns; the value steps are scaled so that every slope is a dyadic number
        xs = [EPOCH_2026_NS + offset if offset else X0]
        for d in dxs:
            xs.append(xs[-1] + 100 * d)
        ys = [Y0]
        for c in codes:
            ys.append(ys[-1] + 100 * STEPS[c])
        coord = sc.epoch(unit='ns') + sc.array(dims=['time'], values=np.asarray(xs, dtype='int64'), unit='ns')
        data = sc.array(dims=['time'], values=np.asarray(ys, dtype='float64'), unit='Hz')
        return sc.DataArray(data, coords={'time': coord, 'idx': idx}), xs, ys, ATOL, 'Hz/ns'
    xoff = offset if mode in ('int_coord', 'int_both') else 0
    yoff = offset if mode in ('int_data', 'int_both') else 0
    xs = [X0 + xoff]
    for d in dxs:
        xs.append(xs[-1] + d)
    coord = sc.array(dims=['time'], values=np.asarray(xs, dtype='int64'), unit='s')
    if mode == 'int_coord':
        ys = [Y0]
        for c in codes:
            ys.append(ys[-1] + STEPS[c])
        data = sc.array(dims=['time'], values=np.asarray(ys, dtype='float64'), unit='Hz')
        atol = ATOL
    else:
        ys = [14 + yoff]
        for c in codes:
            ys.append(ys[-1] + INT_STEPS[c])
        data = sc.array(dims=['time'], values=np.asarray(ys, dtype='int64'), unit='Hz')
        atol = INT_ATOL
    if [int(v) for v in coord.values] != xs or [series.frac(v) for v in data.values] != [series.frac(y) for y in ys]:
        raise RuntimeError('harness: shifted series not representable')
    return sc.DataArray(data, coords={'time': coord, 'idx': idx}), xs, ys, atol, 'Hz/s'


def run_shift(case, rec):
    mode, n, dxpos, head = case['mode'], case['n'], case['dxpos'], case['head']
    dxs = [2 if i == dxpos else 1 for i in range(n - 1)]
    rec.cls('shift_mode_' + mode)
    for tail in itertools.product(range(6), repeat=n - 1 - len(head)):
        codes = [*head, *tail]
        base = {}
        for offset in OFFSETS:
            da, xs, ys, atol, atol_unit = shift_series(mode, n, dxs, codes, offset)
            runs = series.maximal_runs(xs, ys, atol)  # exact: Python ints and dyadic floats as Fractions
            rec.states += 1
            for m in range(1, n + 1):
                sub = {'steps': codes, 'min_n_points': m, 'offset': offset}
                obs = {}
                judge_find(rec, da, xs, ys, atol, m, runs, sub=sub, atol_unit=atol_unit, out=obs)
                if offset == 0:
                    base[m] = obs
                    continue
                ref = base[m]
                rec.validated += 1
                if obs['outcome'] != ref['outcome']:
                    rec.cls('shift_guard_differs')  # only calls that return are constrained
                elif obs['outcome'] == 'returned' and obs['members'] != ref['members']:
                    rec.viol('find_plateaus', 'depends_on_offset', f'{mode}: plateaus {obs["members"]} with offset {offset}, {ref["members"]} without', **sub)
                else:
                    rec.cls('shift_invariant')
            if abs(offset) > 2**53:
                rec.cls('offset_above_2_53')
            if offset < 0:
                rec.cls('offset_negative')


# ---------------------------------------------------------------------------------------
# unit combinations and call histories

TIME_FACTOR = {'s': Fraction(1), 'ms': Fraction(1, 10**3), 'us': Fraction(1, 10**6), 'ns': Fraction(1, 10**9)}
FREQ_FACTOR = {'Hz': Fraction(1), 'kHz': Fraction(10**3)}
ATOL_SI = Fraction(1, 8)  # Hz/s
# (coordinate dtype, coordinate unit, data unit, tolerance unit as (frequency, time))
UNIT_CONFIGS = (
    ('float64', 's', 'Hz', ('Hz', 's')),  # tolerance already in the unit of the slope
    ('datetime64', 'ns', 'Hz', ('Hz', 's')),
    ('float64', 'ms', 'Hz', ('Hz', 's')),
    ('float64', 'us', 'Hz', ('Hz', 's')),
    ('int64', 'ms', 'Hz', ('Hz', 's')),
    ('float64', 's', 'kHz', ('Hz', 's')),
    ('datetime64', 'ms', 'Hz', ('Hz', 's')),
    ('float64', 's', 'Hz', ('kHz', 's')),
    ('float64', 'ms', 'Hz', ('kHz', 's')),
    ('datetime64', 'us', 'Hz', ('Hz', 'ms')),
    ('float64', 'ns', 'kHz', ('Hz', 'ms')),
)
# slopes in units of the tolerance (noise of a quarter of the tolerance, one jump of 8 tolerances) and coordinate steps
UNIT_SLOPES = (Fraction(1, 4), Fraction(-1, 4), Fraction(1, 4), 0, 8, 0, Fraction(1, 4), Fraction(-1, 4), 0, Fraction(1, 4), Fraction(-1, 4))
UNIT_DXS = (1, 2, 1, 1, 1, 2, 1, 1, 1, 2, 1)
_UNIT_SIGNALS = {}


def unit_signal(i):
    """Signal of configuration i: (da, xs, ys, atol value, atol unit string, model runs).  Decisions have a margin of 4."""
    if i in _UNIT_SIGNALS:
        return _UNIT_SIGNALS[i]
    cdtype, cunit, dunit, (af, at) = UNIT_CONFIGS[i]
    xfac, yfac = TIME_FACTOR[cunit], FREQ_FACTOR[dunit]
    afac = FREQ_FACTOR[af] / TIME_FACTOR[at]
    atol_value = float(ATOL_SI / afac)
    xs = [7]
    for d in UNIT_DXS:
        xs.append(xs[-1] + d)
    ys = [14.0]
    for sl, d in zip(UNIT_SLOPES, UNIT_DXS, strict=True):
        ys.append(float(Fraction(ys[-1]) + sl * ATOL_SI * d * xfac / yfac))
    n = len(xs)
    if cdtype == 'float64':
        coord = sc.array(dims=['time'], values=np.asarray(xs, dtype='float64'), unit=cunit)
    elif cdtype == 'int64':
        coord = sc.array(dims=['time'], values=np.asarray(xs, dtype='int64'), unit=cunit)
    else:
        coord = sc.epoch(unit=cunit) + sc.array(dims=['time'], values=np.asarray(xs, dtype='int64'), unit=cunit)
    da = sc.DataArray(sc.array(dims=['time'], values=np.asarray(ys), unit=dunit), coords={'time': coord, 'idx': sc.arange('time', n, unit=None)})
    # reference in SI, exact, on the float values actually passed
    xs_si = [Fraction(x) * xfac for x in xs]
    ys_si = [Fraction(y) * yfac for y in ys]
    atol_si = Fraction(atol_value) * afac
    for sl in series.slopes(xs_si, ys_si):
        if not (abs(sl) * 2 < atol_si or abs(sl) > atol_si * 2):
            raise RuntimeError('harness: unit signal too close to the tolerance')
    runs = series.maximal_runs(xs_si, ys_si, atol_si)
    _UNIT_SIGNALS[i] = (da, xs, ys, atol_value, f'{af}/{at}', runs)
    return _UNIT_SIGNALS[i]


def _unit_call(rec, i, sub):
    da, xs, ys, atol_value, atol_unit, runs = unit_signal(i)
    res = []
    for m in (1, 3):
        obs = {}
        judge_find(rec, da, xs, ys, atol_value, m, runs, sub={**sub, 'config': i, 'min_n_points': m}, atol_unit=atol_unit, out=obs)
        res.append(obs)
    return res


def run_history(case, rec):
    seq = case['seq']
    rec.cls('history_len_%d' % len(seq))
    fresh = {}
    for i in sorted(set(seq)):
        modstate.reset(_filtering)
        fresh[i] = _unit_call(rec, i, {'state': 'fresh'})
        rec.cls('unit_config_%d' % i)
    modstate.reset(_filtering)
    for k, i in enumerate(seq):
        got = _unit_call(rec, i, {'state': 'after', 'history': seq[:k]})
        rec.states += 1
        for g, f in zip(got, fresh[i], strict=True):
            rec.validated += 1
            if g['outcome'] != f['outcome']:
                rec.cls('history_guard_differs')  # only calls that return are constrained
            elif g != f:
                rec.viol('find_plateaus', 'depends_on_call_history',
                         f'configuration {UNIT_CONFIGS[i]} after {[UNIT_CONFIGS[j] for j in seq[:k]]}: plateaus {g["members"]}, in a fresh module state {f["members"]}'
                         + ('' if g['members'] != f['members'] else ' (collapsed values differ)'), config=i, history=seq[:k])
            else:
                rec.cls('history_independent')
    modstate.reset(_filtering)
    if len(set(UNIT_CONFIGS[i][3] for i in seq)) < len(seq) and len({UNIT_CONFIGS[i][:3] for i in seq}) > 1:
        rec.cls('history_same_atol_unit_other_slope_unit')


# ---------------------------------------------------------------------------------------
# in-phase filtering


def inphase_table(ref, rtol):
    fs = []
    for num, den in RATIOS:
        for sign in (1, -1):
            if num == 0 and sign == -1:
                continue
            q = sign * num / den
            big = max(num, den)
            for dev in (0.0, rtol / (8 * big), -rtol / (8 * big), 4 * rtol, -4 * rtol, rtol, 64 * rtol, -0.3 * rtol / big, 2.5 * rtol):
                if num == 0 and dev != 0.0:
                    continue  # tiny non-zero frequencies are outside the bound (every value is near some ref/m)
                fs.append(float(q * ref * (1 + dev)))
    return fs


def judge_filter(rec, fs, ref, rtol, verdicts, *, dtype='float64', sub):
    rec.transitions += 1
    n = len(fs)
    da = sc.DataArray(
        sc.array(dims=['t'], values=np.asarray(fs, dtype=dtype), unit='Hz'),
        coords={'t': sc.arange('t', 100, 100 + n, unit='s'), 'idx': sc.arange('t', n, unit=None)},
    )
    reference = sc.scalar(ref, unit='Hz') if dtype == 'float64' else sc.scalar(int(ref), unit='Hz', dtype='int64')
    out = filter_in_phase(da, reference=reference, rtol=sc.scalar(rtol))
    rec.evals += 1
    if out.dims != ('t',) or out.dtype != da.dtype or out.unit != da.unit:
        rec.viol('filter_in_phase', 'result_structure', f'dims {out.dims} dtype {out.dtype} unit {out.unit}', **sub)
        return
    kept = [int(i) for i in out.coords['idx'].values]
    rec.observe(kept, out.values.tobytes())
    if sorted(set(kept)) != kept:
        rec.viol('filter_in_phase', 'order_not_preserved', f'kept indices {kept}', **sub)
        return
    src = da.values
    if out.values.tobytes() != src[kept].tobytes() or out.coords['t'].values.tobytes() != da.coords['t'].values[kept].tobytes():
        rec.viol('filter_in_phase', 'values_changed', 'kept elements differ from the input elements', **sub)
    keptset = set(kept)
    for i, v in enumerate(verdicts):
        if v == 'keep' and i not in keptset:
            rec.viol('filter_in_phase', 'in_phase_element_removed', f'f={fs[i]!r} ref={ref!r} rtol={rtol!r} (f/ref={fs[i] / ref!r}) removed', f=fs[i], **sub)
        elif v == 'drop' and i in keptset:
            rec.viol('filter_in_phase', 'out_of_phase_element_kept', f'f={fs[i]!r} ref={ref!r} rtol={rtol!r} (f/ref={fs[i] / ref!r}) kept', f=fs[i], **sub)
        rec.validated += 1
    if not kept:
        rec.cls('inphase_empty_result')
    if len(kept) == n:
        rec.cls('inphase_all_kept')


def run_inphase(case, rec):
    ref, rtol = case['ref'], case['rtol']
    fs = inphase_table(ref, rtol)
    verdicts = [series.in_phase(f, ref, rtol) for f in fs]
    if 'outside' in verdicts:
        raise RuntimeError('harness: alphabet leaves the stated bound')
    for f, v in zip(fs, verdicts, strict=True):
        rec.cls('inphase_' + v)
        if f < 0:
            rec.cls('inphase_negative')
        if f == 0:
            rec.cls('inphase_zero')
    rec.states += len(fs)
    rec.nontrivial += 1
    judge_filter(rec, fs, ref, rtol, verdicts, sub={'mode': 'table'})
    # sub-arrays: only keeps, only drops, every element alone
    for want in ('keep', 'drop'):
        sel = [i for i, v in enumerate(verdicts) if v == want]
        judge_filter(rec, [fs[i] for i in sel], ref, rtol, [want] * len(sel), sub={'mode': 'only_' + want})
    for i, f in enumerate(fs):
        judge_filter(rec, [f], ref, rtol, [verdicts[i]], sub={'mode': 'single', 'i': i})


def run_inphase_int(case, rec):
    ref = case['ref']
    rec.cls('inphase_int_dtype')
    mags = [0, 1, 2, 3, 4, 5, 6, 7, 8, 12, 14, 16, 21, 28, 42, 56, 64, 7 * 16, 100]
    fs = [s * m for m in mags for s in (1, -1) if not (m == 0 and s == -1)]
    rtol = 1e-3
    verdicts = [series.in_phase(f, ref, rtol) for f in fs]
    for v in verdicts:
        rec.cls('inphase_' + v)
    rec.states += len(fs)
    rec.nontrivial += 1
    judge_filter(rec, fs, ref, rtol, verdicts, dtype='int64', sub={'mode': 'int_table'})
    for i, f in enumerate(fs):
        judge_filter(rec, [f], ref, rtol, [verdicts[i]], dtype='int64', sub={'mode': 'int_single', 'i': i})


def run_case(case, rec):
    kind = case['kind']
    if kind == 'short':
        _filtering.uuid = _FixedUuid
        try:
            run_short(case, rec)
        finally:
            _filtering.uuid = _REAL_UUID
    elif kind == 'long':
        run_long(case, rec)
    elif kind == 'shift':
        _filtering.uuid = _FixedUuid
        try:
            run_shift(case, rec)
        finally:
            _filtering.uuid = _REAL_UUID
    elif kind == 'history':
        run_history(case, rec)
    elif kind == 'inphase':
        run_inphase(case, rec)
    elif kind == 'inphase_int':
        run_inphase_int(case, rec)
    else:
        raise ValueError(kind)
