"""C03 - straight-beamline geometry is Euclidean; 2theta is stable.

Shape G.  One case = (direction of beam 1, |b1|, |b2|, base angle, units of the two
beams, choice of the perpendicular); inside, all 11 angle offsets x {0-d call, symmetric
call, 24 exact cube rotations + 3 generic rotations, 12 rescalings, 3 sample positions
(exact / inexact translations) through kernels and through the data-array accessors}.
Oracle: ref/geom.py (differences, norms, atan2(|a x b|, a.b) at 50 digits) evaluated on
the float values handed to the implementation.
"""
from __future__ import annotations

import math
from fractions import Fraction

import numpy as np
import scipp as sc
import scippneutron as scn
from scippneutron.conversion import beamline as bl

from props import geom_common as gc
from ref import geom, hp

ID = 'C03'
LEVEL = 'model_checking'
RULE = (
    'full product of beam-1 direction x |b1| x |b2| x base angle {0, pi/2, pi} x unit pair x perpendicular; '
    'inside every case all 11 offsets {0, +-1e-12, +-1e-9, +-1e-6, +-1e-3, 0.7, -0.7} (thorough: 23 offsets, 1e-15 and every decade 1e-12..1e-3 except 1e-11, and a 4th base angle pi/3, 26 directions) of the angle between the beams, each '
    'evaluated 0-d, with swapped arguments, under 27 rotations, 12 rescalings and 3 translations; a configuration is '
    'non-trivial when the two float beams are not exactly parallel (reference angle != 0); distinct = distinct '
    '(case, offset) pairs'
)
ASSUMPTIONS = [
    'scipp vector3 elements are float64 (there is no float32 vector dtype), so the float32 clause of the quantifier '
    'has no instance for positions/beams',
    'all three positions of one beamline carry the same length unit (scipp refuses to subtract mismatched units); '
    'the two beams handed to two_theta carry independent units',
    'tolerances: 2theta 5e-15 rad absolute ("about 1e-15"), lengths 4 eps relative, beam components 1 eps relative',
]
BOUND = {
    'quick': '6 directions x 3x3 norms {1e-6,1,1e6} x 3 base angles x 11 offsets, units (m,m) + one mixed pair per case',
    'thorough': '26 directions (18 + nearly-axis, nearly-diagonal, integer-valued) x 3x3 norms x 4 base angles {0, pi/2, pi, pi/3} x 23 offsets '
                '{0, +-1e-15, +-1e-12, +-1e-10, +-1e-9, +-1e-8, +-1e-7, +-1e-6, +-1e-5, +-1e-4, +-1e-3, +-0.7} x 16 unit pairs '
                '{mm,m,km,angstrom}^2 x 2 perpendiculars',
}
REQUIRED_CLASSES = [
    'angle_near_0', 'angle_near_pi_half', 'angle_near_pi', 'angle_generic', 'angle_exactly_0',
    'acos_would_lose_digits', 'symmetric_bitwise', 'scale_pow2_bitwise', 'rot_cube', 'rot_generic',
    'translation_exact', 'translation_inexact', 'accessor_checked', 'array_call', 'scalar_call', 'units_mixed',
]

NORMS = (1.0, 1e-6, 1e6)
BASES_QUICK = (0.0, math.pi / 2, math.pi)
BASES = BASES_QUICK
OFFSETS_QUICK = (0.0, 1e-12, -1e-12, 1e-9, -1e-9, 1e-6, -1e-6, 1e-3, -1e-3, 0.7, -0.7)
OFFSETS = OFFSETS_QUICK
# thorough tier: additionally below the resolution of a double (1e-15), at sqrt(eps) = 1e-8 where arccos is worst,
# and the decades in between
OFFSETS_DEEP = (*OFFSETS_QUICK, *(s * x for x in (1e-15, 1e-10, 1e-8, 1e-7, 1e-5, 1e-4) for s in (1, -1)))
BASES_DEEP = (0.0, math.pi / 2, math.pi, math.pi / 3)
UNITS = ('m', 'mm', 'km', 'angstrom')
SCALES = (2.0, 2.0**20, 2.0**-20, 3.0, 0.1, 1e3)
N_POW2 = 3
SAMPLES = ((0.0, 0.0, 0.0), (0.5, -2.0, 4.0), (1000.1, -333.3, 77.7))

TT_TOL = 5e-15
LEN_RTOL = 4 * gc.EPS
SITE_TT = 'conversion.beamline.two_theta'


def cases(tier):
    out = []
    if tier == 'quick':
        for di in range(gc.N_QUICK_DIRS):
            for n1 in NORMS:
                for n2 in NORMS:
                    for base in range(3):
                        k = (di + base) % 4
                        out.append({'d': di, 'n1': n1, 'n2': n2, 'base': base, 'u1': 'm', 'u2': 'm' if (di + base) % 2 == 0 else UNITS[k], 'perp': 0})
        return out
    for perp in (0, 1):
        for u1 in UNITS:
            for u2 in UNITS:
                for di in range(len(gc.DIRECTIONS_DEEP)):
                    for n1 in NORMS:
                        for n2 in NORMS:
                            for base in range(len(BASES_DEEP)):
                                out.append({'deep': True, 'd': di, 'n1': n1, 'n2': n2, 'base': base, 'u1': u1, 'u2': u2, 'perp': perp})
    return out


def _classify(rec, ang):
    a = float(ang)
    if ang == 0:
        rec.cls('angle_exactly_0')
    if a < 2e-3:
        rec.cls('angle_near_0')
    elif abs(a - math.pi / 2) < 2e-3:
        rec.cls('angle_near_pi_half')
    elif a > math.pi - 2e-3:
        rec.cls('angle_near_pi')
    else:
        rec.cls('angle_generic')


def _judge_tt(rec, got, want, kind, what, **sub):
    """got float, want mpf.  Records range + accuracy violations."""
    rec.evals += 1
    rec.validated += 1
    rec.observe(got)
    if not (0.0 <= got <= math.pi):
        rec.viol(SITE_TT, 'out_of_range', f'{what}: 2theta={got!r} outside [0, pi]', **sub)
        return
    err = abs(hp.mpf(got) - want)
    if err > TT_TOL:
        rec.viol(SITE_TT, kind, f'{what}: got {got!r}, 50-digit angle {float(want)!r}, |diff|={float(err):.3e} > {TT_TOL}', **sub)


def _tt(b1, u1, b2, u2):
    return float(bl.two_theta(incident_beam=gc.vec(b1, u1), scattered_beam=gc.vec(b2, u2)).value)


def _exact_translation(S, b1, b2, src, pos):
    F = Fraction
    return all(F(S[i]) - F(src[i]) == F(b1[i]) and F(pos[i]) - F(S[i]) == F(b2[i]) for i in range(3))


def _rel_ok(got, want, rtol):
    if want == 0:
        return got == 0
    return abs(hp.mpf(got) - want) <= rtol * abs(want)


def run_case(case, rec):
    rec = gc.Dedup(rec)
    try:
        _run(case, rec)
    finally:
        rec.flush()


def _run(case, rec):
    deep = bool(case.get('deep'))
    OFFSETS = OFFSETS_DEEP if deep else OFFSETS_QUICK  # noqa: N806 - shadows the module constant on purpose
    BASES = BASES_DEEP if deep else BASES_QUICK  # noqa: N806
    d = (gc.DIRECTIONS_DEEP if deep else gc.DIRECTIONS)[case['d']]
    p = gc.perpendicular(d, case['perp'])
    n1, n2, u1, u2 = case['n1'], case['n2'], case['u1'], case['u2']
    dh = gc.unit_dir(d)
    b1 = tuple(n1 * x for x in dh)
    base = BASES[case['base']]
    b2s = [gc.beam_at_angle(d, p, base + o, n2) for o in OFFSETS]
    if u1 != u2:
        rec.cls('units_mixed')

    refs = []
    gots = []
    for o, b2 in zip(OFFSETS, b2s, strict=True):
        sub = {'offset': o, 'b1': list(b1), 'b2': list(b2)}
        want = geom.two_theta(b1, b2)
        refs.append(want)
        rec.states += 1
        if want != 0:
            rec.nontrivial += 1
        _classify(rec, want)
        # would the textbook formula have been told apart here?
        e1 = np.asarray(b1) / np.linalg.norm(b1)
        e2 = np.asarray(b2) / np.linalg.norm(b2)
        ac = math.acos(max(-1.0, min(1.0, float(e1 @ e2))))
        if abs(hp.mpf(ac) - want) > 1e-10:
            rec.cls('acos_would_lose_digits')

        # A: 0-d call, and with the arguments swapped
        got = _tt(b1, u1, b2, u2)
        rec.transitions += 2
        rec.cls('scalar_call')
        gots.append(got)
        _judge_tt(rec, got, want, 'inaccurate', '0-d', **sub)
        swapped = _tt(b2, u2, b1, u1)
        _judge_tt(rec, swapped, want, 'inaccurate', 'swapped arguments', **sub)
        if swapped == got:
            rec.cls('symmetric_bitwise')
        elif abs(swapped - got) > 1e-15:
            rec.viol(SITE_TT, 'asymmetric', f'two_theta(b1,b2)={got!r} but two_theta(b2,b1)={swapped!r}', **sub)

        # B: 24 exact cube rotations + 3 generic rotations, one array call
        r1 = [geom.apply_cube(r, b1) for r in gc.CUBE] + [list(map(float, m @ np.asarray(b1))) for m in gc.GENERIC]
        r2 = [geom.apply_cube(r, b2) for r in gc.CUBE] + [list(map(float, m @ np.asarray(b2))) for m in gc.GENERIC]
        res = bl.two_theta(incident_beam=gc.vecs(r1, u1), scattered_beam=gc.vecs(r2, u2)).values
        rec.transitions += 1
        rec.cls('array_call')
        for k in range(len(r1)):
            rec.states += 1
            if k < 24:
                w = want  # exact rotation of the same floats: same angle
                rec.cls('rot_cube')
            else:
                w = geom.two_theta(r1[k], r2[k])
                rec.cls('rot_generic')
            _judge_tt(rec, float(res[k]), w, 'inaccurate', f'rotation #{k}', rotation=k, **sub)
            if abs(float(res[k]) - got) > 2 * TT_TOL:
                rec.viol(SITE_TT, 'rotation_dependent', f'rotation #{k}: {float(res[k])!r} vs unrotated {got!r}', rotation=k, **sub)
        rec.cls('array_equals_scalar_bitwise' if float(res[0]) == got else 'array_differs_from_scalar')  # informative only

        # C: rescaling either beam
        s1 = [[f * x for x in b1] for f in SCALES]
        s2 = [[f * x for x in b2] for f in SCALES]
        resa = bl.two_theta(incident_beam=gc.vecs(s1, u1), scattered_beam=gc.vecs([b2] * len(SCALES), u2)).values
        resb = bl.two_theta(incident_beam=gc.vec(b1, u1), scattered_beam=gc.vecs(s2, u2)).values
        rec.transitions += 2
        for which, resx, sx in (('b1', resa, s1), ('b2', resb, s2)):
            for k, f in enumerate(SCALES):
                rec.states += 1
                g = float(resx[k])
                if k < N_POW2:
                    w = want
                    if g == got:
                        rec.cls('scale_pow2_bitwise')
                    elif abs(g - got) > 1e-15:
                        rec.viol(SITE_TT, 'scale_dependent', f'{which} x {f}: {g!r} vs {got!r}', scale=f, which=which, **sub)
                else:
                    w = geom.two_theta(sx[k], b2) if which == 'b1' else geom.two_theta(b1, sx[k])
                    if abs(g - got) > 2 * TT_TOL:
                        rec.viol(SITE_TT, 'scale_dependent', f'{which} x {f}: {g!r} vs {got!r}', scale=f, which=which, **sub)
                _judge_tt(rec, g, w, 'inaccurate', f'{which} scaled by {f}', scale=f, which=which, **sub)

    # A': all offsets in one array call
    res = bl.two_theta(incident_beam=gc.vec(b1, u1), scattered_beam=gc.vecs(b2s, u2)).values
    rec.transitions += 1
    for k, o in enumerate(OFFSETS):
        _judge_tt(rec, float(res[k]), refs[k], 'inaccurate', 'per-pixel array', offset=o)
        rec.cls('array_equals_scalar_bitwise' if float(res[k]) == gots[k] else 'array_differs_from_scalar')  # informative only

    # A'': per-pixel incident beam with a 0-d scattered beam (the mirror image of A')
    rec.states += 1
    rec.transitions += 1
    try:
        res = bl.two_theta(incident_beam=gc.vecs(b2s, u2), scattered_beam=gc.vec(b1, u1)).values
    except sc.DimensionError as e:
        rec.cls('incident_array_scattered_scalar_raises')
        rec.viol(SITE_TT, 'raises_incident_array_scattered_scalar', f'two_theta(incident per-pixel, scattered 0-d) raises DimensionError: {e}')
    else:
        rec.cls('incident_array_scattered_scalar_ok')
        for k, o in enumerate(OFFSETS):
            _judge_tt(rec, float(res[k]), refs[k], 'inaccurate', 'per-pixel incident beam', offset=o)

    # A''': both beams are arrays over *different* dimensions (several sources x several pixels): outer product of angles
    rec.states += 1
    rec.transitions += 1
    inc = sc.concat([gc.vec(b1, u1), gc.vec(tuple(2.0 * x for x in b1), u1)], 'source')
    sca = gc.vecs(b2s, u2)
    for first, second, label in ((inc, sca, 'incident[source] x scattered[pixel]'), (sca, inc, 'incident[pixel] x scattered[source]')):
        try:
            r = bl.two_theta(incident_beam=first, scattered_beam=second)
        except sc.DimensionError as e:
            rec.viol(SITE_TT, 'raises_outer_product_layout', f'two_theta({label}) raises DimensionError: {e}', layout=label)
            continue
        rec.cls('outer_product_layout_ok')
        pix_dim = sca.dims[0]
        r = r.transpose(['source', pix_dim]).values
        for j in range(2):
            for k, o in enumerate(OFFSETS):
                _judge_tt(rec, float(r[j][k]), refs[k], 'inaccurate', label, offset=o)

    # D: positions -> beams, lengths, angle; kernels and data-array accessors
    u = u1
    for S in SAMPLES:
        src = tuple(S[i] - b1[i] for i in range(3))
        poss = [tuple(S[i] + b2[i] for i in range(3)) for b2 in b2s]
        ref = [geom.euclid(src, S, pos) for pos in poss]
        v_src, v_sam, v_pos = gc.vec(src, u), gc.vec(S, u), gc.vecs(poss, u)
        inc = bl.straight_incident_beam(source_position=v_src, sample_position=v_sam)
        sca = bl.straight_scattered_beam(position=v_pos, sample_position=v_sam)
        l1 = bl.L1(incident_beam=inc)
        l2 = bl.L2(scattered_beam=sca)
        lt = bl.total_beam_length(L1=l1, L2=l2)
        ln = bl.total_straight_beam_length_no_scatter(source_position=v_src, position=v_pos)
        tt = bl.two_theta(incident_beam=inc, scattered_beam=sca)
        da = sc.DataArray(
            sc.ones(dims=['pixel'], shape=[len(poss)]),
            coords={'position': v_pos, 'source_position': v_src, 'sample_position': v_sam},
        )
        acc = {
            'incident_beam': scn.incident_beam(da), 'scattered_beam': scn.scattered_beam(da),
            'L1': scn.L1(da), 'L2': scn.L2(da), 'Ltotal_scatter': scn.Ltotal(da, scatter=True),
            'Ltotal_no_scatter': scn.Ltotal(da, scatter=False), 'two_theta': scn.two_theta(da),
        }
        ker = {'incident_beam': inc, 'scattered_beam': sca, 'L1': l1, 'L2': l2, 'Ltotal_scatter': lt, 'Ltotal_no_scatter': ln, 'two_theta': tt}
        rec.transitions += 14
        rec.cls('accessor_checked')
        for route, table in (('kernel', ker), ('accessor', acc)):
            for name, var in table.items():
                site = ('conversion.beamline.' if route == 'kernel' else 'beamline_components.') + name
                want_unit = sc.Unit('rad') if name == 'two_theta' else sc.Unit(u)
                if var.unit != want_unit:
                    rec.viol(site, 'wrong_unit', f'{name} has unit {var.unit}, expected {want_unit}', sample=list(S))
                    continue
                for k, o in enumerate(OFFSETS):
                    r = ref[k]
                    sub = {'sample': list(S), 'offset': o, 'source': list(src), 'position': list(poss[k])}
                    rec.evals += 1
                    rec.validated += 1
                    if name in ('incident_beam', 'scattered_beam'):
                        g = var.value if var.ndim == 0 else var.values[k]
                        rec.observe(tuple(float(x) for x in g))
                        if not all(_rel_ok(float(g[i]), r[name][i], gc.EPS) for i in range(3)):
                            rec.viol(site, 'not_euclidean', f'{name}={list(map(float, g))}, exact difference {[float(x) for x in r[name]]}', **sub)
                    elif name == 'two_theta':
                        g = float(var.values[k])
                        rec.observe(g)
                        if not (0.0 <= g <= math.pi):
                            rec.viol(site, 'out_of_range', f'2theta={g!r}', **sub)
                        elif abs(hp.mpf(g) - r[name]) > TT_TOL:
                            rec.viol(site, 'inaccurate', f'2theta from positions {g!r}, 50-digit {float(r[name])!r}', **sub)
                    else:
                        g = float(var.value if var.ndim == 0 else var.values[k])
                        rec.observe(g)
                        if not _rel_ok(g, r[name], LEN_RTOL):
                            rec.viol(site, 'not_euclidean', f'{name}={g!r}, exact {float(r[name])!r}, rel {hp.rel_err(g, r[name]):.2e}', **sub)
        # translation invariance where the translation is exact on the floats
        for k, o in enumerate(OFFSETS):
            rec.states += 1
            if _exact_translation(S, b1, b2s[k], src, poss[k]):
                rec.cls('translation_exact')
                same = _tt(b1, u, b2s[k], u)
                rec.transitions += 1
                if abs(float(tt.values[k]) - same) > 1e-15:
                    rec.viol(SITE_TT, 'translation_dependent', f'sample at {S}: 2theta {float(tt.values[k])!r} vs untranslated {same!r}', sample=list(S), offset=o)
            else:
                rec.cls('translation_inexact')


# ---------------------------------------------------------------------------------------
# layout / reuse exploration shared by the kernel properties (props/layouts.py): every combination of operand layouts
# (0-d, 1-d over either of two dims, 2-d, 2-d transposed) must equal the element-wise 0-d calls, also after every operand
# has been overwritten in place and the kernel is called again.

from props import layouts as _layouts  # noqa: E402

_LAYOUT_SITES = ['conversion.beamline.L1', 'conversion.beamline.L2', 'conversion.beamline.straight_incident_beam', 'conversion.beamline.straight_scattered_beam', 'conversion.beamline.total_beam_length', 'conversion.beamline.total_straight_beam_length_no_scatter', 'conversion.beamline.two_theta', 'conversion.beamline.two_theta/long', 'conversion.beamline.two_theta/unit-m', 'conversion.beamline.two_theta/unit-dimensionless', 'conversion.beamline.two_theta/unit0d-dimensionless']
_cases_main, _run_case_main = cases, run_case
RULE = RULE + ' Layout cases: every combination of operand layouts (0d / 1-d a / 1-d b / 2-d ab / 2-d stored ba) per kernel x unit-dtype variant, each followed by an in-place update of all operands and a second call.'
REQUIRED_CLASSES = [*REQUIRED_CLASSES, 'layout_ok', 'reuse_after_inplace_update_ok', 'layout_transposed_operand', 'repeat_call_identical']


def cases(tier):
    return _cases_main(tier) + _layouts.cases_for(_LAYOUT_SITES, variants=(0, 1, 2, 3, 4) if tier == 'thorough' else (0, 1, 3))


def run_case(case, rec):
    if case.get('kind') == 'layout':
        _layouts.run_layout_case(case, rec)
    else:
        _run_case_main(case, rec)


# ---------------------------------------------------------------------------------------
# history family (props/c03_history.py): accessor calls interleaved with in-place updates / replacements of the position
# coordinates and copies of the data array, all sequences up to depth 3 (quick) / 4 (thorough).

from props import c03_history as _history  # noqa: E402

_cases_with_layouts, _run_case_with_layouts = cases, run_case
RULE = RULE + _history.RULE
BOUND = {k: v + '; accessor histories: all event sequences of length <= %d over %d events' % (3 if k == 'quick' else 4, _history.N_EVENTS) for k, v in BOUND.items()}
REQUIRED_CLASSES = {'quick': [*REQUIRED_CLASSES, *_history.REQUIRED], 'thorough': [*REQUIRED_CLASSES, *_history.REQUIRED, 'history_depth_4']}


def cases(tier):
    return _cases_with_layouts(tier) + _history.cases(tier)


def run_case(case, rec):
    if case.get('kind') == 'history':
        rec = gc.Dedup(rec)
        try:
            _history.run_case(case, rec)
        finally:
            rec.flush()
    else:
        _run_case_with_layouts(case, rec)
