"""Shared input builders for the SQW checks (C12, C13).  Harness side only."""
from __future__ import annotations

import atexit
import dataclasses
import os
import shutil
import tempfile
from datetime import datetime, timezone
from io import BytesIO

import numpy as np
import scipp as sc

from scippneutron.io import sqw as sqwmod
from scippneutron.io.sqw import (
    EnergyMode,
    Sqw,
    SqwDndMetadata,
    SqwIXExperiment,
    SqwIXNullInstrument,
    SqwIXSample,
    SqwIXSource,
    SqwLineAxes,
    SqwLineProj,
)

FROZEN = datetime(2024, 5, 6, 7, 8, 9, tzinfo=timezone.utc)
FROZEN_STR = '2024-05-06T07:08:09+00:00'


class _FrozenDatetime(datetime):
    @classmethod
    def now(cls, tz=None):
        return FROZEN


def freeze_clock():
    """Own the wall clock: the two modules that stamp dates see a fixed 'now'."""
    import scippneutron.io.sqw._build as b
    import scippneutron.io.sqw._models as m

    m.datetime = _FrozenDatetime
    b.datetime = _FrozenDatetime


_TMP = None


def tmpdir():
    global _TMP
    if _TMP is None:
        _TMP = tempfile.mkdtemp(prefix=f'verif-sqw-{os.getpid()}-')
        atexit.register(shutil.rmtree, _TMP, ignore_errors=True)
    return _TMP


# fingerprint values: distinct per pixel and per row, not representable in float32


def pixel_data(n: int, units: str = 'default', dtype='float64', index_dtype='int64') -> sc.DataArray:
    i = np.arange(n, dtype='float64')
    u = {
        'default': ('1/angstrom', '1/angstrom', '1/angstrom', 'meV', 'count'),
        'alt': ('1/nm', '1/fm', '10/angstrom', 'eV', 'Mcount'),
        'alt2': ('1/um', '1/angstrom', '1/nm', 'ueV', 'count'),
        'extreme': ('1/angstrom', '1/angstrom', '1/angstrom', 'eV', 'count'),
        'narrow': ('1/angstrom', '1/angstrom', '1/angstrom', 'meV', 'count'),
    }[units]
    sig_unit = sc.Unit('count') if u[4] == 'count' else sc.Unit('mega count')

    def col(k, scale):
        # irrational-ish, sign-alternating, wide magnitude range
        v = ((i + 1.0) * 0.1234567890123 + k * 1000.1) * scale
        v = v * np.where((i.astype(int) + k) % 3 == 0, -1.0, 1.0)
        return v.astype(dtype)

    values = (np.abs(col(7, 1.0)) + 0.1).astype(dtype)
    variances = (np.abs(col(8, 1e-3)) + 1e-3).astype(dtype)
    extreme = units == 'extreme'
    if extreme and n:
        # finite float64 values outside the float32 range in the row unit (one rounding gives +-inf), and below the
        # smallest float32 subnormal (one rounding gives +-0)
        variances[0] = 2.5e39
        values[n // 2] = 1e-50
    u4 = col(4, 1.0)
    if extreme and n:
        u4[-1] = -7e35  # eV -> -7e38 meV, beyond float32
    da = sc.DataArray(
        sc.array(dims=['obs'], values=values, variances=variances, unit=sig_unit),
        coords={
            'idet': sc.array(dims=['obs'], values=(np.arange(n) // 3 + 1).astype(index_dtype), unit=None),
            'irun': sc.array(dims=['obs'], values=(np.arange(n) // 2).astype(index_dtype), unit=None),
            'ien': sc.array(dims=['obs'], values=(np.arange(n) * 2 // 10).astype(index_dtype), unit=None),
            'u1': sc.array(dims=['obs'], values=col(1, 1.0), unit=u[0]),
            'u2': sc.array(dims=['obs'], values=col(2, 1e-3), unit=u[1]),
            'u3': sc.array(dims=['obs'], values=col(3, 1e3), unit=u[2]),
            'u4': sc.array(dims=['obs'], values=u4, unit=u[3]),
        },
    )
    if units == 'narrow' and n:
        # round 6: rows whose spread is tiny relative to their size (or absolutely tiny) but whose float32 images are still
        # distinct, next to exactly constant rows; every pixel must still be written as supplied
        j = np.arange(n)
        da.coords['idet'].values = (100000 + j % 2).astype(index_dtype)
        da.coords['irun'].values = np.full(n, 1).astype(index_dtype)
        da.coords['ien'].values = (16777210 + j % 3).astype(index_dtype)
        da.coords['u1'].values = (3.0 + 2e-6 * (j % 4)).astype(dtype)
        da.coords['u2'].values = (1e-9 * (1 + j % 5)).astype(dtype)
        da.coords['u3'].values = np.full(n, -2.5).astype(dtype)
        da.coords['u4'].values = (250.0 + 1e-3 * (j % 3)).astype(dtype)
        da.values = (1e-9 * (1 + j % 7)).astype(dtype)
        da.variances = (1e-12 * (1 + j % 2)).astype(dtype)
    return da


ROW_NAMES = ('u1', 'u2', 'u3', 'u4', 'irun', 'idet', 'ien', 'signal', 'error')
ROW_UNITS = ('1/angstrom', '1/angstrom', '1/angstrom', 'meV', None, None, None, 'count', 'count**2')


def expected_pixel_rows(da: sc.DataArray) -> np.ndarray:
    """(n, 9) float32 array: each row converted to its declared unit, rounded once."""
    cols = []
    for name, unit in zip(ROW_NAMES, ROW_UNITS, strict=True):
        if name == 'signal':
            v = sc.values(da.data)
        elif name == 'error':
            v = sc.variances(da.data)
        else:
            v = da.coords[name]
        if unit is not None:
            v = v.to(unit=unit, dtype='float64')
        with np.errstate(over='ignore', under='ignore'):
            cols.append(np.asarray(v.values, dtype='float64').astype('float32'))
    return np.stack(cols, axis=1) if len(cols[0]) else np.zeros((0, 9), 'float32')


def experiment(run_id=0, mode='direct', angle_unit='rad', energy_unit='meV', n_en=3, n_det=4, en2d=False, filename='run.nxspe', filepath='/data', efix_array=False, int_dtype=None) -> SqwIXExperiment:
    def whole(v):
        # whole numbers held in an integer variable (int_dtype), e.g. energies counted in ueV, angles in whole degrees
        return sc.round(v).astype(int_dtype) if int_dtype else v

    def ang(x):
        v = sc.scalar(float(x), unit='rad')
        return whole(v.to(unit=angle_unit))

    def en(x):
        return whole(x.to(unit=energy_unit))

    en_vals = sc.array(dims=['energy_transfer'], values=[-0.1 + 0.37 * k for k in range(n_en)], unit='meV')
    if mode == 'direct':
        efix = sc.scalar(1.2 + run_id, unit='meV')
        if efix_array:
            efix = sc.array(dims=['detector'], values=[1.2 + run_id], unit='meV')
        emode = EnergyMode.direct
    else:
        efix = sc.array(dims=['detector'], values=[2.0 + 0.25 * d + run_id for d in range(n_det)], unit='meV')
        emode = EnergyMode.indirect
        if en2d:
            en_vals = sc.array(
                dims=['detector', 'energy_transfer'],
                values=[[-0.1 + 0.37 * k + 10 * d for k in range(n_en)] for d in range(n_det)],
                unit='meV',
            )
    return SqwIXExperiment(
        run_id=run_id,
        efix=en(efix),
        emode=emode,
        en=en(en_vals),
        psi=ang(0.4 + 0.01 * run_id),
        u=sc.vector([1.0, 0.0, 0.5], unit='1/angstrom'),
        v=sc.vector([0.0, 1.0, -0.25], unit='1/angstrom'),
        omega=ang(-0.01),
        dpsi=ang(0.125),
        gl=ang(1.2),
        gs=ang(0.6),
        filename=filename,
        filepath=filepath,
    )


def instrument(name='Custom Instrument') -> SqwIXNullInstrument:
    return SqwIXNullInstrument(
        name=name,
        source=SqwIXSource(name='My Source', target_name='The target', frequency=sc.scalar(13.4, unit='MHz')),
    )


def sample(name='Vibranium', unit='angstrom') -> SqwIXSample:
    return SqwIXSample(
        name=name,
        lattice_spacing=sc.vector([2.86, 3.5, 4.25], unit='angstrom').to(unit=unit),
        lattice_angle=sc.vector([90.0, 80.0, 70.0], unit='deg'),
    )


def dnd_metadata(n_bins=(2, 2, 2, 2), q_unit='1/angstrom', e_unit='meV', with_w=False, title='My Axes') -> SqwDndMetadata:
    def q(x):
        return sc.scalar(float(x), unit='1/angstrom').to(unit=q_unit)

    def e(x):
        return sc.scalar(float(x), unit='meV').to(unit=e_unit)

    def qr(a, b):
        return sc.array(dims=['range'], values=[float(a), float(b)], unit='1/angstrom').to(unit=q_unit)

    def er(a, b):
        return sc.array(dims=['range'], values=[float(a), float(b)], unit='meV').to(unit=e_unit)

    return SqwDndMetadata(
        axes=SqwLineAxes(
            title=title,
            label=['u1', 'u2', 'u3', 'u4'],
            img_scales=[q(1.0), q(1.5), q(2.0), e(1.25)],
            img_range=[qr(0, 1), qr(-1, 2), qr(0.5, 3), er(-4, 5)],
            n_bins_all_dims=sc.array(dims=['axis'], values=list(n_bins), unit=None),
            single_bin_defines_iax=sc.array(dims=['axis'], values=[True, False, True, True]),
            dax=sc.arange('axis', 4, unit=None),
            offset=[q(0.0), q(0.25), q(0.0), e(0.5)],
            changes_aspect_ratio=True,
            filename='dnd_axes',
            filepath='/dnd',
        ),
        proj=SqwLineProj(
            title='My Projection',
            lattice_spacing=sc.vector([2.86, 3.5, 4.25], unit='angstrom'),
            lattice_angle=sc.vector([90.0, 80.0, 70.0], unit='deg'),
            offset=[q(0.0), q(0.125), q(0.0), e(-0.5)],
            label=['u1', 'u2', 'u3', 'u4'],
            u=sc.vector([1.0, 0.0, 0.0], unit='1/angstrom'),
            v=sc.vector([0.0, 1.0, 0.0], unit='1/angstrom'),
            w=sc.vector([0.0, 0.0, 1.0], unit='1/angstrom') if with_w else None,
            non_orthogonal=False,
            type='aaa',
        ),
    )


OPS = ('pix', 'inst', 'samp', 'dnd', 'det')


def apply_ops(builder, ops, *, n_pixels=7, runs=1, n_bins=(2, 2, 2, 2), pix=None, experiments=None, units='default'):  # noqa: PLR0913
    for op in ops:
        if op == 'pix':
            data = pix if pix is not None else pixel_data(n_pixels, units)
            exps = experiments if experiments is not None else [experiment(run_id=r, filename=f'f{r}') for r in range(runs)]
            builder = builder.add_pixel_data(data, experiments=exps)
        elif op == 'inst':
            builder = builder.add_default_instrument(instrument())
        elif op == 'samp':
            builder = builder.add_default_sample(sample())
        elif op == 'dnd':
            builder = builder.add_empty_dnd_data(dnd_metadata(n_bins))
        elif op == 'det':
            builder = builder.add_empty_detector_params()
        else:
            raise ValueError(op)
    return builder


def write_file(ops, *, byteorder='native', sink='bytes', chunk=None, title='T', fname='f.sqw', **kw) -> tuple[bytes, str | None]:
    """Run the real builder and return (file bytes, path or None)."""
    if sink == 'bytes':
        target = BytesIO()
        path = None
    else:
        path = os.path.join(tmpdir(), fname)
        if os.path.exists(path):
            os.remove(path)
        if sink == 'path_existing':
            # the path already holds a longer file (an earlier, bigger export): the new file must replace it entirely
            with open(path, 'wb') as f:
                f.write(b'\xa5' * 3_000_000)
        target = path
    builder = Sqw.build(target, title=title, byteorder=byteorder)
    builder = apply_ops(builder, ops, **kw)
    if chunk is None:
        builder.create()
    else:
        builder.create(chunk_size=chunk)
    if sink == 'bytes':
        return target.getvalue(), None
    with open(path, 'rb') as f:
        data = f.read()
    os.remove(path)
    return data, path


EXPECTED_SERIAL = {
    ('', 'main_header'): 'main_header_cl',
    ('', 'detpar'): 'unique_references_container',
    ('data', 'metadata'): 'dnd_metadata',
    ('experiment_info', 'instruments'): 'unique_references_container',
    ('experiment_info', 'samples'): 'unique_references_container',
    ('experiment_info', 'expdata'): 'IX_experiment',
    ('pix', 'metadata'): 'pix_metadata',
}


def expected_blocks(ops) -> dict:
    """Block name -> block type implied by the builder calls made."""
    s = set(ops)
    out = {('', 'main_header'): 'data_block'}
    if 'det' in s:
        out[('', 'detpar')] = 'data_block'
    if 'dnd' in s:
        out[('data', 'metadata')] = 'data_block'
        out[('data', 'nd_data')] = 'dnd_data_block'
    if 'inst' in s:
        out[('experiment_info', 'instruments')] = 'data_block'
    if 'samp' in s:
        out[('experiment_info', 'samples')] = 'data_block'
    if 'pix' in s:
        out[('experiment_info', 'expdata')] = 'data_block'
        out[('pix', 'metadata')] = 'data_block'
        out[('pix', 'data_wrap')] = 'pix_data_block'
    return out


__all__ = [n for n in dir() if not n.startswith('_')]
_ = (dataclasses, sqwmod)
