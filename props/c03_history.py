"""C03 history family (shape H): the data-array accessors ``scippneutron.L1 / L2 / Ltotal / two_theta /
incident_beam / scattered_beam / position / source_position / sample_position`` always describe the positions
the data array has *at the time of the call*.

Breadth-first exploration of all event sequences up to a depth over the alphabet

    call accessor X                  (6 accessors)
    update coordinate Y in place     (+=, *=, slice assignment, write through .values; same object, same shape)
    replace coordinate Y             (da.coords[Y] = new variable)
    copy the data array              (deep / shallow; the history continues on the copy)

executed on the real objects from a fresh data array.  Oracle: ref/geom.py on the coordinate values the data
array holds at that moment - for every accessor call inside the history, and for *all* accessors at the end of
the history, where the results must also be bitwise those of a fresh deep copy of the data array.
"""
from __future__ import annotations

import math

import numpy as np
import scipp as sc
import scippneutron as scn

from props import geom_common as gc
from ref import geom, hp

TT_TOL = 5e-15
LEN_RTOL = 4 * gc.EPS

ACCESSORS = {
    'L1': lambda da: scn.L1(da),
    'L2': lambda da: scn.L2(da),
    'two_theta': lambda da: scn.two_theta(da),
    'Ltotal_scatter': lambda da: scn.Ltotal(da, scatter=True),
    'Ltotal_no_scatter': lambda da: scn.Ltotal(da, scatter=False),
    'incident_beam': lambda da: scn.incident_beam(da),
    'scattered_beam': lambda da: scn.scattered_beam(da),
    'position': lambda da: scn.position(da),
    'source_position': lambda da: scn.source_position(da),
    'sample_position': lambda da: scn.sample_position(da),
}
CALL_EVENTS = ['L2', 'two_theta', 'Ltotal_no_scatter', 'scattered_beam', 'incident_beam', 'position']
# accessors compared with a fresh deep copy at the end of every history (together they depend on all three coordinates)
FRESH_COMPARE = ['two_theta', 'Ltotal_no_scatter', 'scattered_beam', 'L1']


def _v(x, y, z):
    return sc.vector([x, y, z], unit='m')


def _iadd(key, off):
    def f(da):
        da.coords[key] += _v(*off)
        return da
    return f


def _imul(key, fac):
    def f(da):
        da.coords[key] *= fac
        return da
    return f


def _slice_assign(da):
    da.coords['position']['pixel', 1] = _v(0.7, 0.7, 0.7)
    return da


def _set_values(key, vals):
    def f(da):
        var = da.coords[key]
        if var.ndim == 0:
            var.values[:] = np.asarray(vals, dtype=float)
        else:
            var.values[2] = np.asarray(vals, dtype=float)
        return da
    return f


def _replace(key, make):
    def f(da):
        da.coords[key] = make()
        return da
    return f


MUTATIONS = {
    'inplace position +=': _iadd('position', (0.0, 0.25, 0.5)),
    'inplace position[pixel 1] = v': _slice_assign,
    'inplace position.values[2] = v': _set_values('position', (-1.5, 0.5, 2.25)),
    'inplace sample_position +=': _iadd('sample_position', (0.05, -0.1, 0.02)),
    'inplace sample_position *= 0.5': _imul('sample_position', 0.5),
    'inplace sample_position.values[:] = v': _set_values('sample_position', (-0.1, 0.15, 0.4)),
    'inplace source_position +=': _iadd('source_position', (0.1, 0.0, -1.0)),
    'inplace source_position.values[:] = v': _set_values('source_position', (0.3, -0.2, -12.0)),
    'replace position': _replace('position', lambda: sc.vectors(dims=['pixel'], values=[[0.9, 0.1, 0.2], [0.1, 1.4, 2.1], [-0.5, 0.3, -2.9]], unit='m')),
    'replace sample_position': _replace('sample_position', lambda: _v(0.0, 0.1, 0.2)),
    'replace source_position': _replace('source_position', lambda: _v(0.0, 0.5, -9.0)),
    'deep copy': lambda da: da.copy(),
    'shallow copy': lambda da: da.copy(deep=False),
}
EVENTS = [*('call ' + x for x in CALL_EVENTS), *MUTATIONS]
N_EVENTS = len(EVENTS)


def make_data():
    return sc.DataArray(
        sc.ones(dims=['pixel'], shape=[3]),
        coords={
            'position': sc.vectors(dims=['pixel'], values=[[1.0, 0.0, 0.3], [0.0, 1.5, 2.0], [-0.4, 0.2, -3.0]], unit='m'),
            'source_position': _v(0.0, 0.0, -10.0),
            'sample_position': _v(0.1, 0.2, 0.3),
        },
    )


_REF_CACHE: dict = {}


def _reference(da):
    """Euclidean quantities (50 digits) of the coordinates the data array holds right now, per pixel."""
    src = tuple(float(x) for x in da.coords['source_position'].value)
    sam = tuple(float(x) for x in da.coords['sample_position'].value)
    pos = tuple(tuple(float(x) for x in p) for p in da.coords['position'].values)
    key = (src, sam, pos)
    if key not in _REF_CACHE:
        if len(_REF_CACHE) > 20000:
            _REF_CACHE.clear()
        _REF_CACHE[key] = [geom.euclid(src, sam, p) for p in pos]
    return key, _REF_CACHE[key]


def _rel_ok(got, want, rtol):
    if want == 0:
        return got == 0
    return abs(hp.mpf(got) - want) <= rtol * abs(want)


def _judge(rec, name, var, da, history):
    """One accessor result against the geometry of the current coordinates."""
    (src, sam, pos), ref = _reference(da)
    site = 'beamline_components.' + name
    sub = {'history': list(history), 'accessor': name}
    rec.evals += 1
    rec.validated += 1
    want_unit = sc.Unit('rad') if name == 'two_theta' else sc.Unit('m')
    if var.unit != want_unit:
        rec.viol(site, 'wrong_unit', f'{name} has unit {var.unit}', **sub)
        return
    bad = None
    if name in ('position', 'source_position', 'sample_position'):
        want = {'position': pos, 'source_position': src, 'sample_position': sam}[name]
        got = tuple(tuple(float(x) for x in p) for p in var.values) if var.ndim else tuple(float(x) for x in var.value)
        rec.observe(got)
        if got != want:
            bad = f'{name}={got}, coordinate holds {want}'
    elif name in ('incident_beam', 'scattered_beam'):
        vals = var.values if var.ndim else [var.value] * len(pos)
        rec.observe(np.asarray(vals).tolist())
        for k in range(len(pos)):
            if not all(_rel_ok(float(vals[k][i]), ref[k][name][i], gc.EPS) for i in range(3)):
                bad = f'pixel {k}: {name}={list(map(float, vals[k]))}, difference of the current positions {[float(x) for x in ref[k][name]]}'
                break
    else:
        vals = var.values if var.ndim else [var.value] * len(pos)
        rec.observe([float(x) for x in vals])
        for k in range(len(pos)):
            g = float(vals[k])
            if name == 'two_theta':
                ok = 0.0 <= g <= math.pi and abs(hp.mpf(g) - ref[k][name]) <= TT_TOL
            else:
                ok = _rel_ok(g, ref[k][name], LEN_RTOL)
            if not ok:
                bad = f'pixel {k}: {name}={g!r}, Euclidean value for the current positions {float(ref[k][name])!r}'
                break
    if bad:
        rec.viol(site, 'stale_or_wrong_after_history', f'after [{" -> ".join(history)}]: {bad}', **sub)


def _same(a, b):
    return a.dims == b.dims and a.unit == b.unit and np.array_equal(a.values, b.values)


def run_history(rec, history):
    """Execute one event sequence from a fresh data array; judge every accessor call and the final state."""
    da = make_data()
    done = []
    for ev in history:
        name = EVENTS[ev]
        done.append(name)
        rec.transitions += 1
        if name.startswith('call '):
            acc = name[5:]
            _judge(rec, acc, ACCESSORS[acc](da), da, done)
            rec.cls('call_after_inplace_update' if any(e.startswith('inplace') for e in done[:-1]) else 'call_on_unmodified_or_replaced')
        else:
            da = MUTATIONS[name](da)
            rec.cls('event_' + name.split(' ')[0])
    rec.cls('history_depth_%d' % len(history))
    if any(e.startswith('inplace') for e in done) and any(e.startswith('call') for e in done):
        rec.nontrivial += 1
    rec.states += 1
    if done and done[-1].startswith('call '):
        # the call just judged *is* the observation of this state; the coordinates are those of the prefix, whose own
        # history ended with the full observation below
        return
    # final observation: every accessor on the data array of the history, then four of them on a fresh deep copy
    got = {}
    for acc, fn in ACCESSORS.items():
        got[acc] = fn(da)
        rec.transitions += 1
        _judge(rec, acc, got[acc], da, [*done, 'observe ' + acc])
    fresh = da.copy()
    for acc in FRESH_COMPARE:
        rec.transitions += 1
        rec.validated += 1
        if not _same(ACCESSORS[acc](fresh), got[acc]):
            rec.viol('beamline_components.' + acc, 'differs_from_fresh_copy', f'after [{" -> ".join(done)}]: {acc} of the data array differs from {acc} of a fresh deep copy of it', history=list(done), accessor=acc)


def cases(tier):
    """One case per pair of first two events; the case runs that prefix and all its extensions up to the depth."""
    depth = 4 if tier == 'thorough' else 3
    return [{'kind': 'history', 'first': a, 'second': b, 'depth': depth} for a in range(N_EVENTS) for b in range(N_EVENTS)]


def run_case(case, rec):
    a, b, depth = case['first'], case['second'], case['depth']
    if a == 0 and b == 0:
        run_history(rec, [])
    if b == 0:
        run_history(rec, [a])
    stack = [[a, b]]
    while stack:  # breadth-first inside the case: shorter histories first
        nxt = []
        for h in stack:
            run_history(rec, h)
            if len(h) < depth:
                nxt += [[*h, e] for e in range(N_EVENTS)]
        stack = nxt


REQUIRED = ['call_after_inplace_update', 'call_on_unmodified_or_replaced', 'event_inplace', 'event_replace', 'event_deep', 'event_shallow',
            'history_depth_0', 'history_depth_1', 'history_depth_2', 'history_depth_3']
RULE = (' History cases: every sequence of up to 3 (quick) / 4 (thorough) events over {call one of 6 accessors, 8 in-place coordinate updates, '
        '3 coordinate replacements, deep copy, shallow copy} from a fresh data array; every accessor call inside the history and all 10 accessors '
        'at its end judged against ref/geom on the coordinates held at that moment, four of them also against a fresh deep copy.')
