"""Call-site registry for C09 part A: every public computational entry point with an
aliasing alphabet per argument (unit x dtype x shape), so that internal
``to(..., copy=False)`` / ``astype(copy=False)`` conversions become the identity and any
in-place arithmetic would land in the caller's buffer.  Harness side only.
"""
from __future__ import annotations

import io
import itertools

import numpy as np
import scipp as sc

import scippneutron as scn
from scippneutron import beamline_components as bc
from scippneutron.absorption import Cylinder, Material, compute_transmission_map
from scippneutron.atoms import ScatteringParams
from scippneutron.chopper import DiskChopper, collapse_plateaus, filter_in_phase, find_plateaus
from scippneutron.conversion import beamline as kb
from scippneutron.conversion import tof as kt
from scippneutron.io import cif, save_xye
from scippneutron.peaks import fit_peaks, remove_peaks
from scippneutron.peaks import model as pm
from scippneutron.tof import chopper_cascade as cc
from scippneutron.tof import diagram as tdiag

# --------------------------------------------------------------------------------------
# argument alphabets: kind -> (base value, base unit, [(unit, dtype), ...])
F64, F32 = 'float64', 'float32'
KINDS = {
    'time': (5000.0, 'us', [('us', F64), ('s', F64), ('ms', F64), ('us', F32), ('s', F32)]),
    'length': (10.0, 'm', [('m', F64), ('mm', F64), ('angstrom', F64), ('m', F32)]),
    'energy': (25.0, 'meV', [('meV', F64), ('J', F64), ('eV', F64), ('meV', F32)]),
    'angle': (0.7, 'rad', [('rad', F64), ('deg', F64), ('rad', F32)]),
    'wavelength': (2.5, 'angstrom', [('angstrom', F64), ('m', F64), ('nm', F64), ('angstrom', F32), ('m', F32)]),
    'Q': (1.5, '1/angstrom', [('1/angstrom', F64), ('1/nm', F64), ('1/angstrom', F32)]),
    'Qs': (1.5, '1/angstrom', [('1/angstrom', F64), ('1/angstrom', F32)]),
    'accel': (9.81, 'm/s^2', [('m/s^2', F64), ('mm/s^2', F64)]),
    'freq': (14.0, 'Hz', [('Hz', F64), ('kHz', F64), ('Hz', F32)]),
}
VEC_UNITS = {'vlen': ['m', 'mm'], 'vacc': ['m/s^2', 'mm/s^2'], 'vq': ['1/angstrom', '1/nm']}
VEC_BASE = {'vlen': 'm', 'vacc': 'm/s^2', 'vq': '1/angstrom'}


def scalar_var(kind, variant, shape, scale=1.0):
    base, bunit, variants = KINDS[kind]
    unit, dtype = variants[variant]
    if shape == '0d':
        v = sc.scalar(base * scale, unit=bunit)
    elif shape == '1d':
        v = sc.array(dims=['x'], values=np.array([1.0, 1.5, 2.25]) * base * scale, unit=bunit)
    elif shape == 'pix':
        v = sc.array(dims=['pix'], values=np.array([1.0, 1.25]) * base * scale, unit=bunit)
    elif shape == 'binned':
        content = sc.array(dims=['event'], values=np.array([1.0, 1.5, 2.25, 1.1, 3.0]) * base * scale, unit=bunit).to(unit=unit).astype(dtype)
        begin = sc.array(dims=['pix'], values=[0, 3], unit=None)
        end = sc.array(dims=['pix'], values=[3, 5], unit=None)
        return sc.bins(begin=begin, end=end, dim='event', data=content)
    else:
        raise ValueError(shape)
    return v.to(unit=unit).astype(dtype)


def vec_var(kind, variant, values, shape='0d'):
    unit = VEC_UNITS[kind][variant]
    base = VEC_BASE[kind]
    if shape == '0d':
        v = sc.vector(values, unit=base)
    else:
        v = sc.vectors(dims=['pix'], values=[values, [x * 1.5 + 0.1 for x in values]], unit=base)
    return v.to(unit=unit)


class A:
    """Scalar-kind argument spec."""

    def __init__(self, kind, shapes=('0d',), scale=1.0):
        self.kind, self.shapes, self.scale = kind, shapes, scale

    def variants(self):
        return [(v, s) for s in self.shapes for v in range(len(KINDS[self.kind][2]))]

    def build(self, choice):
        v, s = choice
        return scalar_var(self.kind, v, s, self.scale)

    def describe(self, choice):
        v, s = choice
        u, d = KINDS[self.kind][2][v]
        return f'{u}/{d}/{s}'


class Vv:
    """Vector argument spec."""

    def __init__(self, kind, values, shapes=('0d',)):
        self.kind, self.values, self.shapes = kind, values, shapes

    def variants(self):
        return [(v, s) for s in self.shapes for v in range(len(VEC_UNITS[self.kind]))]

    def build(self, choice):
        v, s = choice
        return vec_var(self.kind, v, self.values, s)

    def describe(self, choice):
        return f'{VEC_UNITS[self.kind][choice[0]]}/vector3/{choice[1]}'


class Const:
    def __init__(self, make, make2=None):
        self.make = make
        self.make2 = make2  # other values of the same shape (used by props/layouts.py for in-place updates between calls)

    def variants(self):
        return [0]

    def build(self, choice):
        return self.make()

    def describe(self, choice):
        return 'const'


# --------------------------------------------------------------------------------------
# kernel sites: name -> (callable, {arg: spec})
DATA = ('0d', '1d', 'binned')
PIX = ('0d', 'pix')
KERNELS = {
    'conversion.tof.wavelength_from_tof': (kt.wavelength_from_tof, {'tof': A('time', DATA), 'Ltotal': A('length', PIX)}),
    'conversion.tof.dspacing_from_tof': (kt.dspacing_from_tof, {'tof': A('time', DATA), 'Ltotal': A('length', PIX), 'two_theta': A('angle', PIX)}),
    'conversion.tof.energy_from_tof': (kt.energy_from_tof, {'tof': A('time', DATA), 'Ltotal': A('length', PIX)}),
    'conversion.tof.energy_transfer_direct_from_tof': (kt.energy_transfer_direct_from_tof, {'tof': A('time', ('1d', 'binned'), 4.0), 'L1': A('length', ('0d',)), 'L2': A('length', PIX, 0.3), 'incident_energy': A('energy', ('0d',))}),
    'conversion.tof.energy_transfer_indirect_from_tof': (kt.energy_transfer_indirect_from_tof, {'tof': A('time', ('1d', 'binned'), 4.0), 'L1': A('length', ('0d',)), 'L2': A('length', PIX, 0.3), 'final_energy': A('energy', PIX)}),
    'conversion.tof.energy_from_wavelength': (kt.energy_from_wavelength, {'wavelength': A('wavelength', DATA)}),
    'conversion.tof.wavelength_from_energy': (kt.wavelength_from_energy, {'energy': A('energy', DATA)}),
    'conversion.tof.Q_from_wavelength': (kt.Q_from_wavelength, {'wavelength': A('wavelength', DATA), 'two_theta': A('angle', PIX)}),
    'conversion.tof.wavelength_from_Q': (kt.wavelength_from_Q, {'Q': A('Q', DATA), 'two_theta': A('angle', PIX)}),
    'conversion.tof.dspacing_from_wavelength': (kt.dspacing_from_wavelength, {'wavelength': A('wavelength', DATA), 'two_theta': A('angle', PIX)}),
    'conversion.tof.dspacing_from_energy': (kt.dspacing_from_energy, {'energy': A('energy', DATA), 'two_theta': A('angle', PIX)}),
    'conversion.tof.Q_elements_from_wavelength': (kt.Q_elements_from_wavelength, {'wavelength': A('wavelength', ('0d', '1d')), 'incident_beam': Vv('vlen', [0.0, 0.0, 10.0]), 'scattered_beam': Vv('vlen', [0.3, 0.4, 1.2], PIX)}),
    'conversion.tof.Q_vec_from_Q_elements': (kt.Q_vec_from_Q_elements, {'Qx': A('Qs', ('0d', '1d')), 'Qy': A('Qs', ('0d', '1d'), 0.5), 'Qz': A('Qs', ('0d', '1d'), -2.0)}),
    'conversion.tof.time_at_sample_from_tof': (kt.time_at_sample_from_tof, {'pulse_time': A('time', ('0d',), 100.0), 'tof': A('time', ('0d', '1d')), 'L2': A('length', PIX, 0.3), 'wavelength': A('wavelength', ('0d', '1d'))}),
    'conversion.beamline.L1': (kb.L1, {'incident_beam': Vv('vlen', [0.0, 0.1, 10.0], PIX)}),
    'conversion.beamline.L2': (kb.L2, {'scattered_beam': Vv('vlen', [0.3, 0.4, 1.2], PIX)}),
    'conversion.beamline.straight_incident_beam': (kb.straight_incident_beam, {'source_position': Vv('vlen', [0.0, 0.0, -10.0]), 'sample_position': Vv('vlen', [0.0, 0.1, 0.0])}),
    'conversion.beamline.straight_scattered_beam': (kb.straight_scattered_beam, {'position': Vv('vlen', [0.3, 0.4, 1.2], PIX), 'sample_position': Vv('vlen', [0.0, 0.1, 0.0])}),
    'conversion.beamline.total_beam_length': (kb.total_beam_length, {'L1': A('length', ('0d',)), 'L2': A('length', PIX, 0.3)}),
    'conversion.beamline.total_straight_beam_length_no_scatter': (kb.total_straight_beam_length_no_scatter, {'source_position': Vv('vlen', [0.0, 0.0, -10.0]), 'position': Vv('vlen', [0.3, 0.4, 1.2], PIX)}),
    # unit-length beams: a "skip normalisation" shortcut would make b2 += b1 hit the caller's buffer
    'conversion.beamline.two_theta': (kb.two_theta, {'incident_beam': Vv('vlen', [0.0, 0.0, 1.0], PIX), 'scattered_beam': Vv('vlen', [0.6, 0.0, 0.8], PIX)}),
    'conversion.beamline.two_theta/long': (kb.two_theta, {'incident_beam': Vv('vlen', [0.0, 0.0, 10.0]), 'scattered_beam': Vv('vlen', [0.3, 0.4, 1.2], PIX)}),
    'conversion.beamline.beam_aligned_unit_vectors': (kb.beam_aligned_unit_vectors, {'incident_beam': Vv('vlen', [0.0, 0.0, 10.0]), 'gravity': Vv('vacc', [0.0, -9.81, 0.0])}),
    'conversion.beamline.scattering_angles_with_gravity/orthogonal': (kb.scattering_angles_with_gravity, {'incident_beam': Vv('vlen', [0.0, 0.0, 10.0]), 'scattered_beam': Vv('vlen', [0.3, 0.4, 1.2], PIX), 'wavelength': A('wavelength', ('0d', '1d', 'binned')), 'gravity': Vv('vacc', [0.0, -9.81, 0.0])}),
    'conversion.beamline.scattering_angles_with_gravity/generic': (kb.scattering_angles_with_gravity, {'incident_beam': Vv('vlen', [0.0, 1.0, 10.0]), 'scattered_beam': Vv('vlen', [0.3, 0.4, 1.2], PIX), 'wavelength': A('wavelength', ('0d', '1d', 'binned')), 'gravity': Vv('vacc', [0.0, -9.81, 0.0])}),
    'conversion.beamline.scattering_angle_in_yz_plane': (kb.scattering_angle_in_yz_plane, {'incident_beam': Vv('vlen', [0.0, 0.0, 10.0]), 'scattered_beam': Vv('vlen', [0.3, 0.4, 1.2], PIX), 'wavelength': A('wavelength', ('0d', '1d', 'binned')), 'gravity': Vv('vacc', [0.0, -9.81, 0.0])}),
    'tof.chopper_cascade.wavelength_to_inverse_velocity': (cc.wavelength_to_inverse_velocity, {'wavelength': A('wavelength', ('0d', '1d'))}),
    'tof.chopper_cascade.propagate_times': (cc.propagate_times, {'time': A('time', ('0d', '1d')), 'wavelength': A('wavelength', ('0d', '1d')), 'distance': A('length', ('0d',))}),
}


# beams of exactly unit length *in their own unit* (a "skip normalisation when already normalised" shortcut would alias)
for _u in ('m', 'mm', 'dimensionless'):
    KERNELS[f'conversion.beamline.two_theta/unit-{_u}'] = (kb.two_theta, {
        'incident_beam': Const(lambda _u=_u: sc.vector([0.0, 0.0, 1.0], unit=_u)),
        'scattered_beam': Const(lambda _u=_u: sc.vectors(dims=['pix'], values=[[1.0, 0.0, 0.0], [0.0, -1.0, 0.0]], unit=_u))})
    KERNELS[f'conversion.beamline.two_theta/unit0d-{_u}'] = (kb.two_theta, {
        'incident_beam': Const(lambda _u=_u: sc.vector([0.0, 0.0, 1.0], unit=_u)),
        'scattered_beam': Const(lambda _u=_u: sc.vector([1.0, 0.0, 0.0], unit=_u))})


def _lin(mat):
    return sc.spatial.linear_transform(value=mat)


_ROTM = [[0.0, -1.0, 0.0], [1.0, 0.0, 0.0], [0.0, 0.0, 1.0]]
_BM = [[0.2, 0.01, 0.0], [0.0, 0.25, 0.03], [0.0, 0.0, 0.11]]
_ROTM2 = [[1.0, 0.0, 0.0], [0.0, 0.0, -1.0], [0.0, 1.0, 0.0]]
_BM2 = [[0.1, 0.0, 0.02], [0.0, 0.3, 0.0], [0.0, 0.01, 0.17]]
KERNELS['conversion.tof.ub_matrix_from_u_and_b'] = (kt.ub_matrix_from_u_and_b, {'u_matrix': Const(lambda: _lin(_ROTM)), 'b_matrix': Const(lambda: sc.spatial.linear_transform(value=_BM, unit='1/angstrom'))})
KERNELS['conversion.tof.hkl_vec_from_Q_vec'] = (kt.hkl_vec_from_Q_vec, {
    'Q_vec': Vv('vq', [1.0, 2.0, 3.0], PIX),
    'ub_matrix': Const(lambda: sc.spatial.linear_transform(value=_BM, unit='1/angstrom'), lambda: sc.spatial.linear_transform(value=_BM2, unit='1/angstrom')),
    'sample_rotation': Const(lambda: _lin(_ROTM), lambda: _lin(_ROTM2))})
KERNELS['conversion.tof.hkl_elements_from_hkl_vec'] = (kt.hkl_elements_from_hkl_vec, {'hkl_vec': Const(lambda: sc.vectors(dims=['x'], values=[[1.0, 2.0, 3.0], [0.5, -1.0, 0.25]], unit='dimensionless'))})


def kernel_cases():
    """[(site, [choice per arg]), ...] - the full product per site."""
    out = []
    for site, (_, spec) in KERNELS.items():
        names = list(spec)
        for combo in itertools.product(*[spec[n].variants() for n in names]):
            out.append((site, [list(c) if isinstance(c, tuple) else c for c in combo]))
    return out


def build_kernel(site, combo):
    fn, spec = KERNELS[site]
    names = list(spec)
    args = {}
    desc = {}
    for n, c in zip(names, combo, strict=True):
        c = tuple(c) if isinstance(c, list) else c
        args[n] = spec[n].build(c)
        desc[n] = spec[n].describe(c)
    return fn, args, desc


# --------------------------------------------------------------------------------------
# object-level sites: name -> function(variant:int) -> (callable, args dict, description); each
# lists its number of variants.  ``args`` holds every object the caller passes or the
# receiver object itself (under 'self').


def _beamline_da(v):
    units = ['m', 'mm'][v % 2]
    da = sc.DataArray(
        sc.ones(dims=['pix', 'tof'], shape=[2, 3], unit='counts'),
        coords={
            'tof': sc.array(dims=['tof'], values=[4000.0, 9000.0, 23000.0], unit='us'),
            'position': vec_var('vlen', v % 2, [0.3, 0.4, 1.2], 'pix'),
            'source_position': vec_var('vlen', v % 2, [0.0, 0.0, -10.0]),
            'sample_position': vec_var('vlen', v % 2, [0.0, 0.1, 0.0]),
        },
    )
    _ = units
    return da


def _binned_da(v):
    dtype = [F64, F32, 'int64'][v % 3]
    tof = sc.array(dims=['event'], values=[4000.0, 9000.0, 23000.0, 5000.0, 7000.0], unit='us').astype(dtype)
    events = sc.DataArray(sc.ones(dims=['event'], shape=[5], unit='counts', with_variances=True), coords={'tof': tof})
    begin = sc.array(dims=['pix'], values=[0, 3], unit=None)
    end = sc.array(dims=['pix'], values=[3, 5], unit=None)
    da = sc.DataArray(
        sc.bins(begin=begin, end=end, dim='event', data=events),
        coords={
            'position': vec_var('vlen', 0, [0.3, 0.4, 1.2], 'pix'),
            'source_position': vec_var('vlen', 0, [0.0, 0.0, -10.0]),
            'sample_position': vec_var('vlen', 0, [0.0, 0.1, 0.0]),
            'incident_energy': sc.scalar(25.0, unit='meV'),
        },
    )
    return da


def s_convert(v):
    targets = ['wavelength', 'energy', 'dspacing', 'Q', 'two_theta', 'Ltotal']
    da = _beamline_da(v // len(targets))
    t = targets[v % len(targets)]
    return (lambda data: scn.convert(data, origin='tof', target=t, scatter=True)), {'data': da}, f'{t}/{v // len(targets)}'


s_convert.n = 12


def s_convert_binned(v):
    targets = ['wavelength', 'dspacing', 'energy_transfer']
    da = _binned_da(v // len(targets))
    t = targets[v % len(targets)]
    if t != 'energy_transfer':
        da = da.drop_coords('incident_energy')
    return (lambda data: scn.convert(data, origin='tof', target=t, scatter=True)), {'data': da}, f'{t}/{v // len(targets)}'


s_convert_binned.n = 9


def s_components(v):
    fns = [bc.position, bc.source_position, bc.sample_position, bc.incident_beam, bc.scattered_beam, bc.L1, bc.L2, bc.Ltotal, bc.two_theta]
    f = fns[v % len(fns)]
    da = _beamline_da(v // len(fns))
    if f is bc.Ltotal:
        return (lambda da: f(da, scatter=True)), {'da': da}, f.__name__
    return f, {'da': da}, f.__name__


s_components.n = 18


def _disk(v):
    unit = ['deg', 'rad'][v % 2]
    return DiskChopper(
        axle_position=sc.vector([0.0, 0.0, 6.5], unit='m'),
        frequency=sc.scalar([14.0, -28.0, 7.0][v % 3], unit='Hz'),
        beam_position=sc.scalar(30.0, unit='deg').to(unit=unit),
        phase=sc.scalar(15.0, unit='deg').to(unit=unit),
        slit_begin=sc.array(dims=['slit'], values=[10.0, 100.0, 200.0], unit='deg').to(unit=unit),
        slit_end=sc.array(dims=['slit'], values=[40.0, 130.0, 300.0], unit='deg').to(unit=unit),
        slit_height=sc.scalar(0.1, unit='m'),
        radius=sc.scalar(0.5, unit='m'),
    )


def s_disk_methods(v):
    methods = ['time_offset_open', 'time_offset_close', 'open_duration', 'angular_frequency', 'make_svg', 'from_disk_chopper', 'time_offset_angle_at_beam']
    m = methods[v % len(methods)]
    ch = _disk(v // len(methods))
    pf = scalar_var('freq', (v // len(methods)) % 3, '0d')
    if m == 'angular_frequency':
        return (lambda self: self.angular_frequency), {'self': ch}, m
    if m == 'make_svg':
        return (lambda self: self.make_svg()), {'self': ch}, m
    if m == 'from_disk_chopper':
        return (lambda self, pulse_frequency: cc.Chopper.from_disk_chopper(self, pulse_frequency=pulse_frequency, npulses=2)), {'self': ch, 'pulse_frequency': pf}, m
    if m == 'time_offset_angle_at_beam':
        ang = sc.array(dims=['a'], values=[0.3, 1.0], unit='rad').to(unit=['rad', 'deg'][v % 2])
        return (lambda self, angle: self.time_offset_angle_at_beam(angle=angle)), {'self': ch, 'angle': ang}, m
    return (lambda self, pulse_frequency: getattr(self, m)(pulse_frequency=pulse_frequency)), {'self': ch, 'pulse_frequency': pf}, m


s_disk_methods.n = 7 * 6


def _series(v):
    dt = ['float64', 'int64', 'datetime64'][v % 3]
    y = sc.array(dims=['time'], values=[1.0, 1.0, 1.001, 3.0, 3.0, 3.0, 3.0, 7.0, 7.0, 7.0], unit='Hz')
    t = np.arange(10)
    if dt == 'datetime64':
        tc = sc.epoch(unit='s') + sc.array(dims=['time'], values=t, unit='s')
    else:
        tc = sc.array(dims=['time'], values=t, unit='s').astype(dt)
    return sc.DataArray(y, coords={'time': tc})


def s_find_plateaus(v):
    da = _series(v)
    atol = sc.scalar(0.01, unit='Hz/s') if v % 3 != 2 else sc.scalar(0.01, unit='Hz/s')
    return (lambda data, atol: find_plateaus(data, atol=atol, min_n_points=2)), {'data': da, 'atol': atol}, str(v)


s_find_plateaus.n = 3


def s_collapse_plateaus(v):
    da = _series(v)
    pl = find_plateaus(da, atol=sc.scalar(0.01, unit='Hz/s'), min_n_points=2)
    return (lambda plateaus: collapse_plateaus(plateaus)), {'plateaus': pl}, str(v)


s_collapse_plateaus.n = 3


def s_filter_in_phase(v):
    f = sc.DataArray(sc.array(dims=['plateau'], values=[14.0, 28.0, 7.0, 9.3, -14.0], unit='Hz'), coords={'plateau': sc.arange('plateau', 5)})
    if v % 2:
        f = f.to(unit='kHz')
    ref = scalar_var('freq', v % 3, '0d')
    rtol = sc.scalar(1e-3)
    return (lambda frequency, reference, rtol: filter_in_phase(frequency, reference=reference, rtol=rtol)), {'frequency': f, 'reference': ref, 'rtol': rtol}, str(v)


s_filter_in_phase.n = 6


def _pulse(v):
    tu = ['s', 'ms'][v % 2]
    wu = ['angstrom', 'nm'][(v // 2) % 2]
    return dict(
        time_min=sc.scalar(0.0, unit='s').to(unit=tu), time_max=sc.scalar(0.003, unit='s').to(unit=tu),
        wavelength_min=sc.scalar(1.0, unit='angstrom').to(unit=wu), wavelength_max=sc.scalar(8.0, unit='angstrom').to(unit=wu),
    )


def _chopper(d, windows, unit='s'):
    return cc.Chopper(
        distance=sc.scalar(d, unit='m'),
        time_open=sc.array(dims=['slit'], values=[w[0] for w in windows], unit='s').to(unit=unit),
        time_close=sc.array(dims=['slit'], values=[w[1] for w in windows], unit='s').to(unit=unit),
    )


def s_frames(v):
    ops = ['from_source_pulse', 'subframe_ctor', 'subframe_propagate_by', 'frame_propagate_to', 'frame_chop', 'seq_chop', 'seq_propagate_to', 'seq_getitem', 'frame_bounds', 'frame_subbounds']
    op = ops[v % len(ops)]
    k = v // len(ops)
    p = _pulse(k)
    if op == 'from_source_pulse':
        return (lambda **kw: cc.FrameSequence.from_source_pulse(**kw)), p, op
    # exact units (s / angstrom) make Subframe keep the caller's variables as members
    tu, wu = ['s', 'ms'][k % 2], ['angstrom', 'nm'][(k // 2) % 2]
    time = sc.array(dims=['vertex'], values=[0.0, 0.003, 0.003, 0.0], unit='s').to(unit=tu)
    wav = sc.array(dims=['vertex'], values=[1.0, 1.0, 8.0, 8.0], unit='angstrom').to(unit=wu)
    if op == 'subframe_ctor':
        return (lambda time, wavelength: cc.Subframe(time, wavelength)), {'time': time, 'wavelength': wav}, op
    sub = cc.Subframe(time, wav)
    dist = sc.scalar(10.0, unit='m').to(unit=['m', 'mm'][k % 2])
    if op == 'subframe_propagate_by':
        return (lambda self, distance, time, wavelength: self.propagate_by(distance)), {'self': sub, 'distance': dist, 'time': time, 'wavelength': wav}, op
    frame = cc.Frame(distance=sc.scalar(0.0, unit='m'), subframes=[sub])
    ch = _chopper(6.0, [(0.004, 0.006), (0.008, 0.011)], ['s', 'ms'][k % 2])
    ch2 = _chopper(9.0, [(0.005, 0.016)], ['s', 'ms'][k % 2])
    if op == 'frame_propagate_to':
        return (lambda self, distance, time, wavelength: self.propagate_to(distance)), {'self': frame, 'distance': dist, 'time': time, 'wavelength': wav}, op
    if op == 'frame_chop':
        return (lambda self, chopper, time, wavelength: self.chop(chopper)), {'self': frame, 'chopper': ch, 'time': time, 'wavelength': wav}, op
    seq = cc.FrameSequence([frame])
    if op == 'seq_chop':
        lst = [ch2, ch]
        return (lambda self, choppers: self.chop(choppers)), {'self': seq, 'choppers': lst}, op
    if op == 'seq_propagate_to':
        return (lambda self, distance: self.propagate_to(distance)), {'self': seq, 'distance': dist}, op
    seq2 = seq.chop([_chopper(6.0, [(0.004, 0.006), (0.008, 0.011)], 's')])
    if op == 'seq_getitem':
        return (lambda self, distance: self[distance]), {'self': seq2, 'distance': dist}, op
    fr2 = seq2.frames[-1]
    if op == 'frame_bounds':
        return (lambda self: self.bounds()), {'self': fr2}, op
    return (lambda self: self.subbounds()), {'self': fr2}, op


s_frames.n = 10 * 4


class _StubAxes:
    def __getattr__(self, name):
        def rec(*a, **k):
            return None

        return rec


def s_diagram(v):
    ops = ['ctor', 'add_neutron', 'add_neutrons', 'add_source_pulse', 'add_detector']
    op = ops[v % len(ops)]
    k = v // len(ops)
    tmax = sc.scalar(200.0, unit='ms').to(unit=['ms', 's'][k % 2])
    fr = scalar_var('freq', k % 2, '0d')
    if op == 'ctor':
        return (lambda tmax, frame_rate: tdiag.TimeDistanceDiagram(_StubAxes(), tmax=tmax, frame_rate=frame_rate)), {'tmax': tmax, 'frame_rate': fr}, op
    d = tdiag.TimeDistanceDiagram(_StubAxes(), tmax=tmax, frame_rate=fr)
    to = sc.scalar(1.0, unit='ms').to(unit=['ms', 's'][k % 2])
    lam = scalar_var('wavelength', [0, 2][k % 2], '0d')
    L = sc.scalar(30.0, unit='m')
    if op == 'add_neutron':
        return (lambda self, **kw: self.add_neutron(**kw)), {'self': d, 'time_offset': to, 'wavelength': lam, 'L': L}, op
    if op == 'add_neutrons':
        return (lambda self, **kw: self.add_neutrons(**kw)), {'self': d, 'lambda_min': lam, 'lambda_max': lam * 2.0, 'Lmin': sc.scalar(0.0, unit='m'), 'Lmax': L, 'time_offset': to}, op
    if op == 'add_source_pulse':
        return (lambda self, pulse_length: self.add_source_pulse(pulse_length)), {'self': d, 'pulse_length': to * 3.0}, op
    return (lambda self, distance: self.add_detector(distance=distance)), {'self': d, 'distance': L}, op


s_diagram.n = 10


def _peak_params(model, xunit, yunit, dtype):
    x = sc.linspace('x', -3.0, 5.0, 41, unit=xunit, dtype=dtype)
    p = {}
    for n in sorted(model.param_names):
        if n.endswith('amplitude'):
            p[n] = sc.scalar(2.5, unit=sc.Unit(yunit) * sc.Unit(xunit), dtype=dtype)
        elif n.endswith('loc'):
            p[n] = sc.scalar(1.0, unit=xunit, dtype=dtype)
        elif n.endswith('scale'):
            p[n] = sc.scalar(0.7, unit=xunit, dtype=dtype)
        elif n.endswith('fraction'):
            p[n] = sc.scalar(0.3, unit='dimensionless', dtype=dtype)
        else:  # polynomial a_i
            i = int(n[-1])
            p[n] = sc.scalar(0.5 + i, unit=sc.Unit(yunit) / sc.Unit(xunit) ** i, dtype=dtype)
    return x, p


def s_model_call(v):
    models = [pm.GaussianModel(prefix='p_'), pm.LorentzianModel(), pm.PseudoVoigtModel(prefix='v'), pm.PolynomialModel(degree=3, prefix='b_'), pm.GaussianModel(prefix='g_') + pm.PolynomialModel(degree=1, prefix='b_')]
    m = models[v % len(models)]
    k = v // len(models)
    x, p = _peak_params(m, ['angstrom', 'dimensionless'][k % 2], ['counts', 'dimensionless'][k % 2], [F64, F32][(k // 2) % 2])
    shape = (k // 4) % 3  # round 6: the abscissa as an array, as a 0-d scalar (same sizes as the scalar parameters) and as a length-1 array
    if shape == 1:
        x = x['x', 17].copy()
    elif shape == 2:
        x = x['x', 17:18].copy()
    return (lambda self, x, params: self(x, **params)), {'self': m, 'x': x, 'params': p}, f'{type(m).__name__}/{k}'


s_model_call.n = 60


def _spectrum(v, variances=True):
    dtype = F64
    xu = ['angstrom', 'us'][v % 2]
    x = sc.linspace('x', 0.0, 20.0, 101, unit=xu, dtype=dtype)
    xv = x.values
    noise = 0.02 * np.sin(np.arange(101) * 12.9898) * np.cos(np.arange(101) * 78.233)
    y = 1.0 + 0.05 * xv + 4.0 * np.exp(-0.5 * ((xv - 6.0) / 0.6) ** 2) + 3.0 * np.exp(-0.5 * ((xv - 13.0) / 0.8) ** 2) + noise
    data = sc.array(dims=['x'], values=y, unit='counts')
    if variances:
        data.variances = np.full(101, 0.02**2)
    return sc.DataArray(data, coords={'x': x})


def s_model_guess(v):
    models = [pm.GaussianModel(prefix='p_'), pm.LorentzianModel(), pm.PseudoVoigtModel(), pm.PolynomialModel(degree=2), pm.GaussianModel(prefix='g_') + pm.PolynomialModel(degree=1, prefix='b_')]
    m = models[v % len(models)]
    da = _spectrum(v // len(models))
    return (lambda self, data: self.guess(data)), {'self': m, 'data': da}, type(m).__name__


s_model_guess.n = 10


def s_fit_peaks(v):
    da = _spectrum(v % 2)
    xu = da.coords['x'].unit
    est = sc.array(dims=['x'], values=[6.1, 12.8], unit=xu)
    if v // 2 % 2:
        win = sc.scalar(4.0, unit=xu)
    else:
        win = sc.array(dims=['x', 'range'], values=[[4.0, 8.0], [10.5, 15.5]], unit=xu)
    bg = ['linear', pm.PolynomialModel(degree=1, prefix='q_')][v // 4 % 2]
    pk = [pm.GaussianModel(prefix='zz'), ('gaussian', 'lorentzian')][v // 4 % 2]
    if v >= 8:
        # windows and estimates at the border of the data: explicit windows reaching beyond the coordinate range on either
        # side, overlapping each other, a width wider than the data, an estimate outside the range
        k = v - 8
        est = sc.array(dims=['x'], values=[[6.1, 12.8], [1.0, 19.5], [6.1, 12.8], [-1.0, 6.1]][k % 4], unit=xu)
        win = [sc.array(dims=['x', 'range'], values=[[-3.0, 8.0], [10.5, 25.0]], unit=xu), sc.array(dims=['x', 'range'], values=[[-2.0, 3.0], [17.0, 22.0]], unit=xu),
               sc.scalar(50.0, unit=xu), sc.array(dims=['x', 'range'], values=[[-5.0, 2.0], [4.0, 8.0]], unit=xu)][k % 4]
        if k // 4:
            win = win.to(unit={'angstrom': 'nm', 'us': 'ms'}[str(xu)]) if str(xu) in ('angstrom', 'us') else win
        bg, pk = 'linear', 'gaussian'
    if v >= 16:
        # data carrying masks (none True / one / two with different True entries inside the fit windows) and extra coords
        k = v - 16
        n = da.sizes['x']
        m1 = np.zeros(n, dtype=bool)
        m2 = np.zeros(n, dtype=bool)
        if k % 4 >= 1:
            m1[[28, 33, 66]] = True
        if k % 4 >= 2:
            m2[[30, 31, 63]] = True
        da.masks['first'] = sc.array(dims=['x'], values=m1)
        if k % 4 != 1:
            da.masks['second'] = sc.array(dims=['x'], values=m2)
        if k % 4 == 3:
            da.masks['third'] = sc.array(dims=['x'], values=np.roll(m1, 2))
        da.coords['extra'] = sc.arange('x', n, unit='s')
        win = sc.scalar(4.0, unit=xu) if k // 4 else sc.array(dims=['x', 'range'], values=[[4.0, 8.0], [10.5, 15.5]], unit=xu)
        bg, pk = 'linear', 'gaussian'
    return (lambda data, peak_estimates, windows, background, peak: fit_peaks(data, peak_estimates=peak_estimates, windows=windows, background=background, peak=peak)), {'data': da, 'peak_estimates': est, 'windows': win, 'background': bg, 'peak': pk}, str(v)


s_fit_peaks.n = 24


def s_remove_peaks(v):
    da = _spectrum(v % 2)
    xu = da.coords['x'].unit
    res = fit_peaks(da, peak_estimates=sc.array(dims=['x'], values=[6.1, 12.8], unit=xu), windows=sc.scalar(4.0, unit=xu), background='linear', peak='gaussian')
    plain = sc.DataArray(sc.values(da.data), coords=dict(da.coords))
    if v // 2:
        return (lambda self, x: (self.eval_model(x), self.eval_peak(x))), {'self': res[0], 'x': da.coords['x']}, 'eval'
    return (lambda data, fit_results: remove_peaks(data, fit_results)), {'data': plain, 'fit_results': res}, 'remove'


s_remove_peaks.n = 4


def s_absorption(v):
    ops = ['transmission_map', 'beam_intersection', 'quadrature', 'attenuation']
    op = ops[v % len(ops)]
    k = v // len(ops)
    lu = ['mm', 'm'][k % 2]
    mat = Material(
        scattering_params=ScatteringParams(isotope='X', absorption_cross_section=sc.scalar(0.5, unit='mm**2'), total_scattering_cross_section=sc.scalar(0.2, unit='mm**2')),
        effective_sample_number_density=sc.scalar(1.0, unit='1/mm**3'),
    )
    cyl = Cylinder(sc.vector([0.0, 0.6, 0.8]), sc.vector([0.1, 0.0, 0.2], unit='mm').to(unit=lu), sc.scalar(1.0, unit='mm').to(unit=lu), sc.scalar(1.5, unit='mm').to(unit=lu))
    lam = sc.array(dims=['wavelength'], values=[1.0, 1.7982, 4.0], unit='angstrom').to(unit=['angstrom', 'nm'][k % 2])
    if op == 'transmission_map':
        det = sc.vectors(dims=['x'], values=[[0.0, 0.0, 1.0], [1.0, 0.0, 0.0]], unit='m').to(unit=['m', lu][k // 2 % 2])
        beam = sc.vector([0.0, 0.0, 1.0])
        return (lambda sample_shape, sample_material, beam_direction, wavelength, detector_position: compute_transmission_map(sample_shape, sample_material, beam_direction=beam_direction, wavelength=wavelength, detector_position=detector_position, quadrature_kind='cheap')), {'sample_shape': cyl, 'sample_material': mat, 'beam_direction': beam, 'wavelength': lam, 'detector_position': det}, op
    if op == 'beam_intersection':
        start = sc.vectors(dims=['p'], values=[[0.0, 0.0, 0.0], [0.3, 0.2, 0.5], [5.0, 0.0, 0.0]], unit='mm').to(unit=lu)
        direction = sc.vector([0.0, 0.6, 0.8])
        return (lambda self, start_point, direction: self.beam_intersection(start_point, direction)), {'self': cyl, 'start_point': start, 'direction': direction}, op
    if op == 'quadrature':
        kind = ['cheap', 'medium'][k % 2]
        return (lambda self: self.quadrature(kind)), {'self': cyl}, op
    return (lambda self, wavelength: self.attenuation_coefficient(wavelength)), {'self': mat, 'wavelength': lam}, op


s_absorption.n = 16


def s_io(v):
    ops = ['save_xye', 'cif_chunk', 'cif_loop', 'cif_reduced', 'cif_calibration']
    op = ops[v % len(ops)]
    k = v // len(ops)
    da = _spectrum(k % 2)
    if op == 'save_xye':
        return (lambda fname, da: save_xye(fname, da)), {'fname': io.StringIO(), 'da': da}, op
    if op == 'cif_chunk':
        d = {'a.b': 1.5, 'c.d': sc.scalar(2.5, variance=0.04, unit='m'), 'e.f': 'text with blank'}
        return (lambda pairs: cif.save_cif(io.StringIO(), cif.Block('b', [cif.Chunk(pairs)]))), {'pairs': d}, op
    if op == 'cif_loop':
        cols = {'x.a': sc.array(dims=['r'], values=[1.0, 2.0, 3.0], variances=[0.1, 0.2, 0.3], unit='m'), 'x.b': sc.array(dims=['r'], values=['u', 'v w', "it's"])}
        return (lambda columns: cif.save_cif(io.StringIO(), cif.Block('b', [cif.Loop(columns)]))), {'columns': cols}, op
    tof = sc.DataArray(sc.array(dims=['tof'], values=[13.6, 26.0, 9.7], variances=[0.7, 1.1, 0.5]), coords={'tof': sc.array(dims=['tof'], values=[1.2, 1.4, 2.3], unit=['us', 'ms'][k % 2])})
    if op == 'cif_reduced':
        base = cif.CIF('n')
        return (lambda self, data: self.with_reduced_powder_data(data).save(io.StringIO())), {'self': base, 'data': tof}, op
    cal = sc.DataArray(sc.array(dims=['cal'], values=[3.4, 0.2, -0.8], variances=[0.1, 0.01, 0.02]), coords={'power': sc.array(dims=['cal'], values=[0, 1, -1], unit=None)})
    base = cif.CIF('n')
    return (lambda self, cal: self.with_powder_calibration(cal).save(io.StringIO())), {'self': base, 'cal': cal}, op


s_io.n = 10

def s_nexus(v):
    from scippneutron.chopper import extract_chopper_from_nexus
    from scippneutron.chopper.disk_chopper import DiskChopperType

    unit = ['deg', 'rad'][v % 2]
    log = sc.DataGroup({'value': sc.DataArray(sc.array(dims=['time'], values=[14.0], unit='Hz'), coords={'time': sc.array(dims=['time'], values=[0], unit='s')})})
    raw = sc.DataGroup({
        'type': DiskChopperType.single,
        'position': sc.vector([0.0, 0.0, 2.0], unit='m'),
        'rotation_speed': log if v // 2 % 2 else sc.scalar(14.0, unit='Hz'),
        'beam_position': sc.scalar(45.0, unit='deg').to(unit=unit),
        'phase': sc.scalar(-20.0, unit='deg').to(unit=unit),
        'slit_edges': sc.array(dims=['slit'], values=[0.0, 60.0, 124.0, 126.0], unit='deg').to(unit=unit),
        'slit_height': sc.scalar(0.4, unit='m'),
        'radius': sc.scalar(0.5, unit='m'),
        'top_dead_center': sc.DataGroup({'time': sc.array(dims=['time'], values=[1, 2], unit='s')}),
    })
    if v >= 8:
        # inputs the functions may refuse: a rotation speed without a frequency unit, angles without an angle unit.  Refusing
        # or accepting, the caller's group and every field in it stay as they were.
        k = v - 8
        bad = [sc.scalar(14.0, unit=None), sc.scalar(14.0, unit='dimensionless'), sc.scalar(14.0, unit='m/s'), sc.scalar(14, unit=None)][k % 4]
        if k // 4 % 2:
            raw['beam_position'] = sc.scalar(45.0, unit=None)
        else:
            raw['rotation_speed'] = bad
        if k // 8 == 0:
            return (lambda chopper: DiskChopper.from_nexus(chopper)), {'chopper': raw}, f'from_nexus/refusable-{k}'
        return (lambda chopper: DiskChopper.from_nexus(extract_chopper_from_nexus(chopper))), {'chopper': raw}, f'extract+from_nexus/refusable-{k}'
    if v // 4 % 2 == 0:
        return (lambda chopper: extract_chopper_from_nexus(chopper)), {'chopper': raw}, 'extract'
    processed = extract_chopper_from_nexus(raw)
    return (lambda chopper: DiskChopper.from_nexus(chopper).time_offset_open(pulse_frequency=sc.scalar(14.0, unit='Hz'))), {'chopper': processed}, 'from_nexus'


s_nexus.n = 24


OBJECT_SITES = {
    'chopper.nexus': s_nexus,
    'core.convert': s_convert,
    'core.convert/binned': s_convert_binned,
    'beamline_components.*': s_components,
    'chopper.DiskChopper.*': s_disk_methods,
    'chopper.find_plateaus': s_find_plateaus,
    'chopper.collapse_plateaus': s_collapse_plateaus,
    'chopper.filter_in_phase': s_filter_in_phase,
    'tof.chopper_cascade.frames': s_frames,
    'tof.diagram': s_diagram,
    'peaks.Model.__call__': s_model_call,
    'peaks.Model.guess': s_model_guess,
    'peaks.fit_peaks': s_fit_peaks,
    'peaks.remove_peaks': s_remove_peaks,
    'absorption.*': s_absorption,
    'io.*': s_io,
}
