"""C14 - CIF output is valid CIF 1.1 and parses back to exactly what was supplied.

Shape P: documents (programs over Chunk / Loop / Block / save_cif) and call sequences of
the high-level builder, written by the real code and read back by the independent CIF 1.1
parser ref/cifparse.py.

Oracle per document:
  * the parser accepts the text (header line where save_cif / CIF.save wrote the file,
    ASCII only, no unterminated text field or quote, no stray token, no reserved word);
  * the parsed blocks / tags / loop shapes / row order equal the supplied ones (low level:
    in supplied order; builder: every supplied group present exactly once, nothing
    extra, supplied content items in call order);
  * strings equal up to surrounding blanks (non-ASCII compared after undoing the
    backslash escapes), plain numbers parse back to the identical float, ``x(u)`` tokens
    agree with value and sqrt(variance) to half a unit of the last printed digit
    (+ 2 ulp), ``_su`` columns equal sqrt(variance) to 1 ulp;
  * author-role ids refer to the right author, author ids unique in the file.
A value that CIF 1.1 cannot represent (a line break followed by ';' inside the value) must
be refused (any exception) - writing a document for it is reported with its own kind.
"""
from __future__ import annotations

import atexit
import collections
import collections.abc
import datetime as _dt
import itertools
import math
import os
import shutil
import tempfile
import types
import warnings
from io import StringIO

import numpy as np
import scipp as sc

import scippneutron
from ref import cifparse as cp
from scippneutron import metadata
from scippneutron.io import cif

ID = 'C14'
LEVEL = 'model_checking'
RULE = (
    'documents: every alphabet string alone in a chunk (4 routes), every ordered pair of alphabet strings in a '
    'two-pair chunk, every 2x2 / 1x3 / 3x1 string loop over the reduced alphabets, every scalar number form, numeric '
    'loops rows x cols x {plain, variances} x dtype, every sequence of <= 3 block items x comment/schema variants, '
    'multi-block files over the block-name alphabet, every builder call sequence up to the depth bound, every '
    'alphabet string in every builder string slot (12 slots); reduced powder data over coordinate dim/unit x data unit x '
    'comment x variances x name; input representations (mappings, sequences, views, one-shot iterables) of pairs, '
    'columns, block/file contents, schemas, and python / numpy / 0-d variable / str-subclass values; modify-after-write programs: write, then every sequence of public '
    'mutators (column / key replace and add, comment and name setters, Block.add, mutation of shared items, with_* / '
    'copy / setters on a saved builder) with a write through two routes after every step; one state = one written document; a document is non-trivial when '
    'it contains at least one data item; distinct = distinct case hashes x inner index'
)
ASSUMPTIONS = [
    'CIF 1.1 grammar as restated in DESIGN 3.4 (ref/cifparse.py, unit-tested on hand-written documents)',
    'reserved words: data_*, save_*, loop_, global_, stop_ (case-insensitive); ? and . accepted as ordinary values',
    'strings <= 300 characters; the 2048-character line limit and tag uniqueness are not demanded',
    'bare CR and other control characters are outside the value alphabet',
    'wall clock frozen by monkeypatching the datetime name in scippneutron.io.cif',
    'derived builder values (probe/device from source type, id_orcid URL form) follow coreCIF / the metadata docstrings',
]
BOUND = {
    'quick': 'S=76 strings: S x 5 routes, S^2 ordered pairs, 12^4 2x2 loops, 34^3 1x3 and 3x1 loops, 73 scalar number '
    'forms x 2 routes, numeric loops 1..50 rows x 1..6 cols x {plain, variances} x 3 dtypes, block item sequences <= 3 over 8 '
    'items x 12 comment/schema variants, 1..3 blocks over the name alphabet, all builder call sequences of length <= 3 '
    'over 26 operations (18279), S x 12 builder string slots; 17 coordinate dim/unit combinations x 15 data units (x 4 comments x 4 variance '
    'patterns x 5 names for the two pdCIF combinations); 14 pair representations x 7 entry points x 5 value sets, 7 '
    'container representations x 6 entry points, 11 Loop column representations x 2 column sets; modify-after-write: all mutator sequences of length <= 2 '
    'for Loop (45 mutators) and Chunk (44), <= 3 for Block (21) and the saved builder (12)',
    'thorough': 'same with 16^4 2x2 loops, 76^3 1x3 and 3x1 loops, and all builder sequences of length 4 over the '
    '10-operation core; modify-after-write sequences of length 3 for Loop and Chunk',
}
CHUNK = 24
REQUIRED_CLASSES = [
    'doc_ok', 'quote_none', 'quote_sq', 'quote_dq', 'quote_text', 'loop_vertical_layout', 'loop_table_layout',
    'num_plain', 'num_su_token', 'num_su_column', 'datetime', 'non_ascii_escaped', 'comment_in_file',
    'block_name_rejected', 'sink_path', 'sink_buffer', 'schema_loop', 'multi_block',
    'authors_chunk', 'authors_loop', 'roles_loop', 'roles_ref_ok', 'contact_and_regular', 'reducers_pair',
    'reducers_loop', 'builder_copy', 'builder_resave', 'powder_loop', 'calibration_loop', 'beamline_chunk',
    'builder_immutable', 'mut_loop_replaced', 'mut_loop_added', 'mut_chunk_replaced', 'mut_chunk_added',
    'mut_block_added', 'mut_inner_item', 'mut_renamed', 'mut_comment_changed', 'mut_builder_after_save',
    'mut_back_to_original', 'mut_rejected', 'unit_non_ascii', 'unit_comment_escaped', 'powder_coord_rejected',
    'powder_name_rejected', 'repr_one_shot', 'repr_mapping', 'repr_sequence', 'repr_same_text_as_dict', 'repr_str_subclass',
]

BL = cp.BLANK
FROZEN = _dt.datetime(2024, 9, 5, 13, 47, 54, 123456, tzinfo=_dt.timezone.utc)


# ---------------------------------------------------------------------------------------
# environment: frozen clock, temp dir


class _Meta(type):
    def __instancecheck__(cls, obj):
        return isinstance(obj, _dt.datetime)


class _FrozenDatetime(_dt.datetime, metaclass=_Meta):
    @classmethod
    def now(cls, tz=None):
        return FROZEN.astimezone(tz) if tz is not None else FROZEN.replace(tzinfo=None)


def freeze_clock():
    cif.datetime = _FrozenDatetime


_TMP = None


def tmpdir():
    global _TMP
    if _TMP is None:
        _TMP = tempfile.mkdtemp(prefix=f'verif-cif-{os.getpid()}-')
        atexit.register(shutil.rmtree, _TMP, ignore_errors=True)
    return _TMP


# ---------------------------------------------------------------------------------------
# string alphabet: (label, value, trait)

SIGMA = [
    ('plain', 'abc', 'benign'),
    ('blank', 'two words', 'blank'),
    ('empty', '', 'empty'),
    ('apos', "it's", 'quote'),
    ('dq', 'say"so', 'quote'),
    ('both', 'a\'b"c', 'both_quotes'),
    ('newline', 'a\nb', 'newline'),
    ('semi_mid', 'a;b', 'semicolon_inside'),
    # --- quoting decision points
    ('lead_blank', ' lead', 'blank'),
    # a blank or tab in front of something that may not start (or be) an unquoted value
    ('blank_underscore', ' _abc', 'blank'),
    ('tab_hash', '\t#5of7', 'tab'),
    ('blank_loop', ' loop_', 'blank'),
    ('blank_data', ' data_run42', 'blank'),
    ('blank_semi', ' ;abc', 'blank'),
    ('blank_dollar', ' $a', 'blank'),
    ('blank_bracket', ' [a]', 'blank'),
    ('trail_blank_loop', 'loop_ ', 'blank'),
    ('trail_blank', 'trail ', 'blank'),
    ('blank_only', ' ', 'blank'),
    ('lead_apos', "'lead", 'quote'),
    ('trail_apos', "trail'", 'quote'),
    ('lead_dq', '"lead', 'quote'),
    ('trail_dq', 'trail"', 'quote'),
    ('apos_blank', "a' b", 'quote_blank'),
    ('dq_blank', 'a" b', 'quote_blank'),
    ('both_blank', 'a\' "b', 'both_quotes'),
    ('both_blank2', 'a" \'b', 'both_quotes'),
    ('apos_tab', "a'\tb", 'quote'),
    ('dq_tab', 'a"\tb', 'quote'),
    ('blank_tab', 'a \tb', 'blank'),
    ('hash_mid', 'a#b', 'benign'),
    ('blank_hash', 'a #b', 'blank'),
    ('semi_blank', 'a ;b', 'blank'),
    ('dollar_mid', 'a$b', 'benign'),
    ('bracket_mid', 'a[b]', 'benign'),
    ('underscore_mid', 'a_b', 'benign'),
    ('question', '?', 'benign'),
    ('dot', '.', 'benign'),
    ('numlike', '1.5', 'benign'),
    ('numlike_su', '1.20(3)', 'benign'),
    ('minus', '-3', 'benign'),
    ('backslash', 'a\\b', 'benign'),
    ('punct', '!%&()*+,-./:<=>@^`{|}~', 'benign'),
    ('long', 'x' * 300, 'benign'),
    ('long_blank', ('word ' * 60).strip(), 'blank'),
    ('loop_x', 'loop_x', 'benign'),
    # --- non-ASCII
    ('uml', 'ü', 'non_ascii'),
    ('uml_word', 'grüße', 'non_ascii'),
    ('uml_blank', 'a ü', 'non_ascii'),
    ('cjk', '日本', 'non_ascii'),
    ('astral', 'a\U0001f600', 'non_ascii'),
    # --- multi-line
    ('newline3', 'line1\nline2\nline3', 'newline'),
    ('trail_nl', 'a\n', 'newline'),
    ('lead_nl', '\na', 'newline'),
    ('double_nl', 'a\n\nb', 'newline'),
    ('nl_quotes', 'it\'s\n"x"', 'newline'),
    ('nl_blank_semi', 'a\n ;b', 'newline'),
    ('nl_underscore', 'a\n_b 1', 'newline'),
    ('nl_hash', 'a\n#b', 'newline'),
    ('nl_only', '\n', 'newline'),
    ('nl_semi', 'a\n;b', 'nl_semi'),
    ('nl_semi_end', 'a\n;', 'nl_semi'),
    ('nl_semi_mid', 'a\n;\nb', 'nl_semi'),
    ('lead_nl_semi', '\n;abc', 'nl_semi_lead'),
    # --- characters that may not start an unquoted value
    ('lead_underscore', '_abc', 'lead_underscore'),
    ('underscore_only', '_', 'lead_underscore'),
    ('lead_hash', '#abc', 'lead_hash'),
    ('hash_only', '#', 'lead_hash'),
    ('lead_dollar', '$abc', 'lead_dollar'),
    ('lead_lbracket', '[abc', 'lead_bracket'),
    ('lead_rbracket', ']abc', 'lead_bracket'),
    ('lead_semi', ';abc', 'lead_semicolon'),
    ('semi_only', ';', 'lead_semicolon'),
    ('tab', 'a\tb', 'tab'),
    ('lead_tab', '\ta', 'tab'),
    ('tab_only', '\t', 'tab'),
    # --- reserved words
    ('data_x', 'data_x', 'reserved'),
    ('DATA_', 'DATA_', 'reserved'),
    ('loop_', 'loop_', 'reserved'),
    ('LOOP_', 'LOOP_', 'reserved'),
    ('save_', 'save_', 'reserved'),
    ('save_x', 'Save_x', 'reserved'),
    ('global_', 'global_', 'reserved'),
    ('stop_', 'stop_', 'reserved'),
]
S = {lab: val for lab, val, _ in SIGMA}
TRAIT = {lab: tr for lab, _, tr in SIGMA}
LABELS = [lab for lab, _, _ in SIGMA]
SIGMA8 = ['plain', 'blank', 'apos', 'both', 'newline', 'semi_mid', 'empty', 'lead_semi']
SIGMA12 = [*SIGMA8, 'dq_blank', 'lead_underscore', 'tab', 'loop_']
SIGMA16 = [*SIGMA12, 'uml', 'lead_hash', 'nl_semi', 'data_x']
SIGMA_LEAD = ['blank_underscore', 'tab_hash', 'blank_loop', 'blank_data', 'blank_semi', 'blank_dollar', 'blank_bracket', 'trail_blank_loop']
SIGMA34 = [
    *SIGMA16, 'lead_blank', 'trail_apos', 'lead_dq', 'apos_blank', 'both_blank', 'blank_hash', 'question', 'long',
    'trail_nl', 'nl_blank_semi', 'lead_nl_semi', 'lead_dollar', 'lead_lbracket', 'semi_only', 'tab_only', 'stop_',
    'numlike_su', 'cjk',
]  # fmt: skip
assert len(set(SIGMA34)) == 34 and all(x in S for x in SIGMA34)

COMMENTS = [
    '',
    'simple comment',
    'two\nlines',
    'ünï 日',
    '_tag value\nloop_\ndata_x',
    ';text\n;',
    'a\n\n#b\n',
    'cr\rsplit',
]

# ---------------------------------------------------------------------------------------
# number alphabet: (label, python object builder, expected)

FLOATS = [
    0.0, 1.0, -1.0, 0.1, -0.1, 1.5, 1 / 3, 2 / 3, 123456.789, 1e-5, 1e16, 1e22, 1e-300, 1e300, 5e-324,
    1.7976931348623157e308, 2.2250738585072014e-308, -1234.5678e-10, 0.30000000000000004, 9007199254740993.0, -0.0,
    4.35, 1e15, 123456789012.34567,
]  # fmt: skip
# (value, standard uncertainty): su values chosen away from rounding ties of the compact format
UNC = [
    (1.2, 0.3), (1.2, 0.03), (-0.1, 0.001), (123456.789, 0.1), (1.0, 1000.0), (5.0, 2.0), (12345.0, 12.0),
    (0.0, 1.0), (2.5, 0.0), (1e-300, 1e-302), (1e300, 1e150), (1.5, 1e-20), (3.0, 1e20), (1.2, 0.0234),
    (1.2, 0.0151), (-7.77e-7, 3.3e-9), (6.02e23, 4e17), (0.1, 0.3),
]  # fmt: skip


def _var(su):
    return su * su


def scalar_numbers():
    """[(label, python value to hand to the writer, expected)]"""
    out = []
    for i, n in enumerate((0, 1, -7, 10**15)):
        out.append((f'int{i}', n, ('int', n)))
    for i, x in enumerate(FLOATS):
        out.append((f'float{i}', x, ('f64', x)))
    for i, x in enumerate((0.1, 1.0 / 3, 1e-30, 16777216.0)):
        out.append((f'np_float32_{i}', np.float32(x), ('f32', float(np.float32(x)))))
        out.append((f'var_float32_{i}', sc.scalar(np.float32(x), unit='m'), ('f32', float(np.float32(x)))))
    for i, x in enumerate(FLOATS[:12]):
        out.append((f'var_float{i}', sc.scalar(x, unit='us'), ('f64', x)))
    out.append(('var_int', sc.scalar(42, unit='counts'), ('int', 42)))
    for i, (x, su) in enumerate(UNC):
        out.append((f'unc{i}', sc.scalar(x, variance=_var(su), unit='m'), ('unc', x, _var(su), 'f64')))
    out.append(
        ('unc_f32', sc.scalar(np.float32(0.1), variance=np.float32(0.01)), ('unc', float(np.float32(0.1)), float(np.float32(0.01)), 'f32'))
    )
    aware = _dt.datetime(2023, 12, 1, 15, 12, 33, tzinfo=_dt.timezone.utc)
    naive = _dt.datetime(1999, 1, 2, 3, 4, 5, 678)
    east = _dt.datetime(2023, 12, 1, 15, 12, 33, tzinfo=_dt.timezone(_dt.timedelta(hours=5, minutes=30)))
    for lab, d in (('dt_aware', aware), ('dt_naive', naive), ('dt_offset', east)):
        out.append((lab, d, ('dt', d)))
    out.append(('dt64_s', sc.datetime('2023-12-01T15:12:33', unit='s'), ('dt64', '2023-12-01T15:12:33')))
    out.append(('dt64_ns', sc.datetime('2023-12-01T15:12:33.000000001', unit='ns'), ('dt64', '2023-12-01T15:12:33.000000001')))
    return out


# ---------------------------------------------------------------------------------------
# value matching


def _ulp32(x):
    return float(np.spacing(np.float32(abs(x)))) if x else float(np.finfo('float32').tiny)


def match_value(exp, val: cp.Value, ids=None):
    """None when the parsed value carries the supplied one, else a message."""
    t = exp[0]
    text = val.text
    if t == 'any':
        return None
    if t == 'str':
        want = exp[1].strip(BL)
        got = cp.unescape(text).strip(BL)
        if got != want:
            return f'string {want[:60]!r} came back as {got[:60]!r} ({val.kind})'
        return None
    if t in ('idbind', 'idref'):
        key = exp[1]
        got = text.strip(BL)
        if not got:
            return 'empty id'
        if t == 'idbind':
            ids.setdefault('bind', {})[key] = got
        else:
            ids.setdefault('ref', []).append((key, got))
        return None
    if t == 'int':
        try:
            ok = int(text) == exp[1]
        except ValueError:
            ok = False
        return None if ok else f'integer {exp[1]} came back as {text[:40]!r}'
    if t == 'dt':
        try:
            ok = _dt.datetime.fromisoformat(text) == exp[1] and (_dt.datetime.fromisoformat(text).tzinfo is None) == (exp[1].tzinfo is None)
        except ValueError:
            ok = False
        return None if ok else f'datetime {exp[1].isoformat()} came back as {text[:40]!r}'
    if t == 'dt64':
        try:
            ok = np.datetime64(text) == np.datetime64(exp[1])
        except ValueError:
            ok = False
        return None if ok else f'datetime64 {exp[1]} came back as {text[:40]!r}'
    num = cp.parse_number(text)
    if num is None:
        return f'number {exp[1]!r} came back as non-numeric {text[:40]!r}'
    v, su, unit = num
    if t == 'f64':
        if su is not None or v != exp[1] or (v == 0 and math.copysign(1, v) != math.copysign(1, exp[1])):
            return f'float {exp[1]!r} came back as {text[:40]!r}'
        return None
    if t == 'f32':
        if su is not None or float(np.float32(v)) != exp[1]:
            return f'float32 {exp[1]!r} came back as {text[:40]!r}'
        return None
    if t == 'sqrt':  # _su column: sqrt(variance) to 1 ulp
        want = math.sqrt(exp[1])
        if su is not None or abs(v - want) > math.ulp(want):
            return f'su sqrt({exp[1]!r})={want!r} came back as {text[:40]!r}'
        return None
    if t == 'unc':
        x, var, dt = exp[1], exp[2], exp[3]
        s_want = math.sqrt(var)
        u = _ulp32 if dt == 'f32' else math.ulp
        unit = cp.rounding_unit(text) or unit
        tol_v = 0.5 * unit * (1 + 1e-12) + 2 * u(x)
        if su is None:
            if var == 0.0 and (v == x or abs(v - x) <= 2 * u(x)):
                return None
            if var == 0.0:
                return f'value {x!r} (variance 0) came back as {text[:40]!r}'
            return f'{x!r} +- {s_want!r} came back without uncertainty: {text[:40]!r}'
        tol_s = 0.5 * unit * (1 + 1e-12) + 2 * u(s_want)
        if abs(v - x) > tol_v:
            return f'value {x!r} came back as {text[:60]!r} (off by {abs(v - x):.3g} > {tol_v:.3g})'
        if abs(su - s_want) > tol_s:
            return f'uncertainty {s_want!r} came back as {text[:60]!r} (off by {abs(su - s_want):.3g} > {tol_s:.3g})'
        return None
    raise ValueError(f'unknown expectation {exp!r}')


def refusable(exps) -> bool:
    """Does any supplied string contain a line break followed by ';' (refusal is acceptable)?"""
    return any(e[0] == 'str' and '\n;' in e[1] for e in exps)


def unrepresentable(exps) -> bool:
    return any(e[0] == 'str' and not cp.representable(e[1]) for e in exps)


# ---------------------------------------------------------------------------------------
# document comparison
#
# expected document: list of blocks {'name': str, 'items': [item, ...]} with
#   ('pair', tag, exp) | ('loop', [tags], [[exp, ...] rows]) | ('schema', {(name, version, location), ...})


def _all_exps(blocks):
    for b in blocks:
        for it in b['items']:
            if it[0] == 'pair':
                yield it[2]
            elif it[0] == 'loop':
                for row in it[2]:
                    yield from row


def _match_loop(it, got, ids, where):
    if not isinstance(got, cp.Loop):
        return f'{where}: expected loop {it[1][:3]}, file has pair _{got.tag}'
    if got.tags != list(it[1]):
        return f'{where}: loop tags {got.tags[:6]} expected {list(it[1])[:6]}'
    if len(got.rows) != len(it[2]):
        return f'{where}: loop _{it[1][0]} has {len(got.rows)} rows, expected {len(it[2])}'
    for r, (erow, grow) in enumerate(zip(it[2], got.rows, strict=True)):
        for c, (e, g) in enumerate(zip(erow, grow, strict=True)):
            m = match_value(e, g, ids)
            if m:
                return f'{where}: loop _{it[1][c]} row {r}: {m}'
    return None


SCHEMA_TAGS = ['audit_conform.dict_name', 'audit_conform.dict_version', 'audit_conform.dict_location']


def _match_schema(it, got, where):
    tags = SCHEMA_TAGS
    if not isinstance(got, cp.Loop) or got.tags != tags:
        return f'{where}: expected the audit_conform loop'
    rows = {tuple(v.text for v in r) for r in got.rows}
    if rows != it[1] or len(got.rows) != len(it[1]):
        return f'{where}: audit_conform rows {sorted(rows)} expected {sorted(it[1])}'
    return None


def compare_ordered(doc, blocks, ids):
    if len(doc.blocks) != len(blocks):
        return f'{len(doc.blocks)} data blocks {[b.name for b in doc.blocks][:4]}, expected {len(blocks)}'
    for bi, (eb, gb) in enumerate(zip(blocks, doc.blocks, strict=True)):
        if cp.unescape(gb.name) != eb['name']:
            return f'block {bi} is named {gb.name!r}, expected {eb["name"]!r}'
        if len(gb.items) != len(eb['items']):
            return (
                f'block {gb.name}: {len(gb.items)} items, expected {len(eb["items"])}; file has '
                f'{[(i.tag if isinstance(i, cp.Pair) else i.tags) for i in gb.items][:5]}'
            )
        for k, (it, got) in enumerate(zip(eb['items'], gb.items, strict=True)):
            where = f'block {gb.name} item {k}'
            if it[0] == 'pair':
                if not isinstance(got, cp.Pair):
                    return f'{where}: expected pair _{it[1]}, file has loop {got.tags[:3]}'
                if got.tag != it[1]:
                    return f'{where}: tag _{got.tag}, expected _{it[1]}'
                m = match_value(it[2], got.value, ids)
                if m:
                    return f'{where}: _{it[1]}: {m}'
            elif it[0] == 'loop':
                m = _match_loop(it, got, ids, where)
                if m:
                    return m
            else:
                m = _match_schema(it, got, where)
                if m:
                    return m
    return None


def compare_groups(doc, name, groups, ids):
    """Builder output: every group present exactly once, nothing extra, 'content' groups in call order.

    group = {'kind': 'pairs'|'loop'|'schema', 'content': bool, 'pairs': [(tag, exp)], 'cols': [(tag, [exp])], 'rows': set}
    Within a group tags are matched by name (the builder chooses their order, not the caller).
    """
    if len(doc.blocks) != 1:
        return f'{len(doc.blocks)} data blocks, expected 1'
    gb = doc.blocks[0]
    if cp.unescape(gb.name) != name:
        return f'block is named {gb.name!r}, expected {name!r}'
    used = [False] * len(gb.items)
    last_content = -1
    for g in groups:
        if g['kind'] == 'pairs':
            pos = []
            for tag, e in g['pairs']:
                k = next((i for i, it in enumerate(gb.items) if not used[i] and isinstance(it, cp.Pair) and it.tag == tag), None)
                if k is None:
                    return f'pair _{tag} missing from the file'
                used[k] = True
                pos.append(k)
                m = match_value(e, gb.items[k].value, ids)
                if m:
                    return f'_{tag}: {m}'
            first = min(pos) if pos else None
        else:
            tags = set(SCHEMA_TAGS) if g['kind'] == 'schema' else {t for t, _ in g['cols']}
            k = next((i for i, it in enumerate(gb.items) if not used[i] and isinstance(it, cp.Loop) and set(it.tags) == tags and len(it.tags) == len(tags)), None)
            if k is None:
                return f'loop with tags {sorted(tags)[:5]} missing from the file'
            used[k] = True
            got = gb.items[k]
            if g['kind'] == 'schema':
                idx = [got.tags.index(t) for t in SCHEMA_TAGS]
                rows = {tuple(r[i].text for i in idx) for r in got.rows}
                if rows != g['rows'] or len(got.rows) != len(g['rows']):
                    return f'audit_conform rows {sorted(rows)} expected {sorted(g["rows"])}'
            else:
                cols = dict(g['cols'])
                n = len(next(iter(cols.values())))
                if len(got.rows) != n:
                    return f'loop _{got.tags[0]} has {len(got.rows)} rows, expected {n}'
                for r, grow in enumerate(got.rows):
                    for t, gv in zip(got.tags, grow, strict=True):
                        m = match_value(cols[t][r], gv, ids)
                        if m:
                            return f'loop _{t} row {r}: {m}'
            first = k
        if g.get('content') and first is not None:
            if first < last_content:
                return f'content item {g["kind"]} written before an item added earlier'
            last_content = first
    extra = [gb.items[i] for i in range(len(used)) if not used[i]]
    if extra:
        return f'{len(extra)} unexpected items in file, first: {(extra[0].tag if isinstance(extra[0], cp.Pair) else extra[0].tags)}'
    return None


def check_ids(ids):
    bind = ids.get('bind', {})
    vals = list(bind.values())
    if len(set(vals)) != len(vals):
        return f'author ids not unique in the file: {vals}'
    for key, got in ids.get('ref', []):
        if key not in bind:
            return f'role id {got!r} refers to an author without an id column'
        if bind[key] != got:
            return f'role id {got!r} does not refer to its author (whose id is {bind[key]!r})'
    return None


def judge(rec, site, text, *, header, sub, blocks=None, name=None, groups=None, comments=None):
    """Run the oracle on one written document. Returns True if it was accepted."""
    rec.transitions += 1
    rec.states += 1
    rec.observe(text)
    exps = list(_all_exps(blocks)) if blocks is not None else [e for g in groups for e in _group_exps(g)]
    unrep = unrepresentable(exps)
    try:
        doc = cp.parse(text, require_header=header)
    except cp.CifSyntaxError as e:
        kind = {'illegal_char': 'non_ascii', 'missing_header': 'missing_header'}.get(e.code, 'invalid_cif')
        if e.code == 'empty_block_name' and (name == '' or (blocks is not None and any(b['name'] == '' for b in blocks))):
            kind = 'empty_block_name'
        if unrep and kind == 'invalid_cif':
            kind = 'unrepresentable_value'
        rec.viol(site, kind, f'{e}; file: {text[:300]!r}', **sub)
        rec.evals += 1
        return False
    rec.validated += 1
    ids = {}
    if blocks is not None:
        m = compare_ordered(doc, blocks, ids)
    else:
        m = compare_groups(doc, name, groups, ids)
    rec.evals += 1
    if m:
        rec.viol(site, 'unrepresentable_value' if unrep else 'content_mismatch', f'{m}; file: {text[:300]!r}', **sub)
        return False
    m = check_ids(ids)
    if m:
        rec.viol(site, 'author_ids', f'{m}; file: {text[:300]!r}', **sub)
        return False
    if comments is not None:
        # programs that change comments: the file carries exactly the current comment lines
        got_c = sorted(cp.unescape(c).strip(BL) for _, c in doc.comments[(1 if doc.header else 0) :])
        want_c = sorted(ln.strip(BL) for c in comments for ln in c.splitlines())
        if got_c != want_c:
            rec.viol(site, 'comment_mismatch', f'comments in file {got_c[:6]}, current comments {want_c[:6]}; file: {text[:300]!r}', **sub)
            return False
    if ids.get('ref'):
        rec.cls('roles_ref_ok')
    rec.cls('doc_ok')
    if any(len(b.items) for b in doc.blocks):
        rec.nontrivial += 1
    # outcome classes: quoting styles, layouts, number forms
    for b in doc.blocks:
        for it in b.items:
            vals = [it.value] if isinstance(it, cp.Pair) else [v for r in it.rows for v in r]
            for v in vals:
                rec.cls({'bare': 'quote_none', 'sq': 'quote_sq', 'dq': 'quote_dq', 'text': 'quote_text'}[v.kind])
                if v.kind == 'bare' and '\\' in v.text and cp.unescape(v.text) != v.text:
                    rec.cls('non_ascii_escaped')
    for e in exps:
        if e[0] in ('f64', 'f32', 'int'):
            rec.cls('num_plain')
        elif e[0] == 'unc':
            rec.cls('num_su_token')
        elif e[0] == 'sqrt':
            rec.cls('num_su_column')
        elif e[0] in ('dt', 'dt64'):
            rec.cls('datetime')
        elif e[0] == 'str' and any(ord(ch) > 127 for ch in e[1]):
            rec.cls('non_ascii_escaped')
    if len(doc.comments) > (1 if doc.header else 0):
        rec.cls('comment_in_file')
    if len(doc.blocks) > 1:
        rec.cls('multi_block')
    return True


def _group_exps(g):
    if g['kind'] == 'pairs':
        return [e for _, e in g['pairs']]
    if g['kind'] == 'loop':
        return [e for _, col in g['cols'] for e in col]
    return []


def attempt(rec, site, write, *, header, sub, blocks=None, name=None, groups=None, comments=None):
    """Build + write a document with the real code, then judge it.

    ``write`` returns the text.  An exception is an accepted refusal only when a supplied
    string contains a line break followed by ';' (not representable as written).
    """
    exps = list(_all_exps(blocks)) if blocks is not None else [e for g in groups for e in _group_exps(g)]
    try:
        with warnings.catch_warnings():
            warnings.simplefilter('ignore')
            text = write()
    except Exception as e:  # noqa: BLE001
        rec.transitions += 1
        rec.states += 1
        rec.evals += 1
        if refusable(exps):
            rec.cls('refused_nl_semicolon')
            return None
        rec.viol(site, 'raises', f'{type(e).__name__}: {e}', **sub)
        return None
    judge(rec, site, text, header=header, sub=sub, blocks=blocks, name=name, groups=groups, comments=comments)
    return text


# ---------------------------------------------------------------------------------------
# writing routes


def to_buffer(fn):
    f = StringIO()
    fn(f)
    return f.getvalue()


def to_path(fn, as_path_object=False):
    p = os.path.join(tmpdir(), 'out.cif')
    try:
        from pathlib import Path

        fn(Path(p) if as_path_object else p)
        with open(p, newline='') as f:
            return f.read()
    finally:
        if os.path.exists(p):
            os.remove(p)


def sub_for(labels, **extra):
    return {'labels': list(labels), 'traits': sorted({TRAIT[x] for x in labels if x in TRAIT}), **extra}


# ---------------------------------------------------------------------------------------
# cases


def builder_ops():
    authors = ['a1', 'a1c', 'a1r', 'a1cr', 'a2', 'a2some', 'a2all', 'a2mix', 'a3', 'a3c']
    beam = ['bl_plain', 'bl_known', 'bl_unknown', 'bl_spall', 'bl_reactor', 'bl_synch']
    red = ['r1', 'r2']
    data = ['d_tof', 'd_tof_counts', 'd_dsp', 'd_coordvar']
    cal = ['cal', 'cal_var']
    other = ['copy', 'save']
    return authors + beam + red + data + cal + other


CORE_OPS = ['a1cr', 'a2mix', 'a3', 'bl_known', 'r1', 'r2', 'd_tof_counts', 'cal_var', 'copy', 'save']

BLOCK_ITEMS = ['c1', 'c2q', 'ctext', 'cempty', 'l22', 'ltext', 'lnum', 'dict']
NAMES = ['a', 'my/name', '1', 'ünï', 'x' * 75, 'x' * 80, 'loop_', '#h', "it's", 'a;b', ';', '_a']
BAD_NAMES = ['a b', ' ', 'a\tb', 'a\nb', '\n', 'a ']


def cases(tier):
    out = []
    for lab in LABELS:
        out.append({'kind': 'chunk1', 'v': lab})
    nums = scalar_numbers()
    for i in range(len(nums)):
        out.append({'kind': 'num1', 'i': i})
    for lab in LABELS:
        out.append({'kind': 'chunk2', 'v1': lab})
    s22 = SIGMA16 if tier == 'thorough' else SIGMA12
    for a in s22:
        for b in s22:
            out.append({'kind': 'loop22', 'a': a, 'b': b, 'sigma': len(s22)})
    s3 = LABELS if tier == 'thorough' else SIGMA34
    for shape in ('loop13', 'loop31'):
        for a in s3:
            for b in s3:
                out.append({'kind': shape, 'a': a, 'b': b, 'sigma': len(s3)})
    dtypes = ('float64', 'float32', 'int64')
    for dtype in dtypes:
        for var in (False, True):
            if dtype == 'int64' and var:
                continue
            for cols in range(1, 7):
                out.append({'kind': 'loopnum', 'cols': cols, 'var': var, 'dtype': dtype})
    for n in range(0, 4):
        for seq in itertools.product(BLOCK_ITEMS, repeat=n):
            out.append({'kind': 'block', 'items': list(seq)})
    for n in (1, 2, 3):
        for names in itertools.product(NAMES[:6] if n < 3 else NAMES[:3], repeat=n):
            out.append({'kind': 'multiblock', 'names': list(names)})
    for nm in NAMES[6:]:
        out.append({'kind': 'multiblock', 'names': [nm]})
    for nm in BAD_NAMES:
        out.append({'kind': 'badname', 'name': nm})
    out.append({'kind': 'default_name', 'route': 'CIF'})
    out.append({'kind': 'default_name', 'route': 'Block'})
    ops = builder_ops()
    out.append({'kind': 'builder', 'ops': []})
    for a in ops:
        out.append({'kind': 'builder', 'ops': [a]})
    for a in ops:
        for b in ops:
            out.append({'kind': 'builder', 'ops': [a, b]})
    for a in ops:
        for b in ops:
            for c in ops:
                out.append({'kind': 'builder', 'ops': [a, b, c]})
    if tier == 'thorough':
        for seq in itertools.product(CORE_OPS, repeat=4):
            out.append({'kind': 'builder', 'ops': list(seq)})
    for lab in LABELS:
        out.append({'kind': 'builder_str', 'v': lab})
    # unit alphabet of the reduced powder data; input representations
    for dim, cunit in POWDER_COORDS:
        out.append({'kind': 'powder_units', 'dim': dim, 'coord_unit': cunit})
    for vs in ('strings', 'python', 'numpy', 'variables', 'subclass'):
        out.append({'kind': 'repr_pairs', 'values': vs})
    for kind in SEQ_REPRS:
        out.append({'kind': 'repr_containers', 'repr': kind})
    for cols in ('plain', 'views'):
        out.append({'kind': 'repr_loop', 'columns': cols})
    out.append({'kind': 'repr_names'})
    # modify after write
    for target in ('loop', 'chunk', 'block'):
        for depth in (1, 2, 3):
            if depth == 3 and not (tier == 'thorough' or target == 'block'):
                continue
            for first in MUTATORS[target]:
                out.append({'kind': 'mutate', 'target': target, 'first': first, 'depth': depth})
    for n in range(0, 4):
        for prog in itertools.product(BUILDER_MUTATORS, repeat=n):
            out.append({'kind': 'mutate_builder', 'program': list(prog)})
    for target in ('block', 'builder'):
        for nm in ('a b', 'a\tb', 'a\nb'):
            out.append({'kind': 'badname_after_write', 'target': target, 'name': nm})
    return out


# ---------------------------------------------------------------------------------------
# low-level documents


def _strings_var(vals, dim='row'):
    return sc.array(dims=[dim], values=list(vals))


def run_chunk1(case, rec):
    lab = case['v']
    v = S[lab]
    sub = sub_for([lab])
    exp = [{'name': 'b', 'items': [('pair', 'k.a', ('str', v))]}]
    exp2 = [{'name': 'b', 'items': [('pair', 'k.a', ('str', v)), ('pair', 'k.z', ('str', 'end'))]}]
    # route 1: dict in a Block through save_cif to a buffer
    attempt(rec, 'save_cif', lambda: to_buffer(lambda f: cif.save_cif(f, cif.Block('b', [{'k.a': v}]))), header=True, sub={**sub, 'route': 'dict/save_cif/buffer'}, blocks=exp)
    rec.cls('sink_buffer')
    # route 2: Chunk.write directly (the harness supplies the data_ heading)
    attempt(rec, 'save_cif', lambda: 'data_b\n' + to_buffer(cif.Chunk({'k.a': v, 'k.z': 'end'}).write), header=False, sub={**sub, 'route': 'Chunk.write'}, blocks=exp2)
    # route 3: scalar string variable, Block.write
    attempt(rec, 'save_cif', lambda: to_buffer(cif.Block('b', [cif.Chunk({'k.a': sc.scalar(v)})]).write), header=False, sub={**sub, 'route': 'variable/Block.write'}, blocks=exp)
    # route 4: path sink, value followed by another chunk
    attempt(rec, 'save_cif', lambda: to_path(lambda p: cif.save_cif(p, cif.Block('b', [{'k.a': v}, {'k.z': 'end'}]))), header=True, sub={**sub, 'route': 'dict/save_cif/path'}, blocks=exp2)
    rec.cls('sink_path')
    # route 5: one-element loop
    expl = [{'name': 'b', 'items': [('loop', ['k.a'], [[('str', v)]])]}]
    attempt(rec, 'save_cif', lambda: to_buffer(lambda f: cif.save_cif(f, cif.Block('b', [cif.Loop({'k.a': _strings_var([v])})]))), header=True, sub={**sub, 'route': 'Loop 1x1'}, blocks=expl)


def run_num1(case, rec):
    lab, val, exp = scalar_numbers()[case['i']]
    sub = {'labels': [lab], 'traits': ['number']}
    e1 = [{'name': 'b', 'items': [('pair', 'k.a', exp)]}]
    attempt(rec, 'save_cif', lambda: to_buffer(lambda f: cif.save_cif(f, cif.Block('b', [{'k.a': val}]))), header=True, sub={**sub, 'route': 'dict/save_cif/buffer'}, blocks=e1)
    e2 = [{'name': 'b', 'items': [('pair', 'k.s', ('str', 'two words')), ('pair', 'k.a', exp), ('pair', 'k.z', ('str', 'end'))]}]
    attempt(rec, 'save_cif', lambda: to_buffer(cif.Block('b', [cif.Chunk([('k.s', 'two words'), ('k.a', val), ('k.z', 'end')])]).write), header=False, sub={**sub, 'route': 'pairs/Block.write'}, blocks=e2)


def run_chunk2(case, rec):
    l1 = case['v1']
    for l2 in LABELS:
        exp = [{'name': 'b', 'items': [('pair', 'k.a', ('str', S[l1])), ('pair', 'k.b', ('str', S[l2]))]}]
        attempt(rec, 'save_cif', lambda l2=l2: to_buffer(cif.Block('b', [{'k.a': S[l1], 'k.b': S[l2]}]).write), header=False, sub=sub_for([l1, l2], route='Block.write'), blocks=exp)


def _loop_doc(rec, labels_rows, route='Block.write'):
    """labels_rows: list of rows of labels."""
    ncol = len(labels_rows[0])
    tags = [f'k.c{j}' for j in range(ncol)]
    cols = {tags[j]: _strings_var([S[row[j]] for row in labels_rows]) for j in range(ncol)}
    exp = [{'name': 'b', 'items': [('loop', tags, [[('str', S[x]) for x in row] for row in labels_rows])]}]
    flat = [x for row in labels_rows for x in row]
    text = attempt(rec, 'save_cif', lambda: to_buffer(cif.Block('b', [cif.Loop(cols)]).write), header=False, sub=sub_for(flat, route=route, shape=[len(labels_rows), ncol]), blocks=exp)
    if text is not None and ncol > 1:
        try:
            vals = [t for t in cp.lex(text)[0] if t.type == 'value']
        except cp.CifSyntaxError:
            vals = []
        if len(vals) >= 2:  # observed layout: are the first two values of the first row on one line?
            rec.cls('loop_table_layout' if vals[0].line == vals[1].line and vals[0].kind != 'text' else 'loop_vertical_layout')


def run_loop22(case, rec):
    sig = SIGMA16 if case['sigma'] == 16 else SIGMA12
    for c in sig:
        for d in sig:
            _loop_doc(rec, [[case['a'], case['b']], [c, d]])


def run_loop13(case, rec):
    sig = SIGMA34 if case['sigma'] == 34 else LABELS
    for c in sig:
        _loop_doc(rec, [[case['a'], case['b'], c]])


def run_loop31(case, rec):
    sig = SIGMA34 if case['sigma'] == 34 else LABELS
    for c in sig:
        _loop_doc(rec, [[case['a']], [case['b']], [c]])


def _num_column(n, j, dtype, var):
    """Deterministic column j of length n -> (variable, [exp])."""
    if dtype == 'int64':
        vals = [((i * 7 + j * 3) % 23 - 11) * 10 ** ((i + j) % 9) for i in range(n)]
        return sc.array(dims=['row'], values=vals, dtype='int64', unit='counts'), [('int', v) for v in vals]
    if var:
        pairs = [UNC[(i * 5 + j * 3) % len(UNC)] for i in range(n)]
        if dtype == 'float32':
            pairs = [(float(np.float32(x)), float(np.float32(_var(s)))) for x, s in pairs if abs(x) < 1e30 and (s == 0 or 1e-15 < s < 1e15)] or [(1.5, 0.25)]
            pairs = [pairs[i % len(pairs)] for i in range(n)]
            v = sc.array(dims=['row'], values=np.array([p[0] for p in pairs], dtype='float32'), variances=np.array([p[1] for p in pairs], dtype='float32'), unit='m')
            return v, [('unc', p[0], p[1], 'f32') for p in pairs]
        v = sc.array(dims=['row'], values=[p[0] for p in pairs], variances=[_var(p[1]) for p in pairs], unit='m')
        return v, [('unc', p[0], _var(p[1]), 'f64') for p in pairs]
    vals = [FLOATS[(i * 7 + j * 3) % len(FLOATS)] for i in range(n)]
    if dtype == 'float32':
        arr = np.array([x if abs(x) < 1e38 else 1e38 for x in vals], dtype='float32')
        return sc.array(dims=['row'], values=arr, unit='m'), [('f32', float(x)) for x in arr]
    return sc.array(dims=['row'], values=vals, unit='m'), [('f64', x) for x in vals]


def run_loopnum(case, rec):
    m, var, dtype = case['cols'], case['var'], case['dtype']
    for n in range(1, 51):
        cols, exps = {}, []
        for j in range(m):
            # with variances: alternate compact x(u) columns and plain columns
            v, e = _num_column(n, j, dtype, var and j % 2 == 0)
            cols[f'n.c{j}'] = v
            exps.append(e)
        tags = list(cols)
        rows = [[exps[j][i] for j in range(m)] for i in range(n)]
        exp = [{'name': 'b', 'items': [('loop', tags, rows)]}]
        sub = {'labels': [], 'traits': ['number'], 'rows': n, 'cols': m, 'var': var, 'dtype': dtype}
        attempt(rec, 'save_cif', lambda: to_buffer(lambda f: cif.save_cif(f, cif.Block('b', [cif.Loop(cols)]))), header=True, sub=sub, blocks=exp)
        if n > 1 and m > 1:
            rec.cls('loop_table_layout')


def _block_item(kind, idx, comment, schema):
    """-> (object to hand to Block, [expected items])"""
    t = f'i{idx}'
    kw = {}
    if comment:
        kw['comment'] = comment
    if schema is not None:
        kw['schema'] = schema
    if kind == 'c1':
        return cif.Chunk({f'{t}.a': 'abc'}, **kw), [('pair', f'{t}.a', ('str', 'abc'))]
    if kind == 'c2q':
        return cif.Chunk({f'{t}.a': 'two words', f'{t}.b': 1.5}, **kw), [('pair', f'{t}.a', ('str', 'two words')), ('pair', f'{t}.b', ('f64', 1.5))]
    if kind == 'ctext':
        return cif.Chunk({f'{t}.a': 'line1\nline2', f'{t}.b': "it's"}, **kw), [('pair', f'{t}.a', ('str', 'line1\nline2')), ('pair', f'{t}.b', ('str', "it's"))]
    if kind == 'cempty':
        return cif.Chunk(None, **kw), []
    if kind == 'dict':
        return {f'{t}.a': 'x y', f'{t}.b': 7}, [('pair', f'{t}.a', ('str', 'x y')), ('pair', f'{t}.b', ('int', 7))]
    if kind == 'l22':
        lp = cif.Loop({f'{t}.x': _strings_var(['a', 'b c']), f'{t}.y': _strings_var(["d'e", ''])}, **kw)
        return lp, [('loop', [f'{t}.x', f'{t}.y'], [[('str', 'a'), ('str', "d'e")], [('str', 'b c'), ('str', '')]])]
    if kind == 'ltext':
        lp = cif.Loop({f'{t}.x': _strings_var(['p\nq', 'r']), f'{t}.y': _strings_var(['s', 't\n\'u\' "v"'])}, **kw)
        return lp, [('loop', [f'{t}.x', f'{t}.y'], [[('str', 'p\nq'), ('str', 's')], [('str', 'r'), ('str', 't\n\'u\' "v"')]])]
    if kind == 'lnum':
        x = sc.array(dims=['r'], values=[1.2, 1.4, 2.3], unit='us')
        y = sc.array(dims=['r'], values=[13.6, 26.0, 9.7], variances=[0.7, 1.1, 0.5])
        lp = cif.Loop({f'{t}.x': x, f'{t}.y': y}, **kw)
        rows = [[('f64', a), ('unc', b, c, 'f64')] for a, b, c in zip([1.2, 1.4, 2.3], [13.6, 26.0, 9.7], [0.7, 1.1, 0.5], strict=True)]
        return lp, [('loop', [f'{t}.x', f'{t}.y'], rows)]
    raise ValueError(kind)


def _schema_rows(schemas):
    return {(s.name, s.version, s.location) for s in schemas}


def run_block(case, rec):
    kinds = case['items']
    custom = cif.CIFSchema(name='myDict', version='0.1', location='https://example.org/my dict.dic')
    variants = [(c, None, 'ctor') for c in COMMENTS]
    variants += [('simple comment', cif.CORE_SCHEMA, 'add'), ('', cif.PD_SCHEMA, 'ctor'), ('two\nlines', custom, 'add'), ('', (custom, cif.PD_SCHEMA), 'ctor')]
    for comment, schema, how in variants:
        objs, exp_items = [], []
        for k, kind in enumerate(kinds):
            o, e = _block_item(kind, k, f'{comment} [{k}]' if comment else '', schema if k == len(kinds) - 1 and kind != 'dict' else None)
            objs.append(o)
            exp_items += e
        has_schema = schema is not None and kinds and kinds[-1] != 'dict'
        if has_schema:
            ss = {cif.CORE_SCHEMA, *((schema,) if isinstance(schema, cif.CIFSchema) else schema)}
            exp_items = [('schema', _schema_rows(ss)), *exp_items]
        exp = [{'name': 'blk', 'items': exp_items}]

        def write(objs=objs, comment=comment, how=how):
            if how == 'ctor':
                blk = cif.Block('blk', objs, comment=comment)
            else:
                blk = cif.Block('blk', comment=comment)
                for o in objs:
                    blk.add(o)
            return to_buffer(lambda f: cif.save_cif(f, blk, comment=comment))

        sub = {'labels': [], 'traits': ['block'], 'comment': comment, 'schema': str(schema), 'how': how}
        text = attempt(rec, 'save_cif', write, header=True, sub=sub, blocks=exp)
        if text is not None and has_schema and '_audit_conform.dict_name' in text:
            rec.cls('schema_loop')
        # differential: constructor content list == add() one by one
        if how == 'ctor' and text is not None and schema is None:
            blk = cif.Block('blk', comment=comment)
            for kind, k in zip(kinds, range(len(kinds)), strict=True):
                o, _ = _block_item(kind, k, f'{comment} [{k}]' if comment else '', None)
                blk.add(o)
            t2 = to_buffer(lambda f: cif.save_cif(f, blk, comment=comment))
            rec.transitions += 1
            if t2 != text:
                rec.viol('save_cif', 'add_vs_constructor', f'Block(content) and Block.add produce different files: {text[:200]!r} vs {t2[:200]!r}', **sub)


def run_multiblock(case, rec):
    names = case['names']
    blocks, exp = [], []
    for k, nm in enumerate(names):
        items = [{f'b{k}.a': f'value {k}', f'b{k}.t': 'x\ny'}, cif.Loop({f'b{k}.l': _strings_var(['p', 'q r'])}, comment='loop comment')]
        blocks.append(cif.Block(nm, items, comment=f'block {k}'))
        exp.append({'name': nm, 'items': [('pair', f'b{k}.a', ('str', f'value {k}')), ('pair', f'b{k}.t', ('str', 'x\ny')), ('loop', [f'b{k}.l'], [[('str', 'p')], [('str', 'q r')]])]})
    sub = {'labels': [], 'traits': ['block_name'], 'names': names}
    arg = blocks[0] if len(blocks) == 1 else (blocks if len(blocks) == 2 else iter(blocks))
    attempt(rec, 'save_cif', lambda: to_buffer(lambda f: cif.save_cif(f, arg, comment='file comment')), header=True, sub=sub, blocks=exp)
    if any(ord(ch) > 127 for nm in names for ch in nm):
        rec.cls('non_ascii_escaped')
    if len(names) == 1:
        attempt(rec, 'save_cif', lambda: to_path(lambda p: cif.save_cif(p, blocks[0]), as_path_object=True), header=True, sub={**sub, 'route': 'Path'}, blocks=exp)


def run_badname(case, rec):
    nm = case['name']
    rec.transitions += 1
    rec.evals += 1
    try:
        blk = cif.Block(nm, [{'k.a': 'abc'}])
    except ValueError:
        rec.cls('block_name_rejected')
        rec.validated += 1
    else:
        # accepted: then the file must still carry the block (it cannot: the name has blanks)
        text = to_buffer(lambda f: cif.save_cif(f, blk))
        judge(rec, 'save_cif', text, header=True, sub={'labels': [], 'traits': ['block_name'], 'name': nm}, blocks=[{'name': nm, 'items': [('pair', 'k.a', ('str', 'abc'))]}])
    try:
        blk = cif.Block('fine')
        blk.name = nm
    except ValueError:
        rec.cls('block_name_rejected')
    else:
        rec.viol('Block.name', 'accepted_bad_name', f'name {nm!r} accepted by the setter')


def run_default_name(case, rec):
    """A builder / block without a name: 'data_' alone is not a CIF 1.1 block heading."""
    sub = {'labels': [], 'traits': ['default_name']}
    g = builder_groups({'authors': [], 'reducers': [], 'content': []})
    if case['route'] == 'CIF':
        attempt(rec, 'CIF.save', lambda: to_buffer(cif.CIF().save), header=True, sub={**sub, 'route': 'CIF()'}, name='', groups=g)
        return
    attempt(rec, 'save_cif', lambda: to_buffer(lambda f: cif.save_cif(f, cif.Block('', [{'k.a': 1}]))), header=True, sub={**sub, 'route': "Block('')"}, blocks=[{'name': '', 'items': [('pair', 'k.a', ('int', 1))]}])


# ---------------------------------------------------------------------------------------
# high-level builder: real operations + model state

PEOPLE = {
    'reg': {'name': 'Jane Doe'},
    'reg2': {'name': 'Max Mustermann', 'email': 'mm@scipp.eu', 'orcid': 'https://orcid.org/0000-0000-0001-0082'},
    'reg_r': {'name': "Rory O'Neil", 'role': 'measurement', 'address': 'Partikelgatan, Lund'},
    'reg_r2': {'name': 'Zoë', 'role': 'data reduction', 'orcid': '0000-0000-0000-0001'},
    'con': {'name': 'Con Tact', 'corresponding': True, 'email': 'con.tact@ess.eu'},
    'con_r': {'name': 'Cora Role', 'corresponding': True, 'role': 'principal investigator', 'address': 'Line one\nLine two'},
}
AUTHOR_OPS = {
    'a1': ['reg'], 'a1c': ['con'], 'a1r': ['reg_r'], 'a1cr': ['con_r'], 'a2': ['reg', 'reg2'], 'a2some': ['reg_r', 'reg2'],
    'a2all': ['reg_r', 'reg_r2'], 'a2mix': ['con_r', 'reg_r'], 'a3': ['con', 'reg_r', 'reg'], 'a3c': ['con_r', 'con', 'reg_r2'],
}  # fmt: skip
def person(key, **override):
    d = {**PEOPLE[key], **override} if key in PEOPLE else override
    return metadata.Person(name=d['name'], email=d.get('email'), address=d.get('address'), orcid_id=d.get('orcid'), corresponding=d.get('corresponding', False), role=d.get('role')), d


def _powder(op):
    if op == 'd_tof':
        x = sc.array(dims=['tof'], values=[1.2, 1.4, 2.3], unit='us')
        y = sc.array(dims=['tof'], values=[13.6, 26.0, 9.7], variances=[0.7, 1.1, 0.5])
        return sc.DataArray(y, coords={'tof': x}), 'user comment', {'coord': 'pd_meas.time_of_flight', 'x': [1.2, 1.4, 2.3], 'xv': None, 'data': 'pd_proc.intensity_norm', 'y': [13.6, 26.0, 9.7], 'yv': [0.7, 1.1, 0.5], 'unit': None}
    if op == 'd_tof_counts':
        x = sc.array(dims=['tof'], values=[100.0, 1e-5, 1 / 3, 2e4], unit='us')
        y = sc.array(dims=['tof'], values=[0.0, 1e300, 3.0, 123456.789], variances=[0.0, 1e300, 2.0, 1e-10], unit='counts')
        da = sc.DataArray(y, coords={'tof': x}, name='intensity_net')
        return da, '', {'coord': 'pd_meas.time_of_flight', 'x': [100.0, 1e-5, 1 / 3, 2e4], 'xv': None, 'data': 'pd_proc.intensity_net', 'y': [0.0, 1e300, 3.0, 123456.789], 'yv': [0.0, 1e300, 2.0, 1e-10], 'unit': 'counts'}
    if op == 'd_dsp':
        x = sc.array(dims=['dspacing'], values=[0.5, 1.25], unit='angstrom')
        y = sc.array(dims=['dspacing'], values=[7.0, 0.1], unit='one')
        da = sc.DataArray(y, coords={'dspacing': x}, name='intensity_total')
        return da, 'd-spacing\n_data', {'coord': 'pd_proc.d_spacing', 'x': [0.5, 1.25], 'xv': None, 'data': 'pd_proc.intensity_total', 'y': [7.0, 0.1], 'yv': None, 'unit': None}
    if op == 'd_coordvar':
        x = sc.array(dims=['tof'], values=[10.0], variances=[0.04], unit='us')
        y = sc.array(dims=['tof'], values=[2.0], variances=[9.0], unit='one')
        da = sc.DataArray(y, coords={'tof': x}, name='intensity_norm')
        return da, '', {'coord': 'pd_meas.time_of_flight', 'x': [10.0], 'xv': [0.04], 'data': 'pd_proc.intensity_norm', 'y': [2.0], 'yv': [9.0], 'unit': None}
    raise ValueError(op)


def _cal(op):
    if op == 'cal':
        c = sc.array(dims=['cal'], values=[3.4, 0.2], unit='us')
        p = sc.array(dims=['cal'], values=[0, 1], unit=None)
        return sc.DataArray(c, coords={'power': p}), {'power': [('int', 0), ('int', 1)], 'c': [3.4, 0.2], 'cv': None}
    c = sc.array(dims=['cal'], values=[1.2, 4.5, 6.7, -0.01, 1e-9], variances=[0.1, 0.2, 0.3, 1e-6, 0.0], unit='us')
    p = sc.array(dims=['cal'], values=[0.0, 1.0, -1.0, 2.0, 0.5], unit=None)
    return sc.DataArray(c, coords={'power': p}), {'power': [('f64', v) for v in (0.0, 1.0, -1.0, 2.0, 0.5)], 'c': [1.2, 4.5, 6.7, -0.01, 1e-9], 'cv': [0.1, 0.2, 0.3, 1e-6, 0.0]}


def _beam(op):
    src = {
        'bl_spall': (metadata.SourceType.SpallationNeutronSource, metadata.RadiationProbe.Neutron, 'neutron', 'spallation'),
        'bl_reactor': (metadata.SourceType.ReactorNeutronSource, metadata.RadiationProbe.Neutron, 'neutron', 'nuclear'),
        'bl_synch': (metadata.SourceType.SynchrotronXraySource, metadata.RadiationProbe.Xray, 'x-ray', 'synch'),
    }
    if op == 'bl_plain':
        return metadata.Beamline(name='fake'), None, '', {'beamline': 'fake'}
    if op == 'bl_known':
        return metadata.Beamline(name='DREAM', facility='ESS', site='ESS'), None, 'beamline comment', {'probe': 'neutron', 'beamline': 'DREAM', 'facility': 'ESS', 'device': 'spallation'}
    if op == 'bl_unknown':
        return metadata.Beamline(name='POW GEN', facility='made up'), None, '', {'beamline': 'POW GEN', 'facility': 'made up'}
    st, pr, probe, device = src[op]
    return metadata.Beamline(name="B'line", facility='Inst. "X"'), metadata.Source(name='src', source_type=st, probe=pr), '', {'probe': probe, 'beamline': "B'line", 'facility': 'Inst. "X"', 'device': device}


def apply_op(op, builder, model):
    """-> (new builder, new model).  model = {'authors': [...], 'reducers': [...], 'content': [...]}"""
    m = {k: list(v) for k, v in model.items()}
    if op in AUTHOR_OPS:
        ps = [person(k) for k in AUTHOR_OPS[op]]
        m['authors'] += [d for _, d in ps]
        return builder.with_authors(*[p for p, _ in ps]), m
    if op.startswith('bl_'):
        bl, src, comment, fields = _beam(op)
        m['content'].append(('beam', fields))
        return (builder.with_beamline(bl, src, comment=comment) if src is not None else builder.with_beamline(bl, comment=comment)), m
    if op in ('r1', 'r2'):
        rs = ['mypackage v1.0'] if op == 'r1' else ["b's-tool", 'tool 2.0 (https://example.org)']
        m['reducers'] += rs
        return builder.with_reducers(*rs), m
    if op.startswith('d_'):
        da, comment, d = _powder(op)
        m['content'].append(('powder', d))
        return builder.with_reduced_powder_data(da, comment=comment), m
    if op.startswith('cal'):
        da, d = _cal(op)
        m['content'].append(('cal', d))
        return builder.with_powder_calibration(da, comment='calibration'), m
    if op == 'copy':
        return builder.copy(), m
    raise ValueError(op)


def _orcid(s):
    return s if s.startswith('https://orcid.org/') else 'https://orcid.org/' + s


def builder_groups(model, version=None):
    version = version or scippneutron.__version__
    pd = any(k in ('powder', 'cal') for k, _ in model['content'])
    schemas = {cif.CORE_SCHEMA, *((cif.PD_SCHEMA,) if pd else ())}
    groups = [{'kind': 'schema', 'rows': _schema_rows(schemas)}]
    audit = [('audit.creation_date', ('dt', FROZEN.replace(microsecond=0))), ('audit.creation_method', ('str', f'Written by scippneutron {version}'))]
    red = model['reducers']
    if len(red) == 1:
        audit.append(('computing.diffrn_reduction', ('str', red[0])))
    groups.append({'kind': 'pairs', 'pairs': audit})
    if len(red) > 1:
        groups.append({'kind': 'loop', 'cols': [('computing.diffrn_reduction', [('str', r) for r in red])]})
    people = list(enumerate(model['authors']))
    contact = [(i, p) for i, p in people if p.get('corresponding')]
    regular = [(i, p) for i, p in people if not p.get('corresponding')]
    roles = []
    for cat, ps in (('audit_contact_author', contact), ('audit_author', regular)):
        if not ps:
            continue
        cols = []
        for key, ckey in (('name', 'name'), ('email', 'email'), ('address', 'address'), ('orcid', 'id_orcid')):
            vals = [p.get(key) or '' for _, p in ps]
            if any(vals):
                cols.append((f'{cat}.{ckey}', [('str', _orcid(v) if key == 'orcid' and v else v) for v in vals]))
        if any(p.get('role') for _, p in ps):
            cols.append((f'{cat}.id', [('idbind', i) for i, _ in ps]))
        roles += [(i, p['role']) for i, p in ps if p.get('role')]
        if len(ps) == 1:
            groups.append({'kind': 'pairs', 'pairs': [(t, col[0]) for t, col in cols]})
        else:
            groups.append({'kind': 'loop', 'cols': cols})
    if roles:
        groups.append({'kind': 'loop', 'cols': [('audit_author_role.id', [('idref', i) for i, _ in roles]), ('audit_author_role.role', [('str', r) for _, r in roles])]})
    for kind, d in model['content']:
        if kind == 'beam':
            order = [('probe', 'diffrn_radiation.probe'), ('beamline', 'diffrn_source.beamline'), ('facility', 'diffrn_source.facility'), ('device', 'diffrn_source.device')]
            groups.append({'kind': 'pairs', 'content': True, 'pairs': [(t, ('str', d[k])) for k, t in order if k in d]})
        elif kind == 'powder':
            n = len(d['x'])
            cols = [('pd_data.point_id', [('int', i) for i in range(n)]), (d['coord'], [('f64', v) for v in d['x']])]
            if d['xv'] is not None:
                cols.append((d['coord'] + '_su', [('sqrt', v) for v in d['xv']]))
            cols.append((d['data'], [('f64', v) for v in d['y']]))
            if d['yv'] is not None:
                cols.append((d['data'] + '_su', [('sqrt', v) for v in d['yv']]))
            groups.append({'kind': 'loop', 'content': True, 'cols': cols})
        else:
            n = len(d['c'])
            cols = [('pd_calib_d_to_tof.id', [('any',)] * n), ('pd_calib_d_to_tof.power', d['power']), ('pd_calib_d_to_tof.coeff', [('f64', v) for v in d['c']])]
            if d['cv'] is not None:
                cols.append(('pd_calib_d_to_tof.coeff_su', [('sqrt', v) for v in d['cv']]))
            groups.append({'kind': 'loop', 'content': True, 'cols': cols})
    return groups


def _builder_classes(rec, model):
    people = model['authors']
    contact = [p for p in people if p.get('corresponding')]
    regular = [p for p in people if not p.get('corresponding')]
    for ps in (contact, regular):
        if len(ps) == 1:
            rec.cls('authors_chunk')
        elif len(ps) > 1:
            rec.cls('authors_loop')
    if contact and regular:
        rec.cls('contact_and_regular')
    if any(p.get('role') for p in people):
        rec.cls('roles_loop')
    if len(model['reducers']) == 1:
        rec.cls('reducers_pair')
    elif len(model['reducers']) > 1:
        rec.cls('reducers_loop')
    for k, _ in model['content']:
        rec.cls({'beam': 'beamline_chunk', 'powder': 'powder_loop', 'cal': 'calibration_loop'}[k])


def _save_builder(rec, b, model, name, sub, route):
    groups = builder_groups(model)
    if route == 'save':
        w = lambda: to_buffer(b.save)  # noqa: E731
    elif route == 'save_cif':
        w = lambda: to_buffer(lambda f: cif.save_cif(f, b, comment='override\ncomment'))  # noqa: E731
    else:
        w = lambda: to_path(b.save)  # noqa: E731
        rec.cls('sink_path')
    return attempt(rec, 'CIF.save', w, header=True, sub={**sub, 'route': route}, name=name, groups=groups)


def run_builder(case, rec):
    ops = case['ops']
    name = 'my/name'
    sub = {'labels': [], 'traits': ['builder'], 'ops': ops}
    b = cif.CIF(name, comment='builder comment å')
    model = {'authors': [], 'reducers': [], 'content': []}
    history = [(b, model)]
    for k, op in enumerate(ops):
        if op == 'save':
            _save_builder(rec, b, model, name, {**sub, 'at': k}, 'save')
            rec.cls('builder_resave')
            continue
        b, model = apply_op(op, b, model)
        rec.transitions += 1
        if op == 'copy':
            rec.cls('builder_copy')
        history.append((b, model))
    t1 = _save_builder(rec, b, model, name, sub, 'save')
    _save_builder(rec, b, model, name, sub, 'save_cif')
    if len(ops) <= 1:
        _save_builder(rec, b, model, name, sub, 'path')
    _builder_classes(rec, model)
    # every intermediate builder is unchanged by the calls made on it afterwards
    for hb, hm in history[:-1]:
        _save_builder(rec, hb, hm, name, {**sub, 'check': 'earlier builder unchanged'}, 'save')
        rec.cls('builder_immutable')
    # a second save of the same builder describes the same content
    t2 = _save_builder(rec, b, model, name, {**sub, 'check': 'second save'}, 'save')
    if t1 is not None and t2 is not None and not any(p.get('role') for p in model['authors']) and t1 != t2:
        rec.viol('CIF.save', 'resave_differs', 'two saves of one builder without author roles differ', **sub)


def run_builder_str(case, rec):
    lab = case['v']
    v = S[lab]
    name = 'n'
    base = {'authors': [], 'reducers': [], 'content': []}

    def go(slot, make, model, nm=name):
        sub = sub_for([lab], slot=slot)
        attempt(rec, 'CIF.save', lambda: to_buffer(make().save), header=True, sub=sub, name=nm, groups=builder_groups(model))

    go('reducer1', lambda: cif.CIF(name).with_reducers(v), {**base, 'reducers': [v]})
    go('reducer2', lambda: cif.CIF(name).with_reducers('first tool', v), {**base, 'reducers': ['first tool', v]})
    if v:  # Person requires a name; '' would drop the column
        go('author_name', lambda: cif.CIF(name).with_authors(person(None, name=v)[0]), {**base, 'authors': [{'name': v}]})
        go('author_names_loop', lambda: cif.CIF(name).with_authors(person('reg')[0], person(None, name=v, role='rôle')[0]), {**base, 'authors': [PEOPLE['reg'], {'name': v, 'role': 'rôle'}]})
        go('author_address_role', lambda: cif.CIF(name).with_authors(person(None, name='N N', address=v, role=v, corresponding=True)[0]), {**base, 'authors': [{'name': 'N N', 'address': v, 'role': v, 'corresponding': True}]})
    go('beamline', lambda: cif.CIF(name).with_beamline(metadata.Beamline(name=v, facility=v or None)), {**base, 'content': [('beam', {'beamline': v, **({'facility': v} if v else {})})]})
    # comments: the string in every comment slot must not leak into the data
    da, _, d = _powder('d_tof')
    go('comments', lambda: cif.CIF(name, comment=v).with_beamline(metadata.Beamline(name='fake'), comment=v).with_reduced_powder_data(da, comment=v), {**base, 'content': [('beam', {'beamline': 'fake'}), ('powder', d)]})
    # more user text slots: calibration comment, file comment given to save_cif, source name
    cal, dc = _cal('cal')
    go('cal_comment', lambda: cif.CIF(name).with_powder_calibration(cal, comment=v), {**base, 'content': [('cal', dc)]})
    sub = sub_for([lab], slot='save_cif_comment')
    attempt(rec, 'CIF.save', lambda: to_buffer(lambda f: cif.save_cif(f, cif.CIF(name, comment='own').with_reducers('x'), comment=v)), header=True, sub=sub, name=name, groups=builder_groups({**base, 'reducers': ['x']}))
    if v:
        src = lambda: metadata.Source(name=v, source_type=metadata.SourceType.ReactorNeutronSource, probe=metadata.RadiationProbe.Neutron)  # noqa: E731
        go('source_name', lambda: cif.CIF(name).with_beamline(metadata.Beamline(name='B', facility=v, site=v, revision=v), src()), {**base, 'content': [('beam', {'probe': 'neutron', 'beamline': 'B', 'facility': v, 'device': 'nuclear'})]})
    # block name
    esc = v.encode('ascii', 'backslashreplace').decode()
    if v and not any(c in esc for c in ' \t\n'):
        go('name', lambda: cif.CIF(v).with_reducers('x'), {**base, 'reducers': ['x']}, nm=v)
    else:
        rec.transitions += 1
        try:
            cif.CIF(v)
        except ValueError:
            rec.cls('block_name_rejected')
        else:
            if v:
                rec.viol('CIF.name', 'accepted_bad_name', f'name {v!r} accepted', **sub_for([lab]))


# ---------------------------------------------------------------------------------------
# modify after write: write / save once, apply public mutators, write again; every
# document must describe the content the object holds *at the time of that write*

MUT_VALUES = {
    'f0': lambda: (sc.array(dims=['row'], values=[1.2, 1.4, 2.3], unit='us'), [('f64', v) for v in (1.2, 1.4, 2.3)]),
    'f1': lambda: (sc.array(dims=['row'], values=[11.0, 22.0, 33.5], unit='us'), [('f64', v) for v in (11.0, 22.0, 33.5)]),
    'f2': lambda: (sc.array(dims=['row'], values=[1.2, 1.4, 2.5], unit='us'), [('f64', v) for v in (1.2, 1.4, 2.5)]),
    'i0': lambda: (sc.array(dims=['row'], values=[1, 2, 3], dtype='int64', unit='counts'), [('int', v) for v in (1, 2, 3)]),
    'fv': lambda: (
        sc.array(dims=['row'], values=[13.6, 26.0, 9.7], variances=[0.7, 1.1, 0.5]),
        [('unc', a, b, 'f64') for a, b in zip((13.6, 26.0, 9.7), (0.7, 1.1, 0.5), strict=True)],
    ),
    'fv1': lambda: (
        sc.array(dims=['row'], values=[13.6, 26.0, 9.7], variances=[0.0009, 0.04, 0.0025]),
        [('unc', a, b, 'f64') for a, b in zip((13.6, 26.0, 9.7), (0.0009, 0.04, 0.0025), strict=True)],
    ),
    'fnov': lambda: (sc.array(dims=['row'], values=[13.6, 26.0, 9.7]), [('f64', v) for v in (13.6, 26.0, 9.7)]),
    's0': lambda: (_strings_var(['a', 'b c', 'd']), [('str', v) for v in ('a', 'b c', 'd')]),
    's1': lambda: (_strings_var(['_x', "it's", 'two\nlines']), [('str', v) for v in ('_x', "it's", 'two\nlines')]),
    's2': lambda: (_strings_var(['a', 'b c', 'e']), [('str', v) for v in ('a', 'b c', 'e')]),
}
MUT_SCALARS = {
    'abc': lambda: ('abc', ('str', 'abc')),
    'apos': lambda: ("it's", ('str', "it's")),
    'blank': lambda: ('two words', ('str', 'two words')),
    'text': lambda: ('line1\nline2', ('str', 'line1\nline2')),
    'under': lambda: ('_x', ('str', '_x')),
    'empty': lambda: ('', ('str', '')),
    'float': lambda: (2.5, ('f64', 2.5)),
    'float0': lambda: (1.5, ('f64', 1.5)),
    'int': lambda: (7, ('int', 7)),
    'unc': lambda: (sc.scalar(1.2, variance=0.09, unit='m'), ('unc', 1.2, 0.09, 'f64')),
}
MUT_COMMENTS = {'comment_set': 'changed comment\nsecond line', 'comment_uml': 'ünï', 'comment_clear': '', 'comment_orig': 'original comment'}


def _loop_mutators():
    out = [f'set:{col}:{v}' for col in ('n.x', 'n.s', 'n.y', 'n.z') for v in MUT_VALUES]
    return out + list(MUT_COMMENTS) + ['bad_length']


def _chunk_mutators():
    out = [f'set:{key}:{v}' for key in ('k.a', 'k.b', 'k.t', 'k.new') for v in MUT_SCALARS]
    return out + list(MUT_COMMENTS)


BLOCK_MUTATORS = [
    'add_dict', 'add_dict_comment', 'add_pairs', 'add_chunk_pd', 'add_loop', 'name_other', 'name_uml', 'name_orig',
    *MUT_COMMENTS, 'c0:set:k.a:under', 'c0:set:k.a:abc', 'c0:set:k.z:int', 'c0:comment_set', 'l0:set:n.x:f1',
    'l0:set:n.x:f0', 'l0:set:n.s:s1', 'l0:set:n.z:i0', 'l0:comment_set',
]  # fmt: skip
BUILDER_MUTATORS = ['name_other', 'name_orig', 'comment_set', 'comment_clear', 'a1', 'a2mix', 'r1', 'bl_known', 'd_tof', 'cal', 'copy', 'save_cif_override']


class _LoopTarget:
    """state: ordered columns {tag: value key}, comment"""

    site = 'save_cif'

    def __init__(self):
        self.cols = {'n.x': 'f0', 'n.s': 's0', 'n.y': 'fv'}
        self.comment = 'original comment'
        self.obj = cif.Loop({k: MUT_VALUES[v]()[0] for k, v in self.cols.items()}, comment=self.comment)
        self.block = cif.Block('b', [self.obj])

    def mutate(self, m, rec):
        if m.startswith('set:'):
            _, col, v = m.split(':')
            rec.cls('mut_loop_replaced' if col in self.cols else 'mut_loop_added')
            self.obj[col] = MUT_VALUES[v]()[0]
            self.cols[col] = v
        elif m == 'bad_length':
            try:
                self.obj['n.x'] = sc.array(dims=['row'], values=[1.0, 2.0])
            except sc.DimensionError:
                rec.cls('mut_rejected')  # refused: the loop keeps its content
            else:
                raise AssertionError('loop accepted a column of different length')
        else:
            self.comment = MUT_COMMENTS[m]
            self.obj.comment = self.comment
            rec.cls('mut_comment_changed')

    def groups(self):
        return [{'kind': 'loop', 'content': True, 'cols': [(k, MUT_VALUES[v]()[1]) for k, v in self.cols.items()]}]

    def writes(self, k):
        g = self.groups()
        if k % 2 == 0:
            return 'Loop.write', False, (lambda: 'data_b\n' + to_buffer(self.obj.write)), 'b', g, [self.comment]
        return 'Block/save_cif', True, (lambda: to_buffer(lambda f: cif.save_cif(f, self.block))), 'b', g, [self.comment]

    def key(self):
        return (tuple(self.cols.items()), self.comment)


class _ChunkTarget:
    site = 'save_cif'

    def __init__(self):
        self.pairs = {'k.a': 'abc', 'k.b': 'float0', 'k.t': 'blank'}
        self.comment = 'original comment'
        self.obj = cif.Chunk({k: MUT_SCALARS[v]()[0] for k, v in self.pairs.items()}, comment=self.comment)
        self.block = cif.Block('b', [self.obj])

    def mutate(self, m, rec):
        if m.startswith('set:'):
            _, key, v = m.split(':')
            rec.cls('mut_chunk_replaced' if key in self.pairs else 'mut_chunk_added')
            self.obj[key] = MUT_SCALARS[v]()[0]
            self.pairs[key] = v
        else:
            self.comment = MUT_COMMENTS[m]
            self.obj.comment = self.comment
            rec.cls('mut_comment_changed')

    def groups(self):
        return [{'kind': 'pairs', 'content': True, 'pairs': [(k, MUT_SCALARS[v]()[1]) for k, v in self.pairs.items()]}]

    def writes(self, k):
        g = self.groups()
        if k % 2 == 0:
            return 'Chunk.write', False, (lambda: 'data_b\n' + to_buffer(self.obj.write)), 'b', g, [self.comment]
        return 'Block.write', False, (lambda: to_buffer(self.block.write)), 'b', g, [self.comment]

    def key(self):
        return (tuple(self.pairs.items()), self.comment)


class _BlockTarget:
    """Block holding a chunk c0 and a loop l0; mutated through the block and through the shared items."""

    site = 'save_cif'

    def __init__(self):
        self.c0 = cif.Chunk({'k.a': 'abc', 'k.b': 1.5}, comment='chunk comment')
        self.l0 = cif.Loop({'n.x': MUT_VALUES['f0']()[0], 'n.s': MUT_VALUES['s0']()[0]}, comment='loop comment')
        self.obj = cif.Block('blk', [self.c0, self.l0], comment='original comment')
        self.name = 'blk'
        self.comment = 'original comment'
        # items: [kind, ordered {tag: exp or [exp]}, comment]
        self.items = [
            ['pairs', {'k.a': ('str', 'abc'), 'k.b': ('f64', 1.5)}, 'chunk comment'],
            ['loop', {'n.x': MUT_VALUES['f0']()[1], 'n.s': MUT_VALUES['s0']()[1]}, 'loop comment'],
        ]
        self.schemas = set()

    def mutate(self, m, rec):
        if m == 'add_dict':
            self.obj.add({'d.a': 'x y', 'd.b': 3})
            self.items.append(['pairs', {'d.a': ('str', 'x y'), 'd.b': ('int', 3)}, ''])
        elif m == 'add_dict_comment':
            self.obj.add({'e.a': 5.5}, comment='added with comment')
            self.items.append(['pairs', {'e.a': ('f64', 5.5)}, 'added with comment'])
        elif m == 'add_pairs':
            self.obj.add([('p.a', 'q'), ('p.b', "r's")])
            self.items.append(['pairs', {'p.a': ('str', 'q'), 'p.b': ('str', "r's")}, ''])
        elif m == 'add_chunk_pd':
            self.obj.add(cif.Chunk({'c.a': "it's"}, schema=cif.PD_SCHEMA, comment='pd chunk'))
            self.items.append(['pairs', {'c.a': ('str', "it's")}, 'pd chunk'])
            self.schemas |= {cif.CORE_SCHEMA, cif.PD_SCHEMA}
        elif m == 'add_loop':
            self.obj.add(cif.Loop({'m.s': MUT_VALUES['s1']()[0], 'm.v': MUT_VALUES['fv']()[0]}))
            self.items.append(['loop', {'m.s': MUT_VALUES['s1']()[1], 'm.v': MUT_VALUES['fv']()[1]}, ''])
        elif m.startswith('name_'):
            self.name = {'name_other': 'other/name', 'name_uml': 'ünï', 'name_orig': 'blk'}[m]
            self.obj.name = self.name
            rec.cls('mut_renamed')
        elif m in MUT_COMMENTS:
            self.comment = MUT_COMMENTS[m]
            self.obj.comment = self.comment
            rec.cls('mut_comment_changed')
        elif m.startswith('c0:set:'):
            _, _, key, v = m.split(':')
            self.c0[key] = MUT_SCALARS[v]()[0]
            self.items[0][1][key] = MUT_SCALARS[v]()[1]
            rec.cls('mut_inner_item')
        elif m == 'c0:comment_set':
            self.c0.comment = self.items[0][2] = 'new chunk comment'
        elif m.startswith('l0:set:'):
            _, _, col, v = m.split(':')
            self.l0[col] = MUT_VALUES[v]()[0]
            self.items[1][1][col] = MUT_VALUES[v]()[1]
            rec.cls('mut_inner_item')
        elif m == 'l0:comment_set':
            self.l0.comment = self.items[1][2] = 'new loop comment'
        else:
            raise ValueError(m)
        if m.startswith('add_'):
            rec.cls('mut_block_added')

    def groups(self):
        g = [{'kind': 'schema', 'rows': _schema_rows(self.schemas)}] if self.schemas else []
        for kind, d, _ in self.items:
            if kind == 'pairs':
                g.append({'kind': 'pairs', 'content': True, 'pairs': list(d.items())})
            else:
                g.append({'kind': 'loop', 'content': True, 'cols': list(d.items())})
        return g

    def writes(self, k):
        g = self.groups()
        comments = [self.comment, *[c for _, _, c in self.items]]
        if k % 2 == 0:
            return 'save_cif', True, (lambda: to_buffer(lambda f: cif.save_cif(f, self.obj))), self.name, g, comments
        return 'Block.write', False, (lambda: to_buffer(self.obj.write)), self.name, g, comments

    def key(self):
        return (self.name, self.comment, repr(self.items), len(self.schemas))


TARGETS = {'loop': _LoopTarget, 'chunk': _ChunkTarget, 'block': _BlockTarget}
MUTATORS = {'loop': _loop_mutators(), 'chunk': _chunk_mutators(), 'block': BLOCK_MUTATORS}


def _run_program(rec, target, program, sub):
    """write, then (mutate, write)* ; the k-th write alternates between the two routes of the target."""
    t = TARGETS[target]()
    first_key = t.key()
    texts = {}
    for k in range(len(program) + 1):
        if k:
            t.mutate(program[k - 1], rec)
            rec.transitions += 1
        # both routes after every step: the first of them is the 'scratch' write that a cache could remember
        for kk in (k, k + 1):
            route, header, w, name, groups, comments = t.writes(kk)
            text = attempt(rec, t.site, w, header=header, sub={**sub, 'step': k, 'route': route}, name=name, groups=groups, comments=comments)
            if k == 0:
                texts[route] = text
            elif t.key() == first_key and text is not None:
                rec.cls('mut_back_to_original')
                if texts.get(route) is not None and text != texts[route]:
                    rec.viol(t.site, 'content_mismatch', f'content changed back to the original but the file differs: {text[:200]!r} vs {texts[route][:200]!r}', **{**sub, 'step': k, 'route': route})


def run_mutate(case, rec):
    target, first = case['target'], case['first']
    muts = MUTATORS[target]
    depth = case['depth']
    rest = [()] if depth == 1 else [(b,) for b in muts] if depth == 2 else [(b, c) for b in muts for c in muts]
    for tail in rest:
        program = [first, *tail]
        _run_program(rec, target, program, {'labels': [], 'traits': ['modify_after_write'], 'target': target, 'program': program})


def run_mutate_builder(case, rec):
    """Saved builder, then setters / with_* / copy, then save again (both the new and the old builders)."""
    program = case['program']
    sub = {'labels': [], 'traits': ['modify_after_write'], 'target': 'builder', 'program': program}
    content_comments = {'beam': 'beamline comment', 'powder': 'user comment', 'cal': 'calibration'}

    def save(st, k, route='save'):
        comments = [st['comment'], *[content_comments[kind] for kind, _ in st['model']['content']]]
        if route == 'save_cif_override':
            comments[0] = 'override comment'
            w = lambda: to_buffer(lambda f: cif.save_cif(f, st['b'], comment='override comment'))  # noqa: E731
        else:
            w = lambda: to_buffer(st['b'].save)  # noqa: E731
        attempt(rec, 'CIF.save', w, header=True, sub={**sub, 'step': k, 'route': route}, name=st['name'], groups=builder_groups(st['model']), comments=comments)

    cur = {'b': cif.CIF('nm', comment='original comment'), 'model': {'authors': [], 'reducers': [], 'content': []}, 'name': 'nm', 'comment': 'original comment'}
    states = [cur]
    save(cur, 0)
    for k, m in enumerate(program, 1):
        rec.transitions += 1
        if m in ('name_other', 'name_orig'):
            cur['name'] = 'other/name' if m == 'name_other' else 'nm'
            cur['b'].name = cur['name']
            rec.cls('mut_renamed')
        elif m in ('comment_set', 'comment_clear'):
            cur['comment'] = MUT_COMMENTS[m]
            cur['b'].comment = cur['comment']
            rec.cls('mut_comment_changed')
        elif m == 'save_cif_override':
            save(cur, k, 'save_cif_override')  # must not change the builder's own comment
        else:
            b2, model2 = apply_op(m, cur['b'], cur['model'])
            cur = {'b': b2, 'model': model2, 'name': cur['name'], 'comment': cur['comment']}
            states.append(cur)
            rec.cls('mut_builder_after_save')
        save(cur, k)
    # earlier (already saved) builders still describe their own content
    for st in states[:-1]:
        save(st, len(program) + 1)


def run_badname_after_write(case, rec):
    """A rejected name assignment must leave the object writing its previous (valid) name."""
    nm = case['name']
    sub = {'labels': [], 'traits': ['modify_after_write', 'block_name'], 'target': case['target'], 'name': nm}
    if case['target'] == 'block':
        obj = cif.Block('good', [{'k.a': 'abc'}])
        w = lambda: to_buffer(lambda f: cif.save_cif(f, obj))  # noqa: E731
        groups = [{'kind': 'pairs', 'content': True, 'pairs': [('k.a', ('str', 'abc'))]}]
        site = 'save_cif'
    else:
        obj = cif.CIF('good')
        w = lambda: to_buffer(obj.save)  # noqa: E731
        groups = builder_groups({'authors': [], 'reducers': [], 'content': []})
        site = 'CIF.save'
    attempt(rec, site, w, header=True, sub={**sub, 'step': 0}, name='good', groups=groups)
    rec.transitions += 1
    try:
        obj.name = nm
    except ValueError:
        rec.cls('block_name_rejected')
    else:
        rec.viol('Block.name', 'accepted_bad_name', f'name {nm!r} accepted by the setter', **sub)
        return
    rec.states += 1
    rec.transitions += 1
    rec.evals += 1
    try:
        text = w()
    except ValueError as e:  # the object can no longer be written at all
        text = f'<{type(e).__name__}: {e}>'
    rec.observe(text)
    try:
        doc = cp.parse(text, require_header=True)
        ok = [b.name for b in doc.blocks] == ['good']
    except cp.CifSyntaxError:
        ok = False
    if not ok:
        rec.viol('Block.name', 'rejected_name_kept', f'after the rejected assignment name = {nm!r} the object writes {text[:60]!r}', **sub)
    else:
        rec.validated += 1
        rec.cls('doc_ok')


# ---------------------------------------------------------------------------------------
# reduced powder data over a unit alphabet (data unit x coordinate dim/unit x comment x variances x name)

POWDER_COORDS = [
    ('tof', 'us'), ('dspacing', 'angstrom'),  # the two combinations pdCIF defines (canonical)
    ('tof', 'ms'), ('tof', 'ns'), ('tof', 's'), ('tof', None), ('tof', 'one'), ('tof', 'angstrom'),
    ('dspacing', 'nm'), ('dspacing', 'm'), ('dspacing', 'us'), ('dspacing', 'one'),
    ('two_theta', 'deg'), ('two_theta', 'rad'), ('wavelength', 'angstrom'), ('Q', '1/angstrom'), ('energy_transfer', 'meV'),
]  # fmt: skip
POWDER_CANONICAL = {('tof', 'us'): 'pd_meas.time_of_flight', ('dspacing', 'angstrom'): 'pd_proc.d_spacing'}
POWDER_UNITS = [
    'one', None, 'counts', 'counts/angstrom', '1/angstrom', 'uA*h', 'degC', 'um', 'us', 'angstrom**2', 'percent',
    'meV', 'K', 'arb. units', 'counts/us',
]  # fmt: skip
POWDER_COMMENTS = ['', 'plain comment', 'ünï Å µ', 'two\nlines']
POWDER_NAMES = ['', 'intensity_norm', 'intensity_net', 'intensity_total', 'bad name']


def run_powder_units(case, rec):
    dim, cunit = case['dim'], case['coord_unit']
    canonical = POWDER_CANONICAL.get((dim, cunit))
    xs, ys, xv, yv = [1.2, 1.4, 2.3], [13.6, 26.0, 9.7], [0.01, 0.04, 0.09], [0.7, 1.1, 0.5]
    full = canonical is not None
    for unit in POWDER_UNITS:
        for comment in POWDER_COMMENTS if full else POWDER_COMMENTS[:1]:
            for dvar, cvar in ((False, False), (True, False), (False, True), (True, True)) if full else ((True, False),):
                for dname in POWDER_NAMES if full else POWDER_NAMES[:1]:
                    x = sc.array(dims=[dim], values=xs, variances=xv if cvar else None, unit=cunit)
                    y = sc.array(dims=[dim], values=ys, variances=yv if dvar else None, unit=unit)
                    da = sc.DataArray(y, coords={dim: x}, name=dname)
                    sub = {'labels': [], 'traits': ['powder_units'], 'dim': dim, 'coord_unit': str(cunit), 'unit': str(unit), 'comment': comment, 'variances': [dvar, cvar], 'name': dname}
                    rec.transitions += 1
                    try:
                        b = cif.CIF('n', comment=comment).with_reduced_powder_data(da, comment=comment)
                    except Exception as e:  # noqa: BLE001
                        rec.states += 1
                        rec.evals += 1
                        if canonical is None:
                            rec.cls('powder_coord_rejected')
                        elif dname == 'bad name':
                            rec.cls('powder_name_rejected')
                        else:
                            rec.viol('CIF.with_reduced_powder_data', 'raises', f'{type(e).__name__}: {e}', **sub)
                        continue
                    if canonical is None or dname == 'bad name':
                        # accepted although not a pdCIF combination: nothing to compare the tags with, the
                        # document must still be valid ASCII CIF 1.1
                        text = to_buffer(b.save)
                        rec.states += 1
                        rec.evals += 1
                        try:
                            cp.parse(text, require_header=True)
                            rec.cls('powder_noncanonical_written')
                        except cp.CifSyntaxError as e:
                            rec.viol('CIF.save', 'non_ascii' if e.code == 'illegal_char' else 'invalid_cif', f'{e}; file: {text[-300:]!r}', **sub)
                        continue
                    d = {'coord': canonical, 'x': xs, 'xv': xv if cvar else None, 'data': 'pd_proc.' + (dname or 'intensity_norm'), 'y': ys, 'yv': yv if dvar else None, 'unit': unit}
                    model = {'authors': [], 'reducers': [], 'content': [('powder', d)]}
                    text = attempt(rec, 'CIF.save', lambda b=b: to_buffer(b.save), header=True, sub=sub, name='n', groups=builder_groups(model))
                    rec.cls('powder_loop')
                    if text is None:
                        continue
                    ustr = str(y.unit)
                    if unit != 'one' and any(ord(ch) > 127 for ch in ustr):
                        rec.cls('unit_non_ascii')
                        try:
                            coms = [cp.unescape(c) for _, c in cp.lex(text)[1]]
                        except cp.CifSyntaxError:
                            coms = []
                        if any(ustr in c for c in coms):
                            rec.cls('unit_comment_escaped')


# ---------------------------------------------------------------------------------------
# input representations: the same pairs / columns / items handed over as dict, other mappings, sequences,
# views and one-shot iterables; the same values as python / numpy scalars, 0-d arrays, 0-d variables, subclasses


class _MyStr(str):
    __slots__ = ()


class _MyMapping(collections.abc.Mapping):
    def __init__(self, pairs):
        self._k = [k for k, _ in pairs]
        self._d = dict(pairs)

    def __getitem__(self, k):
        return self._d[k]

    def __iter__(self):
        return iter(self._k)

    def __len__(self):
        return len(self._k)


class _ReIterable:
    def __init__(self, items):
        self._items = list(items)

    def __iter__(self):
        return iter(self._items)


MAPPING_REPRS = ['dict', 'ordered', 'proxy', 'custom_mapping', 'chainmap']
PAIR_REPRS = [*MAPPING_REPRS, 'list', 'tuple', 'items', 'zip', 'generator', 'iter', 'map', 'reiterable', 'deque']
SEQ_REPRS = ['list', 'tuple', 'generator', 'iter', 'reiterable', 'deque', 'map']
ONE_SHOT = {'zip', 'generator', 'iter', 'map'}


def _as_pairs(kind, pairs):
    pairs = list(pairs)
    if kind == 'dict':
        return dict(pairs)
    if kind == 'ordered':
        return collections.OrderedDict(pairs)
    if kind == 'proxy':
        return types.MappingProxyType(dict(pairs))
    if kind == 'custom_mapping':
        return _MyMapping(pairs)
    if kind == 'chainmap':
        return collections.ChainMap(dict(pairs))
    if kind == 'items':
        return dict(pairs).items()
    if kind == 'zip':
        return zip([k for k, _ in pairs], [v for _, v in pairs], strict=True)
    return _as_seq(kind, pairs)


def _as_seq(kind, items):
    items = list(items)
    if kind == 'list':
        return items
    if kind == 'tuple':
        return tuple(items)
    if kind == 'generator':
        return (x for x in items)
    if kind == 'iter':
        return iter(items)
    if kind == 'map':
        return map(lambda x: x, items)
    if kind == 'reiterable':
        return _ReIterable(items)
    if kind == 'deque':
        return collections.deque(items)
    raise ValueError(kind)


def _value_sets():
    """name -> [(tag, value handed to the writer, expected)]"""
    f32 = float(np.float32(0.1))
    return {
        'strings': [('k.a', 'abc', ('str', 'abc')), ('k.b', 'two words', ('str', 'two words')), ('k.c', 'line1\nline2', ('str', 'line1\nline2')), ('k.d', 'grüße', ('str', 'grüße')), ('k.e', '_x', ('str', '_x'))],
        'python': [('k.a', 1.5, ('f64', 1.5)), ('k.b', 7, ('int', 7)), ('k.c', -0.1, ('f64', -0.1)), ('k.d', 1e300, ('f64', 1e300)), ('k.e', FROZEN, ('dt', FROZEN))],
        'numpy': [
            ('k.a', np.float64(1.5), ('f64', 1.5)), ('k.b', np.float32(0.1), ('f32', f32)), ('k.c', np.int64(7), ('int', 7)), ('k.d', np.int32(-3), ('int', -3)),
            ('k.e', np.str_('np str'), ('str', 'np str')), ('k.f', np.array(2.5), ('f64', 2.5)), ('k.g', np.array(3), ('int', 3)), ('k.h', np.uint8(200), ('int', 200)),
        ],
        'variables': [
            ('k.a', sc.scalar(1.5, unit='m'), ('f64', 1.5)), ('k.b', sc.scalar(7, unit='counts'), ('int', 7)), ('k.c', sc.scalar('var str'), ('str', 'var str')),
            ('k.d', sc.scalar(1.2, variance=0.09), ('unc', 1.2, 0.09, 'f64')), ('k.e', sc.scalar(np.float32(0.1)), ('f32', f32)),
            ('k.f', sc.datetime('2023-12-01T15:12:33', unit='s'), ('dt64', '2023-12-01T15:12:33')), ('k.g', sc.array(dims=['x'], values=[4.5, 5.5])[1], ('f64', 5.5)),
        ],
        'subclass': [(_MyStr('k.a'), _MyStr('abc'), ('str', 'abc')), (_MyStr('k.b'), _MyStr('two words'), ('str', 'two words')), ('k.c', _MyStr('ü\nx'), ('str', 'ü\nx')), (_MyStr('k.d'), 2.5, ('f64', 2.5))],
    }  # fmt: skip


PAIR_ENTRIES = ['Chunk', 'Chunk_kw', 'Chunk.write', 'Block_content', 'Block_add', 'Block_add_comment', 'Block_two_items']


def run_repr_pairs(case, rec):
    vs = _value_sets()[case['values']]
    pairs = [(t, v) for t, v, _ in vs]
    exp_pairs = [('pair', str(t), e) for t, _, e in vs]
    texts = {}
    for entry in PAIR_ENTRIES:
        for kind in PAIR_REPRS:
            sub = {'labels': [], 'traits': ['representation'], 'entry': entry, 'repr': kind, 'values': case['values']}
            exp = [{'name': 'b', 'items': list(exp_pairs)}]
            header = False
            comments = None

            def write(entry=entry, kind=kind):
                r = _as_pairs(kind, pairs)
                if entry == 'Chunk':
                    return to_buffer(cif.Block('b', [cif.Chunk(r)]).write)
                if entry == 'Chunk_kw':
                    return to_buffer(cif.Block('b', [cif.Chunk(r, comment='chunk comment', schema=cif.CORE_SCHEMA)]).write)
                if entry == 'Chunk.write':
                    return 'data_b\n' + to_buffer(cif.Chunk(r).write)
                if entry == 'Block_content':
                    return to_buffer(cif.Block('b', [r]).write)
                if entry == 'Block_two_items':
                    return to_buffer(cif.Block('b', [r, _as_pairs(kind, [('z.z', 'end')])]).write)
                blk = cif.Block('b')
                if entry == 'Block_add':
                    blk.add(r)
                else:
                    blk.add(r, comment='added comment')
                return to_buffer(blk.write)

            if entry == 'Chunk_kw':
                exp[0]['items'].insert(0, ('schema', _schema_rows({cif.CORE_SCHEMA})))
                comments = ['chunk comment']
            elif entry == 'Block_add_comment':
                comments = ['added comment']
            elif entry == 'Block_two_items':
                exp[0]['items'].append(('pair', 'z.z', ('str', 'end')))
            text = attempt(rec, 'save_cif', write, header=header, sub=sub, blocks=exp, comments=comments)
            rec.cls('repr_one_shot' if kind in ONE_SHOT else 'repr_mapping' if kind in MAPPING_REPRS else 'repr_sequence')
            if kind == 'dict':
                texts[entry] = text
            elif text is not None and text == texts.get(entry):
                rec.cls('repr_same_text_as_dict')


def run_repr_containers(case, rec):
    """Block content, save_cif blocks, schema and with_* arguments as list / tuple / one-shot iterables."""
    kind = case['repr']
    sub = {'labels': [], 'traits': ['representation'], 'repr': kind}
    x, ex = MUT_VALUES['f0']()
    st, es = MUT_VALUES['s0']()

    def items():
        return [cif.Chunk({'k.a': 'abc'}), {'d.a': 'x y'}, cif.Loop({'n.x': x, 'n.s': st}), [('p.a', 1.5)]]

    exp_items = [('pair', 'k.a', ('str', 'abc')), ('pair', 'd.a', ('str', 'x y')), ('loop', ['n.x', 'n.s'], [[a, b] for a, b in zip(ex, es, strict=True)]), ('pair', 'p.a', ('f64', 1.5))]
    attempt(rec, 'save_cif', lambda: to_buffer(cif.Block('b', _as_seq(kind, items())).write), header=False, sub={**sub, 'entry': 'Block(content)'}, blocks=[{'name': 'b', 'items': exp_items}])
    # several blocks handed to save_cif
    def blocks():
        return [cif.Block(f'b{i}', [{f'k{i}.a': f'v {i}'}]) for i in range(3)]

    expb = [{'name': f'b{i}', 'items': [('pair', f'k{i}.a', ('str', f'v {i}'))]} for i in range(3)]
    attempt(rec, 'save_cif', lambda: to_buffer(lambda f: cif.save_cif(f, _as_seq(kind, blocks()))), header=True, sub={**sub, 'entry': 'save_cif(blocks)'}, blocks=expb)
    # schema argument
    custom = cif.CIFSchema(name='myDict', version='0.1', location='https://example.org/my.dic')
    for target in ('Chunk', 'Loop', 'Block'):
        def write(target=target):
            sch = _as_seq(kind, [custom, cif.PD_SCHEMA])
            if target == 'Chunk':
                return to_buffer(cif.Block('b', [cif.Chunk({'k.a': 'abc'}, schema=sch)]).write)
            if target == 'Loop':
                return to_buffer(cif.Block('b', [cif.Loop({'n.x': x}, schema=sch)]).write)
            return to_buffer(cif.Block('b', [{'k.a': 'abc'}], schema=sch).write)

        item = ('loop', ['n.x'], [[e] for e in ex]) if target == 'Loop' else ('pair', 'k.a', ('str', 'abc'))
        expi = [('schema', _schema_rows({cif.CORE_SCHEMA, cif.PD_SCHEMA, custom})), item]
        attempt(rec, 'save_cif', write, header=False, sub={**sub, 'entry': f'{target}(schema)'}, blocks=[{'name': 'b', 'items': expi}])
    # builder: authors and reducers unpacked from the representation
    ps = [person(k) for k in ('reg', 'reg_r', 'con')]
    model = {'authors': [d for _, d in ps], 'reducers': ['tool 1', 'tool 2'], 'content': []}
    attempt(rec, 'CIF.save', lambda: to_buffer(cif.CIF('n').with_authors(*_as_seq(kind, [p for p, _ in ps])).with_reducers(*_as_seq(kind, ['tool 1', 'tool 2'])).save), header=True, sub={**sub, 'entry': 'with_authors(*repr)'}, name='n', groups=builder_groups(model))
    rec.cls('repr_one_shot' if kind in ONE_SHOT else 'repr_sequence')


def run_repr_loop(case, rec):
    """Loop columns: mappings must work; other iterables of (tag, column) are either refused or written completely."""
    x, ex = MUT_VALUES['f0']()
    base = sc.array(dims=['q'], values=[9.0, 1.0, 8.0, 2.0, 7.0, 3.0])
    cols = {
        'plain': [('n.x', x, ex), ('n.s', *MUT_VALUES['s0']()), ('n.v', *MUT_VALUES['fv']())],
        'views': [
            ('n.a', base[::2].rename_dims(q='row'), [('f64', v) for v in (9.0, 8.0, 7.0)]),
            ('n.b', sc.array(dims=['row'], values=np.array([1, 2, 3], dtype='int32')), [('int', v) for v in (1, 2, 3)]),
            ('n.c', sc.array(dims=['row'], values=np.array(['p', 'q r', 'ü'])), [('str', v) for v in ('p', 'q r', 'ü')]),
            (_MyStr('n.d'), sc.array(dims=['row'], values=np.array([0.1, 0.2, 0.3], dtype='float32')), [('f32', float(np.float32(v))) for v in (0.1, 0.2, 0.3)]),
        ],
    }[case['columns']]
    pairs = [(t, v) for t, v, _ in cols]
    tags = [str(t) for t, _, _ in cols]
    rows = [[c[2][i] for c in cols] for i in range(3)]
    exp = [{'name': 'b', 'items': [('loop', tags, rows)]}]
    for kind in [*MAPPING_REPRS, 'list', 'tuple', 'items', 'zip', 'generator', 'iter']:
        sub = {'labels': [], 'traits': ['representation'], 'entry': 'Loop', 'repr': kind, 'columns': case['columns']}
        if kind in MAPPING_REPRS:
            attempt(rec, 'save_cif', lambda kind=kind: to_buffer(cif.Block('b', [cif.Loop(_as_pairs(kind, pairs), comment='c')]).write), header=False, sub=sub, blocks=exp, comments=['c'])
            rec.cls('repr_mapping')
            continue
        rec.transitions += 1
        try:
            lp = cif.Loop(_as_pairs(kind, pairs))
        except Exception:  # noqa: BLE001 - not a mapping: refusal is acceptable, a silently incomplete loop is not
            rec.cls('loop_columns_not_mapping_refused')
            rec.evals += 1
            continue
        attempt(rec, 'save_cif', lambda lp=lp: to_buffer(cif.Block('b', [lp]).write), header=False, sub=sub, blocks=exp)


def run_repr_names(case, rec):
    """Names and comments as str subclasses (numpy str, user subclass)."""
    for mk, lab in ((_MyStr, 'subclass'), (np.str_, 'numpy')):
        sub = {'labels': [], 'traits': ['representation'], 'entry': 'names', 'repr': lab}
        exp = [{'name': 'blk-ü', 'items': [('pair', 'k.a', ('str', 'abc')), ('loop', ['n.s'], [[e] for e in MUT_VALUES['s0']()[1]])]}]

        def write(mk=mk):
            blk = cif.Block(mk('blk-ü'), comment=mk('block comment ü'))
            blk.add({mk('k.a'): mk('abc')}, comment=mk('chunk comment'))
            blk.add(cif.Loop({mk('n.s'): MUT_VALUES['s0']()[0]}, comment=mk('loop\ncomment')))
            return to_buffer(lambda f: cif.save_cif(f, blk, comment=mk('file comment å')))

        attempt(rec, 'save_cif', write, header=True, sub=sub, blocks=exp, comments=['file comment å', 'block comment ü', 'chunk comment', 'loop\ncomment'])
        model = {'authors': [{'name': 'N ü'}], 'reducers': ['tool ü'], 'content': [('beam', {'beamline': 'B ü'})]}
        attempt(rec, 'CIF.save', lambda mk=mk: to_buffer(cif.CIF(mk('nm'), comment=mk('c ü')).with_authors(person(None, name=mk('N ü'))[0]).with_reducers(mk('tool ü')).with_beamline(metadata.Beamline(name=mk('B ü')), comment=mk('bc')).save), header=True, sub={**sub, 'entry': 'builder'}, name='nm', groups=builder_groups(model), comments=['c ü', 'bc'])
        rec.cls('repr_str_subclass')


RUNNERS = {
    'chunk1': run_chunk1, 'num1': run_num1, 'chunk2': run_chunk2, 'loop22': run_loop22, 'loop13': run_loop13,
    'loop31': run_loop31, 'loopnum': run_loopnum, 'block': run_block, 'multiblock': run_multiblock,
    'badname': run_badname, 'default_name': run_default_name, 'builder': run_builder, 'builder_str': run_builder_str,
    'powder_units': run_powder_units, 'repr_pairs': run_repr_pairs, 'repr_containers': run_repr_containers,
    'repr_loop': run_repr_loop, 'repr_names': run_repr_names,
    'mutate': run_mutate, 'mutate_builder': run_mutate_builder, 'badname_after_write': run_badname_after_write,
}  # fmt: skip


def run_case(case, rec):
    freeze_clock()
    with warnings.catch_warnings():
        warnings.simplefilter('ignore')
        RUNNERS[case['kind']](case, rec)
