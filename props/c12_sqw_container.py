"""C12 - every SQW file written is a structurally complete, self-consistent container.

Shape P (all call orders of all subsets) x G (pixel count x chunk x byte order x sink).
Oracle: the independent strict decoder ref/sqwdec.py + differential over call orders.
"""
from __future__ import annotations

import itertools
import sys
from io import BytesIO

from props import sqw_common as sq
from ref import sqwdec

ID = 'C12'
LEVEL = 'model_checking'
RULE = (
    'programs: every ordered arrangement of every subset of the 5 builder calls '
    '(326 programs) x byteorder x sink x chunk, plus the full (n_pixels, chunk) grid, '
    'run lengths and string lengths with the canonical program; a case is non-trivial '
    'when the file it produces contains at least one block besides the main header; '
    'distinct = distinct canonical configuration hashes'
)
ASSUMPTIONS = [
    'Horace layout as documented in the repository (DESIGN 3.4); no genuine Horace file offline',
    'strings: ASCII and non-ASCII (2-, 3-, 4-byte UTF-8) titles, file names and paths',
    'wall clock frozen by monkeypatching datetime in io.sqw._models/_build',
]
REQUIRED_CLASSES = ['masked_pixel_data', 'non_ascii_strings', 'file_decoded', 'perm_identical', 'byteorder_big', 'byteorder_little', 'sink_path', 'sink_bytes', 'sink_path_preexisting_longer_file', 'dnd_singleton_axis', 'chunk_and_pixels_above_2_16', 'multi_chunk_write']
BOUND = {
    'quick': 'all 326 programs x 3 byte orders x 2 sinks x 2 chunks at 7 pixels; (n, chunk) grid up to 20000 pixels',
    'thorough': 'same plus 100000 pixels and chunk 100000, runs up to 20, strings up to 70000',
}

BYTEORDERS = ('native', 'little', 'big')
SINKS = ('bytes', 'path', 'path_existing')


def _subsets():
    for r in range(len(sq.OPS) + 1):
        yield from itertools.combinations(sq.OPS, r)


def cases(tier):
    out = []
    for sub in _subsets():
        for bo in BYTEORDERS:
            for sink in SINKS:
                for chunk in (None, 2):
                    out.append({'kind': 'programs', 'subset': list(sub), 'byteorder': bo, 'sink': sink, 'chunk': chunk, 'n_pixels': 7})
    ns = [0, 1, 2, 7, 8, 9, 10, 13, 100, 8191, 8192, 8193, 20000]
    if tier == 'thorough':
        ns.append(100000)
    for n in ns:
        chunks = {1, 2, 3, 4, 9, 10, n - 1, n, n + 1, 8192, 100000}
        for ch in sorted(c for c in chunks if c >= 1):
            if tier == 'quick' and n >= 8191 and ch < 9 and ch != 1:
                continue
            for bo in ('little', 'big'):
                for sink in SINKS:
                    if tier == 'quick' and n >= 8191 and ch < 100 and not (bo == 'little' and sink == 'bytes'):
                        continue
                    out.append({'kind': 'grid', 'n_pixels': n, 'chunk': ch, 'byteorder': bo, 'sink': sink, 'runs': 1})
    # sizes around 2^16 pixels and write chunks larger than that (internal limits on what is converted/written at once)
    for n, ch in ((65536, 65536), (65537, 65536), (65537, 65537), (70000, 70000), (70000, 100000), (66000, 33000)):
        for bo, sink in (('little', 'bytes'), ('big', 'path')):
            out.append({'kind': 'grid', 'n_pixels': n, 'chunk': ch, 'byteorder': bo, 'sink': sink, 'runs': 1})
    # histogram shapes incl. leading / trailing / only singleton axes (block size vs written size)
    for nb in ((2, 2, 2, 2), (1, 1, 1, 1), (2, 3, 1, 1), (4, 1, 1, 2), (1, 5, 3, 2), (3, 5, 2, 4), (40, 50, 4, 1)):
        for bo in ('little', 'big'):
            out.append({'kind': 'grid', 'n_pixels': 10, 'chunk': 4, 'byteorder': bo, 'sink': 'bytes', 'runs': 1, 'n_bins': list(nb)})
    for runs in (1, 2, 20):
        for bo in ('little', 'big'):
            out.append({'kind': 'grid', 'n_pixels': 13, 'chunk': 4, 'byteorder': bo, 'sink': 'bytes', 'runs': runs})
    # pixel data carrying masks: chunk sizes around the number of unmasked pixels
    for n, k in ((12, 3), (12, 1), (13, 6), (12, 12)):
        for ch in (1, 2, 4, 5, 7, 12, 8192):
            for bo in ('little', 'big'):
                out.append({'kind': 'grid', 'n_pixels': n, 'chunk': ch, 'byteorder': bo, 'sink': 'bytes', 'runs': 1, 'masked': k})
    lens = [0, 1, 6, 255, 70000] if tier == 'thorough' else [0, 1, 6, 255, 5000]
    for tl in lens:
        for pl in lens:
            for bo in ('little', 'big'):
                out.append({'kind': 'strings', 'title_len': tl, 'path_len': pl, 'byteorder': bo})
    # characters that take 2, 3 and 4 bytes in the file (lengths are counted in characters here)
    for ch in ('\u00e9', '\u65e5', '\U0001d11e', 'a\u00e9'):
        for tl in (1, 6, 255):
            for pl in (0, 6):
                for bo in ('little', 'big'):
                    out.append({'kind': 'strings', 'title_len': tl, 'path_len': pl, 'byteorder': bo, 'char': ch})
    return out


def _expect_bo(bo):
    if bo == 'native':
        bo = sys.byteorder
    return '<' if bo == 'little' else '>'


def check_file(rec, case, data: bytes, ops, *, byteorder, n_pixels, n_bins=(2, 2, 2, 2), label=''):
    """All per-file container checks.  Returns the decoded file or None."""
    rec.transitions += 1
    rec.observe(len(data))
    site = 'SqwBuilder.create'
    try:
        dec = sqwdec.decode_file(data)
    except sqwdec.DecodeError as e:
        msg = str(e)
        if 'extents end at' in msg or 'exceeds file length' in msg or 'only' in msg and 'available' in msg:
            kind = 'file_length_vs_bat'
        else:
            kind = 'undecodable'
        rec.viol(site, kind, f'{label}{msg}', ops=list(ops))
        return None
    rec.validated += 1
    rec.cls('file_decoded')
    h = dec['header']
    want_dims = 4 if 'pix' in ops else 0
    if (h['prog_name'], h['prog_version'], h['sqw_type'], h['n_dims']) != ('horace', 4.0, 1, want_dims):
        rec.viol(site, 'header', f'{label}header {h}')
    if dec['byteorder'] != _expect_bo(byteorder):
        rec.viol(site, 'byteorder', f'{label}written {byteorder}, decoded as {dec["byteorder"]}')
    rec.cls('byteorder_little' if dec['byteorder'] == '<' else 'byteorder_big')
    # the package's own opener must deduce the same byte order and header
    try:
        with sq.Sqw.open(BytesIO(data)) as f:
            got_bo = f.byteorder.get()
            fh = f.file_header
            own_names = list(f.data_block_names())
        if ('<' if got_bo == 'little' else '>') != _expect_bo(byteorder):
            rec.viol('Sqw.open', 'byteorder', f'{label}written {byteorder}, reopened as {got_bo}')
        if (fh.prog_name, fh.prog_version, fh.sqw_type.value, fh.n_dims) != ('horace', 4.0, 1, want_dims):
            rec.viol('Sqw.open', 'header', f'{label}reopened header {fh}')
        if own_names != [e['name'] for e in dec['bat']]:
            rec.viol('Sqw.open', 'bat_names', f'{label}reader lists {own_names}')
    except Exception as e:  # noqa: BLE001
        rec.viol('Sqw.open', 'raises', f'{label}{type(e).__name__}: {e}')
    rec.validated += 1
    # BAT content
    want = sq.expected_blocks(ops)
    got = {e['name']: e['type'] for e in dec['bat']}
    if got != want:
        rec.viol(site, 'bat_content', f'{label}BAT lists {got}, expected {want}')
    for name, blk in dec['blocks'].items():
        ser = sq.EXPECTED_SERIAL.get(name)
        if ser is not None and got.get(name) == 'data_block':
            try:
                st = sqwdec.struct_of(blk)
                sn = sqwdec.scalar(st['serial_name'])
            except (sqwdec.DecodeError, KeyError) as e:
                rec.viol(site, 'block_type', f'{label}block {name}: {e}')
                continue
            if sn != ser:
                rec.viol(site, 'block_type', f'{label}block {name} holds {sn!r}, expected {ser!r}')
    if 'pix' in ops:
        pix = dec['blocks'].get(('pix', 'data_wrap'))
        if pix is not None and (pix['rows'], pix['npix']) != (9, n_pixels):
            rec.viol(site, 'pix_shape', f'{label}pix block {pix["rows"]}x{pix["npix"]}, expected 9x{n_pixels}')
    if 'dnd' in ops:
        dnd = dec['blocks'].get(('data', 'nd_data'))
        if dnd is not None and dnd['shape'] != tuple(n_bins):
            rec.viol(site, 'dnd_shape', f'{label}dnd block shape {dnd["shape"]}, expected {tuple(n_bins)}')
    rec.evals += 1
    return dec


def run_case(case, rec):
    sq.freeze_clock()
    kind = case['kind']
    if kind == 'programs':
        sub = tuple(case['subset'])
        files = {}
        for perm in itertools.permutations(sub):
            data, _ = sq.write_file(perm, byteorder=case['byteorder'], sink=case['sink'], chunk=case['chunk'], n_pixels=case['n_pixels'])
            rec.states += 1
            check_file(rec, case, data, perm, byteorder=case['byteorder'], n_pixels=case['n_pixels'], label=f'order {perm}: ')
            files[perm] = data
        ref = files[sub]
        diff = [p for p, d in files.items() if d != ref]
        if diff:
            rec.viol('SqwBuilder.create', 'call_order_dependence', f'files differ between call order {sub} and {diff[0]} ({len(diff)} of {len(files)} orders differ)', orders=[list(p) for p in diff[:3]])
        else:
            rec.cls('perm_identical')
        rec.validated += len(files)
        if sub:
            rec.nontrivial += 1
        rec.cls('sink_' + case['sink'].split('_')[0])
        if case['sink'] == 'path_existing':
            rec.cls('sink_path_preexisting_longer_file')
        if 'pix' in sub and case['chunk'] == 2:
            rec.cls('multi_chunk_write')
    elif kind == 'grid':
        n = case['n_pixels']
        nb = tuple(case.get('n_bins', (2, 2, 2, 2)))
        extra = {}
        if case.get('masked'):
            import numpy as np
            import scipp as sc

            pixd = sq.pixel_data(n)
            m = np.zeros(n, dtype=bool)
            m[np.arange(case['masked']) * 2 % n] = True
            if case['masked'] >= n:
                m[:] = True
            pixd.masks['bad'] = sc.array(dims=['obs'], values=m)
            extra['pix'] = pixd
            rec.cls('masked_pixel_data')
        data, _ = sq.write_file(sq.OPS, byteorder=case['byteorder'], sink=case['sink'], chunk=case['chunk'], n_pixels=n, runs=case['runs'], n_bins=nb, **extra)
        check_file(rec, case, data, sq.OPS, byteorder=case['byteorder'], n_pixels=n, n_bins=nb)
        if 1 in nb:
            rec.cls('dnd_singleton_axis')
        rec.nontrivial += 1
        rec.cls('sink_' + case['sink'].split('_')[0])
        if case['sink'] == 'path_existing':
            rec.cls('sink_path_preexisting_longer_file')
        if case['chunk'] < n:
            rec.cls('multi_chunk_write')
        if case['chunk'] * 9 < n:
            rec.cls('more_chunks_than_rows')
        if n > 65536 and case['chunk'] > 65536:
            rec.cls('chunk_and_pixels_above_2_16')
    elif kind == 'strings':
        ch = case.get('char')
        fill = (lambda c, n: (c * n)[:n]) if ch is None else (lambda c, n: (ch * n)[:n])
        title = fill('t', case['title_len'])
        fname = fill('p', max(0, case['path_len'] - 4)) + '.sqw' if case['path_len'] else 'x.sqw'
        sink = 'path' if 0 < case['path_len'] <= 200 else 'bytes'
        exps = [sq.experiment(run_id=0, filename=fill('n', case['path_len']), filepath='/' + fill('d', case['title_len']))]
        if ch is not None:
            rec.cls('non_ascii_strings')
        data, _ = sq.write_file(sq.OPS, byteorder=case['byteorder'], sink=sink, title=title, fname=fname, experiments=exps)
        dec = check_file(rec, case, data, sq.OPS, byteorder=case['byteorder'], n_pixels=7)
        if dec is not None:
            mh = sqwdec.struct_of(dec['blocks'][('', 'main_header')])
            if sqwdec.scalar(mh['title']) != title:
                rec.viol('SqwBuilder.create', 'title', 'title not stored verbatim')
        rec.nontrivial += 1
        rec.cls('sink_' + sink)
    else:
        raise ValueError(kind)
