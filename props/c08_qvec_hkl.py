"""C08 - Q-vector and hkl conversions satisfy their defining algebra.

Shape G.  Two kinds of cases:

* ``qvec``: (direction of b1, |b1|, |b2|, wavelength unit, perpendicular) -> inside: 9 angles between the beams x 3
  wavelengths, through 0-d calls, array calls (wavelength array / beam array / both), 27 rotations and 6 rescalings;
* ``hkl``: (R, type of R, U, B) -> inside: 12 Q vectors, 0-d and array, kernel route and coordinate-graph route.

Oracle: ref/qvec.py (50-digit definitions on the floats handed over).
"""
from __future__ import annotations

import math

import numpy as np
import scipp as sc
from scippneutron.conversion import beamline as bl
from scippneutron.conversion import tof
from scippneutron.conversion.graph import tof as tof_graph

from props import geom_common as gc
from ref import geom, hp, qvec

ID = 'C08'
LEVEL = 'model_checking'
RULE = (
    'qvec cases: full product of b1 direction x |b1| x |b2| in {1e-3, 1, 1e3} x wavelength unit x perpendicular, inside all 9 angles '
    '{0, 1e-9, 1e-3, 0.7, pi/2, 2.5, pi-1e-6, pi-1e-9, pi} x wavelengths {0.01, 1.8, 100} angstrom; hkl cases: full product of '
    'R (24 cube rotations + 3 generic + 1 tiny) x representation of R x U x B (cubic, orthorhombic, hexagonal, triclinic, cond 1e6), '
    'inside 12 Q vectors; a configuration is non-trivial when Q != 0 (beams not exactly parallel) resp. when R*UB is not diagonal; '
    'distinct = distinct (case, angle, wavelength) resp. (case, Q) tuples. '
    'Thorough tier ("deep" cases): qvec = full product of 26 b1 directions x |b1|, |b2| in {1e-6, 1e-3, 1, 41.1, 1e3, 1e6}^2 restricted to '
    'the 28 pairs whose ratio is at most 1e6; inside 14 angles (0, pi and both within 1e-12, 1e-9, 1e-6, 1e-3 of them) x 6 '
    'wavelengths (every decade 0.01..100 angstrom and 1.8) in angstrom / nm / m, plus int64 wavelengths, per-pixel incident beams, both '
    'beams as arrays (same dim and outer product); qint = every ordered pair of 13 integer-valued beams x int64 and float wavelengths; '
    'hkl = full product of 34 R (24 cube + 8 generic incl. nearly pi + 2 tiny) x 2 representations x 34 U x 32 B (7 lattice systems x 3 '
    'sizes, cond 1e6 in 5 positions, det 1e-9 / 1e6), plus the families "B in 1/nm" and "ub_matrix handed over directly" over 6 U, inside '
    '40 Q vectors (|Q| 1e-12..1e6) and arrays of R, U, Q (element-wise and outer product).'
)
ASSUMPTIONS = [
    'Q components are judged with an absolute tolerance 16 eps * 2pi/lambda (errors of the two unit vectors do not shrink when '
    'the beams are nearly parallel), |Q_vec| vs scalar Q with 1e-12 |Q| + 32 eps * 2pi/lambda',
    'hkl: |2pi R UB hkl - Q| <= 64 eps cond_2(R UB) |Q| with R, UB, hkl, Q the floats held by scipp; R given as a quaternion is '
    'the rotation of that (normalised) quaternion',
    'UB = U*B judged entrywise with 4 eps sum_k |U_ik||B_kj|',
]
BOUND = {
    'quick': 'qvec: 6 directions x 3x3 lengths x {angstrom, nm alternating}; hkl: 28 R x 6 U x 7 B, R as quaternion (cube/generic) ',
    'thorough': 'qvec: 26 directions x 28 length pairs (ratio <= 1e6) from {1e-6, 1e-3, 1, 41.1, 1e3, 1e6} x {angstrom, nm, m} x 2 perpendiculars, inside '
                '14 angles x 6 wavelengths (+ int64 wavelengths, per-pixel incident beam, both beams arrays); qint: 13 integer beams x 13 x 9 '
                'wavelengths; hkl: 34 R x 2 representations x 34 U x 32 B in 1/angstrom + (34 R x 2 x 6 U x 32 B) in 1/nm + the same with '
                'ub_matrix given directly (units alternating), 40 Q vectors each, arrays of 5 R / 5 U / Q (element-wise and outer)',
}
REQUIRED_CLASSES = [
    'q_zero', 'q_tiny', 'q_backscatter', 'q_generic', 'unit_angstrom', 'unit_nm', 'scalar_call', 'wavelength_array', 'beam_array',
    'both_arrays', 'length_pow2_bitwise', 'rot_cube', 'rot_generic', 'q_norm_judged', 'reassemble_bitwise', 'hkl_judged',
    'cond_gt_1e5', 'cond_1', 'R_quaternion', 'R_matrix', 'R_array', 'graph_route', 'ub_judged', 'hkl_array',
]

SITE_Q = 'conversion.tof.Q_elements_from_wavelength'
SITE_QV = 'conversion.tof.Q_vec_from_Q_elements'
SITE_HKL = 'conversion.tof.hkl_vec_from_Q_vec'
SITE_UB = 'conversion.tof.ub_matrix_from_u_and_b'
SITE_HE = 'conversion.tof.hkl_elements_from_hkl_vec'

LENGTHS = (1.0, 1e-3, 1e3)
ANGLES_QUICK = (0.0, 1e-9, 1e-3, 0.7, math.pi / 2, 2.5, math.pi - 1e-6, math.pi - 1e-9, math.pi)
ANGLES = ANGLES_QUICK
LAMBDAS_A = (1.8, 0.01, 100.0)
SCALES = (2.0, 2.0**-20, 2.0**20, 3.0, 0.1, 1e3)
N_POW2 = 3
EPS = gc.EPS

# deep (thorough) alphabets -------------------------------------------------------------------
LENGTHS_DEEP = (1.0, 1e-3, 1e3, 1e-6, 1e6, 41.1)
ANGLES_DEEP = (0.0, 1e-12, 1e-9, 1e-6, 1e-3, 0.1, 0.7, math.pi / 2, 2.5, math.pi - 1e-3, math.pi - 1e-6, math.pi - 1e-9, math.pi - 1e-12, math.pi)
LAMBDAS_A_DEEP = (1.8, 0.01, 100.0, 0.1, 1.0, 10.0)
LAM_FACTOR = {'angstrom': 1.0, 'nm': 0.1, 'm': 1e-10}
INT_LAMBDAS = {'angstrom': (1, 2, 10, 100), 'nm': (1, 10), 'm': ()}
# 18 shared directions + nearly-axis, nearly-diagonal and integer-valued ones
DIRS_DEEP = [*gc.DIRECTIONS, (1.0, 1e-8, 0.0), (1e-3, 1.0, -1e-3), (1.0, 1.0, 1e-12), (-1.0, 2.0, 2.0), (0.0, 3.0, 4.0), (2.0, -3.0, 6.0),
             (0.123, -0.456, 0.789), (-1e-5, -1e-5, -1.0)]
INT_BEAMS = [(0, 0, 1), (0, 0, -1), (1, 0, 0), (0, -2, 0), (1, 2, 2), (-1, 2, 2), (0, 3, 4), (2, -3, 6), (1, 1, 1), (-1, -1, -1), (3, 0, -4), (1000000, 1, 0), (7, -11, 13)]


def _b_matrices():
    out = [('cubic5', np.eye(3) / 5.0), ('orthorhombic', np.diag([1 / 3.0, 1 / 5.0, 1 / 9.0]))]
    # Busing-Levy B for a general cell
    def busing_levy(a, b, c, al, be, ga):
        al, be, ga = (math.radians(x) for x in (al, be, ga))
        v = a * b * c * math.sqrt(1 - math.cos(al) ** 2 - math.cos(be) ** 2 - math.cos(ga) ** 2 + 2 * math.cos(al) * math.cos(be) * math.cos(ga))
        ar, br, cr = b * c * math.sin(al) / v, a * c * math.sin(be) / v, a * b * math.sin(ga) / v
        cbr = (math.cos(al) * math.cos(ga) - math.cos(be)) / (math.sin(al) * math.sin(ga))
        cgr = (math.cos(al) * math.cos(be) - math.cos(ga)) / (math.sin(al) * math.sin(be))
        sbr, sgr = math.sqrt(1 - cbr * cbr), math.sqrt(1 - cgr * cgr)
        return np.array([[ar, br * cgr, cr * cbr], [0.0, br * sgr, -cr * sbr * math.cos(al)], [0.0, 0.0, 1.0 / c]])

    out.append(('hexagonal', busing_levy(4.0, 4.0, 6.0, 90, 90, 120)))
    out.append(('triclinic', busing_levy(4.0, 5.0, 6.0, 80, 95, 105)))
    out.append(('cond1e6', np.diag([1.0, 1e-3, 1e3])))
    # perfectly conditioned but with a determinant far from 1 (large cell: det 1e-9; tiny cell: det 1e6)
    out.append(('cubic1000', np.eye(3) / 1000.0))
    out.append(('cubic0.01', np.eye(3) * 100.0))
    # --- deep tier only (quick uses the first N_B_QUICK entries) ---
    for s in (1.0, 10.0, 0.3):
        out.append((f'cubic x{s}', busing_levy(4 * s, 4 * s, 4 * s, 90, 90, 90)))
        out.append((f'tetragonal x{s}', busing_levy(4 * s, 4 * s, 6 * s, 90, 90, 90)))
        out.append((f'orthorhombic x{s}', busing_levy(4 * s, 5 * s, 6 * s, 90, 90, 90)))
        out.append((f'hexagonal x{s}', busing_levy(4 * s, 4 * s, 6 * s, 90, 90, 120)))
        out.append((f'trigonal x{s}', busing_levy(5 * s, 5 * s, 5 * s, 70, 70, 70)))
        out.append((f'monoclinic x{s}', busing_levy(4 * s, 5 * s, 6 * s, 90, 105, 90)))
        out.append((f'triclinic x{s}', busing_levy(4 * s, 5 * s, 6 * s, 80, 95, 105)))
    out.append(('cond1e6 b', np.diag([1e3, 1.0, 1e-3])))
    out.append(('cond1e6 c', np.diag([1e-3, 1e3, 1.0])))
    out.append(('cond1e6 two-sided', gc.GENERIC[1] @ np.diag([1.0, 1e-3, 1e3]) @ gc.GENERIC[2].T))
    out.append(('shear cond1e6', np.array([[1.0, 1e3, 0.0], [0.0, 1.0, 0.0], [0.0, 0.0, 1.0]])))
    return out


B_MATS = _b_matrices()
N_B_QUICK = 7
TINY_ROTVEC = (1e-9, 0.0, 0.0)
# rotations: index 0..23 cube, 24..26 generic, 27 tiny; 28.. deep tier only
N_ROT = 28
EXTRA_ROTVECS = [(2.5, -1.7, 0.6), (0.01, 0.02, -0.005), (0.0, 0.0, math.pi - 1e-9), (1e-5, -2e-5, 3e-5), (-0.9, 0.9, 0.9), (3.0, 0.2, 0.1)]
N_ROT_DEEP = N_ROT + len(EXTRA_ROTVECS)
U_SUBSET = (0, 5, 13, 24, 29, 30)
Q_SET = [
    (1.0, 0.0, 0.0), (0.0, -1.0, 0.0), (0.0, 0.0, 1.0), (1.0, 2.0, -0.5), (-3.0, 0.1, 0.7), (1e-3, 1e-3, 1e-3),
    (30.0, -1.0, 2.0), (0.0, 0.0, 0.0), (1e-9, 0.0, 0.0), (2 * math.pi / 5, 0.0, 0.0), (1.0, 1.0, 0.0), (-0.3, 0.2, 600.0),
]
Q_SET_DEEP = [
    *Q_SET,
    (1e-12, 0.0, 0.0), (0.0, 1e6, 0.0), (0.0, 0.0, -1e-6), (1e6, -1e6, 1e6), (1e-12, 2e-12, -3e-12), (1e-12, 1.0, 1e6), (1e6, 1e-12, 1.0),
    (0.0, 5.0, 0.0), (0.0, 0.0, -7.0), (-2.0, 0.0, 0.0), (1.0, 1.0, 1.0), (-1.0, 1.0, -1.0), (0.0, 1.0, -1.0), (1.0, 0.0, 1.0),
    (0.1234, -5.678, 9.1011), (-12.5, 7.25, 0.375), (2 * math.pi, 2 * math.pi, 0.0), (math.pi / 4, -math.e, math.sqrt(2.0)), (123.456, 0.00789, -45.6),
    (3e-4, -7e-4, 2e-4), (5e3, 2e3, -9e3), (1.0, 1e-8, -1e-8), (-1e-8, 1e-8, 1.0), (0.577, 0.577, 0.577), (1e3, 1e3, 1e-3), (-1e-3, 1e3, 1e3),
    (17.0, -23.0, 31.0), (1e-6, 1e-6, 1e-6),
]


def rot_matrix(idx) -> np.ndarray:
    if idx < 24:
        return np.array(geom.cube_matrix(gc.CUBE[idx]))
    if idx < 27:
        return gc.GENERIC[idx - 24]
    if idx == 27:
        return gc.rotvec_matrix(TINY_ROTVEC)
    return gc.rotvec_matrix(EXTRA_ROTVECS[idx - 28])


def rot_variable(idx, rep):
    """R as scipp hands it over: 'quat' (rotation3) or 'matrix' (linear_transform3)."""
    if rep == 'matrix':
        return sc.spatial.linear_transform(value=rot_matrix(idx))
    if idx < 24:
        return sc.spatial.rotations_from_rotvecs(_cube_rotvec(idx))
    rv = gc.GENERIC_ROTVECS[idx - 24] if idx < 27 else (TINY_ROTVEC if idx == 27 else EXTRA_ROTVECS[idx - 28])
    return sc.spatial.rotations_from_rotvecs(sc.vector(list(rv), unit='rad'))


def _cube_rotvec(idx):
    m = rot_matrix(idx)
    ang = math.acos(max(-1.0, min(1.0, (np.trace(m) - 1) / 2)))
    if ang < 1e-12:
        return sc.vector([0.0, 0.0, 0.0], unit='rad')
    if abs(ang - math.pi) < 1e-12:
        w, v = np.linalg.eigh((m + np.eye(3)) / 2)
        ax = v[:, int(np.argmax(w))]
    else:
        ax = np.array([m[2, 1] - m[1, 2], m[0, 2] - m[2, 0], m[1, 0] - m[0, 1]]) / (2 * math.sin(ang))
    return sc.vector(list(map(float, ax * ang)), unit='rad')


WL_DTYPES = ('float64', 'float32', 'int64', 'int32')
# whole-number wavelengths (so that every dtype holds the same numbers): value, unit
WL_SETS = {'angstrom': (1, 2, 3, 20), 'nm': (2, 1), 'm': ()}
WL_LAYOUTS = ('scalar', 'dense', 'binned', 'graph')
UNIT_LENGTHS = ('angstrom', 'nm', 'um', 'm')  # Q / wavelength in these, UB / B in their reciprocals: all 16 pairings
UNIT_B = (0, 3, 4)  # cubic, triclinic, cond 1e6
UNIT_R = (0, 5, 24, 27)
UNIT_U = (0, 25)


def _dtype_unit_cases():
    out = []
    for dtype in WL_DTYPES:
        for lu in ('angstrom', 'nm'):
            for layout in WL_LAYOUTS:
                out.append({'kind': 'qdtype', 'dtype': dtype, 'lu': lu, 'layout': layout})
    for qu in UNIT_LENGTHS:
        for bu in UNIT_LENGTHS:
            for b in UNIT_B:
                for rep in ('quat', 'matrix'):
                    out.append({'kind': 'hklunits', 'qu': qu, 'bu': bu, 'B': b, 'rep': rep})
    return out


def cases(tier):
    out = []
    if tier == 'quick':
        for di in range(gc.N_QUICK_DIRS):
            for n1 in LENGTHS:
                for n2 in LENGTHS:
                    out.append({'kind': 'qvec', 'd': di, 'n1': n1, 'n2': n2, 'lu': 'angstrom' if (di + len(out)) % 2 == 0 else 'nm', 'perp': 0})
        for r in range(N_ROT):
            for u in (0, 5, 13, 24, 25, 26):
                for b in range(N_B_QUICK):
                    out.append({'kind': 'hkl', 'R': r, 'rep': 'quat' if (r + u + b) % 3 else 'matrix', 'U': u, 'B': b})
        return out + _dtype_unit_cases()
    for perp in (0, 1):
        for lu in ('angstrom', 'nm', 'm'):
            for di in range(len(DIRS_DEEP)):
                for n1 in LENGTHS_DEEP:
                    for n2 in LENGTHS_DEEP:
                        if abs(math.log10(n1 / n2)) > 6.5:
                            continue
                        out.append({'kind': 'qvec', 'deep': True, 'd': di, 'n1': n1, 'n2': n2, 'lu': lu, 'perp': perp})
    for i in range(len(INT_BEAMS)):
        out.append({'kind': 'qint', 'b1': i})
    for rep in ('quat', 'matrix'):
        for r in range(N_ROT_DEEP):
            for u in range(N_ROT_DEEP):
                for b in range(len(B_MATS)):
                    out.append({'kind': 'hkl', 'deep': True, 'R': r, 'rep': rep, 'U': u, 'B': b, 'bu': '1/angstrom', 'ub': 'kernel'})
    for ubsrc in ('kernel', 'direct'):
        for rep in ('quat', 'matrix'):
            for r in range(N_ROT_DEEP):
                for u in U_SUBSET:
                    for b in range(len(B_MATS)):
                        # B in 1/nm for every kernel-route case; alternating units for the directly given ub_matrix
                        bu = '1/nm' if ubsrc == 'kernel' or (r + u + b) % 2 else '1/angstrom'
                        out.append({'kind': 'hkl', 'deep': True, 'R': r, 'rep': rep, 'U': u, 'B': b, 'bu': bu, 'ub': ubsrc})
    return out + _dtype_unit_cases()


# ---------------------------------------------------------------------------------------


def _q_call(lam, b1, b2):
    r = tof.Q_elements_from_wavelength(wavelength=lam, incident_beam=b1, scattered_beam=b2)
    return r['Qx'], r['Qy'], r['Qz']


def _judge_q(rec, got, want, k, what, **sub):
    """got: 3 floats; want: 3 mpf; k = 2pi/lambda (float)."""
    rec.evals += 1
    rec.validated += 1
    rec.observe(tuple(got))
    tol = 16 * EPS * k
    err = max(abs(hp.mpf(g) - w) for g, w in zip(got, want, strict=True)) if all(math.isfinite(g) for g in got) else hp.mpf('inf')
    if err > tol:
        rec.viol(SITE_Q, 'q_vec_mismatch', f'{what}: Q={list(got)}, (2pi/lambda)(e_i-e_f)={[float(w) for w in want]}; max |diff|={float(err):.3e} > {tol:.2e}', **sub)
        return False
    return True


def run_case(case, rec):
    rec = gc.Dedup(rec)
    try:
        if case['kind'] == 'qvec':
            _run_qvec(case, rec)
        elif case['kind'] == 'qint':
            _run_qint(case, rec)
        elif case['kind'] == 'qdtype':
            _run_qdtype(case, rec)
        elif case['kind'] == 'hklunits':
            _run_hklunits(case, rec)
        else:
            _run_hkl(case, rec)
    finally:
        rec.flush()


def _run_qvec(case, rec):
    deep = bool(case.get('deep'))
    ANGLES = ANGLES_DEEP if deep else ANGLES_QUICK  # noqa: N806 - shadows the module constant on purpose
    d = (DIRS_DEEP if deep else gc.DIRECTIONS)[case['d']]
    p = gc.perpendicular(d, case['perp'])
    n1, n2, lu = case['n1'], case['n2'], case['lu']
    rec.cls('unit_' + lu)
    if deep:
        lams = [x * LAM_FACTOR[lu] for x in LAMBDAS_A_DEEP]
    else:
        lams = [x if lu == 'angstrom' else x / 10.0 for x in LAMBDAS_A]
    qunit = sc.Unit('1/' + lu)
    b1 = tuple(n1 * x for x in gc.unit_dir(d))
    b2s = [gc.beam_at_angle(d, p, a, n2) for a in ANGLES]
    v1 = gc.vec(b1, 'm')
    refs = {}
    got0 = {}
    for ia, b2 in enumerate(b2s):
        v2 = gc.vec(b2, 'mm')  # units of the beams are irrelevant and independent
        for il, lam in enumerate(lams):
            sub = {'angle': ANGLES[ia], 'lam': lam, 'b1': list(b1), 'b2': list(b2)}
            want = qvec.q_vec(lam, b1, b2)
            refs[(ia, il)] = want
            k = 2 * math.pi / lam
            rec.states += 1
            qn = hp.norm(want)
            if qn == 0:
                rec.cls('q_zero')
            else:
                rec.nontrivial += 1
                rec.cls('q_tiny' if qn < 1e-6 * k else ('q_backscatter' if qn > 1.999999 * k else 'q_generic'))
            # 0-d call
            qx, qy, qz = _q_call(sc.scalar(lam, unit=lu), v1, v2)
            rec.transitions += 1
            rec.cls('scalar_call')
            if not (qx.unit == qy.unit == qz.unit == qunit):
                rec.viol(SITE_Q, 'wrong_unit', f'units {qx.unit}, {qy.unit}, {qz.unit}; expected {qunit}', **sub)
                continue
            got = (float(qx.value), float(qy.value), float(qz.value))
            got0[(ia, il)] = got
            _judge_q(rec, got, want, k, '0-d', **sub)
            # reassembling and splitting is lossless
            qv = tof.Q_vec_from_Q_elements(Qx=qx, Qy=qy, Qz=qz)
            rec.transitions += 1
            back = (float(qv.fields.x.value), float(qv.fields.y.value), float(qv.fields.z.value))
            if back != got or tuple(map(float, qv.value)) != got or qv.unit != qunit:
                rec.viol(SITE_QV, 'lossy_reassembly', f'Q_vec {list(qv.value)} [{qv.unit}] from elements {got} [{qunit}]', **sub)
            else:
                rec.cls('reassemble_bitwise')
            # |Q_vec| equals the scalar Q of the same beams
            tt = bl.two_theta(incident_beam=v1, scattered_beam=v2)
            qs = tof.Q_from_wavelength(wavelength=sc.scalar(lam, unit=lu), two_theta=tt)
            rec.transitions += 2
            qs_val = float(qs.to(unit=qunit).value)
            nrm = float(sc.norm(qv).value)
            rec.cls('q_norm_judged')
            rec.evals += 1
            rec.validated += 1
            tol = 1e-12 * float(qn) + 32 * EPS * k
            if abs(nrm - qs_val) > tol or abs(hp.mpf(nrm) - qn) > tol:
                rec.viol(SITE_Q, 'norm_vs_scalar_Q', f'|Q_vec|={nrm!r}, Q_from_wavelength(two_theta)={qs_val!r}, 50-digit |Q|={float(qn)!r}; tol {tol:.2e}', **sub)

    # array operands ---------------------------------------------------------------------
    nl, na = len(lams), len(b2s)
    lam_arr = sc.array(dims=['wavelength'], values=lams, unit=lu)
    b2_arr = gc.vecs(b2s, 'mm', dim='pixel')

    def judge_table(tab, what):
        for key, g in tab.items():
            ia, il = key
            k = 2 * math.pi / lams[il]
            if key in got0 and g == got0[key]:
                # bitwise the 0-d result, which has been judged against the reference already: same verdict
                rec.evals += 1
                rec.validated += 1
                rec.observe(g)
                rec.cls('array_equals_scalar_bitwise')
                continue
            _judge_q(rec, g, refs[key], k, what, angle=ANGLES[ia], lam=lams[il])
            if key in got0:
                rec.cls('array_differs_from_scalar')  # informative only

    # wavelength array x 0-d beams
    for ia in (0, 3, na - 1):
        comps = _q_call(lam_arr, v1, gc.vec(b2s[ia], 'mm'))
        rec.transitions += 1
        rec.cls('wavelength_array')
        judge_table({(ia, il): tuple(float(c.values[il]) for c in comps) for il in range(nl)}, 'wavelength array')
    # beam array x 0-d wavelength
    for il in range(nl):
        comps = _q_call(sc.scalar(lams[il], unit=lu), v1, b2_arr)
        rec.transitions += 1
        rec.cls('beam_array')
        judge_table({(ia, il): tuple(float(c.values[ia]) for c in comps) for ia in range(na)}, 'beam array')
    # both arrays, different dims -> 2-d
    comps = _q_call(lam_arr, v1, b2_arr)
    rec.transitions += 1
    rec.cls('both_arrays')
    cv = [c.transpose(['pixel', 'wavelength']).values for c in comps]
    judge_table({(ia, il): tuple(float(c[ia][il]) for c in cv) for ia in range(na) for il in range(nl)}, '2-d broadcast')
    qv = tof.Q_vec_from_Q_elements(Qx=comps[0], Qy=comps[1], Qz=comps[2])
    rec.transitions += 1
    if not (np.array_equal(qv.fields.x.values, comps[0].values) and np.array_equal(qv.fields.y.values, comps[1].values) and np.array_equal(qv.fields.z.values, comps[2].values)):
        rec.viol(SITE_QV, 'lossy_reassembly', '2-d Q_vec differs from its elements')

    if deep:
        _qvec_deep_extras(rec, lu, lams, b1, b2s, refs, ANGLES)

    # independence of the beam lengths, covariance under rotations (lambda = first wavelength) ----------
    lam = lams[0]
    k = 2 * math.pi / lam
    lam_s = sc.scalar(lam, unit=lu)
    for ia, b2 in enumerate(b2s):
        base = got0.get((ia, 0))
        if base is None:
            continue
        sub = {'angle': ANGLES[ia], 'lam': lam}
        s1 = [[f * x for x in b1] for f in SCALES]
        s2 = [[f * x for x in b2] for f in SCALES]
        ca = _q_call(lam_s, gc.vecs(s1, 'm'), gc.vecs([b2] * len(SCALES), 'mm'))
        cb = _q_call(lam_s, v1, gc.vecs(s2, 'mm'))
        rec.transitions += 2
        for which, comps_, sx in (('b1', ca, s1), ('b2', cb, s2)):
            for j, f in enumerate(SCALES):
                rec.states += 1
                g = tuple(float(c.values[j]) for c in comps_)
                if j < N_POW2:
                    if g == base:
                        rec.cls('length_pow2_bitwise')
                    want = refs[(ia, 0)]
                else:
                    want = qvec.q_vec(lam, sx[j], b2) if which == 'b1' else qvec.q_vec(lam, b1, sx[j])
                _judge_q(rec, g, want, k, f'{which} x {f}', scale=f, which=which, **sub)
                if max(abs(a - b) for a, b in zip(g, base, strict=True)) > 32 * EPS * k:
                    rec.viol(SITE_Q, 'depends_on_beam_length', f'{which} x {f}: Q={g} vs {base}', scale=f, which=which, **sub)
        # rotations
        mats = [np.array(geom.cube_matrix(r)) for r in gc.CUBE] + list(gc.GENERIC)
        r1 = [geom.apply_cube(r, b1) for r in gc.CUBE] + [list(map(float, m @ np.asarray(b1))) for m in gc.GENERIC]
        r2 = [geom.apply_cube(r, b2) for r in gc.CUBE] + [list(map(float, m @ np.asarray(b2))) for m in gc.GENERIC]
        cr = _q_call(lam_s, gc.vecs(r1, 'm'), gc.vecs(r2, 'mm'))
        rec.transitions += 1
        for j, m in enumerate(mats):
            rec.states += 1
            g = tuple(float(c.values[j]) for c in cr)
            rec.cls('rot_cube' if j < 24 else 'rot_generic')
            _judge_q(rec, g, qvec.q_vec(lam, r1[j], r2[j]), k, f'rotation #{j}', rotation=j, **sub)
            expect = m @ np.asarray(base)
            if max(abs(a - float(b)) for a, b in zip(g, expect, strict=True)) > 64 * EPS * k:
                rec.viol(SITE_Q, 'not_covariant', f'rotation #{j}: Q(R b1, R b2)={g} but R Q(b1, b2)={list(map(float, expect))}', rotation=j, **sub)


def _qvec_deep_extras(rec, lu, lams, b1, b2s, refs, angles):
    """Thorough tier: int64 wavelengths, per-pixel incident beam, both beams as arrays (same dim / outer product)."""
    na = len(b2s)
    v1 = gc.vec(b1, 'm')
    b2_arr = gc.vecs(b2s, 'mm', dim='pixel')
    # integer wavelengths (dtype int64), 0-d and array, against three angles
    ints = INT_LAMBDAS[lu]
    if ints:
        arr = sc.array(dims=['wavelength'], values=list(ints), unit=lu, dtype='int64')
        comps = _q_call(arr, v1, b2_arr)
        rec.transitions += 1
        rec.cls('wavelength_int64')
        cv = [c.transpose(['pixel', 'wavelength']).values for c in comps]
        for il, li in enumerate(ints):
            k = 2 * math.pi / li
            for ia in (3, 7, na - 2):
                rec.states += 1
                want = qvec.q_vec(float(li), b1, b2s[ia])
                _judge_q(rec, tuple(float(c[ia][il]) for c in cv), want, k, 'int64 wavelength array', angle=angles[ia], lam=li, dtype='int64')
            c0 = _q_call(sc.scalar(li, unit=lu, dtype='int64'), v1, gc.vec(b2s[6], 'mm'))
            rec.transitions += 1
            _judge_q(rec, tuple(float(c.value) for c in c0), qvec.q_vec(float(li), b1, b2s[6]), k, 'int64 wavelength 0-d', angle=angles[6], lam=li, dtype='int64')
    lam = lams[0]
    k = 2 * math.pi / lam
    lam_s = sc.scalar(lam, unit=lu)
    # per-pixel incident beam, 0-d scattered beam (roles of the two beams exchanged)
    comps = _q_call(lam_s, b2_arr, v1)
    rec.transitions += 1
    rec.cls('incident_array')
    for ia in range(na):
        rec.states += 1
        w = refs[(ia, 0)]
        _judge_q(rec, tuple(float(c.values[ia]) for c in comps), [-w[0], -w[1], -w[2]], k, 'per-pixel incident beam', angle=angles[ia], lam=lam)
    # both beams arrays over the same dim: (b2s[k], b2s[na-1-k])
    rev = list(reversed(b2s))
    comps = _q_call(lam_s, b2_arr, gc.vecs(rev, 'm', dim='pixel'))
    rec.transitions += 1
    rec.cls('both_beams_same_dim')
    for ia in range(na):
        rec.states += 1
        _judge_q(rec, tuple(float(c.values[ia]) for c in comps), qvec.q_vec(lam, b2s[ia], rev[ia]), k, 'both beams per-pixel', pixel=ia, lam=lam)
    # both beams arrays over different dims: outer product (source, pixel), wavelength array on a third dim
    srcs = [b1, b2s[4], b2s[na - 3]]
    lam2 = sc.array(dims=['wavelength'], values=[lams[0], lams[1]], unit=lu)
    comps = _q_call(lam2, gc.vecs(srcs, 'm', dim='source'), b2_arr)
    rec.transitions += 1
    rec.cls('both_beams_outer')
    if set(comps[0].dims) != {'source', 'pixel', 'wavelength'}:
        rec.viol(SITE_Q, 'wrong_dims', f'outer product of incident (source) x scattered (pixel) x wavelength: dims {comps[0].dims}')
        return
    cv = [c.transpose(['source', 'pixel', 'wavelength']).values for c in comps]
    for isrc, src in enumerate(srcs):
        for ia in range(na):
            w0 = refs[(ia, 0)] if isrc == 0 else qvec.q_vec(lams[0], src, b2s[ia])
            for il in (0, 1):
                rec.states += 1
                w = w0 if il == 0 else (refs[(ia, 1)] if isrc == 0 else [x * hp.mpf(lams[0]) / hp.mpf(lams[1]) for x in w0])
                _judge_q(rec, tuple(float(c[isrc][ia][il]) for c in cv), w, 2 * math.pi / lams[il], 'outer product of beams', source=isrc, pixel=ia, lam=lams[il])


def _run_qint(case, rec):
    """Integer-valued beams handed over as Python ints, every ordered pair, float and int64 wavelengths."""
    b1 = INT_BEAMS[case['b1']]
    v1 = sc.vector(list(b1), unit='m')
    if v1.dtype != sc.DType.vector3:
        rec.viol(SITE_Q, 'int_vector_dtype', f'sc.vector of ints has dtype {v1.dtype}')
        return
    lam_f = [1.8, 0.01, 100.0, 0.5, 25.0]
    lam_i = [1, 2, 10, 100]
    for b2 in INT_BEAMS:
        v2 = sc.vector(list(b2), unit='m')
        for lam, dtype in [(x, 'float64') for x in lam_f] + [(x, 'int64') for x in lam_i]:
            rec.states += 1
            rec.cls('int_valued_beams')
            want = qvec.q_vec(float(lam), [float(x) for x in b1], [float(x) for x in b2])
            if hp.norm(want) != 0:
                rec.nontrivial += 1
            comps = _q_call(sc.scalar(lam, unit='angstrom', dtype=dtype), v1, v2)
            rec.transitions += 1
            _judge_q(rec, tuple(float(c.value) for c in comps), want, 2 * math.pi / lam, 'integer-valued beams', b1=list(b1), b2=list(b2), lam=lam, dtype=dtype)
    arr2 = sc.vectors(dims=['pixel'], values=np.asarray(INT_BEAMS), unit='m')
    comps = _q_call(sc.array(dims=['wavelength'], values=lam_i, unit='angstrom', dtype='int64'), v1, arr2)
    rec.transitions += 1
    cv = [c.transpose(['pixel', 'wavelength']).values for c in comps]
    for ib, b2 in enumerate(INT_BEAMS):
        for il, lam in enumerate(lam_i):
            _judge_q(rec, tuple(float(c[ib][il]) for c in cv), qvec.q_vec(float(lam), [float(x) for x in b1], [float(x) for x in b2]), 2 * math.pi / lam,
                     'integer-valued beam array', b1=list(b1), b2=list(b2), lam=lam, dtype='int64')


def _negated_q_vec(Qx, Qy, Qz):
    return -sc.spatial.as_vectors(Qx, Qy, Qz)


def _run_hkl(case, rec):
    ri, ui, bi, rep = case['R'], case['U'], case['B'], case['rep']
    bname, bmat = B_MATS[bi]
    rec.cls('R_quaternion' if rep == 'quat' else 'R_matrix')
    R = rot_variable(ri, rep)
    deep = bool(case.get('deep'))
    bu = case.get('bu', '1/angstrom')
    q_set = Q_SET_DEEP if deep else Q_SET
    rec.cls('b_unit_' + bu)
    U = sc.spatial.linear_transform(value=rot_matrix(ui))
    B = sc.spatial.linear_transform(value=bmat, unit=bu)
    # UB = U*B
    ub = tof.ub_matrix_from_u_and_b(u_matrix=U, b_matrix=B)
    rec.transitions += 1
    rec.cls('ub_judged')
    rec.evals += 1
    rec.validated += 1
    if ub.unit != sc.Unit(bu):
        rec.viol(SITE_UB, 'wrong_unit', f'UB unit {ub.unit}')
    um, bm = U.value, B.value
    want_ub = qvec.ub(um, bm)

    def judge_ub(val, what):
        for i in range(3):
            for j in range(3):
                bound = 4 * EPS * sum(abs(um[i][kk]) * abs(bm[kk][j]) for kk in range(3))
                if abs(hp.mpf(float(val[i][j])) - want_ub[i][j]) > bound:
                    rec.viol(SITE_UB, 'not_u_times_b', f'{what}: UB[{i}][{j}]={val[i][j]!r}, U*B={float(want_ub[i][j])!r}')

    judge_ub(ub.value, 'kernel')
    rec.observe(ub.value.tolist())
    if case.get('ub') == 'direct':
        # ub_matrix handed over by the user (here: the numpy product), not computed by the kernel
        ub = sc.spatial.linear_transform(value=rot_matrix(ui) @ bmat, unit=bu)
        rec.cls('ub_direct')
    # what R is, as handed over
    rmat = geom.quat_to_matrix(R.value) if rep == 'quat' else geom.mat(R.value)
    ubm = geom.mat(ub.value)
    a_mp = geom.matmul(rmat, ubm)
    a = np.array([[float(x) for x in row] for row in a_mp])
    cond = float(np.linalg.cond(a))
    if cond > 1e5:
        rec.cls('cond_gt_1e5')
    elif cond < 1 + 1e-9:
        rec.cls('cond_1')
    nontrivial = np.count_nonzero(np.abs(a - np.diag(np.diag(a))) > 0) > 0
    tol_rel = 64 * EPS * cond

    def judge(hkl, q, what):
        rec.evals += 1
        rec.validated += 1
        rec.states += 1
        rec.nontrivial += int(bool(nontrivial) and any(q))
        rec.cls('hkl_judged')
        rec.observe(tuple(hkl))
        if not all(math.isfinite(x) for x in hkl):
            rec.viol(SITE_HKL, 'not_finite', f'{what}: hkl={list(hkl)} for Q={list(q)}', Q=list(q), cond=cond)
            return
        res, qn = qvec.hkl_residual_a(a_mp, hkl, q)
        if res > tol_rel * qn:
            rec.viol(SITE_HKL, 'residual', f'{what}: |2pi R UB hkl - Q| = {float(res):.3e} > 64 eps cond |Q| = {float(tol_rel * qn):.3e} '
                     f'(hkl={list(hkl)}, Q={list(q)}, cond={cond:.3g})', Q=list(q), cond=cond)

    got0 = []
    for q in q_set:
        Q = sc.vector(list(q), unit=bu)
        h = tof.hkl_vec_from_Q_vec(Q_vec=Q, ub_matrix=ub, sample_rotation=R)
        rec.transitions += 1
        if h.unit != sc.units.one:
            rec.viol(SITE_HKL, 'wrong_unit', f'hkl unit {h.unit}')
        hv = tuple(float(x) for x in h.value)
        got0.append(hv)
        judge(hv, q, '0-d')
        parts = tof.hkl_elements_from_hkl_vec(hkl_vec=h)
        rec.transitions += 1
        if (float(parts['h'].value), float(parts['k'].value), float(parts['l'].value)) != hv or not (parts['h'].unit == parts['k'].unit == parts['l'].unit == h.unit):
            rec.viol(SITE_HE, 'lossy_split', f'h,k,l = {parts} from {hv} [{h.unit}]')
        again = sc.spatial.as_vectors(parts['h'], parts['k'], parts['l'])
        if tuple(float(x) for x in again.value) != hv:
            rec.viol(SITE_HE, 'lossy_split', 'reassembled hkl differs')
    # array of Q
    Qa = gc.vecs(q_set, bu, dim='Q')
    ha = tof.hkl_vec_from_Q_vec(Q_vec=Qa, ub_matrix=ub, sample_rotation=R)
    rec.transitions += 1
    rec.cls('hkl_array')
    for j, q in enumerate(q_set):
        hv = tuple(float(x) for x in ha.values[j])
        if hv == got0[j]:
            # bitwise the 0-d result judged above: same verdict, no second 50-digit evaluation
            rec.evals += 1
            rec.validated += 1
            rec.states += 1
            rec.observe(hv)
            rec.cls('hkl_judged')
            rec.cls('array_equals_scalar_bitwise')
        else:
            judge(hv, q, 'array')
            rec.cls('array_differs_from_scalar')  # informative only
    # array of sample rotations (one per goniometer setting), 2 and 3 of them, against a 0-d Q
    nrot = 28  # 24 cube + 3 generic + 1 tiny
    for nset in (2, 3):
        idxs = [(ri + 5 * k) % nrot for k in range(nset)]
        Rs = [rot_variable(i, rep) for i in idxs]
        Ra = sc.concat(Rs, 'setting')
        rmats = [geom.quat_to_matrix(r.value) if rep == 'quat' else geom.mat(r.value) for r in Rs]
        q = Q_SET[3 % len(Q_SET)]
        rec.transitions += 1
        hs = tof.hkl_vec_from_Q_vec(Q_vec=sc.vector(list(q), unit=bu), ub_matrix=ub, sample_rotation=Ra)
        rec.cls('R_array')
        if hs.dims != ('setting',) or hs.shape != (nset,):
            rec.viol(SITE_HKL, 'wrong_dims', f'array of {nset} sample rotations: result dims {hs.dims} shape {hs.shape}', nset=nset)
            continue
        for k in range(nset):
            hv = tuple(float(x) for x in hs.values[k])
            rec.evals += 1
            rec.validated += 1
            a_k = np.array([[float(x) for x in row] for row in geom.matmul(rmats[k], ubm)])
            cond_k = float(np.linalg.cond(a_k))
            res, qn = qvec.hkl_residual(rmats[k], ubm, hv, q)
            if not all(math.isfinite(x) for x in hv) or res > 64 * EPS * cond_k * qn:
                rec.viol(SITE_HKL, 'residual_rotation_array', f'{nset} sample rotations, element {k}: |2pi R UB hkl - Q| = {float(res):.3e} (hkl={list(hv)}, Q={list(q)})', nset=nset, element=k)
    if deep:
        _hkl_deep_arrays(rec, case, ub, B, bmat, bu)
    parts = tof.hkl_elements_from_hkl_vec(hkl_vec=ha)
    if not (np.array_equal(parts['h'].values, ha.fields.x.values) and np.array_equal(parts['k'].values, ha.values[:, 1]) and np.array_equal(parts['l'].values, ha.values[:, 2])):
        rec.viol(SITE_HE, 'lossy_split', 'array h,k,l differ from the vector components')

    # the same through the coordinate graph: wavelength + beams -> Q_vec -> hkl_vec -> h, k, l
    if case.get('ub') == 'direct':
        return  # the graph computes ub_matrix itself; covered by the 'kernel' cases
    lam = [1.8, 0.5] if bu == '1/angstrom' else [0.18, 0.05]
    lam_unit = bu[2:]
    b1 = (0.0, 0.0, 10.0)
    b2s = [gc.beam_at_angle((0.0, 0.0, 1.0), gc.unit_dir((1.0, 0.3, 0.0)), a, 2.0) for a in (0.3, 1.2, 2.9)]
    da = sc.DataArray(
        sc.ones(dims=['pixel', 'wavelength'], shape=[3, 2]),
        coords={
            'wavelength': sc.array(dims=['wavelength'], values=lam, unit=lam_unit),
            'incident_beam': gc.vec(b1, 'm'), 'scattered_beam': gc.vecs(b2s, 'm', dim='pixel'),
            'u_matrix': U, 'b_matrix': B, 'sample_rotation': R,
        },
    )
    # a graph obtained earlier belongs to the caller: customising it (here: the k_f - k_i sign convention and a dropped
    # node) may not change the graph handed out next
    mine = tof_graph.elastic_hkl('wavelength')
    mine['Q_vec'] = _negated_q_vec
    mine.pop('ub_matrix', None)
    mine2 = tof_graph.elastic_Q_vec('wavelength')
    mine2['Q_vec'] = _negated_q_vec
    out = da.transform_coords(['hkl_vec', 'h', 'k', 'l', 'Q_vec', 'ub_matrix'], graph=tof_graph.elastic_hkl('wavelength'), keep_intermediate=True, keep_inputs=True, rename_dims=False)
    rec.transitions += 1
    rec.cls('graph_route')
    hk = out.coords['hkl_vec'].transpose(['pixel', 'wavelength']).values
    qv = out.coords['Q_vec'].transpose(['pixel', 'wavelength']).values
    judge_ub(out.coords['ub_matrix'].value, 'graph route')
    hh = out.coords['h'].transpose(['pixel', 'wavelength']).values
    kk_ = out.coords['k'].transpose(['pixel', 'wavelength']).values
    ll = out.coords['l'].transpose(['pixel', 'wavelength']).values
    for ip in range(3):
        for il in range(2):
            want_q = qvec.q_vec(lam[il], b1, b2s[ip])
            g = tuple(float(x) for x in qv[ip][il])
            _judge_q(rec, g, want_q, 2 * math.pi / lam[il], 'graph route', pixel=ip, lam=lam[il])
            hv = tuple(float(x) for x in hk[ip][il])
            judge(hv, g, 'graph route')
            if (float(hh[ip][il]), float(kk_[ip][il]), float(ll[ip][il])) != hv:
                rec.viol(SITE_HE, 'lossy_split', f'graph route: h,k,l differ from hkl_vec {hv}')


def _hkl_deep_arrays(rec, case, ub, B, bmat, bu):
    """Thorough tier: arrays of 5 sample rotations / 5 U matrices / Q vectors, element-wise and as outer product."""
    ri, ui, rep = case['R'], case['U'], case['rep']
    n = 5
    ridx = [(ri + 7 * k) % N_ROT_DEEP for k in range(n)]
    uidx = [(ui + 11 * k) % N_ROT_DEEP for k in range(n)]
    Rs = [rot_variable(i, rep) for i in ridx]
    Ra = sc.concat(Rs, 'setting')
    rmats = [geom.quat_to_matrix(r.value) if rep == 'quat' else geom.mat(r.value) for r in Rs]
    # U as an array -> UB as an array
    Ua = sc.concat([sc.spatial.linear_transform(value=rot_matrix(i)) for i in uidx], 'setting')
    uba = tof.ub_matrix_from_u_and_b(u_matrix=Ua, b_matrix=B)
    rec.transitions += 1
    rec.cls('U_array')
    if uba.dims != ('setting',) or uba.unit != sc.Unit(bu):
        rec.viol(SITE_UB, 'wrong_dims', f'array of U: UB dims {uba.dims}, unit {uba.unit}')
        return
    ubms = []
    for k, i in enumerate(uidx):
        um = rot_matrix(i)
        want = qvec.ub(um, bmat)
        val = uba.values[k]
        rec.evals += 1
        rec.validated += 1
        for a in range(3):
            for b in range(3):
                bound = 4 * EPS * sum(abs(um[a][kk]) * abs(bmat[kk][b]) for kk in range(3))
                if abs(hp.mpf(float(val[a][b])) - want[a][b]) > bound:
                    rec.viol(SITE_UB, 'not_u_times_b', f'array of U, element {k}: UB[{a}][{b}]={val[a][b]!r}, U*B={float(want[a][b])!r}', element=k)
        ubms.append(geom.mat(val))
    ub0 = geom.mat(ub.value)

    def product(rm, um):
        a_mp = geom.matmul(rm, um)
        return a_mp, float(np.linalg.cond(np.array([[float(x) for x in row] for row in a_mp])))

    def judge(hv, prod, q, what, **sub):
        rec.evals += 1
        rec.validated += 1
        rec.states += 1
        rec.cls('hkl_judged')
        a_mp, cond_k = prod
        res, qn = qvec.hkl_residual_a(a_mp, hv, q)
        if not all(math.isfinite(x) for x in hv) or res > 64 * EPS * cond_k * qn:
            rec.viol(SITE_HKL, 'residual_arrays', f'{what}: |2pi R UB hkl - Q| = {float(res):.3e} > 64 eps cond |Q| = {float(64 * EPS * cond_k * qn):.3e} '
                     f'(hkl={list(hv)}, Q={list(q)}, cond={cond_k:.3g})', **sub)

    qs = [Q_SET_DEEP[(3 + 9 * k + ri) % len(Q_SET_DEEP)] for k in range(n)]
    qs = [q if any(q) else (1.0, -2.0, 0.5) for q in qs]
    # element-wise: R[k], UB[k], Q[k]
    hs = tof.hkl_vec_from_Q_vec(Q_vec=gc.vecs(qs, bu, dim='setting'), ub_matrix=uba, sample_rotation=Ra)
    rec.transitions += 1
    rec.cls('R_U_Q_elementwise')
    if hs.dims != ('setting',):
        rec.viol(SITE_HKL, 'wrong_dims', f'element-wise arrays: result dims {hs.dims}')
    else:
        for k in range(n):
            judge(tuple(float(x) for x in hs.values[k]), product(rmats[k], ubms[k]), qs[k], 'element-wise R, UB, Q arrays', element=k)
    # outer product: R over 'setting', Q over 'Q', one UB
    q4 = qs[:4]
    ho = tof.hkl_vec_from_Q_vec(Q_vec=gc.vecs(q4, bu, dim='Q'), ub_matrix=ub, sample_rotation=Ra)
    rec.transitions += 1
    rec.cls('R_Q_outer')
    if set(ho.dims) != {'setting', 'Q'}:
        rec.viol(SITE_HKL, 'wrong_dims', f'R (setting) x Q (Q): result dims {ho.dims}')
    else:
        vals = ho.transpose(['setting', 'Q']).values
        for k in range(n):
            prod = product(rmats[k], ub0)
            for j in range(4):
                judge(tuple(float(x) for x in vals[k][j]), prod, q4[j], 'outer product of R and Q arrays', element=k, q_index=j)


DT_BEAM_1 = (0.0, 0.0, 10.0)
DT_BEAMS_2 = [(1.0, 0.0, 1.0), (0.0, 2.0, -1.0), (0.3, 0.2, 3.0), (0.0, 1e-6, 5.0)]
_EPS32 = 2.0**-23


def _run_qdtype(case, rec):
    """Wavelength dtype alphabet {float64, float32, int64, int32} x layout {0-d, dense, binned, coordinate graph}."""
    dtype, lu, layout = case['dtype'], case['lu'], case['layout']
    ints = WL_SETS[lu]
    rec.cls('wl_dtype_' + dtype)
    rec.cls('wl_layout_' + layout)
    qunit = sc.Unit('1/' + lu)
    v1 = gc.vec(DT_BEAM_1, 'm')
    nd = len(DT_BEAMS_2)
    v2 = gc.vecs(DT_BEAMS_2, 'm', dim='det')
    is_f32 = dtype == 'float32'
    qtol = (4 * _EPS32 if is_f32 else 16 * EPS)
    want = {(il, k): qvec.q_vec(float(li), DT_BEAM_1, DT_BEAMS_2[k]) for il, li in enumerate(ints) for k in range(nd)}
    want_n = {key: hp.norm(w) for key, w in want.items()}

    def judge(key, got, where, qs=None, out_dtype=None):
        il, k = key
        kk = 2 * math.pi / ints[il]
        sub = {'lam': ints[il], 'unit': lu, 'dtype': dtype, 'layout': layout, 'det': k}
        rec.states += 1
        rec.nontrivial += 1
        rec.evals += 1
        rec.validated += 1
        rec.observe(got)
        err = max(abs(hp.mpf(g) - w) for g, w in zip(got, want[key], strict=True)) if all(math.isfinite(g) for g in got) else hp.mpf('inf')
        if err > qtol * kk:
            rec.viol(SITE_Q, 'q_vec_mismatch_wavelength_dtype', f'{where}: wavelength {ints[il]} {lu} as {dtype}: Q={list(got)}, (2pi/lambda)(e_i-e_f)='
                     f'{[float(w) for w in want[key]]}; max |diff|={float(err):.3e} > {qtol * kk:.2e}', **sub)
        if out_dtype is not None and not is_f32 and out_dtype != sc.DType.float64:
            rec.viol(SITE_Q, 'result_dtype', f'{where}: wavelength dtype {dtype} gives Q of dtype {out_dtype}, expected float64', **sub)
        if qs is not None:
            nrm = math.sqrt(sum(g * g for g in got))
            tol = 1e-12 * float(want_n[key]) + (8 * _EPS32 if is_f32 else 32 * EPS) * kk
            rec.evals += 1
            rec.cls('q_norm_judged')
            if abs(nrm - qs) > tol:
                rec.viol(SITE_Q, 'norm_vs_scalar_Q', f'{where}: wavelength {ints[il]} {lu} as {dtype}: |Q_vec|={nrm!r} but Q_from_wavelength(two_theta)={qs!r}; tol {tol:.2e}', **sub)

    tt = bl.two_theta(incident_beam=v1, scattered_beam=v2)
    if layout == 'scalar':
        for il, li in enumerate(ints):
            lam = sc.scalar(li, unit=lu, dtype=dtype)
            comps = _q_call(lam, v1, v2)
            qv = tof.Q_vec_from_Q_elements(Qx=comps[0], Qy=comps[1], Qz=comps[2])
            qs = tof.Q_from_wavelength(wavelength=lam, two_theta=tt).to(unit=qunit, dtype='float64')
            rec.transitions += 3
            if qv.unit != qunit:
                rec.viol(SITE_Q, 'wrong_unit', f'Q unit {qv.unit}, expected {qunit}', dtype=dtype)
                continue
            for k in range(nd):
                judge((il, k), tuple(float(x) for x in qv.values[k]), '0-d wavelength', float(qs.values[k]), comps[0].dtype)
            if dtype == 'int64':
                # a plain Python int makes an int64 variable: sc.scalar(2, unit=...)
                c2 = _q_call(sc.scalar(li, unit=lu), v1, v2)
                rec.transitions += 1
                for k in range(nd):
                    judge((il, k), tuple(float(c.values[k]) for c in c2), 'Python-int wavelength')
    elif layout == 'dense':
        lam = sc.array(dims=['wavelength'], values=list(ints), unit=lu, dtype=dtype)
        comps = _q_call(lam, v1, v2)
        qv = tof.Q_vec_from_Q_elements(Qx=comps[0], Qy=comps[1], Qz=comps[2])
        qs = tof.Q_from_wavelength(wavelength=lam, two_theta=tt).to(unit=qunit, dtype='float64').transpose(['wavelength', 'det']).values
        rec.transitions += 3
        vals = qv.transpose(['wavelength', 'det']).values
        for il in range(len(ints)):
            for k in range(nd):
                judge((il, k), tuple(float(x) for x in vals[il][k]), 'dense wavelength', float(qs[il][k]), comps[0].dtype)
        if dtype in ('int64', 'int32') and lu == 'angstrom':
            ar = sc.arange('wavelength', 1, 4, unit=lu, dtype=dtype)  # 1, 2, 3
            c2 = _q_call(ar, v1, v2)
            rec.transitions += 1
            cv = [c.transpose(['wavelength', 'det']).values for c in c2]
            for il in range(3):
                for k in range(nd):
                    judge((il, k), tuple(float(c[il][k]) for c in cv), 'sc.arange wavelength')
    elif layout == 'binned':
        # detector k holds the events ints[(k + j) % n] for j < 1 + k % n, one detector is empty
        n = len(ints)
        ev = [[(k + j) % n for j in range((1 + k % n) if k != 1 else 0)] for k in range(nd)]
        flat = [ints[i] for row in ev for i in row]
        begin = np.cumsum([0, *[len(r) for r in ev][:-1]])
        lam = sc.bins(dim='event', data=sc.array(dims=['event'], values=flat, unit=lu, dtype=dtype),
                      begin=sc.array(dims=['det'], values=begin, unit=None, dtype='int64'),
                      end=sc.array(dims=['det'], values=begin + np.asarray([len(r) for r in ev]), unit=None, dtype='int64'))
        comps = _q_call(lam, v1, v2)
        qv = tof.Q_vec_from_Q_elements(Qx=comps[0], Qy=comps[1], Qz=comps[2])
        qs = tof.Q_from_wavelength(wavelength=lam, two_theta=tt)
        rec.transitions += 3
        rec.cls('wl_binned_empty_bin')
        if qv.bins is None or qv.bins.unit != qunit:
            rec.viol(SITE_Q, 'wrong_unit', f'binned Q_vec: unit {qv.bins.unit if qv.bins is not None else qv.unit}', dtype=dtype)
            return
        data = qv.bins.constituents['data'].values
        qsd = qs.bins.constituents['data'].to(unit=qunit, dtype='float64').values
        ddt = comps[0].bins.constituents['data'].dtype
        pos = 0
        for k in range(nd):
            for i in ev[k]:
                judge((i, k), tuple(float(x) for x in data[pos]), 'binned wavelength', float(qsd[pos]), ddt)
                pos += 1
    else:  # the coordinate graphs
        from scippneutron.conversion.graph import beamline as beamline_graph

        lam = sc.array(dims=['wavelength'], values=list(ints), unit=lu, dtype=dtype)
        da = sc.DataArray(sc.ones(dims=['det', 'wavelength'], shape=[nd, len(ints)]), coords={'wavelength': lam, 'incident_beam': v1, 'scattered_beam': v2})
        graph = {**beamline_graph.beamline(scatter=True), **tof_graph.elastic_Q_vec('wavelength'), **tof_graph.elastic_Q('wavelength')}
        out = da.transform_coords(['Q_vec', 'Q'], graph=graph, rename_dims=False, keep_intermediate=True, keep_inputs=True)
        rec.transitions += 1
        rec.cls('graph_route')
        vals = out.coords['Q_vec'].transpose(['wavelength', 'det']).values
        qs = out.coords['Q'].to(unit=qunit, dtype='float64').transpose(['wavelength', 'det']).values
        qx = out.coords['Qx'].transpose(['wavelength', 'det'])
        for il in range(len(ints)):
            for k in range(nd):
                judge((il, k), tuple(float(x) for x in vals[il][k]), 'graph route', float(qs[il][k]), qx.dtype)
                if float(qx.values[il][k]) != float(vals[il][k][0]):
                    rec.viol(SITE_QV, 'lossy_reassembly', 'graph route: Qx differs from Q_vec.x', dtype=dtype)


def _len_factor(unit):
    return hp.F(hp.LENGTH[unit])


def _run_hklunits(case, rec):
    """Every pairing of the length unit of Q / wavelength with the length unit of UB / B: hkl carries a *scaled* dimensionless
    unit; the defining relation must hold for the physical quantities, and h, k, l must reassemble to hkl_vec including the unit."""
    qu, bu, bi, rep = case['qu'], case['bu'], case['B'], case['rep']
    bname, bmat = B_MATS[bi]
    q_unit, b_unit = sc.Unit('1/' + qu), sc.Unit('1/' + bu)
    fq, fb = 1 / _len_factor(qu), 1 / _len_factor(bu)  # 1/unit -> 1/m
    rec.cls('hkl_units_same' if qu == bu else 'hkl_units_mixed')
    ang = hp.LENGTH['angstrom']
    b_vals = bmat * float(hp.LENGTH[bu] / ang)  # the same lattice expressed in 1/bu
    q_scale = float(hp.LENGTH[qu] / ang)
    q_set = [tuple(x * q_scale for x in q) for q in Q_SET if any(q)]
    B = sc.spatial.linear_transform(value=b_vals, unit=b_unit)
    want_unit = q_unit / b_unit
    mult = fq / fb  # exact factor of the scaled dimensionless unit (Fraction arithmetic in hp.F)

    def physical_residual(rmat, ub_val, hv, q):
        """|2 pi R UB hkl - Q| / |Q| in SI, hkl as a physical (plain) number = value x unit multiplier."""
        a_mp = geom.matmul(rmat, [[x * fb for x in row] for row in geom.mat(ub_val)])
        lhs = hp.scale(geom.matvec(a_mp, [hp.mpf(x) * mult for x in hv]), 2 * hp.PI)
        qv = [hp.mpf(x) * fq for x in q]
        return hp.norm(hp.sub(lhs, qv)), hp.norm(qv)

    def check_split(hvar, parts, what, **sub):
        rec.evals += 1
        rec.validated += 1
        ok_units = parts['h'].unit == parts['k'].unit == parts['l'].unit == hvar.unit
        ok_vals = (np.array_equal(parts['h'].values, hvar.fields.x.values) and np.array_equal(parts['k'].values, hvar.fields.y.values)
                   and np.array_equal(parts['l'].values, hvar.fields.z.values))
        again = None
        if ok_units and ok_vals:
            again = sc.spatial.as_vectors(parts['h'], parts['k'], parts['l'])
        if again is None or not sc.identical(again, hvar):
            rec.viol(SITE_HE, 'lossy_split', f'{what}: hkl_vec has unit [{hvar.unit}] but h, k, l come back with [{parts["h"].unit}], [{parts["k"].unit}], [{parts["l"].unit}]'
                     f' (values equal: {ok_vals}); reassembling them does not give hkl_vec back', q_unit=str(q_unit), b_unit=str(b_unit), **sub)
        else:
            rec.cls('split_reassemble_identical')
        # as physical numbers
        phys = [float(parts[c].to(unit='dimensionless', dtype='float64').values.ravel()[0]) for c in 'hkl']
        first = [float(x) for x in np.asarray(hvar.values).reshape(-1, 3)[0]]
        if any(abs(hp.mpf(p) - hp.mpf(f) * mult) > 4 * EPS * abs(hp.mpf(f) * mult) for p, f in zip(phys, first, strict=True)):
            rec.viol(SITE_HE, 'split_changes_physical_value', f'{what}: h,k,l as plain numbers {phys} but hkl_vec {first} [{hvar.unit}] means {[float(hp.mpf(f) * mult) for f in first]}',
                     q_unit=str(q_unit), b_unit=str(b_unit), **sub)

    for ri in UNIT_R:
        R = rot_variable(ri, rep)
        rmat = geom.quat_to_matrix(R.value) if rep == 'quat' else geom.mat(R.value)
        for ui in UNIT_U:
            U = sc.spatial.linear_transform(value=rot_matrix(ui))
            ub = tof.ub_matrix_from_u_and_b(u_matrix=U, b_matrix=B)
            rec.transitions += 1
            a = np.array([[float(x) for x in row] for row in geom.matmul(rmat, geom.mat(ub.value))])
            cond = float(np.linalg.cond(a))
            sub = {'R': ri, 'U': ui, 'B': bname, 'rep': rep}
            Qa = gc.vecs(q_set, q_unit, dim='Q')
            ha = tof.hkl_vec_from_Q_vec(Q_vec=Qa, ub_matrix=ub, sample_rotation=R)
            rec.transitions += 1
            if ha.unit != want_unit:
                rec.viol(SITE_HKL, 'wrong_unit', f'Q in [{q_unit}], UB in [{b_unit}]: hkl unit [{ha.unit}], expected [{want_unit}]', **sub)
                continue
            for j, q in enumerate(q_set):
                hv = tuple(float(x) for x in ha.values[j])
                rec.states += 1
                rec.nontrivial += 1
                rec.evals += 1
                rec.validated += 1
                rec.cls('hkl_judged')
                rec.observe(hv)
                res, qn = physical_residual(rmat, ub.value, hv, q)
                if not all(math.isfinite(x) for x in hv) or res > 64 * EPS * cond * qn:
                    rec.viol(SITE_HKL, 'residual_mixed_units', f'Q [{q_unit}], UB [{b_unit}]: |2pi R UB hkl - Q| / |Q| = {float(res / qn):.3e} > {64 * EPS * cond:.3e} '
                             f'(hkl={list(hv)} [{ha.unit}], Q={list(q)})', Q=list(q), **sub)
            check_split(ha, tof.hkl_elements_from_hkl_vec(hkl_vec=ha), 'array of Q', **sub)
            h0 = tof.hkl_vec_from_Q_vec(Q_vec=sc.vector(list(q_set[3]), unit=q_unit), ub_matrix=ub, sample_rotation=R)
            check_split(h0, tof.hkl_elements_from_hkl_vec(hkl_vec=h0), '0-d Q', **sub)
            rec.transitions += 4
        # the coordinate graph: wavelength in the length unit of Q, B in 1/bu
        lam_val = [1.8 * float(ang / hp.LENGTH[qu]), 0.5 * float(ang / hp.LENGTH[qu])]
        b1 = (0.0, 0.0, 10.0)
        b2s = [gc.beam_at_angle((0.0, 0.0, 1.0), gc.unit_dir((1.0, 0.3, 0.0)), a_, 2.0) for a_ in (0.3, 1.2, 2.9)]
        U = sc.spatial.linear_transform(value=rot_matrix(UNIT_U[1]))
        da = sc.DataArray(
            sc.ones(dims=['pixel', 'wavelength'], shape=[3, 2]),
            coords={'wavelength': sc.array(dims=['wavelength'], values=lam_val, unit=qu), 'incident_beam': gc.vec(b1, 'm'),
                    'scattered_beam': gc.vecs(b2s, 'm', dim='pixel'), 'u_matrix': U, 'b_matrix': B, 'sample_rotation': R},
        )
        out = da.transform_coords(['hkl_vec', 'h', 'k', 'l', 'Q_vec', 'ub_matrix'], graph=tof_graph.elastic_hkl('wavelength'), keep_intermediate=True, keep_inputs=True, rename_dims=False)
        rec.transitions += 1
        rec.cls('graph_route')
        hvec = out.coords['hkl_vec']
        sub = {'R': ri, 'U': UNIT_U[1], 'B': bname, 'rep': rep, 'route': 'graph'}
        if hvec.unit != want_unit or out.coords['Q_vec'].unit != q_unit:
            rec.viol(SITE_HKL, 'wrong_unit', f'graph route: hkl unit [{hvec.unit}] / Q unit [{out.coords["Q_vec"].unit}]', **sub)
            continue
        qv = out.coords['Q_vec'].transpose(['pixel', 'wavelength']).values
        hk = hvec.transpose(['pixel', 'wavelength']).values
        ubv = out.coords['ub_matrix'].value
        a = np.array([[float(x) for x in row] for row in geom.matmul(rmat, geom.mat(ubv))])
        cond = float(np.linalg.cond(a))
        for ip in range(3):
            for il in range(2):
                want_q = qvec.q_vec(lam_val[il], b1, b2s[ip])
                g = tuple(float(x) for x in qv[ip][il])
                _judge_q(rec, g, want_q, 2 * math.pi / lam_val[il], f'graph route, wavelength in {qu}', pixel=ip, lam=lam_val[il])
                hv = tuple(float(x) for x in hk[ip][il])
                rec.states += 1
                rec.evals += 1
                rec.validated += 1
                res, qn = physical_residual(rmat, ubv, hv, g)
                if res > 64 * EPS * cond * qn:
                    rec.viol(SITE_HKL, 'residual_mixed_units', f'graph route: Q [{q_unit}], UB [{b_unit}]: relative residual {float(res / qn):.3e} > {64 * EPS * cond:.3e}', **sub)
        check_split(hvec, {c: out.coords[c] for c in 'hkl'}, 'graph route', **sub)


# ---------------------------------------------------------------------------------------
# layout / reuse exploration shared by the kernel properties (props/layouts.py): every combination of operand layouts
# (0-d, 1-d over either of two dims, 2-d, 2-d transposed) must equal the element-wise 0-d calls, also after every operand
# has been overwritten in place and the kernel is called again.

from props import layouts as _layouts  # noqa: E402

_LAYOUT_SITES = ['conversion.tof.Q_elements_from_wavelength', 'conversion.tof.Q_vec_from_Q_elements', 'conversion.tof.hkl_vec_from_Q_vec']
_cases_main, _run_case_main = cases, run_case
RULE = RULE + ' Layout cases: every combination of operand layouts (0d / 1-d a / 1-d b / 2-d ab / 2-d stored ba) per kernel x unit-dtype variant, each followed by an in-place update of all operands and a second call.'
REQUIRED_CLASSES = [*REQUIRED_CLASSES, 'layout_ok', 'reuse_after_inplace_update_ok', 'layout_transposed_operand', 'repeat_call_identical']


def cases(tier):
    return _cases_main(tier) + _layouts.cases_for(_LAYOUT_SITES, variants=(0, 1, 2, 3, 4) if tier == 'thorough' else (0, 1, 3))


def run_case(case, rec):
    if case.get('kind') == 'layout':
        _layouts.run_layout_case(case, rec)
    else:
        _run_case_main(case, rec)


_DEEP_CLASSES = [
    'unit_m', 'wavelength_int64', 'incident_array', 'both_beams_same_dim', 'both_beams_outer', 'int_valued_beams', 'b_unit_1/nm',
    'b_unit_1/angstrom', 'ub_direct', 'U_array', 'R_U_Q_elementwise', 'R_Q_outer',
]
_DTYPE_UNIT_CLASSES = [
    *('wl_dtype_' + d for d in WL_DTYPES), *('wl_layout_' + x for x in WL_LAYOUTS), 'wl_binned_empty_bin', 'hkl_units_same', 'hkl_units_mixed',
    'split_reassemble_identical',
]
RULE = RULE + (' Dtype/unit cases (both tiers): qdtype = wavelength dtype {float64, float32, int64, int32} x unit {angstrom, nm} x layout {0-d (+ Python int), '
               'dense (+ sc.arange), binned with an empty bin, coordinate graph}, whole-number wavelengths 1, 2, 3, 20 angstrom / 2, 1 nm x 4 scattered beams; '
               'hklunits = every pairing of {angstrom, nm, um, m} for Q / wavelength with their reciprocals for B / UB x 3 B x 2 representations of R, inside '
               '4 R x 2 U x 11 Q (kernel route) and the hkl coordinate graph; hkl judged as a physical quantity (value x unit multiplier), h, k, l must '
               'reassemble to an identical hkl_vec including the unit.')
BOUND = {k: v + '; qdtype: 4 dtypes x 2 units x 4 layouts; hklunits: 4 x 4 unit pairings x 3 B x 2 representations' for k, v in BOUND.items()}
REQUIRED_CLASSES = {'quick': [*REQUIRED_CLASSES, *_DTYPE_UNIT_CLASSES], 'thorough': [*REQUIRED_CLASSES, *_DEEP_CLASSES, *_DTYPE_UNIT_CLASSES]}
