"""C09 - computations never modify their arguments; results do not depend on call history.

Part A (shape G): every registered public entry point x the full aliasing alphabet of its
arguments; oracle: deep bitwise fingerprint of every argument before == after.
Part B (shape H): breadth-first enumeration of all event sequences (factory/lookup call,
or mutation of an earlier result through its public surface) up to depth 3 within a
sharing group and depth 2 across groups; oracle: the fresh-observation fingerprint (every
factory/lookup called anew) equals the initial one after every prefix, and results that
were not mutated still equal their fingerprint at hand-out time.
"""
from __future__ import annotations

import datetime as _dt
import importlib
import io
import itertools

import scipp as sc

import scippneutron as scn
from mc.snapshot import fp
from props import c09_registry as reg
from scippneutron import atoms
from scippneutron.conversion.graph import beamline as gb
from scippneutron.conversion.graph import tof as gt
from scippneutron.io import cif
from scippneutron.metadata import Beamline, Person
from scippneutron.peaks import model as pm

ID = 'C09'
LEVEL = 'model_checking'
RULE = (
    'part A: full product, per registered call site, of the per-argument aliasing alphabet (unit x dtype x shape); '
    'part B: all event sequences (call / mutate-earlier-result) up to depth 3 within a sharing group (graph factories, '
    'bundled lookups, model combinators, CIF combinators) and depth 2 across groups, replayed from a reset state. '
    'Non-trivial: part A case whose call returned normally; part B history containing at least one mutation event. '
    'State = (history class, fresh-observation fingerprint)'
)
ASSUMPTIONS = [
    'whether an output may alias an input is not judged (only modification by the call itself)',
    'mutations only through the public surface of returned objects',
    'between histories lru caches are cleared; a poisoned worker aborts as broken harness',
]
REQUIRED_CLASSES = ['A_returned', 'A_rejected', 'A_repeat_identical', 'B_silent_replay_identical', 'B_history', 'B_mutation_applied', 'group_graph', 'group_atoms', 'group_models', 'group_cif', 'cross_group']
BOUND = {'quick': 'part A full product; part B depth 3 within groups (graph group: depth 2 + (call,mutate,call)), depth 2 across groups', 'thorough': 'part A full product; part B full depth 3 for graph factories, depth 4 for lookups / model combinators / CIF combinators, depth 2 across groups'}
CHUNK = 4


# ======================================================================================
# part A
# ======================================================================================


_REJECT = (sc.UnitError, sc.DTypeError, sc.DimensionError, sc.VariancesError, sc.BinEdgeError, sc.CoordError, ValueError, TypeError, NotImplementedError)


def _result_fp(out):
    """Fingerprint of a result; objects without a value identity (builders, diagrams, file handles) count as opaque."""
    if out is None or isinstance(out, sc.Variable | sc.DataArray | sc.Dataset | sc.DataGroup | dict | list | tuple | str | float | int):
        return fp(out)
    return ('opaque', type(out).__name__)


def _run_A(site, fn, args, desc, rec, rebuild=None):
    before = {k: fp(v) for k, v in args.items()}
    rec.transitions += 1
    try:
        out = fn(**args)
        rec.cls('A_returned')
        rec.nontrivial += 1
    except _REJECT as e:
        out = e
        rec.cls('A_rejected')
    if rebuild is not None and not isinstance(out, Exception):
        # same call again with freshly built, equal arguments: the result may not depend on the earlier call
        fn2, args2, _ = rebuild()
        rec.transitions += 1
        rec.validated += 1
        try:
            out2 = fn2(**args2)
            same = _result_fp(out2) == _result_fp(out)
        except _REJECT as e:
            same, out2 = False, e
        if not same:
            rec.viol(site, 'result_depends_on_call_history', f'second call with equal, freshly built arguments gives a different result ({desc}): {str(out2)[:120]}', desc=desc)
        else:
            rec.cls('A_repeat_identical')
        del out2
    rec.evals += 1
    rec.states += 1
    after = {k: fp(v) for k, v in args.items()}
    rec.observe(site, desc)
    for k in before:
        rec.validated += 1
        if before[k] != after[k]:
            rec.viol(site, 'argument_modified', f'argument {k!r} changed by the call ({desc})', arg=k, desc=desc)
    del out


# ======================================================================================
# part B: sharing groups
# ======================================================================================


class _Frozen(_dt.datetime):
    @classmethod
    def now(cls, tz=None):
        return _dt.datetime(2024, 5, 6, 7, 8, 9, tzinfo=_dt.timezone.utc)


def _mut_dict(d, how):
    keys = list(d)
    if how == 'del':
        del d[keys[0]]
    elif how == 'insert':
        d['zzz_inserted'] = 1
    elif how == 'replace':
        d[keys[0]] = None
    elif how == 'clear':
        d.clear()


def _mut_var(v, how):
    if how == 'scale':
        v *= 2.0
    elif how == 'set':
        v.values = v.values * 0.0 + 42.0
    elif how == 'variance':
        if v.variances is not None:
            v.variances = v.variances * 0.0 + 7.0
        else:
            v *= 3.0


class Group:
    name = ''
    factories: list = []  # [(label, callable)]
    mutations: list = []  # [label]

    def reset(self):
        pass

    def fresh(self):
        return tuple((lbl, fp(f())) for lbl, f in self.factories)

    def mutate(self, obj, how):  # returns True if something was mutated
        raise NotImplementedError

    def observe(self, obj):
        return fp(obj)


_DA = None


def _da():
    global _DA
    if _DA is None:
        _DA = reg._beamline_da(0)
    return _DA


class GraphGroup(Group):
    name = 'graph'
    factories = (
        [(f'tof.elastic({s})', (lambda s=s: gt.elastic(s))) for s in ('tof', 'wavelength', 'energy', 'Q')]
        + [(f'tof.{n}(tof)', (lambda n=n: getattr(gt, n)('tof'))) for n in ('kinematic', 'elastic_dspacing', 'elastic_energy', 'elastic_Q', 'elastic_Q_vec', 'elastic_hkl', 'elastic_wavelength', 'direct_inelastic', 'indirect_inelastic')]
        + [(f'tof.{n}({st})', (lambda n=n, st=st: getattr(gt, n)(st))) for n, st in (
            ('elastic_dspacing', 'wavelength'), ('elastic_dspacing', 'energy'), ('elastic_energy', 'wavelength'), ('elastic_Q', 'wavelength'),
            ('elastic_Q_vec', 'wavelength'), ('elastic_hkl', 'wavelength'), ('elastic_wavelength', 'energy'), ('elastic_wavelength', 'Q'))]
        + [('beamline.beamline(True)', lambda: gb.beamline(scatter=True)), ('beamline.beamline(False)', lambda: gb.beamline(scatter=False))]
        + [(f'beamline.{n}()', (lambda n=n: getattr(gb, n)())) for n in ('incident_beam', 'scattered_beam', 'two_theta', 'L1', 'L2')]
        + [('beamline.Ltotal(True)', lambda: gb.Ltotal(scatter=True)), ('beamline.Ltotal(False)', lambda: gb.Ltotal(scatter=False))]
        + [
            ('conversion_graph(tof,wavelength,T,elastic)', lambda: scn.conversion_graph('tof', 'wavelength', True, 'elastic')),
            ('conversion_graph(tof,L1,T,elastic)', lambda: scn.conversion_graph('tof', 'L1', True, 'elastic')),
            ('conversion_graph(tof,energy_transfer,T,direct)', lambda: scn.conversion_graph('tof', 'energy_transfer', True, 'direct_inelastic')),
            ('conversion_graph(tof,energy_transfer,T,indirect)', lambda: scn.conversion_graph('tof', 'energy_transfer', True, 'indirect_inelastic')),
            ('conversion_graph(tof,wavelength,F,elastic)', lambda: scn.conversion_graph('tof', 'wavelength', False, 'elastic')),
            ('deduce_conversion_graph(da,tof,dspacing,T)', lambda: scn.deduce_conversion_graph(_da(), 'tof', 'dspacing', True)),
        ]
    )
    mutations = ['del', 'insert', 'replace', 'clear']

    def reset(self):
        importlib.reload(gb)
        importlib.reload(gt)

    def mutate(self, obj, how):
        if not isinstance(obj, dict) or not obj:
            return False
        _mut_dict(obj, how)
        return True


class AtomsGroup(Group):
    name = 'atoms'
    factories = (
        [(f'Atom.for_isotope({n})', (lambda n=n: atoms.Atom.for_isotope(n))) for n in ('H', '3He', 'V')]
        + [(f'ScatteringParams.for_isotope({n})', (lambda n=n: atoms.ScatteringParams.for_isotope(n))) for n in ('H', '3He', 'V')]
        + [('reference_wavelength()', atoms.reference_wavelength)]
    )
    mutations = ['scale', 'set', 'variance']

    def reset(self):
        for f in (atoms.Atom.for_isotope, atoms.ScatteringParams.for_isotope):
            if hasattr(f, 'cache_clear'):
                f.cache_clear()
        for name in dir(atoms):
            o = getattr(atoms, name)
            if hasattr(o, 'cache_clear'):
                o.cache_clear()

    def fresh(self):
        out = []
        for lbl, f in self.factories:
            o = f()
            if isinstance(o, atoms.Atom):
                w = m = None
                try:
                    w = o.atomic_weight
                except ValueError:
                    pass
                try:
                    m = o.atomic_mass
                except ValueError:
                    pass
                out.append((lbl, fp((o.isotope, o.z, w, m))))
            else:
                out.append((lbl, fp(o)))
        return tuple(out)

    def observe(self, obj):
        if isinstance(obj, atoms.Atom):
            return ('Atom', obj.isotope, obj.z)  # the public Variables are handed out as copies
        return fp(obj)

    def mutate(self, obj, how):
        if isinstance(obj, sc.Variable):
            _mut_var(obj, how)
            return True
        if isinstance(obj, atoms.Atom):
            done = False
            for attr in ('atomic_weight', 'atomic_mass'):
                try:
                    _mut_var(getattr(obj, attr), how)
                    done = True
                except ValueError:
                    pass
            return done
        if isinstance(obj, atoms.ScatteringParams):
            done = False
            for f in obj.__dataclass_fields__:
                v = getattr(obj, f)
                if isinstance(v, sc.Variable):
                    _mut_var(v, how)
                    done = True
            return done
        return False


_X = None


def _model_obs(m):
    global _X
    if _X is None:
        _X = (reg._spectrum(0),)
    (da,) = _X
    x, p = reg._peak_params(m, 'angstrom', 'counts', 'float64')
    try:
        val = m(x, **p)
    except Exception as e:  # noqa: BLE001
        val = repr(e)
    return fp((type(m).__name__, m.prefix, sorted(m.param_names), m.param_bounds, val, m.guess(da)))


class ModelsGroup(Group):
    """Results live in the history; 'factories' here are the combinators applied to the
    two base models created fresh per history."""

    name = 'models'
    mutations = ['set_add', 'dict_del', 'var_scale']

    def bases(self):
        return [pm.GaussianModel(prefix='p_'), pm.PolynomialModel(degree=1, prefix='b_')]

    combinators = ['with_prefix', 'add', 'param_names', 'param_bounds', 'guess', 'copy_via_prefix_same']

    def apply(self, comb, live):
        """Apply combinator to the live objects; returns new result."""
        models = [o for o in live if isinstance(o, pm.Model)]
        if comb == 'with_prefix':
            return models[-1].with_prefix('q_')
        if comb == 'copy_via_prefix_same':
            return models[0].with_prefix(models[0].prefix)
        if comb == 'add':
            a, b = models[0], models[1]
            return a + b
        if comb == 'param_names':
            return models[-1].param_names
        if comb == 'param_bounds':
            return models[-1].param_bounds
        if comb == 'guess':
            return models[-1].guess(reg._spectrum(0))
        raise ValueError(comb)

    def observe(self, obj):
        if isinstance(obj, pm.Model):
            return _model_obs(obj)
        return fp(obj)

    def mutate(self, obj, how):
        if how == 'set_add' and isinstance(obj, set):
            obj.add('zzz')
            return True
        if how == 'dict_del' and isinstance(obj, dict) and obj:
            del obj[next(iter(obj))]
            return True
        if how == 'var_scale' and isinstance(obj, dict):
            done = False
            for v in obj.values():
                if isinstance(v, sc.Variable):
                    v *= 2.0
                    done = True
            return done
        return False


def _cif_text(b):
    buf = io.StringIO()
    if isinstance(b, cif.CIF):
        b.copy().save(buf)  # copy() starts a new id sequence: a repeatable observation
    elif isinstance(b, cif.Block):
        cif.save_cif(buf, b)
    return buf.getvalue()


class CifGroup(Group):
    name = 'cif'
    mutations = ['rename', 'recomment', 'schema_add', 'block_add']
    combinators = ['with_authors', 'with_beamline', 'with_reducers', 'with_reduced_powder_data', 'with_powder_calibration', 'copy', 'schema', 'save', 'block_copy', 'block_schema']

    def bases(self):
        cif.datetime = _Frozen
        b = cif.Block('blk', [{'a.b': 1.5}], comment='c0')
        return [cif.CIF('base', comment='top'), b]

    def apply(self, comb, live):
        cifs = [o for o in live if isinstance(o, cif.CIF)]
        blocks = [o for o in live if isinstance(o, cif.Block)]
        c = cifs[-1]
        if comb == 'with_authors':
            return c.with_authors(Person(name='A B', role='r1', corresponding=True), Person(name='C D', email='c@d.org'))
        if comb == 'with_beamline':
            return c.with_beamline(Beamline(name='BL', facility='ESS'))
        if comb == 'with_reducers':
            return c.with_reducers('prog 1.0')
        if comb == 'with_reduced_powder_data':
            da = sc.DataArray(sc.array(dims=['tof'], values=[13.6, 26.0], variances=[0.7, 1.1]), coords={'tof': sc.array(dims=['tof'], values=[1.2, 1.4], unit='us')})
            return c.with_reduced_powder_data(da)
        if comb == 'with_powder_calibration':
            cal = sc.DataArray(sc.array(dims=['cal'], values=[3.4, 0.2]), coords={'power': sc.array(dims=['cal'], values=[0, 1], unit=None)})
            return c.with_powder_calibration(cal)
        if comb == 'copy':
            return c.copy()
        if comb == 'schema':
            return c.schema
        if comb == 'save':
            buf = io.StringIO()
            c.save(buf)
            return None
        if comb == 'block_copy':
            return blocks[-1].copy()
        if comb == 'block_schema':
            return blocks[-1].schema
        raise ValueError(comb)

    def observe(self, obj):
        if isinstance(obj, cif.CIF):
            return ('CIF', obj.name, obj.comment, fp(obj.schema), _cif_text(obj))
        if isinstance(obj, cif.Block):
            return ('Block', obj.name, obj.comment, fp(obj.schema), _cif_text(obj))
        return fp(obj)

    def mutate(self, obj, how):
        if how == 'rename' and isinstance(obj, cif.CIF | cif.Block):
            obj.name = 'renamed'
            return True
        if how == 'recomment' and isinstance(obj, cif.CIF | cif.Block):
            obj.comment = 'changed comment'
            return True
        if how == 'schema_add' and isinstance(obj, set):
            obj.add(cif.CIFSchema(name='x', version='1', location='nowhere'))
            return True
        if how == 'block_add' and isinstance(obj, cif.Block):
            obj.add({'z.z': 'added'})
            return True
        return False


GROUPS = {'graph': GraphGroup(), 'atoms': AtomsGroup(), 'models': ModelsGroup(), 'cif': CifGroup()}
_INITIAL = {}


def _initial(gname):
    if gname not in _INITIAL:
        g = GROUPS[gname]
        g.reset()
        if hasattr(g, 'factories') and g.factories:
            _INITIAL[gname] = g.fresh()
        else:
            _INITIAL[gname] = None
    return _INITIAL[gname]


def _events(gname):
    """Event alphabet of one group: ('call', k) and ('mut', how)."""
    g = GROUPS[gname]
    if gname in ('graph', 'atoms'):
        calls = [('call', k) for k in range(len(g.factories))]
    else:
        calls = [('call', c) for c in g.combinators]
    return calls, [('mut', h) for h in g.mutations]


def histories(tier):
    """All event sequences, as lists of [group, kind, arg, target]."""
    out = []
    for gname in GROUPS:
        calls, muts = _events(gname)
        depth = 4 if (tier == 'thorough' and gname != 'graph') else 3
        # a history is a list of events; a mutation targets an earlier result (by index into results)
        def gen(prefix, nres):
            if prefix:
                out.append(list(prefix))
            if len(prefix) == depth:
                return
            for c in calls:
                if tier == 'quick' and gname == 'graph' and len(prefix) == 2 and prefix[1][1] != 'mut':
                    continue  # quick: depth-3 only as (call, mutate, call)
                gen([*prefix, [gname, 'call', c[1], None]], nres + 1)
            for j in range(nres):
                for m in muts:
                    if tier == 'quick' and len(prefix) == 2 and gname == 'graph':
                        continue
                    gen([*prefix, [gname, 'mut', m[1], j]], nres)

        gen([], 2 if gname in ('models', 'cif') else 0)
    # across groups, depth 2: (call_g1, mutate) then (call_g2): the second group's fresh observation must be unaffected
    names = list(GROUPS)
    for g1, g2 in itertools.permutations(names, 2):
        c1, m1 = _events(g1)
        c2, _ = _events(g2)
        for a in c1[: 6 if tier == 'quick' else None]:
            for m in m1[:2]:
                for b in c2[: 6 if tier == 'quick' else None]:
                    base = 2 if g1 in ('models', 'cif') else 0
                    out.append([[g1, 'call', a[1], None], [g1, 'mut', m[1], base], [g2, 'call', b[1], None]])
    return out


def _run_history(hist, rec):
    groups = []
    for ev in hist:
        if ev[0] not in groups:
            groups.append(ev[0])
    for gname in groups:
        init = _initial(gname)
        g = GROUPS[gname]
        g.reset()
        if init is not None and g.fresh() != init:
            raise RuntimeError(f'broken harness: group {gname} does not reset to its initial observation')
    live = {gname: (GROUPS[gname].bases() if hasattr(GROUPS[gname], 'bases') else []) for gname in groups}
    handed = {gname: [(GROUPS[gname].observe(o), False) for o in live[gname]] for gname in groups}  # (fingerprint at hand-out, mutated?)
    site_of = lambda ev: f'history/{ev[0]}'  # noqa: E731
    any_mut = False
    rec.cls('B_history')
    if len(groups) > 1:
        rec.cls('cross_group')
    for step, ev in enumerate(hist):
        gname, kind, arg, target = ev
        g = GROUPS[gname]
        rec.cls('group_' + gname)
        rec.transitions += 1
        if kind == 'call':
            if gname in ('graph', 'atoms'):
                res = g.factories[arg][1]()
            else:
                res = g.apply(arg, live[gname])
            live[gname].append(res)
            handed[gname].append((g.observe(res), False))
        else:
            if target is None or target >= len(live[gname]):
                continue
            obj = live[gname][target]
            if g.mutate(obj, arg):
                any_mut = True
                rec.cls('B_mutation_applied')
                # every live object that IS this object (lookups may hand out the same object twice by identity;
                # that is exactly what is being tested) is marked via its fingerprint changing below
                handed[gname][target] = (None, True)
        # ---- invariants after this prefix
        for gn in groups:
            gg = GROUPS[gn]
            init = _initial(gn)
            if init is not None:
                now = gg.fresh()
                rec.validated += 1
                if now != init:
                    bad = [a[0] for a, b in zip(now, init, strict=True) if a != b]
                    rec.viol(site_of(ev), 'fresh_result_depends_on_history', f'after {hist[: step + 1]} a fresh call of {bad[:3]} differs from its initial observation', step=step, changed=bad[:6])
                    return any_mut
            for idx, (h0, mutated) in enumerate(handed[gn]):
                if mutated:
                    continue
                rec.validated += 1
                cur = gg.observe(live[gn][idx])
                if cur != h0:
                    rec.viol(site_of(ev), 'earlier_result_changed', f'after {hist[: step + 1]} result #{idx} of group {gn}, never mutated by the caller, no longer equals its fingerprint at hand-out', step=step, result=idx)
                    return any_mut
        rec.observe(step, kind)
    # ---- silent replay: the same events from a fresh state WITHOUT inspecting anything in between; what the results
    # look like at the end may not depend on whether earlier results were looked at (public getters are not allowed
    # to leave state behind that changes what later combinators hand out)
    final_obs = {gn: [GROUPS[gn].observe(o) for o in live[gn]] for gn in groups}
    for gn in groups:
        GROUPS[gn].reset()
    live2 = {gname: (GROUPS[gname].bases() if hasattr(GROUPS[gname], 'bases') else []) for gname in groups}
    for ev in hist:
        gname, kind, arg, target = ev
        g = GROUPS[gname]
        rec.transitions += 1
        if kind == 'call':
            live2[gname].append(g.factories[arg][1]() if gname in ('graph', 'atoms') else g.apply(arg, live2[gname]))
        elif target is not None and target < len(live2[gname]):
            g.mutate(live2[gname][target], arg)
    for gn in groups:
        rec.validated += 1
        silent = [GROUPS[gn].observe(o) for o in live2[gn]]
        if silent != final_obs[gn]:
            bad = [i for i, (a, b) in enumerate(zip(silent, final_obs[gn], strict=False)) if a != b]
            rec.viol(f'history/{gn}', 'result_depends_on_earlier_inspection', f'history {hist}: results {bad[:4]} of group {gn} look different when the same events are replayed without inspecting intermediate results', results=bad[:6])
            return any_mut
    rec.cls('B_silent_replay_identical')
    return any_mut


# ======================================================================================


def cases(tier):
    out = []
    # part A, kernels: group ~40 combos per case
    kc = reg.kernel_cases()
    by_site = {}
    for site, combo in kc:
        by_site.setdefault(site, []).append(combo)
    for site, combos in by_site.items():
        for i in range(0, len(combos), 60):
            out.append({'part': 'A-kernel', 'site': site, 'combos': combos[i : i + 60]})
    for site, f in reg.OBJECT_SITES.items():
        for v in range(f.n):
            out.append({'part': 'A-object', 'site': site, 'variant': v})
    hs = histories(tier)
    for i in range(0, len(hs), 50):
        out.append({'part': 'B', 'histories': hs[i : i + 50]})
    return out


def run_case(case, rec):
    if case['part'] == 'A-kernel':
        for combo in case['combos']:
            fn, args, desc = reg.build_kernel(case['site'], combo)
            _run_A(case['site'].split('/')[0], fn, args, desc, rec, rebuild=lambda c=combo: reg.build_kernel(case['site'], c))
    elif case['part'] == 'A-object':
        fn, args, desc = reg.OBJECT_SITES[case['site']](case['variant'])
        _run_A(case['site'], fn, args, desc, rec, rebuild=lambda: reg.OBJECT_SITES[case['site']](case['variant']))
    else:
        seen = set()
        for h in case['histories']:
            m = _run_history(h, rec)
            rec.evals += 1
            if m:
                rec.nontrivial += 1
            seen.add(repr(h))
        rec.states += len(seen)
        for g in GROUPS.values():
            g.reset()
