"""C20 - bundled nuclear data are returned verbatim; attenuation follows the 1/v law.

Shape T: every row of the three bundled CSV tables (enumerated completely) through both
lookups, cold and warm cache; a fixed near-miss menu derived from every name; a grid of
materials x wavelength / density units and values.  Oracle: ref/tables.py (csv module)
and exact rational arithmetic.
"""
from __future__ import annotations

import os
import string
from fractions import Fraction

import numpy as np
import scipp as sc
import scippneutron.atoms as atoms_mod
from scippneutron.absorption.material import Material
from scippneutron.atoms import Atom, ScatteringParams

from ref import tables

ID = 'C20'
LEVEL = 'model_checking'
RULE = (
    'rows: every name of scattering_parameters.csv (371), atomic_weights.csv (118) and atomic_masses.csv (3557) is looked up '
    'through Atom.for_isotope and ScatteringParams.for_isotope, once in a pass without cache clearing (more names than the '
    'lru_cache holds -> evictions) and once after cache_clear() before each call; near-misses: a fixed menu of ~60 name '
    'mutations (strip mass number, append each letter a-z, drop a letter, case changes, blanks, leading zero, trailing digit, '
    'neighbouring mass number / element, comma forms) applied to every name of the two small tables and to every 10th '
    '(thorough: every) mass row, plus "", header words and numeric cells; attenuation: 5 materials x 3 wavelength units x 3 '
    'density units x 3 wavelengths x 3 densities, scalar and array wavelength. A lookup is non-trivial when the model '
    'expects data; distinct = distinct (name, lookup) pairs'
)
ASSUMPTIONS = [
    'the CSV files under $VERIF_REPO/src/scippneutron/atoms are the tables meant by the property (read with the csv module)',
    'scipp scalar construction, units and unit conversion are the trusted base',
    '"rejected" = any exception',
    'attenuation tolerance 1e-14 relative (DESIGN C20), evaluated in exact rationals on the float inputs; scalar calls with variance-carrying density / wavelength are also judged for their variance: first-order propagation of the law with n, sigma_s, sigma_a, lambda independent (1e-9 relative)',
]
BOUND = {
    'quick': 'all 4046 rows x 2 lookups x cold/warm; near-miss menu on 489 small-table names and every 10th mass row; 405 + 135 attenuation calls',
    'thorough': 'same with the near-miss menu on every mass row',
}
REQUIRED_CLASSES = [
    'sp_found', 'sp_rejected', 'sp_field_none', 'sp_field_value_only', 'sp_field_with_variance',
    'atom_element', 'atom_isotope', 'atom_rejected', 'weight_blank_raises', 'weight_present', 'mass_absent_raises', 'mass_present',
    'cold', 'warm', 'nearmiss_hits_other_row', 'nearmiss_rejected', 'attenuation_ok', 'attenuation_uncertainty_ok', 'attenuation_array', 'attenuation_same_number_other_unit', 'attenuation_int64', 'attenuation_float32',
]

DIR = os.path.dirname(os.path.abspath(atoms_mod.__file__))
_TAB = None


def tab():
    global _TAB
    if _TAB is None:
        _TAB = tables.load(DIR)
    return _TAB


def _chunks(seq, size):
    return [seq[i : i + size] for i in range(0, len(seq), size)]


def cases(tier):
    t = tab()
    out = []
    for table, names, size in (('scattering', list(t.scattering), 60), ('weights', list(t.weights), 60), ('masses', list(t.masses), 120)):
        for k, _ in enumerate(_chunks(names, size)):
            out.append({'kind': 'rows', 'table': table, 'chunk': k, 'size': size})
    out.append({'kind': 'fixed_nearmiss'})
    small = [*t.scattering, *t.weights]
    for k, _ in enumerate(_chunks(small, 10)):
        out.append({'kind': 'nearmiss', 'table': 'small', 'chunk': k, 'size': 10})
    mass_names = list(t.masses)
    sel = mass_names if tier == 'thorough' else mass_names[::10]
    for k, _ in enumerate(_chunks(sel, 20)):
        out.append({'kind': 'nearmiss', 'table': 'masses' if tier == 'thorough' else 'masses_every_10th', 'chunk': k, 'size': 20})
    for mat in MATERIALS:
        for lu in LAMBDA_UNITS:
            for du in DENSITY_UNITS:
                out.append({'kind': 'attenuation', 'material': mat, 'wavelength_unit': lu, 'density_unit': du})
    return out


def _names_of(case):
    t = tab()
    if case['table'] == 'scattering':
        names = list(t.scattering)
    elif case['table'] == 'weights':
        names = list(t.weights)
    elif case['table'] == 'masses':
        names = list(t.masses)
    elif case['table'] == 'masses_every_10th':
        names = list(t.masses)[::10]
    else:
        names = [*t.scattering, *t.weights]
    return _chunks(names, case['size'])[case['chunk']]


# ---------------------------------------------------------------------------------------
# lookups


def _check_quantity(rec, site, name, field, got, want, sub):
    """got: scipp Variable | None; want: (value, variance, unit) | None."""
    if want is None:
        if got is not None:
            rec.viol(site, 'value_where_table_blank', f'{name!r}.{field} = {got.value!r}, table is blank', name=name, field=field, **sub)
            return False
        return True
    if got is None:
        rec.viol(site, 'missing_value', f'{name!r}.{field} is None, table has {want}', name=name, field=field, **sub)
        return False
    value, variance, unit = want
    ok = True
    if not isinstance(got, sc.Variable) or got.ndim != 0 or got.dtype != sc.DType.float64:
        rec.viol(site, 'not_a_float_scalar', f'{name!r}.{field} = {got!r}', name=name, field=field, **sub)
        return False
    if got.value != value:
        rec.viol(site, 'wrong_value', f'{name!r}.{field} = {got.value!r}, table {value!r}', name=name, field=field, **sub)
        ok = False
    gv = got.variance
    # the table holds the standard uncertainty, the Variable its square: the square may be rounded either way
    # (x*x and x**2 differ in the last place for some entries), so 2 ulp of the exact square are accepted
    if (gv is None) != (variance is None) or (gv is not None and abs(float(gv) - variance) > 4 * 2.0**-53 * variance):
        rec.viol(site, 'wrong_uncertainty', f'{name!r}.{field} variance {gv!r}, table std^2 {variance!r}', name=name, field=field, **sub)
        ok = False
    if got.unit != sc.Unit(unit):
        rec.viol(site, 'wrong_unit', f'{name!r}.{field} unit {got.unit!r}, expected {unit}', name=name, field=field, **sub)
        ok = False
    rec.observe(got.value, gv)
    return ok


def check_scattering(rec, name, sub, *, nearmiss=False):
    want = tab().expected_scattering(name)
    rec.transitions += 1
    site = 'ScatteringParams.for_isotope'
    try:
        got = ScatteringParams.for_isotope(name)
    except Exception as e:  # noqa: BLE001 - rejection accepts any exception
        rec.evals += 1
        rec.validated += 1
        if want is not None:
            rec.viol(site, 'raises_for_tabulated_name', f'{name!r}: {type(e).__name__}: {e}', name=name, **sub)
        else:
            rec.cls('sp_rejected')
            if nearmiss:
                rec.cls('nearmiss_rejected')
        return
    rec.evals += 1
    rec.validated += 1
    if want is None:
        rec.viol(site, 'unknown_name_answered', f'{name!r} is not in the table but returned data of isotope={got.isotope!r} '
                 f'(b_c={got.coherent_scattering_length_re})', name=name, **sub)
        return
    rec.cls('sp_found')
    rec.nontrivial += 1
    if nearmiss:
        rec.cls('nearmiss_hits_other_row')
    if got.isotope != name:
        rec.viol(site, 'wrong_name', f'{name!r}: isotope field {got.isotope!r}', name=name, **sub)
    for field, w in want.items():
        _check_quantity(rec, site, name, field, getattr(got, field), w, sub)
        rec.cls('sp_field_none' if w is None else 'sp_field_value_only' if w[1] is None else 'sp_field_with_variance')


def _prop_or_exc(obj, attr):
    try:
        return getattr(obj, attr), None
    except Exception as e:  # noqa: BLE001 - judged by the caller
        return None, e


def check_atom(rec, name, sub, *, nearmiss=False):
    want = tab().expected_atom(name)
    rec.transitions += 1
    site = 'Atom.for_isotope'
    try:
        got = Atom.for_isotope(name)
    except Exception as e:  # noqa: BLE001 - rejection accepts any exception
        rec.evals += 1
        rec.validated += 1
        if want is not None:
            rec.viol(site, 'raises_for_tabulated_name', f'{name!r}: {type(e).__name__}: {e}', name=name, **sub)
        else:
            rec.cls('atom_rejected')
            if nearmiss:
                rec.cls('nearmiss_rejected')
        return
    rec.evals += 1
    rec.validated += 1
    if want is None:
        rec.viol(site, 'unknown_name_answered', f'{name!r} is not in the tables but returned z={got.z}, isotope={got.isotope!r}', name=name, **sub)
        return
    rec.nontrivial += 1
    if nearmiss:
        rec.cls('nearmiss_hits_other_row')
    rec.cls('atom_isotope' if want['mass'] is not None else 'atom_element')
    if got.isotope != name:
        rec.viol(site, 'wrong_name', f'{name!r}: isotope field {got.isotope!r}', name=name, **sub)
    if got.z != want['z'] or not isinstance(got.z, int):
        rec.viol(site, 'wrong_z', f'{name!r}: z={got.z!r}, table {want["z"]}', name=name, **sub)
    rec.observe(got.z)
    for attr, key, absent_cls, present_cls in (
        ('atomic_weight', 'weight', 'weight_blank_raises', 'weight_present'),
        ('atomic_mass', 'mass', 'mass_absent_raises', 'mass_present'),
    ):
        val, exc = _prop_or_exc(got, attr)
        w = want[key]
        if w is None:
            if exc is None:
                rec.viol(site, 'value_where_table_blank', f'{name!r}.{attr} = {val!r}, expected none', name=name, field=attr, **sub)
            else:
                rec.cls(absent_cls)
        else:
            if exc is not None:
                rec.viol(site, 'missing_value', f'{name!r}.{attr} raises {type(exc).__name__}, table has {w}', name=name, field=attr, **sub)
            else:
                _check_quantity(rec, site, name, attr, val, w, sub)
                rec.cls(present_cls)


def clear_caches():
    """Clear every lru_cache of the atoms module (public lookups and private loaders alike)."""
    import scippneutron.atoms as _atoms

    for obj in (Atom.for_isotope, ScatteringParams.for_isotope, *vars(_atoms).values()):
        if hasattr(obj, 'cache_clear'):
            obj.cache_clear()


def run_rows(case, rec):
    names = _names_of(case)
    clear_caches()
    # pass 1: no clearing between names (cache fills; with > 128 names per table earlier entries are evicted);
    # every name twice in a row so that the second call is certainly answered from the cache
    for name in names:
        for temp in ('first', 'warm'):
            check_scattering(rec, name, {'cache': temp})
            check_atom(rec, name, {'cache': temp})
        rec.cls('warm')
    # pass 2: reverse order, cold cache for every call
    for name in reversed(names):
        clear_caches()
        check_scattering(rec, name, {'cache': 'cold'})
        clear_caches()
        check_atom(rec, name, {'cache': 'cold'})
        rec.cls('cold')
    # pass 3: warm again after the whole chunk went through (entries of other names present)
    for name in names:
        check_scattering(rec, name, {'cache': 'warm_after_others'})
        check_atom(rec, name, {'cache': 'warm_after_others'})
    rec.states += len(names)
    clear_caches()


# ---------------------------------------------------------------------------------------
# near-misses


def nearmiss_menu(name):
    """Mutations of one table name, deterministic order, without the name itself."""
    t = tab()
    parts = tables.split_name(name)
    a, s = parts if parts else (None, name)
    a = a or ''
    out = []
    if a:
        out.append(s)  # strip the mass number
    out += [name + c for c in string.ascii_lowercase]  # add a letter (H -> He, B -> Be, 3H -> 3He ...)
    out += ['X' + name, a + 'X' + s, name + 'X']
    out += [name[:-1], a + s[1:], a + s[:-1]]  # remove a letter
    out += [name.lower(), name.upper(), name.swapcase(), name.title()]
    out += [' ' + name, name + ' ', name + '\n', name + '\t', '\t' + name, a + ' ' + s, name + '\r']
    out += ['0' + name, '00' + name]  # leading zero
    out += [name + '1', name + '0', s + a]  # trailing digit, symbol-number order
    out += [name + ',', name + ',1', ',' + name, name + ';', '"' + name + '"']
    elements = list(t.weights)
    if s in t.weights:
        i = elements.index(s)
        for j in (i - 1, i + 1, i + 8):
            if 0 <= j < len(elements):
                out.append(a + elements[j])  # the same mass number on a neighbouring element
    if a:
        for da in (-1, 1, 100):
            if int(a) + da > 0:
                out.append(str(int(a) + da) + s)  # neighbouring mass number of the same element
        out += [a, a + '.0' + s, '+' + name, '-' + name]
    seen = {name}
    res = []
    for x in out:
        if x not in seen:
            seen.add(x)
            res.append(x)
    return res


def run_nearmiss(case, rec):
    for name in _names_of(case):
        for nm in nearmiss_menu(name):
            for temp in ('cold', 'warm'):
                if temp == 'cold':
                    clear_caches()
                check_scattering(rec, nm, {'of': name, 'cache': temp}, nearmiss=True)
                check_atom(rec, nm, {'of': name, 'cache': temp}, nearmiss=True)
            rec.states += 1
    clear_caches()


def run_fixed_nearmiss(case, rec):
    t = tab()
    words = ['', ' ', ',', '\n', '#', 'Isotope', 'Element', 'Z', 'isotope', 'element', 'None', 'nan', 'inf', 'n', 'D', 'T', 'e']
    words += t.header_words
    for w in list(t.header_words):
        words += w.split(' ')
    # numeric cells of the first rows: a name must never match a value column
    for row in [*list(t.scattering.items())[:3], *list(t.weights.items())[:3], *list(t.masses.items())[:3]]:
        words += [c for c in row[1] if c]
        words.append(row[0] + ',' + row[1][0])
    seen = set()
    for w in words:
        if w in seen:
            continue
        seen.add(w)
        for temp in ('cold', 'warm'):
            if temp == 'cold':
                clear_caches()
            check_scattering(rec, w, {'cache': temp}, nearmiss=True)
            check_atom(rec, w, {'cache': temp}, nearmiss=True)
        rec.states += 1
    clear_caches()


# ---------------------------------------------------------------------------------------
# attenuation

MATERIALS = ('V', '157Gd', 'H', 'Cd', '3He')
LAMBDA_UNITS = ('angstrom', 'nm', 'm')
DENSITY_UNITS = ('1/angstrom^3', '1/nm^3', '1/m^3')
LENGTH = {'angstrom': Fraction(1, 10**10), 'nm': Fraction(1, 10**9), 'm': Fraction(1)}
BARN = Fraction(1, 10**28)
LAMBDAS_ANGSTROM = (0.1, 1.7982, 20.0)
DENSITIES_PER_A3 = (0.0722, 1.0, 1e-3)
REF_LAMBDA = Fraction(17982, 10000) * LENGTH['angstrom']  # the number stated by the property


def run_attenuation(case, rec):
    t = tab()
    name, lu, du = case['material'], case['wavelength_unit'], case['density_unit']
    row = t.expected_scattering(name)
    sig_s, sig_a = row['total_scattering_cross_section'], row['absorption_cross_section']
    if sig_s is None or sig_a is None:
        raise RuntimeError('harness: material without tabulated cross-sections')
    clear_caches()
    params = ScatteringParams.for_isotope(name)
    lfac = float(Fraction(1, 10**10) / LENGTH[lu])  # angstrom -> unit
    dunit_len = LENGTH[{'1/angstrom^3': 'angstrom', '1/nm^3': 'nm', '1/m^3': 'm'}[du]]
    dfac = float(dunit_len**3 / Fraction(1, 10**30))  # 1/angstrom^3 -> 1/unit^3

    def model(lam_value, n_value):
        lam = Fraction(lam_value) * LENGTH[lu]
        n = Fraction(n_value) / dunit_len**3
        return n * (Fraction(sig_s[0]) * BARN + Fraction(sig_a[0]) * BARN * lam / REF_LAMBDA)  # 1/m

    def judge(mu, lam_values, n_value, mode):
        rec.evals += 1
        sub = {'wavelengths': [float(v) for v in lam_values], 'density': n_value, 'mode': mode}
        try:
            si = mu.to(unit='1/m')
        except Exception as e:  # noqa: BLE001 - the result must be an inverse length
            rec.viol('Material.attenuation_coefficient', 'not_inverse_length', f'unit {mu.unit}: {type(e).__name__}: {e}', **sub)
            return
        vals = np.atleast_1d(si.values)
        if len(vals) != len(lam_values):
            rec.viol('Material.attenuation_coefficient', 'shape', f'{len(vals)} results for {len(lam_values)} wavelengths', **sub)
            return
        ok = True
        for got, lv in zip(vals, lam_values, strict=True):
            want = model(lv, n_value)
            rec.observe(float(got))
            err = abs(Fraction(float(got)) - want) / want
            rec.validated += 1
            if not err <= Fraction(1, 10**14):
                rec.viol('Material.attenuation_coefficient', 'rel_error',
                         f'{name} lambda={lv!r} {lu} n={n_value!r} {du}: mu={float(got)!r} 1/m, exact {float(want)!r} (rel {float(err):.3e})', **sub)
                ok = False
        if ok:
            rec.cls('attenuation_ok')

    for n_a3 in DENSITIES_PER_A3:
        n_value = n_a3 * dfac
        mat = Material(scattering_params=params, effective_sample_number_density=sc.scalar(n_value, unit=du))
        lam_values = [la * lfac for la in LAMBDAS_ANGSTROM]
        for lv in lam_values:
            rec.transitions += 1
            rec.states += 1
            rec.nontrivial += 1
            mu = mat.attenuation_coefficient(sc.scalar(lv, unit=lu))
            if mu.ndim != 0:
                rec.viol('Material.attenuation_coefficient', 'shape', f'scalar wavelength gave dims {mu.dims}')
                continue
            judge(mu, [lv], n_value, 'scalar')
        # uncertainties: the law is a product / sum of independent quantities (n, sigma_s, sigma_a, lambda), so the first-order
        # propagated variance of the result is defined by the law itself:
        #   var(mu) = (mu/n)^2 var(n) + n^2 var(sigma_s) + (n lambda/lambda0)^2 var(sigma_a) + (n sigma_a/lambda0)^2 var(lambda)
        for rel_n, rel_l in ((0.01, 0.0), (0.0, 0.02), (0.005, 0.01)):
            for lv in lam_values:
                rec.transitions += 1
                rec.states += 1
                nvar = sc.scalar(n_value, variance=(rel_n * n_value) ** 2, unit=du) if rel_n else sc.scalar(n_value, unit=du)
                wl = sc.scalar(lv, variance=(rel_l * lv) ** 2, unit=lu) if rel_l else sc.scalar(lv, unit=lu)
                matv = Material(scattering_params=params, effective_sample_number_density=nvar)
                try:
                    mu = matv.attenuation_coefficient(wl).to(unit='1/m')
                except sc.VariancesError:
                    rec.cls('attenuation_variances_refused')
                    continue
                lam = Fraction(lv) * LENGTH[lu]
                n = Fraction(n_value) / dunit_len**3
                ss, sa = Fraction(sig_s[0]) * BARN, Fraction(sig_a[0]) * BARN
                vs = Fraction(sig_s[1]) * BARN**2 if sig_s[1] else Fraction(0)  # tabulated entries are (value, variance, unit)
                va = Fraction(sig_a[1]) * BARN**2 if sig_a[1] else Fraction(0)
                m = n * (ss + sa * lam / REF_LAMBDA)
                want_var = (m / n) ** 2 * (Fraction(rel_n) * n) ** 2 + n**2 * vs + (n * lam / REF_LAMBDA) ** 2 * va + (n * sa / REF_LAMBDA) ** 2 * (Fraction(rel_l) * lam) ** 2
                got_var = Fraction(float(mu.variance)) if mu.variance is not None else Fraction(0)
                rec.validated += 1
                if want_var == 0:
                    continue
                if abs(got_var - want_var) > want_var * Fraction(1, 10**9):
                    rec.viol('Material.attenuation_coefficient', 'uncertainty', f'{name} lambda={lv!r}({rel_l:g}) {lu} n={n_value!r}({rel_n:g}) {du}: sigma(mu)={float(got_var) ** 0.5!r} 1/m, first-order propagation of the law gives {float(want_var) ** 0.5!r}', rel_n=rel_n, rel_lambda=rel_l, wavelength=lv)
                else:
                    rec.cls('attenuation_uncertainty_ok')
        # the same Material object asked for the same *number* in another unit (and again in the first unit): the answer
        # depends on the physical wavelength only, not on what this object was asked before
        other = {'angstrom': 'nm', 'nm': 'angstrom', 'm': 'angstrom'}[lu]
        for unit_seq in ((lu, other, lu), (other, lu)):
            for u in unit_seq:
                rec.transitions += 1
                rec.states += 1
                num = 2.5
                mu = mat.attenuation_coefficient(sc.scalar(num, unit=u))
                got = float(mu.to(unit='1/m', dtype='float64').value)
                lam = Fraction(num) * LENGTH[u]
                want = (Fraction(n_value) / dunit_len**3) * (Fraction(sig_s[0]) * BARN + Fraction(sig_a[0]) * BARN * lam / REF_LAMBDA)
                rec.validated += 1
                err = abs(Fraction(got) - want) / want
                if not err <= Fraction(1, 10**14):
                    rec.viol('Material.attenuation_coefficient', 'depends_on_earlier_query', f'{name}: same Material asked for {num} {u} after {unit_seq}: mu={got!r} 1/m, exact {float(want)!r}', unit=u, sequence=list(unit_seq))
                else:
                    rec.cls('attenuation_same_number_other_unit')
        # other wavelength dtypes: the law does not depend on how the number is stored
        if lu != 'm':
            for dtype, tol_note in (('int64', 'int'), ('int32', 'int'), ('float32', 'f32')):
                for lv in ((1, 2, 20) if tol_note == 'int' else (1.7982, 4.5)):
                    rec.transitions += 1
                    rec.states += 1
                    wl = sc.scalar(lv, unit=lu, dtype=dtype)
                    try:
                        mu = mat.attenuation_coefficient(wl)
                    except (sc.DTypeError, sc.UnitError) as e:
                        rec.cls('attenuation_dtype_refused_' + type(e).__name__)
                        continue
                    got = float(mu.to(unit='1/m', dtype='float64').value)
                    want = model(wl.value.item() if hasattr(wl.value, 'item') else wl.value, n_value)
                    rec.validated += 1
                    err = abs(Fraction(got) - want) / want
                    if not err <= (Fraction(1, 10**6) if tol_note == 'f32' else Fraction(1, 10**14)):
                        rec.viol('Material.attenuation_coefficient', 'rel_error_other_dtype', f'{name} lambda={lv!r} {lu} ({dtype}) n={n_value!r} {du}: mu={got!r} 1/m, exact {float(want)!r} (rel {float(err):.3e})', dtype=dtype, wavelength=lv)
                    else:
                        rec.cls('attenuation_' + dtype)
        rec.transitions += 1
        rec.states += 1
        try:
            mu = mat.attenuation_coefficient(sc.array(dims=['wavelength'], values=np.asarray(lam_values), unit=lu))
        except sc.VariancesError:
            # scipp refuses to broadcast a cross-section that carries an uncertainty over an array of wavelengths;
            # the property speaks about the value of the coefficient, not about which shapes are accepted
            if sig_s[1] is None and sig_a[1] is None:
                raise
            rec.cls('attenuation_array_refused_variance_broadcast')
            continue
        rec.cls('attenuation_array')
        judge(mu, lam_values, n_value, 'array')
    clear_caches()


def run_case(case, rec):
    kind = case['kind']
    if kind == 'rows':
        run_rows(case, rec)
    elif kind == 'nearmiss':
        run_nearmiss(case, rec)
    elif kind == 'fixed_nearmiss':
        run_fixed_nearmiss(case, rec)
    elif kind == 'attenuation':
        run_attenuation(case, rec)
    else:
        raise ValueError(kind)
