"""C13 - SQW content is what was supplied (pixels, run metadata, histogram metadata).

Oracle (i): the independent decoder (ref/sqwdec.py) vs the supplied values.
Oracle (ii): the package's own reader vs the decoder / supplied values, incl. the
physical dimension of every unit it attaches.
"""
from __future__ import annotations

import math
import warnings
from io import BytesIO

import numpy as np
import scipp as sc

from props import sqw_common as sq
from ref import sqwdec

ID = 'C13'
LEVEL = 'model_checking'
RULE = (
    'full grid (n_pixels x chunk x byteorder x sink x input units) with fingerprint pixel values; '
    'experiment grid (runs x mode x efix/en shapes x angle unit x energy unit x strings); metadata grid '
    '(histogram shape x q/e units x w present x sample unit). Non-trivial: file holds >= 1 pixel or >= 1 run; '
    'distinct = distinct canonical configuration hashes'
)
ASSUMPTIONS = [
    'format as documented in the repository (DESIGN 3.4)',
    'float32 rounding once = numpy astype(float32) of the float64 value converted by scipp to the declared unit',
    'clock frozen',
]
REQUIRED_CLASSES = ['integer_energies_and_angles', 'masked_pixel_data', 'experiments_in_real_file', 'all_rows_float32', 'non_ascii_strings', 'experiments_reused_ok', 'beyond_float32_range', 'pixels_equal', 'units_converted', 'indirect', 'direct', 'en2d', 'deg_input', 'reader_ok', 'multi_chunk', 'empty_string']
BOUND = {
    'quick': 'pixels 0..20000, chunk 1..100000, 3 unit sets; runs 1/2/20; both modes',
    'thorough': 'same plus 100000 pixels',
}


def cases(tier):
    out = []
    ns = [0, 1, 2, 9, 10, 13, 100, 8193, 20000]
    if tier == 'thorough':
        ns += [8191, 8192, 100000]
    for n in ns:
        chunks = sorted({c for c in (1, 2, 3, 9, 10, n - 1, n, n + 1, 8192, 100000) if c >= 1})
        for ch in chunks:
            if n >= 8191 and ch < 9 and tier == 'quick' and ch != 3:
                continue
            for units in ('default', 'alt', 'alt2'):
                if n >= 8191 and units != 'alt' and tier == 'quick':
                    continue
                for bo, sink in (('little', 'bytes'), ('big', 'path'), ('big', 'bytes'), ('little', 'path')):
                    if n >= 100 and (bo, sink) in (('big', 'bytes'), ('little', 'path')):
                        continue
                    out.append({'kind': 'pixels', 'n_pixels': n, 'chunk': ch, 'units': units, 'byteorder': bo, 'sink': sink})
    for n in (1, 2, 13):
        for bo in ('little', 'big'):
            out.append({'kind': 'pixels', 'n_pixels': n, 'chunk': 4, 'units': 'extreme', 'byteorder': bo, 'sink': 'bytes'})
    # single write calls above 1 MiB and around 2^16 pixels (block-wise copies, internal limits)
    for n, ch in ((29127, 29127), (29128, 29128), (30000, 100000), (65537, 65537), (70000, 70000)):
        for bo, sink in (('little', 'bytes'), ('big', 'bytes'), ('little', 'path')):
            out.append({'kind': 'pixels', 'n_pixels': n, 'chunk': ch, 'units': 'alt', 'byteorder': bo, 'sink': sink})
    # experiment objects reused after having been written once
    for how in ('setattr', 'copy', 'deepcopy', 'replace'):
        for mode in ('direct', 'indirect'):
            for bo in ('little', 'big'):
                out.append({'kind': 'reuse', 'how': how, 'mode': mode, 'byteorder': bo})
    # nearly constant rows (spread below 1e-5 relative / 1e-8 absolute, distinct in float32) and exactly constant rows
    for dtype, idt in (('float64', 'int64'), ('float32', 'int32'), ('float64', 'float32')):
        for n, ch in ((2, 4), (13, 3), (13, 8192)):
            for bo in ('little', 'big'):
                out.append({'kind': 'pixels', 'n_pixels': n, 'chunk': ch, 'units': 'narrow', 'byteorder': bo, 'sink': 'bytes', 'dtype': dtype, 'index_dtype': idt})
    for dtype in ('float32',):
        for n in (1, 13):
            out.append({'kind': 'pixels', 'n_pixels': n, 'chunk': 4, 'units': 'default', 'byteorder': 'little', 'sink': 'bytes', 'dtype': dtype})
    # every combination of value dtype and index dtype of the nine rows (all-float32 rows are what a pixel block read
    # from another file holds)
    for dtype in ('float64', 'float32'):
        for idt in ('int64', 'int32', 'float64', 'float32'):
            for n in (0, 1, 13):
                for bo in ('little', 'big'):
                    out.append({'kind': 'pixels', 'n_pixels': n, 'chunk': 4, 'units': 'alt' if dtype == 'float64' else 'default', 'byteorder': bo, 'sink': 'bytes', 'dtype': dtype, 'index_dtype': idt})
    for runs in (1, 2, 20):
        for mode in ('direct', 'indirect'):
            for en2d in ((False, True) if mode == 'indirect' else (False,)):
                for efix_array in ((False, True) if mode == 'direct' else (False,)):
                    for au in ('rad', 'deg'):
                        for eu in ('meV', 'eV', 'ueV'):
                            for strings in ('plain', 'empty', 'long', 'nonascii'):
                                for bo in ('little', 'big'):
                                    if runs == 20 and (strings != 'plain' or eu == 'ueV'):
                                        continue
                                    out.append({'kind': 'experiments', 'runs': runs, 'mode': mode, 'en2d': en2d, 'efix_array': efix_array, 'angle_unit': au, 'energy_unit': eu, 'strings': strings, 'byteorder': bo})
    # pixel data that carries masks (scipp data arrays often do): the statement says all N pixels and their extremes are
    # written; masks on the extreme pixels, on the last pixels, on all pixels; chunk sizes around the unmasked count
    for mask in ('extremes', 'tail', 'head', 'all', 'none_true', 'two_masks'):
        for n, ch in ((12, 1), (12, 4), (12, 5), (12, 12), (12, 8192), (13, 3), (1, 1)):
            for bo, sink in (('little', 'bytes'), ('big', 'path')):
                out.append({'kind': 'pixels', 'n_pixels': n, 'chunk': ch, 'units': 'default', 'byteorder': bo, 'sink': sink, 'mask': mask})
    # run records written to a real file (the builder knows a path then) and to memory, with plain and empty strings
    for strings in ('plain', 'empty', 'nonascii'):
        for sink in ('path', 'path_existing'):
            for mode in ('direct', 'indirect'):
                for bo in ('little', 'big'):
                    out.append({'kind': 'experiments', 'runs': 2, 'mode': mode, 'en2d': False, 'efix_array': False, 'angle_unit': 'rad', 'energy_unit': 'meV', 'strings': strings, 'byteorder': bo, 'sink': sink})
    # energies and angles as whole numbers in integer variables (counted in ueV / whole degrees)
    for idt in ('int64', 'int32'):
        for mode in ('direct', 'indirect'):
            for en2d in ((False, True) if mode == 'indirect' else (False,)):
                for bo in ('little', 'big'):
                    out.append({'kind': 'experiments', 'runs': 2, 'mode': mode, 'en2d': en2d, 'efix_array': mode == 'direct', 'angle_unit': 'deg', 'energy_unit': 'ueV', 'strings': 'plain', 'byteorder': bo, 'int_dtype': idt})
    shapes = [(2, 2, 2, 2), (1, 1, 1, 1), (3, 1, 4, 2), (40, 50, 4, 3)]
    for shape in shapes:
        for qu in ('1/angstrom', '1/nm', '10/angstrom'):
            for eu in ('meV', 'eV'):
                for w in (False, True):
                    for su in ('angstrom', 'nm'):
                        for bo in ('little', 'big'):
                            out.append({'kind': 'metadata', 'shape': list(shape), 'q_unit': qu, 'e_unit': eu, 'with_w': w, 'sample_unit': su, 'byteorder': bo})
    return out


def _close(a, b, rel=1e-15, abs_=0.0):
    a = np.asarray(a, dtype='float64')
    b = np.asarray(b, dtype='float64')
    if a.shape != b.shape:
        return False
    return bool(np.all(np.abs(a - b) <= rel * np.abs(b) + abs_))


def _same_dimension(u_read, u_written) -> bool:
    if u_read is None or u_written is None:
        return u_read is None and u_written is None
    try:
        sc.scalar(1.0, unit=u_read).to(unit=u_written)
        return True
    except sc.UnitError:
        return False


def _open(data):
    return sq.Sqw.open(BytesIO(data))


def run_pixels(case, rec):
    n = case['n_pixels']
    da = sq.pixel_data(n, case['units'], case.get('dtype', 'float64'), case.get('index_dtype', 'int64'))
    if case.get('dtype') == 'float32' and case.get('index_dtype') == 'float32':
        rec.cls('all_rows_float32')
    if case.get('mask'):
        m = np.zeros(n, dtype=bool)
        how = case['mask']
        sig = da.values
        if how == 'extremes' and n:
            m[[int(np.argmax(sig)), int(np.argmin(sig)), int(np.argmax(da.variances)), int(np.argmax(da.coords['u4'].values))]] = True
        elif how == 'tail':
            m[n - max(1, n // 4):] = True
        elif how == 'head':
            m[: max(1, n // 4)] = True
        elif how == 'all':
            m[:] = True
        da.masks['bad'] = sc.array(dims=['obs'], values=m)
        if how == 'two_masks':
            m2 = np.zeros(n, dtype=bool)
            m2[::3] = True
            da.masks['bad'] = sc.array(dims=['obs'], values=m2)
            da.masks['worse'] = sc.array(dims=['obs'], values=np.roll(m2, 1))
        rec.cls('masked_pixel_data')
    want = sq.expected_pixel_rows(da)
    snap = da.copy(deep=True)
    with warnings.catch_warnings():
        if case['units'] == 'extreme':
            warnings.simplefilter('ignore', RuntimeWarning)  # numpy's "overflow encountered in cast": the value is the point
        data, _ = sq.write_file(('pix',), byteorder=case['byteorder'], sink=case['sink'], chunk=case['chunk'], pix=da, experiments=[sq.experiment(0), sq.experiment(1)])
    rec.transitions += 1
    if not sc.identical(da, snap, equal_nan=True):
        rec.viol('SqwBuilder.add_pixel_data', 'input_modified', 'pixel data array changed by the builder')
    site = 'SqwBuilder.create'
    try:
        dec = sqwdec.decode_file(data)
    except sqwdec.DecodeError as e:
        rec.viol(site, 'undecodable', str(e))
        return
    pix = dec['blocks'][('pix', 'data_wrap')]
    got = pix['data']
    rec.observe(got.tobytes()[:4096], got.shape)
    rec.evals += 1
    rec.validated += 1
    if (pix['rows'], pix['npix']) != (9, n):
        rec.viol(site, 'pix_shape', f'pix block {pix["rows"]}x{pix["npix"]}, expected 9x{n}')
    elif got.shape != want.shape or got.tobytes() != want.tobytes():
        bad = np.argwhere(got.view('uint32') != want.view('uint32'))
        i, r = (int(bad[0][0]), int(bad[0][1])) if len(bad) else (-1, -1)
        rec.viol(site, 'pixel_values', f'{len(bad)} of {got.size} pixel entries differ; first at pixel {i} row {sq.ROW_NAMES[r]}: wrote {got[i, r]!r}, expected {want[i, r]!r}', pixel=i, row=r)
    else:
        rec.cls('pixels_equal')
    if case['units'] != 'default':
        rec.cls('units_converted')
    if case['units'] == 'extreme':
        rec.cls('beyond_float32_range')
    if case['chunk'] < n:
        rec.cls('multi_chunk')
    # pixel metadata
    md = sqwdec.struct_of(dec['blocks'][('pix', 'metadata')])
    npix = sqwdec.scalar(md['npix'])
    if npix != float(n):
        rec.viol(site, 'pix_metadata_npix', f'npix {npix}, expected {n}')
    rng = sqwdec.ndarray(md['data_range'])
    rec.validated += 1
    if n > 0:
        # per-row min and max of the values in declared units (float64), within float32 rounding
        w64 = []
        for name, unit in zip(sq.ROW_NAMES, sq.ROW_UNITS, strict=True):
            v = sc.values(da.data) if name == 'signal' else sc.variances(da.data) if name == 'error' else da.coords[name]
            if unit is not None:
                v = v.to(unit=unit, dtype='float64')
            w64.append((float(v.values.min()), float(v.values.max())))
        w64 = np.array(w64)
        if rng.shape == (2, 9):
            rng = rng.T
        if rng.shape != (9, 2) or not _close(rng, w64, rel=1e-7):
            rec.viol(site, 'pix_metadata_range', f'data_range {rng.tolist()} expected {w64.tolist()}')
    # own reader
    try:
        with warnings.catch_warnings():
            warnings.simplefilter('error')
            with _open(data) as f:
                own = f.read_data_block('pix', 'data_wrap')
                ownmd = f.read_data_block('pix', 'metadata')
        if own.shape != want.shape or own.astype('float32').tobytes() != want.tobytes():
            rec.viol('Sqw.read_data_block', 'pixel_values', f'reader returns shape {own.shape}, expected {want.shape}, or different values')
        elif ownmd.npix != n:
            rec.viol('Sqw.read_data_block', 'pix_metadata_npix', f'reader npix {ownmd.npix}')
        else:
            rec.cls('reader_ok')
    except Exception as e:  # noqa: BLE001
        rec.viol('Sqw.read_data_block', 'raises', f'pix: {type(e).__name__}: {e}')
    rec.validated += 1
    if n > 0:
        rec.nontrivial += 1


def _strings(kind, r):
    if kind == 'empty':
        return '', ''
    if kind == 'long':
        return 'n' * 300 + str(r), '/' + 'p' * 1000
    if kind == 'nonascii':
        return f'l\u00e4uft_{r}_\u65e5\u672c.nxspe', '/data/\u00e9t\u00e9/\U0001d11e'  # 2-, 3- and 4-byte UTF-8 sequences
    return f'run_{r}.nxspe', '/data/x'


def run_experiments(case, rec):
    runs = case['runs']
    ids = [3 * r + (r % 2) for r in range(runs)]  # non-contiguous, not sorted-dense
    exps = []
    for r, rid in enumerate(ids):
        fn, fp = _strings(case['strings'], r)
        exps.append(sq.experiment(run_id=rid, mode=case['mode'], angle_unit=case['angle_unit'], energy_unit=case['energy_unit'], en2d=case['en2d'], efix_array=case['efix_array'], filename=fn, filepath=fp, int_dtype=case.get('int_dtype')))
    data, _ = sq.write_file(('inst', 'pix', 'samp'), byteorder=case['byteorder'], sink=case.get('sink', 'bytes'), n_pixels=5, experiments=exps, title='Titel \u00fc\u4e2d' if case['strings'] == 'nonascii' else 'T')
    rec.transitions += 1
    site = 'SqwBuilder.create'
    try:
        dec = sqwdec.decode_file(data)
    except sqwdec.DecodeError as e:
        rec.viol(site, 'undecodable', str(e))
        return
    rec.cls(case['mode'])
    if case['en2d']:
        rec.cls('en2d')
    if case['angle_unit'] == 'deg':
        rec.cls('deg_input')
    if case['strings'] == 'empty':
        rec.cls('empty_string')
    if case['strings'] == 'nonascii':
        rec.cls('non_ascii_strings')
    if case.get('sink', 'bytes') != 'bytes':
        rec.cls('experiments_in_real_file')
    if case.get('int_dtype'):
        rec.cls('integer_energies_and_angles')
    mh = sqwdec.struct_of(dec['blocks'][('', 'main_header')])
    if sqwdec.scalar(mh['nfiles']) != float(runs):
        rec.viol(site, 'nfiles', f'main header nfiles {sqwdec.scalar(mh["nfiles"])}, expected {runs}')
    ex = sqwdec.struct_of(dec['blocks'][('experiment_info', 'expdata')])
    arr = ex['array_dat']
    if arr['ty'] != sqwdec.T_STRUCT or arr['shape'] != (runs,):
        rec.viol(site, 'expdata_shape', f'array_dat shape {arr["shape"]}, expected ({runs},)')
        return
    rec.observe(len(data))
    for r, (st, e) in enumerate(zip(arr['data'], exps, strict=True)):
        rec.evals += 1
        rec.validated += 1
        S = lambda k: sqwdec.scalar(st[k])  # noqa: E731
        exp_efix = np.atleast_1d(e.efix.to(unit='meV', dtype='float64').values)
        exp_en = e.en.to(unit='meV', dtype='float64')
        exp_en = exp_en.values if exp_en.ndim == 2 else exp_en.values[None, :]
        checks = [
            ('run_id', S('run_id') == float(e.run_id + 1), f'{S("run_id")} for run_id {e.run_id}'),
            ('filename', S('filename') == e.filename, repr(S('filename'))[:60]),
            ('filepath', S('filepath') == e.filepath, repr(S('filepath'))[:60]),
            ('emode', S('emode') == float(e.emode.value), S('emode')),
            ('efix', _close(sqwdec.ndarray(st['efix']).ravel(), exp_efix, 4e-16), f'{sqwdec.ndarray(st["efix"]).ravel().tolist()} expected {exp_efix.tolist()} meV'),
            ('en', _close(sqwdec.ndarray(st['en']), exp_en, 4e-16, 1e-300), f'shape {sqwdec.ndarray(st["en"]).shape} expected {exp_en.shape}'),
            ('u', _close(sqwdec.ndarray(st['u']).ravel(), e.u.values), ''),
            ('v', _close(sqwdec.ndarray(st['v']).ravel(), e.v.values), ''),
            ('angular_is_degree', S('angular_is_degree') is False, S('angular_is_degree')),
        ]
        for name in ('psi', 'omega', 'dpsi', 'gl', 'gs'):
            want = getattr(e, name).to(unit='rad', dtype='float64').value
            checks.append((name, _close(S(name), want, 4e-16), f'{S(name)} expected {want} rad'))
        for name, ok, msg in checks:
            if not ok:
                rec.viol(site, f'experiment_{name}', f'run {r}: {name} = {msg}', run=r)
    # containers reference one shared object for every run
    for blk, cls_, base, gname in (
        (('experiment_info', 'instruments'), 'IX_null_inst', 'IX_inst', 'GLOBAL_NAME_INSTRUMENTS_CONTAINER'),
        (('experiment_info', 'samples'), 'IX_sample', 'IX_samp', 'GLOBAL_NAME_SAMPLES_CONTAINER'),
    ):
        rec.validated += 1
        c = sqwdec.struct_of(dec['blocks'][blk])
        inner = sqwdec.struct_of(c['unique_objects'])
        objs = inner['unique_objects']
        idx = sqwdec.ndarray(inner['idx']).ravel()
        ok = (
            sqwdec.scalar(c['stored_baseclass']) == base
            and sqwdec.scalar(c['global_name']) == gname
            and sqwdec.scalar(inner['baseclass']) == base
            and objs['ty'] == sqwdec.T_CELL and len(objs['data']) == 1
            and sqwdec.scalar(sqwdec.struct_of(objs['data'][0])['serial_name']) == cls_
            and idx.shape == (runs,) and bool(np.all(idx == 1.0))
        )
        if not ok:
            rec.viol(site, 'container', f'{blk}: baseclass/global name/unique object/idx wrong: idx={idx.tolist()[:5]} n_obj={len(objs["data"])}')
    # own reader
    site_r = 'Sqw.read_data_block'
    try:
        with warnings.catch_warnings():
            warnings.simplefilter('error')
            with _open(data) as f:
                own = f.read_data_block('experiment_info', 'expdata')
                own_inst = f.read_data_block('experiment_info', 'instruments')
                own_samp = f.read_data_block('experiment_info', 'samples')
                own_mh = f.read_data_block('', 'main_header')
    except Exception as e:  # noqa: BLE001
        rec.viol(site_r, 'raises', f'expdata/containers: {type(e).__name__}: {e}', mode=case['mode'], en2d=case['en2d'])
        return
    rec.validated += 1
    if own_mh.nfiles != runs or len(own) != runs or len(own_inst) != runs or len(own_samp) != runs:
        rec.viol(site_r, 'lengths', f'reader returns {len(own)} runs, {len(own_inst)} instruments, {len(own_samp)} samples; nfiles {own_mh.nfiles}')
        return
    ok_all = True
    for r, (o, e) in enumerate(zip(own, exps, strict=True)):
        probs = []
        if o.run_id != e.run_id:
            probs.append(f'run_id {o.run_id} != {e.run_id}')
        if (o.filename, o.filepath) != (e.filename, e.filepath):
            probs.append('filename/filepath')
        if o.emode != e.emode:
            probs.append('emode')
        for name in ('psi', 'omega', 'dpsi', 'gl', 'gs'):
            g, w = getattr(o, name), getattr(e, name)
            if not _same_dimension(g.unit, w.unit) or not _close(g.to(unit='rad').value, w.to(unit='rad', dtype='float64').value, 4e-16):
                probs.append(f'{name}: {g.value} {g.unit} vs {w.value} {w.unit}')
        if not _same_dimension(o.efix.unit, 'meV') or not _close(np.atleast_1d(o.efix.to(unit='meV').values), np.atleast_1d(e.efix.to(unit='meV', dtype='float64').values), 4e-16):
            probs.append(f'efix {o.efix.values} {o.efix.unit}')
        elif o.efix.shape != e.efix.shape:
            rec.cls('reader_efix_shape_differs')  # (1,)-array comes back as scalar: shape loss, recorded not judged here
        wen = e.en.to(unit='meV', dtype='float64')
        if not _same_dimension(o.en.unit, 'meV') or o.en.values.shape != wen.values.shape or not _close(o.en.to(unit='meV').values, wen.values, 4e-16, 1e-300):
            probs.append(f'en shape {o.en.values.shape} vs {wen.values.shape}')
        if not _close(o.u.values, e.u.values) or not _close(o.v.values, e.v.values):
            probs.append('u/v')
        for p in probs:
            ok_all = False
            rec.viol(site_r, 'experiment_mismatch', f'run {r}: {p}', run=r)
    for o in own_samp:
        w = sq.sample()
        if o.name != w.name or not _close(o.lattice_spacing.values, w.lattice_spacing.to(unit='angstrom').values) or not _close(o.lattice_angle.to(unit='deg').values, w.lattice_angle.to(unit='deg').values):
            rec.viol(site_r, 'sample_mismatch', f'{o}')
            ok_all = False
        if not _same_dimension(o.lattice_spacing.unit, 'angstrom'):
            rec.viol(site_r, 'unit_dimension', f'IX_sample.alatt written in angstrom, reader labels it {o.lattice_spacing.unit}', field='IX_sample.alatt')
        break
    for o in own_inst:
        w = sq.instrument()
        if o.name != w.name or o.source.name != w.source.name or o.source.target_name != w.source.target_name or o.source.frequency.value != w.source.frequency.value:
            rec.viol(site_r, 'instrument_mismatch', f'{o}')
            ok_all = False
        break
    if ok_all:
        rec.cls('reader_ok')
    rec.nontrivial += 1


def run_metadata(case, rec):
    shape = tuple(case['shape'])
    md = sq.dnd_metadata(shape, q_unit=case['q_unit'], e_unit=case['e_unit'], with_w=case['with_w'])
    builder = sq.Sqw.build(BytesIO(), byteorder=case['byteorder'])
    target = builder._path
    builder = builder.add_default_sample(sq.sample(unit=case['sample_unit'])).add_empty_dnd_data(md)
    builder.create()
    data = target.getvalue()
    rec.transitions += 1
    site = 'SqwBuilder.create'
    try:
        dec = sqwdec.decode_file(data)
    except sqwdec.DecodeError as e:
        rec.viol(site, 'undecodable', str(e))
        return
    rec.observe(len(data))
    units = ['1/angstrom'] * 3 + ['meV']
    d = sqwdec.struct_of(dec['blocks'][('data', 'metadata')])
    ax = sqwdec.struct_of(d['axes'])
    pr = sqwdec.struct_of(d['proj'])

    def conv(lst):
        return np.array([v.to(unit=u, dtype='float64').values for v, u in zip(lst, units, strict=True)])

    A = md.axes
    P = md.proj
    checks = [
        ('axes.serial_name', sqwdec.scalar(ax['serial_name']) == 'line_axes'),
        ('axes.title', sqwdec.scalar(ax['title']) == A.title),
        ('axes.label', [sqwdec.scalar(x) for x in ax['label']['data']] == A.label),
        ('axes.img_scales', _close(sqwdec.ndarray(ax['img_scales']).ravel(), conv(A.img_scales), 4e-16)),
        ('axes.img_range', _close(sqwdec.ndarray(ax['img_range']), conv(A.img_range), 4e-16)),
        ('axes.nbins_all_dims', _close(sqwdec.ndarray(ax['nbins_all_dims']).ravel(), np.array(shape, dtype=float))),
        ('axes.single_bin_defines_iax', list(ax['single_bin_defines_iax']['data']) == [bool(b) for b in A.single_bin_defines_iax.values]),
        ('axes.dax', _close(sqwdec.ndarray(ax['dax']).ravel(), A.dax.values + 1.0)),
        ('axes.offset', _close(sqwdec.ndarray(ax['offset']).ravel(), conv(A.offset), 4e-16)),
        ('axes.changes_aspect_ratio', sqwdec.scalar(ax['changes_aspect_ratio']) is True),
        ('proj.serial_name', sqwdec.scalar(pr['serial_name']) == 'line_proj'),
        ('proj.alatt', _close(sqwdec.ndarray(pr['alatt']).ravel(), P.lattice_spacing.to(unit='angstrom').values)),
        ('proj.angdeg', _close(sqwdec.ndarray(pr['angdeg']).ravel(), P.lattice_angle.to(unit='deg').values)),
        ('proj.offset', _close(sqwdec.ndarray(pr['offset']).ravel(), conv(P.offset), 4e-16)),
        ('proj.title', sqwdec.scalar(pr['title']) == P.title),
        ('proj.label', [sqwdec.scalar(x) for x in pr['label']['data']] == P.label),
        ('proj.u', _close(sqwdec.ndarray(pr['u']).ravel(), P.u.values)),
        ('proj.v', _close(sqwdec.ndarray(pr['v']).ravel(), P.v.values)),
        ('proj.w', _close(sqwdec.ndarray(pr['w']).ravel(), P.w.values if P.w is not None else np.zeros(0))),
        ('proj.nonorthogonal', sqwdec.scalar(pr['nonorthogonal']) is False),
        ('proj.type', sqwdec.scalar(pr['type']) == 'aaa'),
        ('creation_date', sqwdec.scalar(d['creation_date_str']) == sq.FROZEN_STR),
    ]
    for name, ok in checks:
        rec.evals += 1
        if not ok:
            rec.viol(site, 'dnd_metadata', f'{name} differs from what was supplied', field=name)
    rec.validated += len(checks)
    nd = dec['blocks'][('data', 'nd_data')]
    if nd['shape'] != shape or nd['values'].any() or nd['errors'].any() or nd['counts'].any():
        rec.viol(site, 'dnd_histogram', f'histogram shape {nd["shape"]} expected {shape}, or not zero')
    smp = sqwdec.struct_of(sqwdec.struct_of(sqwdec.struct_of(dec['blocks'][('experiment_info', 'samples')])['unique_objects'])['unique_objects']['data'][0])
    if not _close(sqwdec.ndarray(smp['alatt']).ravel(), sq.sample(unit=case['sample_unit']).lattice_spacing.to(unit='angstrom').values, 4e-16):
        rec.viol(site, 'sample_alatt', 'sample lattice spacing not stored in angstrom')
    # own reader
    site_r = 'Sqw.read_data_block'
    try:
        with warnings.catch_warnings():
            warnings.simplefilter('error')
            with _open(data) as f:
                own = f.read_data_block('data', 'metadata')
                own_nd = f.read_data_block('data', 'nd_data')
    except Exception as e:  # noqa: BLE001
        rec.viol(site_r, 'raises', f'dnd: {type(e).__name__}: {e}')
        return
    rec.validated += 1
    oa, op = own.axes, own.proj
    ok_all = True

    def cmp_list(name, got, want):
        nonlocal ok_all
        for g, w, u in zip(got, want, units, strict=True):
            if not _same_dimension(g.unit, u):
                rec.viol(site_r, 'unit_dimension', f'{name} written in {u}, reader labels it {g.unit}', field=name)
                ok_all = False
            elif not _close(g.to(unit=u).values, w.to(unit=u, dtype='float64').values, 4e-16):
                rec.viol(site_r, 'dnd_mismatch', f'{name}: {g.values} {g.unit}', field=name)
                ok_all = False

    cmp_list('axes.img_scales', oa.img_scales, A.img_scales)
    cmp_list('axes.img_range', oa.img_range, A.img_range)
    cmp_list('axes.offset', oa.offset, A.offset)
    cmp_list('proj.offset', op.offset, P.offset)
    simple = [
        ('axes.title', oa.title == A.title), ('axes.label', oa.label == A.label),
        ('axes.n_bins', list(oa.n_bins_all_dims.values) == list(shape)),
        ('axes.dax', list(oa.dax.values) == list(A.dax.values)),
        ('axes.single_bin', list(oa.single_bin_defines_iax.values) == list(A.single_bin_defines_iax.values)),
        ('proj.title', op.title == P.title), ('proj.label', op.label == P.label),
        ('proj.u', _close(op.u.values, P.u.values)), ('proj.v', _close(op.v.values, P.v.values)),
        ('proj.w', (op.w is None) == (P.w is None) and (P.w is None or _close(op.w.values, P.w.values))),
        ('proj.alatt.values', _close(op.lattice_spacing.values, P.lattice_spacing.to(unit='angstrom').values)),
        ('proj.angdeg', _close(op.lattice_angle.to(unit='deg').values, P.lattice_angle.to(unit='deg').values)),
        ('nd_shape', tuple(own_nd[0].shape) == shape[::-1] and not own_nd[0].any()),
    ]
    for name, ok in simple:
        if not ok:
            rec.viol(site_r, 'dnd_mismatch', f'{name} differs', field=name)
            ok_all = False
    if not _same_dimension(op.lattice_spacing.unit, 'angstrom'):
        rec.viol(site_r, 'unit_dimension', f'line_proj.alatt written in angstrom, reader labels it {op.lattice_spacing.unit}', field='line_proj.alatt')
        ok_all = False
    for name in ('u', 'v', 'w'):
        g = getattr(op, name)
        if g is not None and not _same_dimension(g.unit, '1/angstrom'):
            rec.viol(site_r, 'unit_dimension', f'line_proj.{name} labelled {g.unit}', field=f'line_proj.{name}')
    if ok_all:
        rec.cls('reader_ok')
    rec.nontrivial += 1


def run_reuse(case, rec):
    """Write experiments to a first file, change them (attribute assignment / copies that are then changed), write a
    second file: the second file holds what was supplied to *it*."""
    import copy
    import dataclasses

    exps = [sq.experiment(run_id=r, mode=case['mode'], filename=f'first_{r}') for r in range(3)]
    sq.write_file(('pix',), byteorder=case['byteorder'], sink='bytes', n_pixels=5, experiments=exps)
    rec.transitions += 1
    new = []
    for r, e in enumerate(exps):
        changes = {'run_id': 10 + 2 * r, 'psi': sc.scalar(1.0 + 0.1 * r, unit='rad'), 'filename': f'second_{r}', 'efix': e.efix * 2.0}
        if case['how'] == 'setattr':
            for k, v in changes.items():
                setattr(e, k, v)
            new.append(e)
        elif case['how'] == 'replace':
            new.append(dataclasses.replace(e, **changes))
        else:
            c = copy.copy(e) if case['how'] == 'copy' else copy.deepcopy(e)
            for k, v in changes.items():
                setattr(c, k, v)
            new.append(c)
    data, _ = sq.write_file(('pix',), byteorder=case['byteorder'], sink='bytes', n_pixels=5, experiments=new)
    rec.transitions += 1
    rec.states += 1
    try:
        dec = sqwdec.decode_file(data)
    except sqwdec.DecodeError as e:
        rec.viol('SqwBuilder.create', 'undecodable', str(e))
        return
    arr = sqwdec.struct_of(dec['blocks'][('experiment_info', 'expdata')])['array_dat']
    ok = True
    for r, (st, e) in enumerate(zip(arr['data'], new, strict=True)):
        rec.evals += 1
        rec.validated += 1
        got = (sqwdec.scalar(st['run_id']), sqwdec.scalar(st['filename']), float(sqwdec.scalar(st['psi'])), sqwdec.ndarray(st['efix']).ravel().tolist())
        want = (float(e.run_id + 1), e.filename, float(e.psi.to(unit='rad').value), np.atleast_1d(e.efix.to(unit='meV', dtype='float64').values).tolist())
        if got[:2] != want[:2] or not _close(got[2], want[2], 4e-16) or not _close(got[3], want[3], 4e-16):
            rec.viol('SqwBuilder.create', 'stale_experiment_after_reuse', f'run {r} ({case["how"]}): second file holds (run_id+1, filename, psi, efix) = {got}, supplied {want}', run=r, how=case['how'])
            ok = False
    if ok:
        rec.cls('experiments_reused_ok')
        rec.nontrivial += 1


def run_case(case, rec):
    sq.freeze_clock()
    if case['kind'] == 'reuse':
        return run_reuse(case, rec)
    {'pixels': run_pixels, 'experiments': run_experiments, 'metadata': run_metadata}[case['kind']](case, rec)


_ = math
