"""C02 - convert() succeeds iff the target is derivable, with precedence, in the right mode.

Shape P(subsets): every subset of the 11 geometry/energy coordinates x origin x target x
scatter x container.  Oracle: ref/derive.py (least-fixpoint derivability over the
documented rule table + numpy formulas along the precedence) and the differential
convert == transform_coords(deduce_conversion_graph(...)).
"""
from __future__ import annotations

import inspect
import itertools

import numpy as np
import scipp as sc

import scippneutron as scn
from ref import derive as dv

ID = 'C02'
LEVEL = 'model_checking'
RULE = (
    'all 2^11 subsets of the geometry/energy coordinates x 4 origins x targets x scatter (x container, x origin-present '
    'bit in thorough); every coordinate carries a fingerprint value inconsistent (>=3%) with what could be derived from '
    'the others, so the numeric result identifies the derivation path. Non-trivial: target derivable by the model '
    '(value expected); distinct = distinct (origin,target,scatter,container,subset)'
)
ASSUMPTIONS = [
    'documented graphs as transcribed in ref/derive.py',
    "reading chosen: scatter=False always uses beamline(False)+kinematic('tof') whatever the origin",
    'value tolerance 1e-9 relative (fingerprints differ by >= 3e-2)',
]
REQUIRED_CLASSES = ['unaligned_coords', 'aligned_geometry_value', 'precision_float32', 'precision_float64', 'precision_int64', 'value', 'runtime_error', 'mode_ambiguous', 'direct_inelastic', 'indirect_inelastic', 'supplied_precedence', 'nan_result']
BOUND = {
    'quick': '4 origins x 13 targets x 2 scatter x 2048 subsets, DataArray',
    'thorough': '4 origins x 19 targets x 2 scatter x 2048 subsets x {DataArray, Dataset}, plus origin-coordinate-absent bit for origin tof',
}

ORIGINS = ('tof', 'wavelength', 'energy', 'Q')
TARGETS = ('wavelength', 'energy', 'dspacing', 'Q', 'Qx', 'Q_vec', 'energy_transfer', 'incident_beam', 'scattered_beam', 'L1', 'L2', 'Ltotal', 'two_theta')
TARGETS_EXTRA = ('hkl_vec', 'h', 'ub_matrix', 'time_at_sample', 'Qz', 'l')
HI = dv.GEOMETRY[:4]  # enumerated by the case
LO = dv.GEOMETRY[4:]  # enumerated inside the case (2^7 = 128)

UNITS = {
    'position': 'm', 'source_position': 'm', 'sample_position': 'm', 'incident_beam': 'm', 'scattered_beam': 'm',
    'L1': 'm', 'L2': 'm', 'Ltotal': 'm', 'two_theta': 'rad', 'incident_energy': 'meV', 'final_energy': 'meV',
    'tof': 'us', 'wavelength': 'angstrom', 'energy': 'meV', 'Q': '1/angstrom', 'dspacing': 'angstrom',
    'Qx': '1/angstrom', 'Qy': '1/angstrom', 'Qz': '1/angstrom', 'Q_vec': '1/angstrom', 'energy_transfer': 'meV',
    'hkl_vec': 'dimensionless', 'h': 'dimensionless', 'k': 'dimensionless', 'l': 'dimensionless', 'time_at_sample': 'us',
}
NS, NT = 2, 3

# fingerprint values, numpy with broadcastable shapes: per-spectrum scalars (NS,1), per-spectrum vectors (NS,1,3)
_V = {
    'source_position': np.array([0.0, 0.0, -10.0]),
    'sample_position': np.array([0.3, -0.2, 0.5]),
    'position': np.array([[[1.0, 0.7, 2.5]], [[-0.8, 1.4, 3.0]]]),
    'incident_beam': np.array([0.1, 0.2, 11.0]),
    'scattered_beam': np.array([[[0.9, 0.5, 1.7]], [[-1.5, 0.4, 1.1]]]),
    'L1': np.array(12.3),
    'L2': np.array([[3.1], [4.7]]),
    'Ltotal': np.array([[17.7], [21.1]]),
    'two_theta': np.array([[0.8], [1.9]]),
    'incident_energy': np.array(25.0),
    'final_energy': np.array(12.0),
    'tof': np.array([4000.0, 9000.0, 23000.0]),
    'wavelength': np.array([1.0, 2.5, 6.0]),
    'energy': np.array([5.0, 20.0, 81.0]),
    'Q': np.array([0.5, 1.0, 4.0]),
    'pulse_time': np.array(1.0e6),
}
_VECTORS = {'source_position', 'sample_position', 'position', 'incident_beam', 'scattered_beam'}
from scipy.spatial.transform import Rotation as _R  # noqa: E402

_ROT = sc.spatial.linear_transform(value=_R.from_rotvec([0.1, -0.4, 0.3]).as_matrix())
_U = sc.spatial.linear_transform(value=_R.from_rotvec([-0.7, 0.2, 0.5]).as_matrix())
_B = sc.spatial.linear_transform(value=[[0.2, 0.01, 0.0], [0.0, 0.25, 0.03], [0.0, 0.0, 0.11]], unit='1/angstrom')


def _var(name):
    v = _V[name]
    unit = UNITS.get(name, 'us')
    if name in _VECTORS:
        if v.ndim == 1:
            return sc.vector(v, unit=unit)
        return sc.vectors(dims=['spectrum'], values=v[:, 0, :], unit=unit)
    if v.ndim == 0:
        return sc.scalar(float(v), unit=unit)
    if v.shape == (NS, 1):
        return sc.array(dims=['spectrum'], values=v[:, 0], unit=unit)
    raise ValueError(name)


_VARS = {}


def _vars():
    if not _VARS:
        for n in dv.GEOMETRY:
            _VARS[n] = _var(n)
        for o in ORIGINS:
            _VARS[o] = sc.array(dims=[o], values=_V[o], unit=UNITS[o])
        _VARS['pulse_time'] = sc.scalar(1.0e6, unit='us')
        _VARS['sample_rotation'] = _ROT
        _VARS['u_matrix'] = _U
        _VARS['b_matrix'] = _B
    return _VARS


FORMULA = {
    ('incident_beam', ('source_position', 'sample_position')): dv.f_incident_beam,
    ('scattered_beam', ('position', 'sample_position')): dv.f_scattered_beam,
    ('L1', ('incident_beam',)): dv.f_L1,
    ('L2', ('scattered_beam',)): dv.f_L2,
    ('two_theta', ('incident_beam', 'scattered_beam')): dv.f_two_theta,
    ('Ltotal', ('L1', 'L2')): dv.f_Ltotal_scatter,
    ('Ltotal', ('source_position', 'position')): dv.f_Ltotal_no_scatter,
    ('wavelength', ('tof', 'Ltotal')): dv.f_wavelength_tof,
    ('energy', ('tof', 'Ltotal')): dv.f_energy_tof,
    ('dspacing', ('tof', 'Ltotal', 'two_theta')): dv.f_dspacing_tof,
    ('energy', ('wavelength',)): dv.f_energy_wavelength,
    ('wavelength', ('energy',)): dv.f_wavelength_energy,
    ('dspacing', ('wavelength', 'two_theta')): dv.f_dspacing_wavelength,
    ('dspacing', ('energy', 'two_theta')): dv.f_dspacing_energy,
    ('Q', ('wavelength', 'two_theta')): dv.f_Q,
    ('wavelength', ('Q', 'two_theta')): dv.f_wavelength_Q,
    (('Qx', 'Qy', 'Qz'), ('wavelength', 'incident_beam', 'scattered_beam')): dv.f_Qxyz,
    ('energy_transfer', ('tof', 'L1', 'L2', 'incident_energy')): dv.f_energy_transfer_direct,
    ('energy_transfer', ('tof', 'L1', 'L2', 'final_energy')): dv.f_energy_transfer_indirect,
    ('time_at_sample', ('pulse_time', 'tof', 'L2', 'wavelength')): lambda p, t, l2, w: p + dv.f_time_at_sample(p, t, l2, w),
}
_UB = None


def _expected(graph, name, envv, used):
    """Value of ``name`` along the documented precedence: supplied first, else rule."""
    if name in envv:
        used.add(name)
        return envv[name]
    key, inputs = dv.rule_for(graph, name)
    if key == 'Q_vec':
        return _expected(graph, 'Qx', envv, used)[0]
    if key == 'ub_matrix':
        return _U.values @ _B.values
    if key == 'hkl_vec':
        q = _expected(graph, 'Q_vec', envv, used)
        ub = _expected(graph, 'ub_matrix', envv, used)
        return dv.f_hkl(q, ub, _ROT.values)
    if key == ('h', 'k', 'l'):
        v = _expected(graph, 'hkl_vec', envv, used)
        return v, {'h': v[..., 0], 'k': v[..., 1], 'l': v[..., 2]}[name]
    vals = [_expected(graph, i, envv, used) for i in inputs]
    vals = [v[1] if isinstance(v, tuple) else v for v in vals]
    out = FORMULA[(key, inputs)](*vals)
    if isinstance(key, tuple):
        # tof values broadcast along the second-last axis for vector results
        return out, out[..., key.index(name)]
    return out


def cases(tier):
    out = []
    targets = TARGETS + TARGETS_EXTRA
    containers = ('DataArray', 'Dataset') if tier == 'thorough' else ('DataArray',)
    for cont in containers:
        for origin in ORIGINS:
            for target in targets:
                if target == origin:
                    continue
                for scatter in (True, False):
                    for hi in range(2 ** len(HI)):
                        out.append({'origin': origin, 'target': target, 'scatter': scatter, 'container': cont, 'hi': hi, 'origin_present': True})
                        # the same coordinates flagged unaligned (what slicing a bigger array leaves behind): they are
                        # present on the data all the same
                        if cont == 'DataArray':
                            out.append({'origin': origin, 'target': target, 'scatter': scatter, 'container': cont, 'hi': hi, 'origin_present': True, 'rep': 'unaligned'})
    # precision / call-history family: same conversion in single precision first, then in double (and integer origin
    # coordinates, single-precision energies): the outcome class and the value may not depend on the dtype or on
    # what was converted before (module state reset by reloading the kernel module at the start of each case)
    for origin in ORIGINS:
        for target in ('wavelength', 'energy', 'dspacing', 'Q', 'energy_transfer'):
            if target == origin:
                continue
            for order in (('float32', 'float64'), ('float64', 'float32'), ('int64', 'float64')):
                for edt in ('float64', 'float32'):
                    out.append({'kind': 'precision', 'origin': origin, 'target': target, 'order': list(order), 'energy_dtype': edt})
    # axis-aligned geometry family: incident beam exactly along -z / +z / +x (special directions of the beamline kernels)
    for origin in ('tof', 'wavelength'):
        for target in ('two_theta', 'dspacing', 'Q', 'Ltotal', 'L1', 'incident_beam'):
            for axis in ('-z', '+z', '+x'):
                out.append({'kind': 'aligned', 'origin': origin, 'target': target, 'axis': axis})
    if tier == 'thorough':
        for target in TARGETS:
            if target == 'tof':
                continue
            for scatter in (True, False):
                for hi in range(2 ** len(HI)):
                    out.append({'origin': 'tof', 'target': target, 'scatter': scatter, 'container': 'DataArray', 'hi': hi, 'origin_present': False})
    return out


def _make(origin, present, container, origin_present, aux):
    V = _vars()
    coords = {n: V[n] for n in present}
    dim = origin if origin_present else 'tof'
    if origin_present:
        coords[origin] = V[origin]
    if aux:
        for n in ('pulse_time', 'sample_rotation', 'u_matrix', 'b_matrix'):
            coords[n] = V[n]
    da = sc.DataArray(sc.ones(dims=['spectrum', dim], shape=[NS, NT], unit='counts'), coords=coords)
    if container == 'Dataset':
        return sc.Dataset({'a': da, 'b': da * 2.0})
    return da


def _np_result(coord, target):
    unit = UNITS[target] if target != 'ub_matrix' else None
    c = coord
    if unit is not None and c.unit is not None and str(c.unit) != unit:
        c = c.to(unit=unit)
    dims = list(c.dims)
    if 'spectrum' in dims and dims[0] != 'spectrum':
        c = c.transpose(['spectrum'] + [d for d in dims if d != 'spectrum'])
    return np.asarray(c.values)


def _squeeze_expected(exp, vector):
    e = np.asarray(exp)
    if vector:
        # collapse broadcast axes of size 1 except the last (component) axis
        lead = [s for s in e.shape[:-1] if s != 1]
        return e.reshape((*lead, 3))
    return np.squeeze(e)


def _bogus_node(**kwargs):
    raise AssertionError('a node of a graph that the caller customised was used by a later conversion')


def _run_precision(case, rec):
    import importlib

    from scippneutron.conversion import tof as _kt

    origin, target = case['origin'], case['target']
    site = 'core.convert'
    present = [n for n in dv.GEOMETRY if n not in ('incident_energy', 'final_energy')]
    if target == 'energy_transfer':
        variants = [[*present, 'incident_energy'], [*present, 'final_energy']]
    else:
        variants = [present]
    for pres in variants:
        importlib.reload(_kt)  # fresh module-level state: what is converted first in this case is really first
        have = set(pres) | {origin}
        mode = dv.energy_mode(origin, target, have)
        graph = dv.rules(origin, target, True, mode) if mode else None
        want_val = bool(mode) and dv.derivable(graph, target, have)
        for dtype in case['order']:
            rec.states += 1
            rec.transitions += 1
            data = _make(origin, pres, 'DataArray', True, False)
            data.coords[origin] = data.coords[origin].astype(dtype)
            for en in ('incident_energy', 'final_energy'):
                if en in data.coords:
                    data.coords[en] = data.coords[en].astype(case['energy_dtype'])
            sub = {'present': pres, 'dtype': dtype, 'energy_dtype': case['energy_dtype'], 'order': case['order']}
            try:
                res = scn.convert(data, origin=origin, target=target, scatter=True)
                outcome = 'value'
            except RuntimeError as e:
                outcome, res = 'runtime_error', e
            except Exception as e:  # noqa: BLE001
                outcome, res = 'other:' + type(e).__name__, e
            rec.evals += 1
            rec.validated += 1
            rec.observe(outcome)
            if outcome.startswith('other'):
                rec.viol(site, 'wrong_exception', f'{outcome}: {res}', **sub)
                continue
            if want_val != (outcome == 'value'):
                rec.viol(site, 'refused_derivable' if want_val else 'answered_underivable', f'dtype {dtype}: model derivable={want_val}, convert -> {outcome}: {res if outcome != "value" else ""}', **sub)
                continue
            if outcome != 'value':
                rec.cls('runtime_error')
                continue
            rec.cls('value')
            rec.cls('precision_' + dtype)
            rec.nontrivial += 1
            envv = {n: _V[n] for n in have if n in _V}
            envv[origin] = np.asarray(data.coords[origin].values, dtype='float64')  # the values the kernel received
            exp = _expected(graph, target, envv, set())
            if isinstance(exp, tuple):
                exp = exp[1]
            got = _np_result(res.coords[target], target)
            e = _squeeze_expected(exp, False)
            single = 'float32' in (dtype, case['energy_dtype'] if target == 'energy_transfer' else dtype)
            rtol = 1e-5 if single else 1e-9
            if got.shape != e.shape or not np.allclose(got, e, rtol=rtol, atol=0.0, equal_nan=True):
                with np.errstate(invalid='ignore', divide='ignore'):
                    rel = np.nanmax(np.abs(got - e) / np.abs(e)) if got.shape == e.shape else float('nan')
                rec.viol(site, 'wrong_value_precision_history', f'{dtype} conversion (order {case["order"]}): got {got.ravel()[:3]}, formulas give {e.ravel()[:3]} (max rel diff {rel:.3g}, tolerance {rtol:g})', **sub)


def _run_aligned(case, rec):
    origin, target, axis = case['origin'], case['target'], case['axis']
    src = {'-z': [0.0, 0.0, 10.0], '+z': [0.0, 0.0, -10.0], '+x': [-10.0, 0.0, 0.0]}[axis]
    saved = {k: _V[k] for k in ('source_position', 'sample_position')}
    _V['source_position'] = np.array(src)
    _V['sample_position'] = np.array([0.0, 0.0, 0.0])
    _VARS.clear()
    try:
        for present in (['position', 'source_position', 'sample_position'], ['position', 'source_position', 'sample_position', 'L2'], ['scattered_beam', 'source_position', 'sample_position']):
            rec.states += 1
            rec.transitions += 1
            data = _make(origin, present, 'DataArray', True, False)
            have = set(present) | {origin}
            mode = dv.energy_mode(origin, target, have)
            graph = dv.rules(origin, target, True, mode)
            want_val = dv.derivable(graph, target, have)
            sub = {'present': present, 'axis': axis}
            try:
                res = scn.convert(data, origin=origin, target=target, scatter=True)
                outcome = 'value'
            except RuntimeError as e:
                outcome, res = 'runtime_error', e
            rec.evals += 1
            rec.validated += 1
            if want_val != (outcome == 'value'):
                rec.viol('core.convert', 'refused_derivable' if want_val else 'answered_underivable', f'axis-aligned geometry {axis}: model derivable={want_val}, convert -> {outcome}', **sub)
                continue
            if outcome != 'value':
                continue
            rec.cls('aligned_geometry_value')
            rec.nontrivial += 1
            envv = {n: _V[n] for n in have if n in _V}
            exp = _expected(graph, target, envv, set())
            if isinstance(exp, tuple):
                exp = exp[1]
            got = _np_result(res.coords[target], target)
            e = _squeeze_expected(exp, target == 'incident_beam')
            if got.shape != e.shape or not np.allclose(got, e, rtol=1e-9, atol=0.0, equal_nan=True):
                rec.viol('core.convert', 'wrong_value_aligned_geometry', f'incident beam along {axis}: got {got.ravel()[:4]}, documented formulas give {e.ravel()[:4]}', **sub)
    finally:
        _V.update(saved)
        _VARS.clear()


def run_case(case, rec):
    if case.get('kind') == 'precision':
        return _run_precision(case, rec)
    if case.get('kind') == 'aligned':
        return _run_aligned(case, rec)
    origin, target, scatter = case['origin'], case['target'], case['scatter']
    cont, origin_present = case['container'], case['origin_present']
    aux = target in TARGETS_EXTRA
    hi_set = [n for k, n in enumerate(HI) if case['hi'] >> k & 1]
    site = 'core.convert'
    for lo in range(2 ** len(LO)):
        present = hi_set + [n for k, n in enumerate(LO) if lo >> k & 1]
        rec.states += 1
        data = _make(origin, present, cont, origin_present, aux)
        if case.get('rep') == 'unaligned':
            for n in list(data.coords):
                if n not in data.dims:
                    data.coords.set_aligned(n, False)
            rec.cls('unaligned_coords')
        snap = data.copy(deep=True)
        have = set(present) | ({origin} if origin_present else set()) | ({'pulse_time', 'sample_rotation', 'u_matrix', 'b_matrix'} if aux else set())
        mode = dv.energy_mode(origin, target, have)
        want_val = False
        graph = None
        if mode is not None:
            graph = dv.rules(origin, target, scatter, mode)
            want_val = dv.derivable(graph, target, have)
        sub = {'present': present}
        # ---- the real call
        rec.transitions += 1
        try:
            res = scn.convert(data, origin=origin, target=target, scatter=scatter)
            outcome = 'value'
        except RuntimeError as e:
            outcome = 'runtime_error'
            res = e
        except Exception as e:  # noqa: BLE001
            outcome = 'other:' + type(e).__name__
            res = e
        rec.evals += 1
        rec.validated += 1
        rec.observe(outcome)
        if not sc.identical(data, snap, equal_nan=True):
            rec.viol(site, 'input_modified', 'convert changed its input', **sub)
        if want_val:
            rec.nontrivial += 1
        if outcome.startswith('other'):
            rec.viol(site, 'wrong_exception', f'{outcome}: {res}', **sub)
            continue
        if want_val and outcome != 'value':
            rec.viol(site, 'refused_derivable', f'model: derivable in mode {mode}; convert raised {res}', **sub)
            continue
        if not want_val and outcome == 'value':
            why = 'mode ambiguous' if mode is None else 'not derivable'
            rec.viol(site, 'answered_underivable', f'model: {why}; convert returned a value', mode=str(mode), **sub)
            continue
        if outcome == 'runtime_error':
            rec.cls('runtime_error')
            if mode is None:
                rec.cls('mode_ambiguous')
        else:
            rec.cls('value')
            if mode != 'elastic':
                rec.cls(mode)
            if type(res) is not type(data):
                rec.viol(site, 'container_type', f'returned {type(res).__name__} for {type(data).__name__}', **sub)
            envv = {n: _V[n] for n in have if n in _V}
            used = set()
            exp = _expected(graph, target, envv, used)
            if isinstance(exp, tuple):
                exp = exp[1]
            if target in have:
                rec.cls('supplied_precedence')
            elif used & set(dv.GEOMETRY) and any(dv.derivable(graph, u, have - {u}) for u in used & set(dv.GEOMETRY)):
                rec.cls('supplied_precedence')
            try:
                got = _np_result(res.coords[target], target)
            except Exception as e:  # noqa: BLE001
                rec.viol(site, 'target_missing', f'{type(e).__name__}: {e}', **sub)
                continue
            vector = target in ('incident_beam', 'scattered_beam', 'Q_vec', 'hkl_vec')
            if target == 'ub_matrix':
                e = np.asarray(exp)
            else:
                e = _squeeze_expected(exp, vector)
            rec.observe(got.tobytes())
            if np.isnan(e).any():
                rec.cls('nan_result')
            if got.shape != e.shape:
                rec.viol(site, 'shape', f'result shape {got.shape}, expected {e.shape}', **sub)
            elif not np.allclose(got, e, rtol=1e-9, atol=0.0, equal_nan=True):
                with np.errstate(invalid='ignore', divide='ignore'):
                    rel = np.nanmax(np.abs(got - e) / np.abs(e))
                rec.viol(site, 'wrong_value', f'mode {mode}: got {got.ravel()[:4]}, documented formulas along the precedence give {e.ravel()[:4]} (max rel diff {rel:.3g})', mode=str(mode), **sub)
        # ---- the reported graph is the one that is used
        rec.transitions += 1
        try:
            g = scn.deduce_conversion_graph(data, origin=origin, target=target, scatter=scatter)
            gout = 'graph'
        except RuntimeError:
            gout = 'runtime_error'
            g = None
        if g is None:
            if mode is not None:
                rec.viol('core.deduce_conversion_graph', 'raises', 'raised although the mode is not ambiguous', **sub)
            elif outcome == 'value':
                rec.viol('core.deduce_conversion_graph', 'inconsistent', 'raised but convert answered', **sub)
            continue
        if mode is None:
            rec.viol('core.deduce_conversion_graph', 'answered_ambiguous', 'returned a graph for an ambiguous mode', **sub)
            continue
        # structure equals the documented rule table
        got_rules = {k: tuple(inspect.signature(f).parameters) for k, f in g.items()}
        want_rules = {k: tuple(v) for k, v in graph.items()}
        norm = lambda d: {k: tuple(sorted(v)) for k, v in d.items()}  # noqa: E731
        if norm(got_rules) != norm(want_rules):
            rec.viol('core.deduce_conversion_graph', 'graph_structure', f'reported graph {sorted(map(str, got_rules))} differs from documented {sorted(map(str, want_rules))}', **sub)
        rec.validated += 1
        try:
            via = data.transform_coords(target, graph=g)
            vout = 'value'
        except KeyError:
            vout = 'runtime_error'
        if vout != outcome:
            rec.viol('core.deduce_conversion_graph', 'not_the_graph_used', f'convert -> {outcome}, transform_coords(reported graph) -> {vout}', **sub)
        elif vout == 'value' and not sc.identical(via.coords[target], res.coords[target], equal_nan=True):
            rec.viol('core.deduce_conversion_graph', 'not_the_graph_used', 'transform_coords with the reported graph gives a different coordinate than convert', **sub)
        _ = gout
        # the reported graph belongs to the caller: customising or emptying it may not influence any later conversion
        # (every following configuration of this case is judged against the model as usual)
        for k in list(g)[::2]:
            g[k] = _bogus_node
        g.pop(next(iter(g)), None)
    # conversion_graph for explicit modes: structure equals the rule table (once per case with hi == 0)
    if case['hi'] == 0 and origin_present:
        for mode in ('elastic', 'direct_inelastic', 'indirect_inelastic'):
            if mode != 'elastic' and origin != 'tof':
                continue
            rec.transitions += 1
            g = scn.conversion_graph(origin, target, scatter, mode)
            want_rules = dv.rules(origin, target, scatter, mode)
            got_rules = {k: tuple(sorted(inspect.signature(f).parameters)) for k, f in g.items()}
            if got_rules != {k: tuple(sorted(v)) for k, v in want_rules.items()}:
                rec.viol('core.conversion_graph', 'graph_structure', f'mode {mode}: {sorted(map(str, got_rules))} vs documented {sorted(map(str, want_rules))}', mode=mode)
            rec.validated += 1


_ = itertools
